//! Suite `valueapi`, RESULT records (C19): the value a public constructor / accessor / conversion of the value types
//! returns, compared with the Gallina model of the same function (coq/Codec/ValueApi.v).
//! Record  C V num <function> <lo> <n>      one result per value lo..lo+n: numbers joined by '.', E (Err / None), PANIC
//! Record  C V <function> <args...>         strings and byte arrays in hex ('-' = empty)
//! Result  I <canonical result>             OK .. | E | L (slice of the wrong length for the array conversion) | PANIC
use crate::{guarded, hex, unhex, Out, Rng};
use std::convert::TryFrom;
use stun_rs::attributes::discovery::{ChangeRequest, ChangeRequestFlags, Padding, ResponsePort};
use stun_rs::attributes::stun::nonce_cookie::StunSecurityFeatures;
use stun_rs::attributes::stun::{
    Fingerprint, MessageIntegrity, MessageIntegritySha256, Nonce, PasswordAlgorithm, PasswordAlgorithms, Realm, Software,
    UnknownAttributes, UserHash, UserName,
};
use stun_rs::attributes::turn::{ChannelNumber, EvenPort, Icmp, IcmpCode, IcmpType, LifeTime, ReservationToken};
use stun_rs::{
    AddressFamily, Algorithm, AlgorithmId, AttributeType, HMACKey, MessageClass, MessageHeader, MessageMethod, MessageType,
    TransactionId, MAGIC_COOKIE,
};

fn class_num(c: MessageClass) -> u8 {
    match c {
        MessageClass::Request => 0,
        MessageClass::Indication => 1,
        MessageClass::SuccessResponse => 2,
        MessageClass::ErrorResponse => 3,
    }
}

/// (name, model function number, exclusive upper bound of the sweep)
pub const NUM_FNS: &[(&str, u32, u32)] = &[
    ("mt_from", 0, 65536),
    ("mt_new", 1, 65536),
    ("method", 2, 65536),
    ("class", 3, 256),
    ("family", 4, 256),
    ("algid", 5, 65536),
    ("errcode", 6, 65536),
    ("icmptype", 7, 256),
    ("icmpcode", 8, 65536),
    ("attrtype", 9, 65536),
    ("changereq", 10, 16),
    ("chan", 12, 65536),
    ("respport", 13, 65536),
    ("lifetime", 14, 65536),
    ("evenport", 15, 256),
    ("icmp", 16, 65536),
    ("ctxpad", 17, 1),
    ("reqtransport", 18, 1),
];

fn num_one(f: &str, v: u32) -> String {
    match f {
        "mt_from" => {
            let t = MessageType::from(v as u16);
            format!("{}.{}.{}", t.method().as_u16(), class_num(t.class()), t.as_u16())
        }
        "mt_new" => {
            let m = match MessageMethod::try_from((v / 4) as u16) { Ok(m) => m, Err(_) => return "E".into() };
            let c = match MessageClass::try_from((v % 4) as u8) { Ok(c) => c, Err(_) => return "E".into() };
            let t = MessageType::new(m, c);
            if t.method() != m || t.class() != c { return "X".into() }
            let r = MessageType::from(t.as_u16());
            format!("{}.{}.{}", t.as_u16(), r.method().as_u16(), class_num(r.class()))
        }
        "method" => match MessageMethod::try_from(v as u16) {
            Ok(m) => format!("{}.{}", m.as_u16(), m.is_valid() as u8),
            Err(_) => "E".into(),
        },
        "class" => match MessageClass::try_from(v as u8) {
            Ok(c) => format!("{}.{}", class_num(c), MessageType::new(MessageMethod::default(), c).as_u16()),
            Err(_) => "E".into(),
        },
        "family" => match AddressFamily::try_from(v as u8) {
            Ok(AddressFamily::IPv4) => "1".into(),
            Ok(AddressFamily::IPv6) => "2".into(),
            Err(_) => "E".into(),
        },
        "algid" => {
            let a = AlgorithmId::from(v as u16);
            let tag = match a { AlgorithmId::Reserved => 0, AlgorithmId::MD5 => 1, AlgorithmId::SHA256 => 2, AlgorithmId::Unassigned(_) => 3 };
            let g = Algorithm::from(a);
            let p = PasswordAlgorithm::new(Algorithm::new(a, None));
            if g.algorithm() != a || g.parameters().is_some() || p.algorithm() != a || p.parameters().is_some() { return "X".into() }
            format!("{}.{}", tag, u16::from(a))
        }
        "errcode" => match stun_rs::ErrorCode::new(v as u16, "") {
            Ok(e) => {
                let a = stun_rs::attributes::stun::ErrorCode::from(e.clone());
                if a.error_code() != &e || !e.reason().is_empty() { return "X".into() }
                format!("{}.{}.{}", e.error_code(), e.class(), e.number())
            }
            Err(_) => "E".into(),
        },
        "icmptype" => match IcmpType::new(v as u8) { Some(t) => format!("{}", t.get()), None => "E".into() },
        "icmpcode" => match IcmpCode::new(v as u16) { Some(t) => format!("{}", t.get()), None => "E".into() },
        "attrtype" => {
            let a = AttributeType::from(v as u16);
            if u16::from(a) != a.as_u16() || AttributeType::new(v as u16) != a { return "X".into() }
            format!("{}.{}.{}", a.as_u16(), a.is_comprehension_required() as u8, a.is_comprehension_optional() as u8)
        }
        "changereq" => {
            let c = if v < 8 {
                let mut f = enumflags2::BitFlags::<ChangeRequestFlags>::empty();
                if v & 2 == 2 { f |= ChangeRequestFlags::ChangePort }
                if v & 4 == 4 { f |= ChangeRequestFlags::ChangeIp }
                ChangeRequest::new(Some(f))
            } else {
                ChangeRequest::new(None)
            };
            format!("{}", c.flags().bits())
        }
        "chan" => format!("{}", ChannelNumber::new(v as u16).number()),
        "respport" => {
            let p = ResponsePort::new(v as u16);
            if ResponsePort::from(v as u16) != p || p != v as u16 { return "X".into() }
            format!("{}", p.as_u16())
        }
        "lifetime" => format!("{}", LifeTime::new(v * 65537).as_u32()),
        "evenport" => {
            let e = EvenPort::new(v & 1 == 1);
            if EvenPort::from(v & 1 == 1) != e { return "X".into() }
            format!("{}", e.reserve() as u8)
        }
        "icmp" => {
            let t = IcmpType::new((v % 128) as u8).unwrap();
            let c = IcmpCode::new((v % 512) as u16).unwrap();
            let i = Icmp::new(t, c, [v as u8; 4]);
            let d = i.error_data();
            if d.len() != 4 || d.iter().any(|x| *x != d[0]) { return "X".into() }
            format!("{}.{}.{}", i.icmp_type().get(), i.icmp_code().get(), d[0])
        }
        // the `experiments` feature (StunPadding::Custom) is not enabled in the harness: the default context only
        "ctxpad" => format!("{}", stun_rs::EncoderContextBuilder::default().build().padding()),
        "reqtransport" => {
            use stun_rs::attributes::turn::RequestedTrasport;
            let p = RequestedTrasport::new(stun_rs::protocols::UDP);
            if RequestedTrasport::default() != p || RequestedTrasport::from(stun_rs::protocols::UDP) != p || p.protocol() != 17u8 { return "X".into() }
            format!("{}", p.protocol().as_u8())
        }
        _ => "UNKNOWN-FUNCTION".into(),
    }
}

fn txt(h: &str) -> String {
    String::from_utf8(unhex(h)).expect("records carry valid UTF-8 only")
}
fn ok_hex(b: &[u8]) -> String {
    format!("OK {}", hex(b))
}

fn view_nonce(r: Result<Nonce, stun_rs::StunError>) -> String {
    match r {
        Err(_) => "E".into(),
        Ok(n) => {
            let f = match n.security_features() {
                Ok(fl) => format!("{}{}", fl.contains(StunSecurityFeatures::PasswordAlgorithms) as u8, fl.contains(StunSecurityFeatures::UserNameAnonymity) as u8),
                Err(_) => "E".into(),
            };
            let s: &str = n.as_ref();
            if s != n.as_str() || n.clone() != n { return "X".into() }
            format!("OK {} {} {}", hex(n.as_str().as_bytes()), n.is_nonce_cookie() as u8, f)
        }
    }
}

/// the digits of the innermost `[..]` / `(..)` of a Debug rendering (values whose field has no accessor)
fn debug_numbers(s: &str) -> Vec<u64> {
    let inner = match (s.rfind('['), s.find(']')) {
        (Some(a), Some(b)) if a < b => &s[a + 1..b],
        _ => match (s.rfind('('), s.find(')')) { (Some(a), Some(b)) if a < b => &s[a + 1..b], _ => "" },
    };
    inner.split(',').filter_map(|t| t.trim().parse().ok()).collect()
}

fn parse_alg(e: &str) -> PasswordAlgorithm {
    let (id, p) = e.split_once(':').expect("alg entry");
    let id = AlgorithmId::from(id.parse::<u16>().unwrap());
    let a = if p == "n" { Algorithm::new(id, None) } else { let b = unhex(&p[1..]); Algorithm::new(id, &b[..]) };
    PasswordAlgorithm::new(a)
}
fn show_algs<'a>(it: impl Iterator<Item = &'a PasswordAlgorithm>) -> String {
    let v: Vec<String> = it.map(|a| format!("{}:{}", u16::from(a.algorithm()), match a.parameters() { None => "n".to_string(), Some(p) => format!("s{}", hex(p)) })).collect();
    if v.is_empty() { "-".into() } else { v.join(",") }
}

fn one(f: &[&str]) -> String {
    match f[0] {
        "nonce" => view_nonce(Nonce::new(txt(f[1]))),
        "cookie" => {
            let flags = match f[2] {
                "n" => None,
                k => {
                    let k: u8 = k.parse().unwrap();
                    let mut fl = enumflags2::BitFlags::<StunSecurityFeatures>::empty();
                    if k & 1 == 1 { fl |= StunSecurityFeatures::PasswordAlgorithms }
                    if k & 2 == 2 { fl |= StunSecurityFeatures::UserNameAnonymity }
                    Some(fl)
                }
            };
            view_nonce(Nonce::new_nonce_cookie(txt(f[1]), flags))
        }
        "realm" => match Realm::new(txt(f[1])) { Ok(r) => ok_hex(r.as_str().as_bytes()), Err(_) => "E".into() },
        "software" => match Software::new(txt(f[1])) { Ok(r) => ok_hex(r.as_str().as_bytes()), Err(_) => "E".into() },
        "padding" => match Padding::new(txt(f[1])) { Ok(r) => ok_hex(r.as_str().as_bytes()), Err(_) => "E".into() },
        "username" => match UserName::new(txt(f[1])) { Ok(r) => ok_hex(r.as_str().as_bytes()), Err(_) => "E".into() },
        "userhash" => match UserHash::new(txt(f[1]), txt(f[2])) { Ok(h) => ok_hex(h.hash()), Err(_) => "E".into() },
        "stkey" => match HMACKey::new_short_term(txt(f[1])) {
            Ok(k) => { if !k.credential_mechanism().is_short_term() { return "X".into() } ok_hex(k.as_bytes()) }
            Err(_) => "E".into(),
        },
        "ltkey" => {
            let alg = Algorithm::from(AlgorithmId::from(f[4].parse::<u16>().unwrap()));
            match HMACKey::new_long_term(txt(f[1]), txt(f[2]), txt(f[3]), alg) {
                Ok(k) => { if !k.credential_mechanism().is_long_term() { return "X".into() } ok_hex(k.as_bytes()) }
                Err(_) => "E".into(),
            }
        }
        "errcode" => match stun_rs::ErrorCode::new(f[1].parse().unwrap(), &txt(f[2])) {
            Ok(e) => format!("OK {}.{}.{} {}", e.error_code(), e.class(), e.number(), hex(e.reason().as_bytes())),
            Err(_) => "E".into(),
        },
        "hdr" => {
            let b = unhex(f[1]);
            match <&[u8; 20]>::try_from(&b[..]) {
                Err(_) => "L".into(),
                Ok(a) => match MessageHeader::try_from(a) {
                    Ok(h) => { if h.bits != 0 || MAGIC_COOKIE != h.cookie { return "X".into() } format!("OK {} {} {}", h.msg_type, h.msg_length, hex(h.transaction_id)) }
                    Err(_) => "E".into(),
                },
            }
        }
        "fp" => {
            let b = unhex(f[1]);
            match <[u8; 4]>::try_from(&b[..]) {
                Err(_) => "L".into(),
                Ok(a) => { let x = Fingerprint::from(a); if Fingerprint::from(&a) != x { return "X".into() } format!("OK {}", debug_numbers(&format!("{:?}", x)).first().copied().unwrap_or(u64::MAX)) }
            }
        }
        "mi" => {
            let b = unhex(f[1]);
            match <[u8; 20]>::try_from(&b[..]) {
                Err(_) => "L".into(),
                Ok(a) => { let x = MessageIntegrity::from(a); if MessageIntegrity::from(&a) != x { return "X".into() } ok_hex(&debug_numbers(&format!("{:?}", x)).iter().map(|v| *v as u8).collect::<Vec<u8>>()) }
            }
        }
        "sha" => {
            let b = unhex(f[1]);
            match <[u8; 32]>::try_from(&b[..]) {
                Err(_) => "L".into(),
                Ok(a) => { let x = MessageIntegritySha256::from(a); if MessageIntegritySha256::from(&a) != x { return "X".into() } ok_hex(&debug_numbers(&format!("{:?}", x)).iter().map(|v| *v as u8).collect::<Vec<u8>>()) }
            }
        }
        "token" => {
            let b = unhex(f[1]);
            match <[u8; 8]>::try_from(&b[..]) {
                Err(_) => "L".into(),
                Ok(a) => { let x = ReservationToken::from(a); if ReservationToken::from(&a) != x || x.token() != AsRef::<[u8]>::as_ref(&x) { return "X".into() } ok_hex(x.token()) }
            }
        }
        "txid" => {
            let b = unhex(f[1]);
            match <[u8; 12]>::try_from(&b[..]) {
                Err(_) => "L".into(),
                Ok(a) => { let x = TransactionId::from(a); if TransactionId::from(&a) != x || AsRef::<[u8]>::as_ref(&x) != &x.as_bytes()[..] { return "X".into() } format!("OK {} {}", hex(x.as_bytes()), hex(format!("{}", x).as_bytes())) }
            }
        }
        "magic" => {
            let b = unhex(f[1]);
            match <[u8; 4]>::try_from(&b[..]) {
                Err(_) => "L".into(),
                Ok(a) => { let e = MAGIC_COOKIE == a; if (a == MAGIC_COOKIE) != e || (MAGIC_COOKIE == &a) != e || MAGIC_COOKIE.as_u32() != 0x2112_A442 { return "X".into() } format!("OK {}", e as u8) }
            }
        }
        "mtbytes" => {
            let b = unhex(f[1]);
            match <&[u8; 2]>::try_from(&b[..]) {
                Err(_) => "L".into(),
                Ok(a) => { let t = MessageType::from(a); format!("OK {}.{}", t.method().as_u16(), class_num(t.class())) }
            }
        }
        "uattrs" => {
            let nums = |s: &str| -> Vec<u16> { if s == "-" { vec![] } else { s.split(',').map(|x| x.parse().unwrap()).collect() } };
            let mut u = UnknownAttributes::from(&nums(f[1])[..]);
            for x in nums(f[2]) { u.add(x) }
            let a: Vec<String> = u.iter().map(|x| x.to_string()).collect();
            let b: Vec<String> = u.attributes().iter().map(|x| x.to_string()).collect();
            let d: &[u16] = &u;
            let c: Vec<String> = d.iter().map(|x| x.to_string()).collect();
            if a != b || a != c { return "X".into() }
            format!("OK {}", if a.is_empty() { "-".to_string() } else { a.join(",") })
        }
        "pwalgs" => {
            let es: Vec<&str> = if f[1] == "-" { vec![] } else { f[1].split(',').collect() };
            let mut p = PasswordAlgorithms::default();
            for e in &es { p.add(parse_alg(e)) }
            let q = PasswordAlgorithms::from(es.iter().map(|e| parse_alg(e)).collect::<Vec<_>>());
            let a = show_algs(p.iter());
            if a != show_algs(p.password_algorithms().iter()) || a != show_algs(q.iter()) || a != show_algs(p.clone().into_iter().collect::<Vec<_>>().iter()) || p != q { return "X".into() }
            format!("OK {}", a)
        }
        _ => "UNKNOWN-FUNCTION".into(),
    }
}

/// run one `C V` record (`fields` = the words after `C V`)
pub fn run_v(out: &mut Out, fields: &[&str]) {
    out.rec(&format!("C V {}", fields.join(" ")));
    if fields[0] == "num" {
        let (f, lo, n): (&str, u32, u32) = (fields[1], fields[2].parse().unwrap(), fields[3].parse().unwrap());
        let rs: Vec<String> = (lo..lo + n).map(|v| guarded(|| num_one(f, v)).unwrap_or_else(|_| "PANIC".into())).collect();
        out.imp(&rs.join(","));
    } else {
        out.imp(&guarded(|| one(fields)).unwrap_or_else(|_| "PANIC".into()));
    }
}

/// the strings of the sweeps: ASCII, multi-byte, Unicode white space / combining / compatibility characters, quoting,
/// cookie prefixes, boundary lengths
pub fn strings() -> Vec<String> {
    let pieces = ["", "a", "Z9", "\u{e9}", "\u{30DE}", "\"", "\\", "\\\"", " ", "\t", "\r\n", "obMatJos2", "AAAA", "gA==", "\u{C0}\u{80}", "\u{80}", "\u{7f}", "\0", "realm.org", ":",
        "\u{85}", "\u{a0}", "\u{c0}\u{a0}", "\u{c0}\u{85}", "\u{1680}", "\u{2003}", "\u{2028}", "\u{2029}", "\u{202f}", "\u{3000}",
        "e\u{301}", "\u{ad}", "\u{200b}", "\u{feff}", "\u{212b}", "\u{fb01}", "\u{9f}", "\u{10ffff}"];
    let mut v: Vec<String> = vec![];
    for a in pieces { for b in pieces { v.push(format!("{}{}", a, b)); v.push(format!("obMatJos2{}{}", a, b)); } }
    for n in [507usize, 508, 509, 510, 762, 763, 764] { v.push("x".repeat(n)); v.push(format!("{}\u{e9}", "y".repeat(n - 1))) }
    v.push("obMatJos2abc\u{C0}\u{80}".to_string());
    v
}

fn gen_string(rng: &mut Rng) -> String {
    const ALPHA: &[&str] = &["a", "b", "Z", "0", "9", "+", "/", "=", " ", "\t", "\r\n", "\r", "\n", "\"", "\\", ":", ".", "-", "~", "!", "\u{7f}", "\u{1}", "\u{e9}",
        "\u{a0}", "\u{3000}", "\u{20ac}", "\u{10348}", "obMatJos2", "gAAA", "QAAA", "wAAA", "AAAA", "A\u{e9}"];
    let n = match rng.below(8) { 0 => 0, 1 => 1, 2 | 3 => rng.range(2, 6), 4 | 5 => rng.range(6, 20), 6 => rng.range(20, 60), _ => rng.range(500, 520) } as usize;
    let mut s = String::new();
    if rng.chance(1, 3) { s.push_str("obMatJos2") }
    if rng.chance(1, 4) { s.push_str(*rng.pick(&["gAAA", "QAAA", "wAAA", "AAAA", "AA==", "A\u{e9}A", "abc\u{e9}", "ab\u{20ac}", "****"])) }
    let ascii_only = rng.chance(1, 2);
    while s.len() < n {
        let p = *rng.pick(ALPHA);
        if ascii_only && !p.is_ascii() { s.push('x') } else { s.push_str(p) }
    }
    s
}

/// all `C V` records of a run (the words after `C V`), in a fixed order; a shard takes every `shards`-th
pub fn gen_v(rng: &mut Rng, thorough: bool) -> Vec<String> {
    let mut v: Vec<String> = vec![];
    for (name, _, hi) in NUM_FNS {
        let mut lo = 0u32;
        while lo < *hi { let n = 256.min(*hi - lo); v.push(format!("num {} {} {}", name, lo, n)); lo += n }
    }
    let mut ss = strings();
    let extra = if thorough { 40000 } else { 4000 };
    for _ in 0..extra { ss.push(gen_string(rng)) }
    for (i, s) in ss.iter().enumerate() {
        let h = hex(s.as_bytes());
        for f in ["nonce", "realm", "software", "padding", "username", "stkey"] { v.push(format!("{} {}", f, h)) }
        v.push(format!("cookie {} {}", h, ["n", "0", "1", "2", "3"][i % 5]));
        v.push(format!("errcode {} {}", [420u32, 300, 699, 299, 700, 65535, 0][i % 7], h));
        if i % 4 == 0 {
            v.push(format!("userhash {} {}", h, hex(b"realm")));
            v.push(format!("userhash {} {}", hex(b"user"), h));
            let alg = [1u32, 2, 0, 7][(i / 4) % 4];
            v.push(format!("ltkey {} {} {} {}", h, hex(b"realm"), hex(b"pass"), alg));
            v.push(format!("ltkey {} {} {} {}", hex(b"user"), h, hex(b"pass"), alg));
            v.push(format!("ltkey {} {} {} {}", hex(b"user"), hex(b"realm"), h, alg));
        }
    }
    for n in [64000usize, 64001] {
        for s in ["x".repeat(n), format!("{}\u{e9}", "y".repeat(n - 2))] {
            let h = hex(s.as_bytes());
            // (not the quoted-string constructors: the model's trimming step uses the quadratic List.rev)
            for f in ["software", "padding", "username"] { v.push(format!("{} {}", f, h)) }
        }
    }
    for n in [2000usize, 5000] {
        let h = hex(format!(" \"{}\u{e9}\" ", "z".repeat(n)).as_bytes());
        for f in ["nonce", "realm"] { v.push(format!("{} {}", f, h)) }
    }
    // byte arrays: every length 0..40 for every fixed-size conversion, and random contents of the right length
    for f in ["hdr", "fp", "mi", "sha", "token", "txid", "magic", "mtbytes"] {
        for n in 0..40usize { v.push(format!("{} {}", f, hex(&rng.bytes(n)))) }
        let want = match f { "hdr" => 20, "fp" | "magic" => 4, "mi" => 20, "sha" => 32, "token" => 8, "txid" => 12, _ => 2 };
        for _ in 0..(if thorough { 2000 } else { 200 }) { v.push(format!("{} {}", f, hex(&rng.bytes(want)))) }
    }
    v.push(format!("magic {}", hex(&[0x21, 0x12, 0xa4, 0x42])));
    for k in 0..(if thorough { 4000 } else { 600 }) {
        // headers: valid cookie, every value of the two top bits, random type / length / transaction id
        let mut b = rng.bytes(20);
        if k % 4 != 0 { b[4..8].copy_from_slice(&[0x21, 0x12, 0xa4, 0x42]) }
        if k % 3 != 0 { b[0] &= 0x3f }
        if k % 16 == 5 { b[4 + (k / 16) % 4] ^= 1 << (k % 8) }
        v.push(format!("hdr {}", hex(&b)));
    }
    for _ in 0..(if thorough { 20000 } else { 2000 }) {
        let small = rng.chance(3, 4);
        let num = |rng: &mut Rng| if small { rng.below(6) } else { *rng.pick(&[0u64, 1, 0x7fff, 0x8000, 0xffff, 6, 9]) };
        let l: Vec<String> = (0..rng.below(9)).map(|_| num(rng).to_string()).collect();
        let a: Vec<String> = (0..rng.below(4)).map(|_| num(rng).to_string()).collect();
        v.push(format!("uattrs {} {}", if l.is_empty() { "-".into() } else { l.join(",") }, if a.is_empty() { "-".into() } else { a.join(",") }));
        let es: Vec<String> = (0..rng.below(6)).map(|_| {
            let id = *rng.pick(&[0u64, 1, 2, 3, 255, 65535]);
            match rng.below(4) { 0 => format!("{}:n", id), 1 => format!("{}:s-", id), _ => { let n = rng.range(1, 7) as usize; format!("{}:s{}", id, hex(&rng.bytes(n))) } }
        }).collect();
        v.push(format!("pwalgs {}", if es.is_empty() { "-".into() } else { es.join(",") }));
    }
    v
}
