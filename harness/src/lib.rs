//! Shared helpers for the correspondence harness: deterministic PRNG, hex, panic capture, case writer.
use std::fmt::Write as _;
use std::io::Write;
use std::panic::{catch_unwind, AssertUnwindSafe};

pub mod wire;
pub mod valuev;

/// splitmix64: every random choice of a suite derives from one stream seeded by VERIF_SEED
#[derive(Clone, Debug)]
pub struct Rng(pub u64);
impl Rng {
    pub fn new(seed: u64) -> Self {
        Rng(seed ^ 0x9E37_79B9_7F4A_7C15)
    }
    pub fn next(&mut self) -> u64 {
        self.0 = self.0.wrapping_add(0x9E37_79B9_7F4A_7C15);
        let mut z = self.0;
        z = (z ^ (z >> 30)).wrapping_mul(0xBF58_476D_1CE4_E5B9);
        z = (z ^ (z >> 27)).wrapping_mul(0x94D0_49BB_1331_11EB);
        z ^ (z >> 31)
    }
    pub fn below(&mut self, n: u64) -> u64 {
        if n == 0 {
            0
        } else {
            self.next() % n
        }
    }
    pub fn range(&mut self, lo: u64, hi: u64) -> u64 {
        lo + self.below(hi - lo + 1)
    }
    pub fn chance(&mut self, num: u64, den: u64) -> bool {
        self.below(den) < num
    }
    pub fn pick<'a, T>(&mut self, v: &'a [T]) -> &'a T {
        &v[self.below(v.len() as u64) as usize]
    }
    pub fn bytes(&mut self, n: usize) -> Vec<u8> {
        (0..n).map(|_| self.next() as u8).collect()
    }
    pub fn fork(&mut self) -> Rng {
        Rng(self.next())
    }
}

pub fn hex(b: &[u8]) -> String {
    if b.is_empty() {
        return "-".to_string();
    }
    let mut s = String::with_capacity(b.len() * 2);
    for x in b {
        let _ = write!(s, "{:02x}", x);
    }
    s
}

pub fn unhex(s: &str) -> Vec<u8> {
    if s == "-" {
        return vec![];
    }
    (0..s.len() / 2)
        .map(|i| u8::from_str_radix(&s[2 * i..2 * i + 2], 16).unwrap())
        .collect()
}

thread_local! {
    static IN_GUARD: std::cell::Cell<bool> = const { std::cell::Cell::new(false) };
}

/// Run `f`, mapping a panic to `Err(())`. Panics of the code under test are silent; a panic of the harness itself
/// (outside `guarded`) is still reported on stderr.
pub fn guarded<T>(f: impl FnOnce() -> T) -> Result<T, ()> {
    static ONCE: std::sync::Once = std::sync::Once::new();
    ONCE.call_once(|| {
        std::panic::set_hook(Box::new(|info| {
            if !IN_GUARD.with(|g| g.get()) {
                eprintln!("harness panic: {}", info);
            }
        }))
    });
    let prev = IN_GUARD.with(|g| g.replace(true));
    let r = catch_unwind(AssertUnwindSafe(f)).map_err(|_| ());
    IN_GUARD.with(|g| g.set(prev));
    r
}

/// Command line shared by all suite binaries:
/// `<bin> --seed N --tier quick|thorough --shard i --shards k --out FILE [--replay FILE]`
pub struct Args {
    pub seed: u64,
    pub thorough: bool,
    pub shard: u64,
    pub shards: u64,
    pub out: String,
    pub replay: Option<String>,
    pub extra: Vec<(String, String)>,
}

impl Args {
    pub fn parse() -> Args {
        let mut a = Args {
            seed: 1,
            thorough: false,
            shard: 0,
            shards: 1,
            out: "/dev/stdout".into(),
            replay: None,
            extra: vec![],
        };
        let v: Vec<String> = std::env::args().skip(1).collect();
        let mut i = 0;
        while i < v.len() {
            let val = v.get(i + 1).cloned().unwrap_or_default();
            match v[i].as_str() {
                "--seed" => a.seed = val.parse().expect("seed"),
                "--tier" => a.thorough = val == "thorough",
                "--shard" => a.shard = val.parse().expect("shard"),
                "--shards" => a.shards = val.parse().expect("shards"),
                "--out" => a.out = val,
                "--replay" => a.replay = Some(val),
                k => a.extra.push((k.trim_start_matches("--").to_string(), val)),
            }
            i += 2;
        }
        a
    }
    pub fn get(&self, k: &str) -> Option<&str> {
        self.extra.iter().find(|(a, _)| a == k).map(|(_, b)| b.as_str())
    }
    pub fn rng(&self, suite_tag: u64) -> Rng {
        Rng::new(self.seed.wrapping_mul(0x1000_0000_01B3) ^ suite_tag ^ (self.shard << 48))
    }
    pub fn writer(&self) -> Out {
        watchdog::start();
        Out {
            w: std::io::BufWriter::with_capacity(
                1 << 20,
                std::fs::File::create(&self.out).expect("create out"),
            ),
            written: 0,
        }
    }
    /// replay file: the `C`/`H`/`O` lines of one case, exactly as written before
    pub fn replay_lines(&self) -> Option<Vec<String>> {
        self.replay.as_ref().map(|p| {
            std::fs::read_to_string(p)
                .expect("replay file")
                .lines()
                .filter(|l| !l.starts_with("I ") && !l.is_empty())
                .map(|s| s.to_string())
                .collect()
        })
    }
}

pub struct Out {
    w: std::io::BufWriter<std::fs::File>,
    written: u64,
}
/// A changed implementation can make a driver loop of a suite spin (e.g. a reassembler that never consumes anything): the
/// case file must not grow without bound. The largest legitimate shard (thorough tier) stays below 100 MB.
const OUT_LIMIT: u64 = 600_000_000;
impl Out {
    /// a writer that discards everything
    pub fn sink() -> Out {
        Out { w: std::io::BufWriter::new(std::fs::File::create("/dev/null").expect("sink")), written: 0 }
    }
    fn put(&mut self, prefix: &str, line: &str) {
        watchdog::beat(prefix, line);
        self.written += (prefix.len() + line.len() + 1) as u64;
        if self.written > OUT_LIMIT {
            let _ = self.w.flush();
            eprintln!("harness: output limit of {} bytes exceeded (a loop of the suite does not terminate with this implementation); last record: {}", OUT_LIMIT, &line[..line.len().min(200)]);
            std::process::exit(3);
        }
        writeln!(self.w, "{}{}", prefix, line).unwrap();
    }
    /// an input record (`C`, `H`, `O` ...) as the model driver will read it
    pub fn rec(&mut self, line: &str) {
        self.put("", line);
    }
    /// the implementation's canonical result for the preceding record
    pub fn imp(&mut self, line: &str) {
        self.put("I ", line);
    }
    /// distribution counters and other notes (ignored by the driver)
    pub fn note(&mut self, line: &str) {
        self.put("# ", line);
    }
    pub fn finish(mut self) {
        self.w.flush().unwrap();
    }
}

/// Map the attributes of a decoded message back to positions of the wire TLVs (order preserving; by type, and by
/// value where the value is observable through the public API). None = the decoded list is not a sub-sequence.
pub fn map_positions(decoded: &[stun_rs::StunAttribute], wire: &[(u16, Vec<u8>)], unknown_data: bool) -> Option<Vec<usize>> {
    use stun_rs::attributes::stun::*;
    use stun_rs::StunAttribute as SA;
    let mut pos = 0usize;
    let mut out = vec![];
    for a in decoded {
        let ty = a.attribute_type().as_u16();
        let mut found = None;
        while pos < wire.len() {
            let (wt, wv) = &wire[pos];
            let vmatch = match a {
                SA::Unknown(u) => match u.attribute_data() {
                    Some(d) => unknown_data && d == &wv[..],
                    None => !unknown_data,
                },
                SA::MessageIntegrity(m) => <[u8; 20]>::try_from(&wv[..]).map(|v| *m == MessageIntegrity::from(v)).unwrap_or(false),
                SA::MessageIntegritySha256(m) => <[u8; 32]>::try_from(&wv[..]).map(|v| *m == MessageIntegritySha256::from(v)).unwrap_or(false),
                SA::Fingerprint(f) => wv.len() >= 4 && *f == Fingerprint::from(<[u8; 4]>::try_from(&wv[..4]).unwrap()),
                SA::Software(s) => s.as_str().as_bytes() == &wv[..],
                _ => true,
            };
            if *wt == ty && vmatch {
                found = Some(pos);
                pos += 1;
                break;
            }
            pos += 1;
        }
        out.push(found?);
    }
    Some(out)
}


/// A changed implementation can make a call never return (e.g. a timer loop that re-arms and pops the same entry for ever).
/// The suites run every call on the main thread; this watchdog notices that no record has been written for a long time,
/// prints the history that was being run (the lines since the last `H` / `C` record) and ends the process with exit code 4,
/// which tools/check.py turns into a failing input ("the call that follows this history does not return").
pub mod watchdog {
    use std::sync::atomic::{AtomicBool, AtomicU64, Ordering};
    use std::sync::Mutex;
    static BEAT: AtomicU64 = AtomicU64::new(0);
    static STARTED: AtomicBool = AtomicBool::new(false);
    static CASE: Mutex<Vec<String>> = Mutex::new(Vec::new());
    const LIMIT_SECS: u64 = 90;

    pub fn beat(prefix: &str, line: &str) {
        BEAT.fetch_add(1, Ordering::Relaxed);
        if prefix.is_empty() {
            if let Ok(mut c) = CASE.lock() {
                if line.starts_with("H ") || line.starts_with("C ") {
                    c.clear();
                }
                if c.len() < 4000 {
                    c.push(line.to_string());
                }
            }
        }
    }

    extern "C" {
        fn signal(signum: i32, handler: usize) -> usize;
        fn _exit(code: i32) -> !;
    }
    /// the implementation aborted the process (failed allocation, stack overflow, abort()): print the history whose
    /// next call did it, the way the watchdog does for a call that does not return, and leave with a status of our own
    extern "C" fn on_abort(sig: i32) {
        eprintln!("harness: the process was aborted by signal {} inside the call that follows this history", sig);
        if let Ok(c) = CASE.try_lock() {
            for l in c.iter() {
                eprintln!("CRASHCASE {}", l);
            }
        }
        unsafe { _exit(5) }
    }

    pub fn start() {
        if STARTED.swap(true, Ordering::SeqCst) {
            return;
        }
        unsafe {
            signal(6, on_abort as usize); // SIGABRT
        }
        std::thread::spawn(|| {
            let mut last = BEAT.load(Ordering::Relaxed);
            let mut idle = 0u64;
            loop {
                std::thread::sleep(std::time::Duration::from_secs(1));
                let now = BEAT.load(Ordering::Relaxed);
                if now != last {
                    last = now;
                    idle = 0;
                    continue;
                }
                idle += 1;
                if idle >= LIMIT_SECS && now > 0 {
                    eprintln!("harness: no progress for {} s: the call that follows this history does not return", LIMIT_SECS);
                    if let Ok(c) = CASE.lock() {
                        for l in c.iter() {
                            eprintln!("HANGCASE {}", l);
                        }
                    }
                    std::process::exit(4);
                }
            }
        });
    }
}
