//! Raw STUN wire construction, independent of stun-rs' encoder (used to craft packets with
//! correct / corrupted MACs and CRCs at arbitrary positions).
pub const COOKIE: u32 = 0x2112_A442;
pub const T_MI: u16 = 0x0008;
pub const T_SHA: u16 = 0x001C;
pub const T_FP: u16 = 0x8028;
pub const FP_XOR: u32 = 0x5354_554e;

pub fn pad(n: usize) -> usize {
    (4 - (n & 3)) & 3
}

pub fn msg_type(method: u16, class: u8) -> u16 {
    let m = method & 0x0FFF;
    let c = class as u16 & 3;
    ((m & 0x0F80) << 2) | ((m & 0x0070) << 1) | (m & 0x000F) | ((c & 2) << 7) | ((c & 1) << 4)
}

#[derive(Clone, Debug)]
pub struct Raw {
    pub bytes: Vec<u8>,
}

impl Raw {
    pub fn new(method: u16, class: u8, txid: &[u8; 12]) -> Raw {
        let mut b = Vec::with_capacity(128);
        b.extend_from_slice(&msg_type(method, class).to_be_bytes());
        b.extend_from_slice(&[0, 0]);
        b.extend_from_slice(&COOKIE.to_be_bytes());
        b.extend_from_slice(txid);
        Raw { bytes: b }
    }
    fn set_len(&mut self) {
        let l = (self.bytes.len() - 20) as u16;
        self.bytes[2..4].copy_from_slice(&l.to_be_bytes());
    }
    /// append a TLV with zero padding; returns the offset of its value
    pub fn push(&mut self, ty: u16, val: &[u8]) -> usize {
        self.bytes.extend_from_slice(&ty.to_be_bytes());
        self.bytes.extend_from_slice(&(val.len() as u16).to_be_bytes());
        let off = self.bytes.len();
        self.bytes.extend_from_slice(val);
        self.bytes.extend(std::iter::repeat(0u8).take(pad(val.len())));
        self.set_len();
        off
    }
    /// text the RFC says is hashed for an attribute of value length `vlen` appended now
    fn text_for(&self, vlen: usize) -> Vec<u8> {
        let mut t = self.bytes.clone();
        let l = (self.bytes.len() - 20 + 4 + vlen + pad(vlen)) as u16;
        t[2..4].copy_from_slice(&l.to_be_bytes());
        t
    }
    pub fn push_mi(&mut self, key: &[u8]) -> usize {
        let mac = hmac_sha1::hmac_sha1(key, &self.text_for(20));
        self.push(T_MI, &mac)
    }
    pub fn push_sha(&mut self, key: &[u8]) -> usize {
        let mac = hmac_sha256::HMAC::mac(self.text_for(32), key);
        self.push(T_SHA, &mac)
    }
    pub fn push_fp(&mut self) -> usize {
        let v = crc32(&self.text_for(4)) ^ FP_XOR;
        self.push(T_FP, &v.to_be_bytes())
    }
}

pub fn crc32(data: &[u8]) -> u32 {
    const C: crc::Crc<u32> = crc::Crc::<u32>::new(&crc::CRC_32_ISO_HDLC);
    C.checksum(data)
}

/// Raw TLV walk of a message (None when the framing is broken)
pub fn tlvs(b: &[u8]) -> Option<Vec<(u16, usize, usize)>> {
    if b.len() < 20 {
        return None;
    }
    let total = 20 + u16::from_be_bytes([b[2], b[3]]) as usize;
    if total > b.len() {
        return None;
    }
    let mut v = vec![];
    let mut p = 20;
    while p < total {
        if p + 4 > total {
            return None;
        }
        let ty = u16::from_be_bytes([b[p], b[p + 1]]);
        let l = u16::from_be_bytes([b[p + 2], b[p + 3]]) as usize;
        if p + 4 + l + pad(l) > total {
            return None;
        }
        v.push((ty, p + 4, l));
        p += 4 + l + pad(l);
    }
    Some(v)
}
