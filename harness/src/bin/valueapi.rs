//! Suite `valueapi` (C19): (1) scripts "build, clone, mutate either copy, read" over the two mutable Arc-backed value
//! types, compared with the reference-counted heap model and with value semantics; (2) sweeps of the public
//! constructors / accessors / conversions of the value types under catch_unwind.
//! Record  C S <P|U> <ops>     ops: n<x> new  c<x>.<y> let y = x.clone()  a<x>.<v> x.add(v)  r<x> read  d<x> drop
//! Result  I <out per op, comma separated>   out: -  |  <v1.v2...> (read)  |  e (read of an empty value)  |  P (panic)
//! Record  C A <function group>        Result  I ok | PANIC <argument rendering>
//! Record  C V <function> <args...>    Result  I <canonical result of the call>  (harness/src/valuev.rs; model: coq/Codec/ValueApi.v)
use rustun_verif_harness::*;
use std::collections::HashMap;
use stun_rs::attributes::stun::*;
use stun_rs::*;

enum V {
    P(PasswordAlgorithms),
    U(UnknownAttributes),
}

fn run_script(out: &mut Out, kind: &str, ops: &[String]) {
    out.rec(&format!("C S {} {}", kind, ops.join(",")));
    let mut env: HashMap<u32, V> = HashMap::new();
    let mut res = vec![];
    let mut dead = false;
    for o in ops {
        if dead { res.push("-".to_string()); continue }
        let (h, r) = o.split_at(1);
        let nums: Vec<u32> = r.split('.').map(|x| x.parse().unwrap()).collect();
        let r = guarded(|| match h {
            "n" => { env.insert(nums[0], if kind == "P" { V::P(PasswordAlgorithms::default()) } else { V::U(UnknownAttributes::default()) }); "-".to_string() }
            "c" => { let c = match env.get(&nums[0]).unwrap() { V::P(p) => V::P(p.clone()), V::U(u) => V::U(u.clone()) }; env.insert(nums[1], c); "-".to_string() }
            "a" => { match env.get_mut(&nums[0]).unwrap() {
                        V::P(p) => p.add(PasswordAlgorithm::new(Algorithm::from(AlgorithmId::from(nums[1] as u16)))),
                        V::U(u) => u.add(nums[1] as u16) }; "-".to_string() }
            "d" => { env.remove(&nums[0]); "-".to_string() }
            _ => {
                // every way of reading the value must show the same contents: the borrowing iterator, the slice accessor and
                // a consuming iterator over a clone (taken while the value itself is still alive)
                let (l, consistent): (Vec<String>, bool) = match env.get(&nums[0]).unwrap() {
                    V::P(p) => {
                        let a: Vec<String> = p.iter().map(|a| u16::from(a.algorithm()).to_string()).collect();
                        let b: Vec<String> = p.password_algorithms().iter().map(|a| u16::from(a.algorithm()).to_string()).collect();
                        let c: Vec<String> = p.clone().into_iter().map(|a| u16::from(a.algorithm()).to_string()).collect();
                        let ok = a == b && a == c;
                        (a, ok)
                    }
                    V::U(u) => {
                        let a: Vec<String> = u.iter().map(|a| a.to_string()).collect();
                        let b: Vec<String> = u.attributes().iter().map(|a| a.to_string()).collect();
                        let ok = a == b;
                        (a, ok)
                    }
                };
                if !consistent { "X".to_string() } else if l.is_empty() { "e".to_string() } else { l.join(".") }
            }
        });
        match r { Ok(s) => res.push(s), Err(()) => { res.push("P".into()); dead = true } }
    }
    out.imp(&res.join(","));
}

fn gen_script(rng: &mut Rng) -> Vec<String> {
    let mut bound: Vec<u32> = vec![];
    let mut ops = vec![];
    let mut next_val = 10u32;
    let n = rng.range(3, 9);
    for _ in 0..n {
        let free: Vec<u32> = (0..6).filter(|x| !bound.contains(x)).collect();
        let c = rng.below(10);
        if bound.is_empty() || (c == 0 && !free.is_empty()) {
            let x = *rng.pick(&free); bound.push(x); ops.push(format!("n{}", x));
        } else if c <= 3 && !free.is_empty() {
            let x = *rng.pick(&bound); let y = *rng.pick(&free); bound.push(y); ops.push(format!("c{}.{}", x, y));
        } else if c <= 6 {
            let x = *rng.pick(&bound); next_val += 1; ops.push(format!("a{}.{}", x, next_val));
        } else {
            let x = *rng.pick(&bound); ops.push(format!("r{}", x));
        }
    }
    for x in bound.clone() { ops.push(format!("r{}", x)) }
    ops
}

fn strings() -> Vec<String> {
    let pieces = ["", "a", "Z9", "\u{e9}", "\u{30DE}", "\"", "\\", "\\\"", " ", "\t", "\r\n", "obMatJos2", "AAAA", "gA==", "\u{C0}\u{80}", "\u{80}", "\u{7f}", "\0", "realm.org", ":",
        // Unicode white space and friends (char::is_whitespace / is_control / normalisation differ from the ASCII classes)
        "\u{85}", "\u{a0}", "\u{c0}\u{a0}", "\u{c0}\u{85}", "\u{1680}", "\u{2003}", "\u{2028}", "\u{2029}", "\u{202f}", "\u{3000}",
        "e\u{301}", "\u{ad}", "\u{200b}", "\u{feff}", "\u{212b}", "\u{fb01}", "\u{9f}", "\u{10ffff}"];
    let mut v: Vec<String> = vec![];
    for a in pieces { for b in pieces { v.push(format!("{}{}", a, b)); v.push(format!("obMatJos2{}{}", a, b)); } }
    for n in [507usize, 508, 509, 510, 762, 763, 764, 64000, 64001] { v.push("x".repeat(n)); v.push(format!("{}\u{e9}", "y".repeat(n - 1))) }
    v.push(format!("obMatJos2abc\u{C0}\u{80}"));
    v
}

/// run `f` over `args`; the first panicking argument is reported
fn sweep<T: std::fmt::Debug>(out: &mut Out, name: &str, args: impl Iterator<Item = T>, f: impl Fn(&T)) {
    out.rec(&format!("C A {}", name));
    let mut n = 0u64;
    for a in args {
        n += 1;
        if guarded(|| f(&a)).is_err() {
            let s = format!("{:?}", a);
            out.imp(&format!("PANIC {}", s.chars().take(60).collect::<String>().replace(' ', "_")));
            return;
        }
    }
    let _ = n;
    out.imp("ok");
}

fn api_sweeps(out: &mut Out) {
    use std::convert::TryFrom;
    sweep(out, "MessageType::from(u16)", 0..=u16::MAX, |v| { let t = MessageType::from(*v); let _ = (t.method().as_u16(), t.class(), t.as_u16()); let _ = MessageType::new(t.method(), t.class()).as_u16(); });
    sweep(out, "MessageMethod::try_from(u16)", 0..=u16::MAX, |v| { if let Ok(m) = MessageMethod::try_from(*v) { let _ = (m.as_u16(), m.is_valid()); } });
    sweep(out, "MessageClass::try_from(u8)", 0..=u8::MAX, |v| { let _ = MessageClass::try_from(*v); });
    sweep(out, "AddressFamily::try_from(u8)", 0..=u8::MAX, |v| { let _ = AddressFamily::try_from(*v); });
    sweep(out, "AlgorithmId::from(u16)", 0..=u16::MAX, |v| { let a = AlgorithmId::from(*v); let _ = u16::from(a); let _ = format!("{}", a); let g = Algorithm::from(a); let _ = (g.algorithm(), g.parameters()); });
    sweep(out, "ErrorCode::new(u16,reason)", (0..=u16::MAX).flat_map(|c| ["", "reason", "\u{e9}"].into_iter().map(move |r| (c, r))), |(c, r)| { if let Ok(e) = stun_rs::ErrorCode::new(*c, r) { let _ = (e.error_code(), e.class(), e.number(), e.reason().len()); let a = stun_rs::attributes::stun::ErrorCode::from(e); let _ = a.error_code(); } });
    let ss = strings();
    sweep(out, "ErrorCode::new(420,string)", ss.iter(), |s| { let _ = stun_rs::ErrorCode::new(420, s); });
    sweep(out, "Nonce::new+cookie accessors", ss.iter(), |s| { if let Ok(n) = Nonce::new(s.as_str()) { let _ = (n.as_str().len(), n.is_nonce_cookie(), n.security_features().is_ok()); } let _ = Nonce::new_nonce_cookie(s.as_str(), None); });
    sweep(out, "Realm::new", ss.iter(), |s| { if let Ok(n) = Realm::new(s.as_str()) { let _ = n.as_str().len(); } });
    sweep(out, "Software::new", ss.iter(), |s| { if let Ok(n) = Software::new(s.as_str()) { let _ = n.as_str().len(); } });
    sweep(out, "UserName::new", ss.iter(), |s| { if let Ok(n) = UserName::new(s.as_str()) { let _ = n.as_str().len(); } });
    sweep(out, "Padding::new", ss.iter(), |s| { let _ = stun_rs::attributes::discovery::Padding::new(s.as_str()); });
    sweep(out, "UserHash::new", ss.iter().take(200), |s| { if let Ok(h) = UserHash::new(s.as_str(), "realm") { let _ = h.hash().len(); } let _ = UserHash::new("user", s.as_str()); });
    sweep(out, "HMACKey::new_short_term", ss.iter(), |s| { if let Ok(k) = HMACKey::new_short_term(s.as_str()) { let _ = (k.as_bytes().len(), k.credential_mechanism().is_short_term()); } });
    sweep(out, "HMACKey::new_long_term", ss.iter().take(300), |s| {
        for alg in [AlgorithmId::MD5, AlgorithmId::SHA256, AlgorithmId::Reserved, AlgorithmId::Unassigned(7)] {
            let _ = HMACKey::new_long_term(s.as_str(), "realm", "pass", Algorithm::from(alg));
            let _ = HMACKey::new_long_term("user", s.as_str(), "pass", Algorithm::from(alg));
            let _ = HMACKey::new_long_term("user", "realm", s.as_str(), Algorithm::from(alg));
        }
    });
    sweep(out, "UnknownAttributes::from/add", 0..2000u32, |i| { let v: Vec<u16> = (0..(*i % 9)).map(|k| ((*i * 7 + k * 13) % 5) as u16).collect(); let mut u = UnknownAttributes::from(&v[..]); let c = u.clone(); u.add(*i as u16); let _ = (u.attributes().len(), c.iter().count()); });
    sweep(out, "PasswordAlgorithms::add/clone/iter", 0..2000u32, |i| { let mut p = PasswordAlgorithms::default(); for k in 0..(*i % 5) { p.add(PasswordAlgorithm::new(Algorithm::new(AlgorithmId::from(k as u16), &[1u8, 2, 3][..(k as usize % 4).min(3)]))); } let c = p.clone(); p.add(PasswordAlgorithm::new(Algorithm::from(AlgorithmId::MD5))); let _ = (p.password_algorithms().len(), c.iter().count(), c.into_iter().count()); });
    sweep(out, "Fingerprint/MI/SHA/Token/TransactionId from arrays", 0..=255u8, |b| { let _ = Fingerprint::from([*b; 4]); let _ = MessageIntegrity::from([*b; 20]); let _ = MessageIntegritySha256::from([*b; 32]); let t = TransactionId::from([*b; 12]); let _ = (t.as_bytes(), format!("{}", t)); let r = stun_rs::attributes::turn::ReservationToken::from([*b; 8]); let _ = r.token(); });
    sweep(out, "turn integers", 0..=u16::MAX, |v| {
        use stun_rs::attributes::turn::*;
        let c = ChannelNumber::new(*v); let _ = c.number();
        let _ = LifeTime::new(*v as u32 * 65537);
        let e = EvenPort::new(*v & 1 == 1); let _ = e.reserve();
        let p = RequestedTrasport::new(stun_rs::protocols::UDP); let _ = (p.protocol().as_u8(), p.protocol() == 17u8);
        if let (Some(t), Some(c)) = (IcmpType::new(*v as u8), IcmpCode::new(*v)) { let i = Icmp::new(t, c, [*v as u8; 4]); let _ = (i.icmp_type(), i.icmp_code(), i.error_data().len()); }
        let _ = stun_rs::attributes::discovery::ResponsePort::new(*v);
    });
    sweep(out, "ChangeRequest flags", 0..4u8, |v| { use stun_rs::attributes::discovery::*; let mut f = enumflags2::BitFlags::<ChangeRequestFlags>::empty(); if v & 1 == 1 { f |= ChangeRequestFlags::ChangeIp } if v & 2 == 2 { f |= ChangeRequestFlags::ChangePort } let c = ChangeRequest::new(Some(f)); let _ = c.flags(); let _ = ChangeRequest::new(None).flags(); });
    sweep(out, "StunMessage accessors", 0..200u32, |i| {
        let m = StunMessageBuilder::new(MessageMethod::try_from((*i % 0x1000) as u16).unwrap(), MessageClass::Indication)
            .with_attribute(Software::new("s").unwrap()).with_attribute(Fingerprint::default()).build();
        let _ = (m.method(), m.class(), m.transaction_id(), m.attributes().len(), m.get::<Software>().is_some(), m.get::<Nonce>().is_none());
        for a in m.attributes() { let _ = (a.attribute_type(), a.is_software(), a.as_nonce().is_err(), a.is_fingerprint()); }
    });
}

fn main() {
    let args = Args::parse();
    let mut out = args.writer();
    if let Some(lines) = args.replay_lines() {
        for l in lines {
            let f: Vec<&str> = l.split(' ').collect();
            if f[0] == "C" && f[1] == "S" { run_script(&mut out, f[2], &f[3].split(',').map(|s| s.to_string()).collect::<Vec<_>>()) }
            else if f[0] == "C" && f[1] == "A" { api_sweeps(&mut out) }
            else if f[0] == "C" && f[1] == "V" { valuev::run_v(&mut out, &f[2..]) }
        }
        out.finish();
        return;
    }
    let mut rng = args.rng(0xC19);
    let n = if args.thorough { 200000 } else { 8000 };
    let mine = n / args.shards + if args.shard < n % args.shards { 1 } else { 0 };
    for i in 0..mine {
        let ops = gen_script(&mut rng);
        run_script(&mut out, if i % 2 == 0 { "P" } else { "U" }, &ops);
    }
    if args.shard == 0 {
        api_sweeps(&mut out);
    }
    // result records `C V` (harness/src/valuev.rs): the same list in every shard (its generator does not depend on the
    // shard), each shard runs every shards-th record
    let mut vrng = Rng::new(args.seed.wrapping_mul(0x1000_0000_01B3) ^ 0xC19F);
    let mut nv = 0u64;
    for (i, r) in valuev::gen_v(&mut vrng, args.thorough).iter().enumerate() {
        if i as u64 % args.shards == args.shard {
            valuev::run_v(&mut out, &r.split(' ').collect::<Vec<_>>());
            nv += 1;
        }
    }
    out.note(&format!("suite=valueapi scripts={} value-records={}", mine, nv));
    out.finish();
}
