//! Suite `codecrt` (C01, C02): messages built from all 38 attribute kinds through the public constructors (values from
//! the attrval generators: boundary lengths, both address families, error codes, ...), any method / class / transaction id,
//! with and without an integrity / fingerprint tail; encoded by MessageEncoder, decoded by MessageDecoder.
//! Record  C <method> <class> <txid hex> <attr>...     attr: v<type>:<value token>  m<key hex>  s<key hex>  f
//! Result  I OK <size> <md5 of the encoded bytes>;<decoded attributes: type:token ...>   |  ENCERR  |  PANIC
//! Facts   J rt=<0|1> decsize=<n> hdrlen=<n> mult4=<0|1> fit=<0|1>
//! Record  C G <message hex> <perturbed hex>   (C02, last sentence: the encoded message and a copy in which only padding
//!         bytes and reserved bits that the RFCs tell a receiver to ignore were changed)
//! Result  I G <decoded attributes of the message>|<decoded attributes of the copy>     Facts  J same=<0|1>
use rustun_verif_harness::wire::*;
use rustun_verif_harness::*;
use stun_rs::attributes::stun::*;
use stun_rs::*;

#[allow(dead_code)]
#[path = "attrval.rs"]
mod av;

/// the bits of an attribute value that a receiver must ignore, as (offset, mask) pairs — the harness's own reading of the
/// RFCs (8489 14.1/14.2/14.8/14.11, 8656 18.1/18.6/18.7/18.8/18.11/18.12/18.13); the Gallina `msg_mask` decides whether a
/// perturbation is legal, this table only proposes it
fn ignorable(ty: u16, v: &[u8]) -> Vec<(usize, u8)> {
    let pre: &[u8] = match ty {
        0x0001 | 0x0012 | 0x0016 | 0x0020 | 0x8023 | 0x802B | 0x802C => &[0xFF],
        0x0009 => &[0xFF, 0xFF, 0xF8],
        0x8001 => &[0x00, 0xFF, 0xF8],
        0x000C => &[0, 0, 0xFF, 0xFF],
        0x0018 => &[0x7F],
        0x0019 | 0x0017 | 0x8000 => &[0, 0xFF, 0xFF, 0xFF],
        0x8004 => &[0xFF, 0xFF],
        _ => &[],
    };
    let mut r: Vec<(usize, u8)> = pre.iter().enumerate().filter(|(i, m)| **m != 0 && *i < v.len()).map(|(i, m)| (i, *m)).collect();
    if ty == 0x8002 {
        // PASSWORD-ALGORITHMS: the padding between entries
        let mut off = 0usize;
        while off + 4 <= v.len() {
            let plen = u16::from_be_bytes([v[off + 2], v[off + 3]]) as usize;
            let end = off + 4 + plen;
            let pad = (4 - plen % 4) % 4;
            if end + pad >= v.len() { break }
            for i in end..end + pad { r.push((i, 0xFF)) }
            off = end + pad;
        }
    }
    r
}

fn render_decode(bytes: &[u8]) -> String {
    match guarded(|| MessageDecoderBuilder::default().build().decode(bytes)) {
        Err(()) => "DECPANIC".to_string(),
        Ok(Err(_)) => "DECERR".to_string(),
        Ok(Ok((m, n))) => {
            let d: Vec<String> = m.attributes().iter().map(|a| format!("{}:{}", a.attribute_type().as_u16(), av::render(a))).collect();
            format!("{} {}", n, if d.is_empty() { "-".to_string() } else { d.join(" ") })
        }
    }
}

/// perturb only ignorable bits / padding bytes of an encoded message; mode 0: every ignorable bit random, 1: one bit,
/// 2: every ignorable bit set
fn run_ignbits(out: &mut Out, rng: &mut Rng, bytes: &[u8], mode: u64) -> bool {
    let mut slots: Vec<(usize, u8)> = vec![];
    let mut pos = 20usize;
    while pos + 4 <= bytes.len() {
        let ty = u16::from_be_bytes([bytes[pos], bytes[pos + 1]]);
        let n = u16::from_be_bytes([bytes[pos + 2], bytes[pos + 3]]) as usize;
        let pad = (4 - n % 4) % 4;
        if pos + 4 + n + pad > bytes.len() { break }
        for (o, m) in ignorable(ty, &bytes[pos + 4..pos + 4 + n]) { slots.push((pos + 4 + o, m)) }
        for i in 0..pad { slots.push((pos + 4 + n + i, 0xFF)) }
        pos += 4 + n + pad;
    }
    if slots.is_empty() { return false }
    let mut p = bytes.to_vec();
    match mode {
        0 => for (i, m) in &slots { p[*i] ^= (rng.below(256) as u8) & m },
        1 => { let (i, m) = *rng.pick(&slots); let bits: Vec<u8> = (0..8).filter(|b| m >> b & 1 == 1).collect(); p[i] ^= 1 << *rng.pick(&bits) }
        _ => for (i, m) in &slots { p[*i] |= m },
    }
    run_ignbits_case(out, bytes, &p);
    true
}

/// beyond the rendered values: are the two decoded messages EQUAL as values (PartialEq of every attribute: a field that keeps
/// reserved bits would differ), and does re-encoding them (what a relay does) give the same bytes?
fn deep_same(x: &[u8], y: &[u8]) -> bool {
    let dec = |b: &[u8]| guarded(|| MessageDecoderBuilder::default().build().decode(b)).ok().and_then(|r| r.ok()).map(|(m, _)| m);
    match (dec(x), dec(y)) {
        (Some(mx), Some(my)) => {
            // StunAttribute has no PartialEq: the derived Debug rendering shows every field, private ones included
            if format!("{:?}", mx.attributes()) != format!("{:?}", my.attributes()) { return false }
            let plain = |m: &StunMessage| !m.attributes().iter().any(|a| a.is_message_integrity() || a.is_message_integrity_sha256() || a.is_fingerprint());
            if plain(&mx) && plain(&my) {
                let reenc = |m: &StunMessage| -> Option<Vec<u8>> {
                    let mut b = StunMessageBuilder::new(m.method(), m.class()).with_transaction_id(*m.transaction_id());
                    for a in m.attributes() { b = b.with_attribute(a.clone()) }
                    let msg = b.build();
                    let mut buf = vec![0u8; 4096];
                    match guarded(|| MessageEncoderBuilder::default().build().encode(&mut buf, &msg)) { Ok(Ok(n)) => Some(buf[..n].to_vec()), _ => None }
                };
                reenc(&mx) == reenc(&my)
            } else { true }
        }
        (None, None) => true,
        _ => false,
    }
}
fn run_ignbits_case(out: &mut Out, bytes: &[u8], p: &[u8]) {
    out.rec(&format!("C G {} {}", hex(bytes), hex(p)));
    let a = render_decode(bytes);
    let b = render_decode(p);
    out.imp(&format!("G {}|{}", a, b));
    out.rec(&format!("J same={} deep={}", (a == b) as u8, deep_same(bytes, p) as u8));
}

fn run_case(out: &mut Out, method: u16, class: u8, txid: &[u8; 12], specs: &[String]) -> Option<Vec<u8>> {
    out.rec(&format!("C {} {} {} {}", method, class, hex(txid), if specs.is_empty() { "-".to_string() } else { specs.join(" ") }));
    let cls = [MessageClass::Request, MessageClass::Indication, MessageClass::SuccessResponse, MessageClass::ErrorResponse][class as usize];
    let mut b = StunMessageBuilder::new(MessageMethod::try_from(method).unwrap(), cls).with_transaction_id(TransactionId::from(*txid));
    let mut orig: Vec<(u16, String)> = vec![];
    let key = |h: &str| HMACKey::new_short_term(String::from_utf8(unhex(h)).unwrap()).unwrap();
    for s in specs {
        let (h, r) = s.split_at(1);
        match h {
            "v" => {
                let (ty, tok) = r.split_once(':').unwrap();
                let ty: u16 = ty.parse().unwrap();
                match guarded(|| av::build_stored(ty, tok)) {
                    Ok(Some(a)) => { orig.push((ty, av::render(&a))); b = b.with_attribute(a) }
                    _ => { out.imp("UNBUILDABLE"); out.rec("J"); return None }
                }
            }
            "m" => { orig.push((T_MI, "tail".into())); b = b.with_attribute(MessageIntegrity::new(key(r))) }
            "s" => { orig.push((T_SHA, "tail".into())); b = b.with_attribute(MessageIntegritySha256::new(key(r))) }
            _ => { orig.push((T_FP, "tail".into())); b = b.with_attribute(Fingerprint::default()) }
        }
    }
    let msg = b.build();
    let mut buf = vec![0x5Au8; 70000];
    let enc = guarded(|| MessageEncoderBuilder::default().build().encode(&mut buf, &msg));
    let size = match enc {
        Err(()) => { out.imp("PANIC"); out.rec("J"); return None }
        Ok(Err(_)) => { out.imp("ENCERR"); out.rec("J"); return None }
        Ok(Ok(n)) => n,
    };
    let bytes = &buf[..size.min(buf.len())];
    let dec = guarded(|| MessageDecoderBuilder::default().build().decode(bytes));
    let (rendering, rt, decsize) = match dec {
        Err(()) => ("DECPANIC".to_string(), false, 0),
        Ok(Err(_)) => ("DECERR".to_string(), false, 0),
        Ok(Ok((m, n))) => {
            let d: Vec<(u16, String)> = m.attributes().iter().map(|a| (a.attribute_type().as_u16(), av::render(a))).collect();
            // same method, class, transaction id and the same attribute values in the same order; the tail attributes come
            // back as their decoded (value carrying) variants, which are judged by C04 / C10
            let same = m.method().as_u16() == method && m.class() == cls && m.transaction_id().as_bytes() == txid
                && d.len() == orig.len()
                && d.iter().zip(orig.iter()).all(|(x, y)| x.0 == y.0 && (y.1 == "tail" || x.1 == y.1));
            (d.iter().map(|(t, r)| format!("{}:{}", t, r)).collect::<Vec<_>>().join(" "), same, n)
        }
    };
    out.imp(&format!("OK {} {:x};{}", size, md5::compute(bytes), if rendering.is_empty() { "-".to_string() } else { rendering }));
    let hdrlen = u16::from_be_bytes([buf[2], buf[3]]) as usize;
    out.rec(&format!("J rt={} decsize={} hdrlen={} size={}", rt as u8, decsize, hdrlen, size));
    if size <= buf.len() && size <= 3000 { Some(buf[..size].to_vec()) } else { None }
}

/// quoted-string constructor probe (REALM / NONCE): does an accepted input yield a value that survives encode + decode?
fn run_ctor(out: &mut Out, ty: u16, input: &[u8]) {
    out.rec(&format!("C Q {} {}", ty, hex(input)));
    let Ok(text) = std::str::from_utf8(input) else { out.imp("NOTUTF8"); out.rec("J"); return };
    let built: Result<Option<StunAttribute>, ()> = guarded(|| if ty == 0x0014 { Realm::new(text).ok().map(|r| r.into()) } else { Nonce::new(text).ok().map(|n| n.into()) });
    match built {
        Err(()) => { out.imp("PANIC"); out.rec("J") }
        Ok(None) => { out.imp("REJ"); out.rec("J") }
        Ok(Some(a)) => {
            let stored: Vec<u8> = match &a { StunAttribute::Realm(r) => r.as_str().as_bytes().to_vec(), StunAttribute::Nonce(n) => n.as_str().as_bytes().to_vec(), _ => vec![] };
            let txid = [5u8; 12];
            let msg = StunMessageBuilder::new(stun_rs::methods::BINDING, MessageClass::Request).with_transaction_id(TransactionId::from(txid)).with_attribute(a.clone()).build();
            let mut buf = vec![0u8; 2000];
            let rt = match guarded(|| MessageEncoderBuilder::default().build().encode(&mut buf, &msg)) {
                Ok(Ok(n)) => match guarded(|| MessageDecoderBuilder::default().build().decode(&buf[..n])) {
                    Ok(Ok((m, _))) => m.attributes().len() == 1 && av::render(&m.attributes()[0]) == av::render(&a),
                    _ => false,
                },
                _ => false,
            };
            out.imp(&format!("OK {} rt={}", hex(&stored), rt as u8));
            out.rec(&format!("J rt={}", rt as u8));
        }
    }
}

fn main() {
    let args = Args::parse();
    let mut out = args.writer();
    if let Some(lines) = args.replay_lines() {
        for l in lines {
            let f: Vec<&str> = l.split(' ').collect();
            if f[0] == "C" && f[1] == "Q" {
                run_ctor(&mut out, f[2].parse().unwrap(), &unhex(f[3]));
            } else if f[0] == "C" && f[1] == "G" {
                run_ignbits_case(&mut out, &unhex(f[2]), &unhex(f[3]));
            } else if f[0] == "C" {
                let txid: [u8; 12] = unhex(f[3]).try_into().unwrap();
                let specs: Vec<String> = if f[4] == "-" { vec![] } else { f[4..].iter().map(|s| s.to_string()).collect() };
                let _ = run_case(&mut out, f[1].parse().unwrap(), f[2].parse().unwrap(), &txid, &specs);
            }
        }
        out.finish();
        return;
    }
    let mut rng = args.rng(0xC0DE);
    let n = args.get("cases").map(|s| s.parse().unwrap()).unwrap_or(if args.thorough { 100000u64 } else { 3000 });
    let mine = n / args.shards + if args.shard < n % args.shards { 1 } else { 0 };
    let mut kinds_used = [0u64; 38];
    let mut nign = 0u64;
    // the kinds that carry reserved bits, over-represented in every third message (C02 ignorable-bit perturbation)
    let reserved: Vec<usize> = (0..38).filter(|k| matches!(av::KINDS[*k].0, 0x0001 | 0x0012 | 0x0016 | 0x0020 | 0x8023 | 0x802B | 0x802C | 0x0009 | 0x8001 | 0x000C | 0x0018 | 0x0019 | 0x0017 | 0x8000 | 0x8004 | 0x8002)).collect();
    for i in 0..mine {
        let txid: [u8; 12] = rng.bytes(12).try_into().unwrap();
        *av::TXID_HINT.lock().unwrap() = txid;
        // methods: the whole range, with the boundaries over-represented
        let method = match rng.below(6) { 0 => *rng.pick(&[0u16, 1, 0xFF, 0x100, 0x7FF, 0x800, 0xFFE, 0xFFF]), _ => rng.below(0x1000) as u16 };
        let class = rng.below(4) as u8;
        let mut specs = vec![];
        let na = rng.below(if i % 50 == 0 { 13 } else { 6 });
        for _ in 0..na {
            let k = if i % 3 == 0 && rng.chance(2, 3) { *rng.pick(&reserved) } else { rng.below(38) as usize };
            let (ty, fam) = av::KINDS[k];
            if ty == T_MI || ty == T_SHA || ty == T_FP { continue }
            let cands = av::gen_specs(&mut rng, i, ty, fam, false);
            // keep only specs the public constructors accept (documented limits); the record carries the canonical
            // rendering of the built value
            let ok: Vec<String> = cands.iter().filter_map(|t| match guarded(|| av::build(ty, t)) {
                // within the documented limits: the value encodes on its own; PASSWORD-ALGORITHM parameters are absent or
                // non-empty (Some([]) and None are the same bytes on the wire and decode as None)
                // (the implementation under test must not decide which cases are generated: a value that builds is kept even when
                // it does not encode on its own; the model says whether it is within the documented limits)
                // it does not encode on its own — except the long strings (more than about 500 bytes: the constructors accept up to
                // the DECODING limit of 763 bytes, the encoders only 509), which are outside the documented encoding limits
                Ok(Some(a)) => { let r = av::render(&a); if matches!(av::encode_value(&a, &txid, 66000), Ok(Some(_))) || r.len() <= 1000 { Some(r) } else { None } }
                _ => None }).filter(|r| !r.contains(".s-") && !r.ends_with(":s-")).collect();
            if ok.is_empty() { continue }
            let tok = rng.pick(&ok).clone();
            if tok.contains(' ') || !matches!(guarded(|| av::build_stored(ty, &tok)), Ok(Some(_))) { continue }
            kinds_used[k] += 1;
            specs.push(format!("v{}:{}", ty, tok));
        }
        let tail = *rng.pick(&["", "", "m", "s", "f", "ms", "mf", "sf", "msf"]);
        for c in tail.chars() { specs.push(match c { 'm' => format!("m{}", hex(b"pw")), 's' => format!("s{}", hex(b"pw")), _ => "f".to_string() }) }
        if let Some(bytes) = run_case(&mut out, method, class, &txid, &specs) {
            if run_ignbits(&mut out, &mut rng, &bytes, i % 3) { nign += 1 }
        }
    }
    // constructor probes: strings over the quoting alphabet, including quoted-pairs at the end (finding D8)
    let alphabet: [&str; 19] = ["a", "!", " ", "\t", "\r\n", "\"", "\\", "\\\"", "\\ ", "\\\t", "\u{e9}", "\u{c0}\u{80}", "\\a", "b",
        "\u{c0}\u{a0}", "\u{c0}\u{85}", "\u{a0}", "\u{2028}", "\u{3000}"];
    let probes = if args.thorough { 20000 } else { 600 };
    let mut nprobe = 0u64;
    for k in 0..probes {
        if k % args.shards != args.shard { continue }
        let n = rng.range(1, 6);
        let mut sbuf = String::new();
        for _ in 0..n { let piece: &str = alphabet[rng.below(alphabet.len() as u64) as usize]; sbuf.push_str(piece) }
        if k % 7 == 0 { sbuf = format!("\"{}\"", sbuf) }
        run_ctor(&mut out, if k % 2 == 0 { 0x0014 } else { 0x0015 }, sbuf.as_bytes());
        nprobe += 1;
    }
    // and exhaustively: every string of at most 4 (thorough: 6) symbols of the trimming alphabet — a plain character, the
    // backslash, the five removable characters and one non-ASCII character — through Nonce::new (REALM: every other one);
    // this enumerates every way a run of backslashes can meet the trimmed end (the repair of D8)
    let small: [&str; 8] = ["a", "\\", "\"", " ", "\t", "\r", "\n", "\u{e9}"];
    let maxlen = if args.thorough { 6 } else { 4 };
    let mut k = 0u64;
    for len in 1..=maxlen {
        let total = 8u64.pow(len);
        for code in 0..total {
            k += 1;
            if k % args.shards != args.shard { continue }
            let mut sbuf = String::new();
            let mut c = code;
            for _ in 0..len { sbuf.push_str(small[(c % 8) as usize]); c /= 8 }
            run_ctor(&mut out, if k % 2 == 0 { 0x0014 } else { 0x0015 }, sbuf.as_bytes());
            nprobe += 1;
        }
    }
    out.note(&format!("suite=codecrt cases={} ignbits_records={} ctor_probes={} kinds_used={:?}", mine, nign, nprobe, kinds_used));
    out.finish();
}
