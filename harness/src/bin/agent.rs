//! Suite `agent` (C05-C08, C10-C13, C15, C17, C03): random histories of a StunClient driven by a fake server, a clock
//! and a timer controller. Every operation is logged in an abstract vocabulary that the Gallina model understands
//! (see coq/Agent/Model.v) together with the implementation's return value, events and hook snapshot.
//!
//! H <reliable> <rto_or_timeout_ns> <rm> <rc> <gran_ns> <limit> <mech 0 none|1 ST|2 ST-MI|3 ST-SHA|4 LT> <fp>
//! O S <now> <id> <r_ns> <method> <room> <attrs>      send_request   (id = number the new transaction gets)
//! O N <id> <method> <room> <attrs>                   send_indication
//! O R <now> <decodable> <class> <method> <id> <attrs>   on_buffer_recv of a crafted message (attrs in wire order)
//! O T <now>                                          on_timeout
//! I <ret>;<events>;<snapshot>        J <extra facts for the monitors, not compared with the model>
use rustun_verif_harness::wire::*;
use rustun_verif_harness::*;
use std::collections::HashMap;
use std::time::{Duration, Instant};
use stun_agent::{Integrity, RttConfig, StunAgentError, StunAttributes, StunClient, StunClientEvent, StunClienteBuilder, StunTransactionError, TransportReliability, VerifMech};
use stun_rs::attributes::stun::*;
use stun_rs::*;

// ------------------------------------------------------------------------------------------ abstract vocabulary
#[derive(Clone, Debug, PartialEq, Eq)]
enum Alg {
    Md5,
    Sha256,
    Other(u16),
}
impl Alg {
    fn id(&self) -> u16 {
        match self {
            Alg::Md5 => 1,
            Alg::Sha256 => 2,
            Alg::Other(n) => *n,
        }
    }
    fn of(n: u16) -> Alg {
        match n {
            1 => Alg::Md5,
            2 => Alg::Sha256,
            n => Alg::Other(n),
        }
    }
}
#[derive(Clone, Debug, PartialEq, Eq)]
enum KeyD {
    Corrupt,
    St(u32),
    Lt(u32, u32, Alg),
}
#[derive(Clone, Debug, PartialEq, Eq)]
enum A {
    App(u16, u32),
    UserName(u32),
    UserHash(u32, u32),
    Realm(u32),
    Nonce(u32, u32),
    PwdAlgs(Vec<Alg>),
    PwdAlg(Alg),
    ErrorCode(u16),
    Mi(KeyD),
    Sha(KeyD),
    Fp(bool),
}

fn tok_key(k: &KeyD) -> String {
    match k {
        KeyD::Corrupt => "x".into(),
        KeyD::St(p) => format!("t{}", p),
        KeyD::Lt(r, p, a) => format!("g{}.{}.{}", r, p, a.id()),
    }
}
fn tok(a: &A) -> String {
    match a {
        A::App(t, g) => format!("a{}.{}", t, g),
        A::UserName(u) => format!("u{}", u),
        A::UserHash(u, r) => format!("h{}.{}", u, r),
        A::Realm(r) => format!("r{}", r),
        A::Nonce(n, c) => format!("n{}.{}", n, c),
        A::PwdAlgs(l) => format!("L{}", l.iter().map(|a| a.id().to_string()).collect::<Vec<_>>().join("-")),
        A::PwdAlg(a) => format!("l{}", a.id()),
        A::ErrorCode(c) => format!("e{}", c),
        A::Mi(k) => format!("m{}", tok_key(k)),
        A::Sha(k) => format!("s{}", tok_key(k)),
        A::Fp(g) => format!("f{}", *g as u8),
    }
}
fn toks(l: &[A]) -> String {
    if l.is_empty() {
        "-".into()
    } else {
        l.iter().map(tok).collect::<Vec<_>>().join(",")
    }
}
fn parse_key(s: &str) -> KeyD {
    if s == "x" {
        KeyD::Corrupt
    } else if let Some(p) = s.strip_prefix('t') {
        KeyD::St(p.parse().unwrap())
    } else {
        let f: Vec<&str> = s[1..].split('.').collect();
        KeyD::Lt(f[0].parse().unwrap(), f[1].parse().unwrap(), Alg::of(f[2].parse().unwrap()))
    }
}
fn parse_tok(s: &str) -> A {
    let (h, r) = s.split_at(1);
    let two = |r: &str| -> (u32, u32) {
        let f: Vec<&str> = r.split('.').collect();
        (f[0].parse().unwrap(), f[1].parse().unwrap())
    };
    match h {
        "a" => {
            let (t, g) = two(r);
            A::App(t as u16, g)
        }
        "u" => A::UserName(r.parse().unwrap()),
        "h" => {
            let (u, x) = two(r);
            A::UserHash(u, x)
        }
        "r" => A::Realm(r.parse().unwrap()),
        "n" => {
            let (n, c) = two(r);
            A::Nonce(n, c)
        }
        "L" => A::PwdAlgs(if r.is_empty() { vec![] } else { r.split('-').map(|x| Alg::of(x.parse().unwrap())).collect() }),
        "l" => A::PwdAlg(Alg::of(r.parse().unwrap())),
        "e" => A::ErrorCode(r.parse().unwrap()),
        "m" => A::Mi(parse_key(r)),
        "s" => A::Sha(parse_key(r)),
        "f" => A::Fp(r == "1"),
        _ => panic!("bad token {}", s),
    }
}
fn parse_toks(s: &str) -> Vec<A> {
    if s == "-" {
        vec![]
    } else {
        s.split(',').map(parse_tok).collect()
    }
}

// ------------------------------------------------------------------------------------------ concrete renderings
fn user_str(u: u32) -> String {
    format!("user{}", u)
}
fn pass_str(p: u32) -> String {
    // leading and trailing space: legal in an OpaqueString password, and part of the key
    format!(" pass{} ", p)
}
fn realm_str(r: u32) -> String {
    format!("realm{}.org", r)
}
fn b64(b: &[u8; 3]) -> String {
    const T: &[u8] = b"ABCDEFGHIJKLMNOPQRSTUVWXYZabcdefghijklmnopqrstuvwxyz0123456789+/";
    let n = ((b[0] as u32) << 16) | ((b[1] as u32) << 8) | b[2] as u32;
    (0..4).map(|i| T[((n >> (18 - 6 * i)) & 63) as usize] as char).collect()
}
fn nonce_str(n: u32, c: u32) -> String {
    match c {
        0 => format!("nonce{}", n),
        1 => format!("obMatJos2{}n{}", b64(&[0, 0, 0]), n),
        2 => format!("obMatJos2{}n{}", b64(&[0x80, 0, 0]), n),
        3 => format!("obMatJos2{}n{}", b64(&[0x40, 0, 0]), n),
        4 => format!("obMatJos2{}n{}", b64(&[0xC0, 0, 0]), n),
        5 => format!("obMatJos2**=*n{}", n),
        // cookie prefix whose feature characters end inside a two-byte character (U+00C0 U+0080)
        _ => format!("obMatJos2abc\u{C0}\u{80}n{}", n),
    }
}
fn parse_nonce(s: &str) -> (u32, u32) {
    for c in 0..=6u32 {
        let probe = nonce_str(0, c);
        let prefix = &probe[..probe.len() - 1];
        if let Some(rest) = s.strip_prefix(prefix) {
            if let Ok(n) = rest.parse::<u32>() {
                if nonce_str(n, c) == s {
                    return (n, c);
                }
            }
        }
    }
    (9999, 9)
}
fn lt_key(r: u32, p: u32, a: &Alg) -> Vec<u8> {
    let s = format!("{}:{}:{}", user_str(0), realm_str(r), pass_str(p));
    match a {
        Alg::Sha256 => hmac_sha256::Hash::hash(s.as_bytes()).to_vec(),
        _ => md5::compute(s.as_bytes()).0.to_vec(),
    }
}
fn key_bytes(k: &KeyD) -> Vec<u8> {
    match k {
        KeyD::Corrupt => b"irrelevant".to_vec(),
        KeyD::St(p) => pass_str(*p).into_bytes(),
        KeyD::Lt(r, p, a) => lt_key(*r, *p, a),
    }
}
fn user_hash(u: u32, r: u32) -> Vec<u8> {
    hmac_sha256::Hash::hash(format!("{}:{}", user_str(u), realm_str(r)).as_bytes()).to_vec()
}
fn algs_value(l: &[Alg]) -> Vec<u8> {
    let mut v = vec![];
    for a in l {
        v.extend_from_slice(&a.id().to_be_bytes());
        v.extend_from_slice(&[0, 0]);
    }
    v
}

const T_SOFTWARE: u16 = 0x8022;
const T_PRIORITY: u16 = 0x0024;
const T_USE_CANDIDATE: u16 = 0x0025;

// ------------------------------------------------------------------------------------------ glue records (suite absglue)
// With `--glue 1` the binary runs the same histories but writes, instead of the history records, one record per sampled
// packet:  C P <s|c> <realm tokens> <packet hex>   /   I <class> <method> <abstract tokens> | MALFORMED
// s = a packet the client sent, read by abstract_packet; c = a packet crafted from the abstract tokens (before any framing
// damage). The Gallina function AbsGlue.abs_packet must read the same bytes the same way, and the Gallina rendering
// Concrete.craft_packet of the abstract packet (s: the abstract reading; c: the intended tokens) with the packet's
// transaction id must be the very bytes (field B= of the I line).
static GLUE: std::sync::Mutex<Option<(Vec<String>, u64, u64)>> = std::sync::Mutex::new(None);
fn glue_record(kind: &str, realms: &[u32], intended: &str, b: &[u8], abs: String) {
    if let Some((v, seen, stride)) = GLUE.lock().unwrap().as_mut() {
        *seen += 1;
        if *seen % *stride == 0 {
            let rs = if realms.is_empty() { "-".to_string() } else { realms.iter().map(|r| r.to_string()).collect::<Vec<_>>().join(",") };
            v.push(format!("C P {} {} {}{}", kind, rs, intended, hex(b)));
            v.push(format!("I {}", abs));
        }
    }
}
fn glue_sent(realms: &[u32], b: &[u8]) {
    let abs = match abstract_packet(b, realms) {
        // B= the real bytes: the Gallina rendering (Concrete.craft_packet) of this abstract reading must be these very bytes
        Some((class, method, attrs)) => format!("{} {} {} B={}", class, method, toks(&attrs), hex(b)),
        None => "MALFORMED".to_string(),
    };
    glue_record("s", realms, "", b, abs);
}
fn glue_crafted(base_realms: &[u32], class: u8, method: u16, attrs: &[A], bytes: &[u8]) {
    glue_record("c", &realms_of(attrs, base_realms), &format!("{} {} {} ", class, method, toks(attrs)), bytes,
                format!("{} {} {} B={}", class, method, toks(&recoverable(attrs)), hex(bytes)));
}
fn glue_replay(f: &[&str]) {
    let realms: Vec<u32> = if f[3] == "-" { vec![] } else { f[3].split(',').map(|x| x.parse().unwrap()).collect() };
    if f[2] == "s" {
        glue_sent(&realms, &unhex(f[4]));
    } else {
        let old = unhex(f[7]);
        let txid: [u8; 12] = old[8..20].try_into().unwrap();
        let attrs = parse_toks(f[6]);
        let (class, method) = (f[4].parse().unwrap(), f[5].parse().unwrap());
        glue_crafted(&realms, class, method, &attrs, &craft(class, method, &txid, &attrs));
    }
}
/// what reading the crafted bytes back can recover of the intended tokens: the tag of a generic application attribute is
/// only its (truncated, zero-padded) value bytes
fn recoverable(attrs: &[A]) -> Vec<A> {
    attrs.iter().map(|a| match a {
        A::App(t, g) if *t != T_SOFTWARE && *t != T_PRIORITY => {
            let n = if *t == T_USE_CANDIDATE { 0 } else { (*g as usize % 5).min(4) };
            let mut x = [0u8; 4];
            x[..n].copy_from_slice(&g.to_be_bytes()[..n]);
            A::App(*t, u32::from_be_bytes(x))
        }
        other => other.clone(),
    }).collect()
}
fn realms_of(attrs: &[A], base: &[u32]) -> Vec<u32> {
    let mut v = base.to_vec();
    let mut add = |r: u32| if !v.contains(&r) { v.push(r) };
    for a in attrs {
        match a {
            A::Realm(r) | A::UserHash(_, r) => add(*r),
            A::Mi(KeyD::Lt(r, _, _)) | A::Sha(KeyD::Lt(r, _, _)) => add(*r),
            _ => {}
        }
    }
    v
}

/// craft the bytes of an abstract message (the fake server / attacker)
fn craft(class: u8, method: u16, txid: &[u8; 12], attrs: &[A]) -> Vec<u8> {
    let mut r = Raw::new(method, class, txid);
    for a in attrs {
        match a {
            A::App(t, g) => match *t {
                T_SOFTWARE => {
                    r.push(*t, format!("sw{}", g).as_bytes());
                }
                T_PRIORITY => {
                    r.push(*t, &g.to_be_bytes());
                }
                T_USE_CANDIDATE => {
                    r.push(*t, &[]);
                }
                _ => {
                    r.push(*t, &g.to_be_bytes()[..(*g as usize % 5).min(4)]);
                }
            },
            A::UserName(u) => {
                r.push(0x0006, user_str(*u).as_bytes());
            }
            A::UserHash(u, x) => {
                r.push(0x001E, &user_hash(*u, *x));
            }
            A::Realm(x) => {
                r.push(0x0014, realm_str(*x).as_bytes());
            }
            A::Nonce(n, c) => {
                r.push(0x0015, nonce_str(*n, *c).as_bytes());
            }
            A::PwdAlgs(l) => {
                r.push(0x8002, &algs_value(l));
            }
            A::PwdAlg(x) => {
                r.push(0x001D, &algs_value(std::slice::from_ref(x)));
            }
            A::ErrorCode(c) => {
                let mut v = vec![0, 0, (*c / 100) as u8, (*c % 100) as u8];
                v.extend_from_slice(b"err");
                r.push(0x0009, &v);
            }
            A::Mi(k) => {
                let off = r.push_mi(&key_bytes(k));
                if *k == KeyD::Corrupt {
                    r.bytes[off + 19] ^= 0x01;
                }
            }
            A::Sha(k) => {
                let off = r.push_sha(&key_bytes(k));
                if *k == KeyD::Corrupt {
                    r.bytes[off + 31] ^= 0x80;
                }
            }
            A::Fp(g) => {
                let off = r.push_fp();
                if !*g {
                    r.bytes[off + 2] ^= 0x10;
                }
            }
        }
    }
    r.bytes
}

/// read a packet emitted by the client back into the abstract vocabulary (independent TLV walk, MACs and CRC verified
/// with the harness' own HMAC / CRC)
fn abstract_packet(b: &[u8], realms: &[u32]) -> Option<(u8, u16, Vec<A>)> {
    let t = tlvs(b)?;
    if b.len() != 20 + u16::from_be_bytes([b[2], b[3]]) as usize || b[0] & 0xC0 != 0 || b[4..8] != COOKIE.to_be_bytes() {
        return None;
    }
    let ty = u16::from_be_bytes([b[0], b[1]]);
    let class = (((ty >> 8) & 1) << 1 | ((ty >> 4) & 1)) as u8;
    let method = (ty & 0xF) | ((ty >> 1) & 0x70) | ((ty >> 2) & 0xF80);
    let mut out = vec![];
    for (aty, off, len) in t {
        let v = &b[off..off + len];
        let text = |vlen: usize| -> Vec<u8> {
            let mut x = b[..off - 4].to_vec();
            let l = (off - 4 - 20 + 4 + vlen + pad(vlen)) as u16;
            x[2..4].copy_from_slice(&l.to_be_bytes());
            x
        };
        let s = std::str::from_utf8(v).unwrap_or("?");
        let num = |p: &str| -> u32 { s.strip_prefix(p).and_then(|x| x.parse().ok()).unwrap_or(9999) };
        let mut cands = vec![KeyD::St(0), KeyD::St(1), KeyD::St(9)];
        for r in realms {
            for p in [0u32, 1] {
                for a in [Alg::Md5, Alg::Sha256] {
                    cands.push(KeyD::Lt(*r, p, a));
                }
            }
        }
        out.push(match aty {
            0x0006 => A::UserName(num("user")),
            0x001E => {
                let mut f = A::UserHash(9999, 9999);
                for r in realms {
                    for u in [0u32, 5] {
                        if user_hash(u, *r) == v {
                            f = A::UserHash(u, *r);
                        }
                    }
                }
                f
            }
            0x0014 => A::Realm(s.strip_prefix("realm").and_then(|x| x.strip_suffix(".org")).and_then(|x| x.parse().ok()).unwrap_or(9999)),
            0x0015 => {
                let (n, c) = parse_nonce(s);
                A::Nonce(n, c)
            }
            0x8002 => A::PwdAlgs(v.chunks(4).map(|c| Alg::of(u16::from_be_bytes([c[0], c[1]]))).collect()),
            0x001D => A::PwdAlg(Alg::of(u16::from_be_bytes([v[0], v[1]]))),
            0x0009 => A::ErrorCode(v[2] as u16 * 100 + v[3] as u16),
            T_MI => {
                let tx = text(20);
                A::Mi(cands.iter().find(|k| len == 20 && hmac_sha1::hmac_sha1(&key_bytes(k), &tx)[..] == *v).cloned().unwrap_or(KeyD::Corrupt))
            }
            T_SHA => {
                let tx = text(32);
                A::Sha(cands.iter().find(|k| len == 32 && hmac_sha256::HMAC::mac(&tx, key_bytes(k))[..] == *v).cloned().unwrap_or(KeyD::Corrupt))
            }
            T_FP => A::Fp(len == 4 && (crc32(&text(4)) ^ FP_XOR).to_be_bytes() == *v),
            T_SOFTWARE => A::App(aty, num("sw")),
            T_PRIORITY => A::App(aty, u32::from_be_bytes(v.try_into().unwrap_or([0xFF; 4]))),
            _ => {
                let mut x = [0u8; 4];
                x[..len.min(4)].copy_from_slice(&v[..len.min(4)]);
                A::App(aty, u32::from_be_bytes(x))
            }
        });
    }
    Some((class, method, out))
}

/// build the application's StunAttributes from the abstract list
fn app_attrs(l: &[A]) -> StunAttributes {
    let mut s = StunAttributes::default();
    for a in l {
        match a {
            A::App(t, g) => match *t {
                T_SOFTWARE => s.add(Software::new(format!("sw{}", g)).unwrap()),
                T_PRIORITY => s.add(stun_rs::attributes::ice::Priority::from(*g)),
                _ => s.add(stun_rs::attributes::ice::UseCandidate::default()),
            },
            A::UserName(u) => s.add(UserName::new(user_str(*u)).unwrap()),
            A::UserHash(u, r) => s.add(UserHash::new(user_str(*u), realm_str(*r)).unwrap()),
            A::Realm(r) => s.add(Realm::new(realm_str(*r)).unwrap()),
            A::Nonce(n, c) => s.add(Nonce::new(nonce_str(*n, *c)).unwrap()),
            A::PwdAlgs(l) => {
                let mut p = PasswordAlgorithms::default();
                for a in l {
                    p.add(PasswordAlgorithm::new(Algorithm::from(AlgorithmId::from(a.id()))));
                }
                s.add(p)
            }
            A::PwdAlg(a) => s.add(PasswordAlgorithm::new(Algorithm::from(AlgorithmId::from(a.id())))),
            A::ErrorCode(c) => s.add(ErrorCode::from(stun_rs::ErrorCode::new(*c, "err").unwrap())),
            A::Mi(k) => s.add(MessageIntegrity::new(hkey(k))),
            A::Sha(k) => s.add(MessageIntegritySha256::new(hkey(k))),
            A::Fp(_) => s.add(Fingerprint::default()),
        }
    }
    s
}
/// more attribute bytes than the 16-bit length field of the header can express (each attribute legal on its own): the
/// encoder must refuse, whatever the buffer; to the model this is a send without room
fn over_long(s: &mut StunAttributes) {
    s.add(stun_rs::attributes::turn::Data::new(vec![0xABu8; 40_000]));
    let mut u = UnknownAttributes::default();
    for i in 0..15_000u16 {
        u.add(0x4000 + i);
    }
    s.add(u);
}
fn hkey(k: &KeyD) -> HMACKey {
    match k {
        KeyD::Lt(r, p, a) => HMACKey::new_long_term(
            user_str(0),
            realm_str(*r),
            pass_str(*p),
            Algorithm::from(AlgorithmId::from(a.id())),
        )
        .unwrap(),
        KeyD::St(p) => HMACKey::new_short_term(pass_str(*p)).unwrap(),
        KeyD::Corrupt => HMACKey::new_short_term("corrupt").unwrap(),
    }
}

// ------------------------------------------------------------------------------------------ one history
#[derive(Clone, Debug)]
struct Cfg {
    reliable: bool,
    rto: u64,
    rm: u32,
    rc: u32,
    gran: u64,
    limit: usize,
    mech: u8,
    fp: bool,
    /// build the client from the library's DEFAULT configuration (RttConfig::default(), default outstanding limit); the
    /// other fields then hold the documented defaults (500 ms, Rm 16, Rc 7, 1 ms, 10) that the model is given
    defaults: bool,
}
#[derive(Clone, Debug)]
enum Op {
    Send { now: u64, method: u16, room: u8, attrs: Vec<A> },   // room: 0 = 19-byte buffer, 1 = 4096 bytes, 2 = 80,000 bytes and more than 65,535 attribute bytes
    Ind { method: u16, room: u8, attrs: Vec<A> },
    Recv { now: u64, decodable: bool, class: u8, method: u16, id: u32, attrs: Vec<A> },
    Tmo { now: u64 },
}

struct Run {
    broken: bool,
    cfg: Cfg,
    client: StunClient,
    epoch: Instant,
    ids: Vec<[u8; 12]>,           // number -> transaction id
    num: HashMap<[u8; 12], u32>,  // transaction id -> number
    first_pkt: HashMap<u32, Vec<u8>>,
    realms: Vec<u32>,
    pub armed: Option<u64>,       // the controller's timer (absolute ns)
    pub outstanding: Vec<u32>,    // the harness' own view (for generating targets)
    pub finished: Vec<u32>,
    pub last_events: Vec<String>,
}

fn header_of(c: &Cfg) -> String {
    format!("H {} {} {} {} {} {} {} {}{}", c.reliable as u8, c.rto, c.rm, c.rc, c.gran, c.limit, c.mech, c.fp as u8, if c.defaults { " d" } else { "" })
}

fn build_client(c: &Cfg) -> StunClient {
    let rel = if c.defaults {
        TransportReliability::Unreliable(RttConfig::default())
    } else if c.reliable {
        TransportReliability::Reliable(Duration::from_nanos(c.rto))
    } else {
        TransportReliability::Unreliable(RttConfig {
            rto: Duration::from_nanos(c.rto),
            granularity: Duration::from_nanos(c.gran),
            rm: c.rm,
            rc: c.rc,
        })
    };
    let mut b = StunClienteBuilder::new(rel);
    if !c.defaults { b = b.with_max_transactions(c.limit) }
    b = match c.mech {
        1 => b.with_mechanism(user_str(0), pass_str(0), stun_agent::CredentialMechanism::ShortTerm(None)),
        2 => b.with_mechanism(user_str(0), pass_str(0), stun_agent::CredentialMechanism::ShortTerm(Some(Integrity::MessageIntegrity))),
        3 => b.with_mechanism(user_str(0), pass_str(0), stun_agent::CredentialMechanism::ShortTerm(Some(Integrity::MessageIntegritySha256))),
        4 => b.with_mechanism(user_str(0), pass_str(0), stun_agent::CredentialMechanism::LongTerm),
        _ => b,
    };
    if c.fp {
        b = b.with_fingerprint();
    }
    b.build().expect("client")
}

impl Run {
    fn new(cfg: Cfg) -> Run {
        // a legal configuration must give a client: when construction panics, every operation of the history is reported as
        // a panic (the model accepts; monitors C03 / C12 judge) on a stand-in client that is never used
        let built = guarded(|| build_client(&cfg));
        let broken = built.is_err();
        let client = match built {
            Ok(c) => c,
            Err(()) => build_client(&Cfg { limit: 10, rc: 7, rm: 16, rto: 500_000_000, gran: 1_000_000, ..cfg.clone() }),
        };
        Run {
            client,
            broken,
            cfg,
            epoch: Instant::now(),
            ids: vec![],
            num: HashMap::new(),
            first_pkt: HashMap::new(),
            realms: vec![1, 2, 3, 4, 5, 6, 7, 8, 9, 10, 77],
            armed: None,
            outstanding: vec![],
            finished: vec![],
            last_events: vec![],
        }
    }
    fn header(&self) -> String {
        header_of(&self.cfg)
    }
    fn at(&self, ns: u64) -> Instant {
        self.epoch + Duration::from_nanos(ns)
    }
    fn number(&mut self, id: &TransactionId) -> u32 {
        let k = *id.as_bytes();
        if let Some(n) = self.num.get(&k) {
            return *n;
        }
        let n = self.ids.len() as u32;
        self.ids.push(k);
        self.num.insert(k, n);
        n
    }
    /// transaction id bytes for an abstract id: known numbers map to the real ids, others to fixed foreign ids
    fn txid_of(&self, n: u32) -> [u8; 12] {
        if (n as usize) < self.ids.len() {
            self.ids[n as usize]
        } else {
            let mut x = [0xEEu8; 12];
            x[8..12].copy_from_slice(&n.to_be_bytes());
            x
        }
    }
    fn snapshot(&mut self) -> (String, Option<u64>) {
        let s = self.client.verif_snapshot(self.epoch);
        let mut t: Vec<(u32, bool)> = s.outstanding.iter().map(|(id, f)| (self.num.get(id.as_bytes()).copied().unwrap_or(99999), *f)).collect();
        t.sort();
        let mut h: Vec<(u32, u128, u128)> = s.timeouts.iter().map(|(id, a, d)| (self.num.get(id.as_bytes()).copied().unwrap_or(99999), a.as_nanos(), d.as_nanos())).collect();
        h.sort();
        let marks = |v: &Vec<TransactionId>| {
            let mut m: Vec<u32> = v.iter().map(|id| self.num.get(id.as_bytes()).copied().unwrap_or(99999)).collect();
            m.sort();
            if m.is_empty() { "-".to_string() } else { m.iter().map(|x| x.to_string()).collect::<Vec<_>>().join(",") }
        };
        let (k, m) = match &s.mechanism {
            VerifMech::None => ("-".to_string(), "none".to_string()),
            VerifMech::ShortTerm { agreed, markers } => (
                marks(markers),
                format!("st:{}", match agreed { None => 0, Some(Integrity::MessageIntegrity) => 1, Some(Integrity::MessageIntegritySha256) => 2 }),
            ),
            VerifMech::LongTerm { state, params, markers } => (
                marks(markers),
                match params {
                    None => format!("lt:{}:-", state),
                    Some((realm, nonce, algs, alg, sha, anon)) => {
                        let r = realm.strip_prefix("realm").and_then(|x| x.strip_suffix(".org")).and_then(|x| x.parse::<u32>().ok()).unwrap_or(9999);
                        let (n, c) = parse_nonce(nonce);
                        format!(
                            "lt:{}:{}.{}.{}.{}.{}.{}.{}",
                            state, r, n, c,
                            match algs { None => "-".to_string(), Some(l) => format!("L{}", l.iter().map(|x| x.to_string()).collect::<Vec<_>>().join("-")) },
                            match alg { None => "-".to_string(), Some(a) => a.to_string() },
                            *sha as u8, *anon as u8
                        )
                    }
                },
            ),
        };
        let ts = if t.is_empty() { "-".to_string() } else { t.iter().map(|(i, f)| format!("{}.{}", i, *f as u8)).collect::<Vec<_>>().join(",") };
        let hs = if h.is_empty() { "-".to_string() } else { h.iter().map(|(i, a, d)| format!("{}.{}.{}", i, a, d)).collect::<Vec<_>>().join(",") };
        let rto = s.rtt.map(|(r, _, _)| r.as_nanos() as u64);
        // the estimator state and the instant of the last request: not predicted by the model, but part of "nothing
        // changed" (C17, C12): reported as a fact and compared between consecutive operations by the monitors
        let rs = match s.rtt {
            Some((r, sr, rv)) => format!("R={}.{}.{}.{}", r.as_nanos(), sr.as_nanos(), rv.as_nanos(), s.last_request.map(|d| d.as_nanos().to_string()).unwrap_or("-".into())),
            None => "R=-".to_string(),
        };
        (format!("T={};H={};K={};M={};{}", ts, hs, k, m, rs), rto)
    }

    /// drain and render the events of the last call; returns (compared part, extra facts)
    fn events(&mut self, now: u64) -> (String, String) {
        let evs = self.client.events();
        let mut items: Vec<String> = vec![];
        let mut tmo: Option<String> = None;
        let mut extra = vec![];
        for e in evs {
            match e {
                StunClientEvent::OutputPacket(p) => {
                    let b: &[u8] = p.as_ref();
                    let idb: [u8; 12] = b[8..20].try_into().unwrap();
                    let id = TransactionId::from(idb);
                    let known = self.num.contains_key(&idb);
                    let n = self.number(&id);
                    if known && self.first_pkt.contains_key(&n) {
                        items.push(format!("out:{}:0:{}", n, if self.first_pkt[&n] == b { "=" } else { "DIFFERENT" }));
                    } else {
                        let realms = self.realms.clone();
                        match abstract_packet(b, &realms) {
                            Some((class, method, attrs)) => {
                                glue_sent(&realms, b);
                                items.push(format!("out:{}:1:{}:{}:{}", n, class, method, toks(&attrs)))
                            }
                            None => {
                                glue_sent(&realms, b);
                                items.push(format!("out:{}:1:MALFORMED", n))
                            }
                        }
                        // the configured password (short- or long-term) must not appear in what is sent
                        if self.cfg.mech != 0 {
                            let pw = pass_str(0).into_bytes();
                            if b.windows(pw.len()).any(|w| w == &pw[..]) { extra.push("pwleak=1".to_string()) }
                        }
                        // does stun-rs itself decode what the client emitted?
                        let ok = MessageDecoderBuilder::default().build().decode(b).map(|(_, s)| s == b.len()).unwrap_or(false);
                        extra.push(format!("decodes.{}={}", n, ok as u8));
                        self.first_pkt.insert(n, b.to_vec());
                    }
                }
                StunClientEvent::RestransmissionTimeOut((id, left)) => {
                    let n = self.num.get(id.as_bytes()).copied().unwrap_or(99999);
                    tmo = Some(format!("tmo:{}", left.as_nanos()));
                    extra.push(format!("tmoid={}", n));
                    self.armed = Some(now + left.as_nanos() as u64);
                }
                StunClientEvent::Retry(id) => items.push(format!("retry:{}", self.num.get(id.as_bytes()).copied().unwrap_or(99999))),
                StunClientEvent::TransactionFailed((id, r)) => items.push(format!(
                    "fail:{}:{}",
                    self.num.get(id.as_bytes()).copied().unwrap_or(99999),
                    match r {
                        StunTransactionError::TimedOut => "timeout",
                        StunTransactionError::ProtectionViolated => "violated",
                        StunTransactionError::DoNotRetry => "donotretry",
                        _ => "other",
                    }
                )),
                StunClientEvent::StunMessageReceived(m) => {
                    let n = self.num.get(m.transaction_id().as_bytes()).copied().unwrap_or_else(|| u32::from_be_bytes(m.transaction_id().as_bytes()[8..12].try_into().unwrap()));
                    let class = match m.class() {
                        MessageClass::Request => 0,
                        MessageClass::Indication => 1,
                        MessageClass::SuccessResponse => 2,
                        MessageClass::ErrorResponse => 3,
                    };
                    let tys: Vec<String> = m.attributes().iter().map(|a| a.attribute_type().as_u16().to_string()).collect();
                    items.push(format!("recv:{}:{}:{}:{}", class, m.method().as_u16(), n, if tys.is_empty() { "-".to_string() } else { tys.join(",") }));
                }
            }
        }
        items.sort();
        self.last_events = items.clone();
        if let Some(t) = tmo {
            items.push(t);
        }
        (if items.is_empty() { "-".to_string() } else { items.join(" ") }, extra.join(" "))
    }

    fn apply(&mut self, out: &mut Out, op: &Op) {
        if self.broken {
            let (snap, _) = self.snapshot();
            match op {
                Op::Send { now, method, room, attrs } =>
                    out.rec(&format!("O S {} {} {} {} {} {}", now, self.ids.len(), self.cfg.rto, method, *room, toks(attrs))),
                _ => return,
            }
            out.imp(&format!("panic;-;{}", snap));
            out.rec("J ");
            return;
        }
        // the record is written after the call for S (it carries the id and the RTO the implementation used)
        match op {
            Op::Send { now, method, room, attrs } => {
                // the caller's buffer is recycled memory: zeroes, 0xA5 or 0xFF, by the shape of the call
                let buf = vec![[0u8, 0xA5, 0xFF][(*now as usize + attrs.len()) % 3]; match *room { 0 => 19, 1 => 4096, _ => 80_000 }];
                let mut a = app_attrs(attrs);
                if *room == 2 { over_long(&mut a) }
                let at = self.at(*now);
                let m = MessageMethod::try_from(*method).unwrap();
                let r = guarded(|| self.client.send_request(m, a, buf, at));
                let (ret, idn) = match &r {
                    Err(()) => ("panic".to_string(), self.ids.len() as u32),
                    Ok(Ok(id)) => {
                        let n = self.number(id);
                        self.outstanding.push(n);
                        (format!("ok:{}", n), n)
                    }
                    Ok(Err(e)) => (err_tag(e), self.ids.len() as u32),
                };
                let (ev, extra) = self.events(*now);
                let (snap, rto) = self.snapshot();
                let rr = if self.cfg.reliable { self.cfg.rto } else { rto.unwrap_or(0) };
                out.rec(&format!("O S {} {} {} {} {} {}", now, idn, rr, method, *room, toks(attrs)));
                out.imp(&format!("{};{};{}", ret, ev, snap));
                out.rec(&format!("J {}", extra));
            }
            Op::Ind { method, room, attrs } => {
                let buf = vec![[0xFFu8, 0, 0xA5][(*method as usize + attrs.len()) % 3]; match *room { 0 => 19, 1 => 4096, _ => 80_000 }];
                let mut a = app_attrs(attrs);
                if *room == 2 { over_long(&mut a) }
                let m = MessageMethod::try_from(*method).unwrap();
                let r = guarded(|| self.client.send_indication(m, a, buf));
                let (ret, idn) = match &r {
                    Err(()) => ("panic".to_string(), self.ids.len() as u32),
                    Ok(Ok(id)) => {
                        let n = self.number(id);
                        (format!("ok:{}", n), n)
                    }
                    Ok(Err(e)) => (err_tag(e), self.ids.len() as u32),
                };
                let (ev, extra) = self.events(0);
                let (snap, _) = self.snapshot();
                out.rec(&format!("O N {} {} {} {}", idn, method, *room, toks(attrs)));
                out.imp(&format!("{};{};{}", ret, ev, snap));
                out.rec(&format!("J {}", extra));
            }
            Op::Recv { now, decodable, class, method, id, attrs } => {
                let txid = self.txid_of(*id);
                let mut bytes = craft(*class, *method, &txid, attrs);
                glue_crafted(&self.realms, *class, *method, attrs, &bytes);
                if !*decodable {
                    // undecodable: break the framing (length field beyond the buffer) or the cookie
                    // or leave 1..3 stray bytes at the end of the attribute area, covered by the length field (a STUN length
                    // is a multiple of 4: such a datagram is not a STUN message however well the rest of it parses)
                    match (attrs.len() + *id as usize) % 4 {
                        0 => bytes[4] ^= 0x55,
                        1 => { let l = bytes.len(); bytes.truncate(l - 1) }
                        k => {
                            let extra = if k == 2 { 1 } else { 3 };
                            for j in 0..extra { bytes.push(0x80 + j as u8) }
                            let l = (bytes.len() - 20) as u16;
                            bytes[2..4].copy_from_slice(&l.to_be_bytes());
                        }
                    }
                }
                out.rec(&format!("O R {} {} {} {} {} {}", now, *decodable as u8, class, method, id, toks(attrs)));
                let at = self.at(*now);
                let r = guarded(|| self.client.on_buffer_recv(&bytes, at));
                let ret = match &r {
                    Err(()) => "panic".to_string(),
                    Ok(Ok(())) => "ok".to_string(),
                    Ok(Err(e)) => err_tag(e),
                };
                let (ev, extra) = self.events(*now);
                let (snap, _) = self.snapshot();
                out.imp(&format!("{};{};{}", ret, ev, snap));
                out.rec(&format!("J {}", extra));
            }
            Op::Tmo { now } => {
                out.rec(&format!("O T {}", now));
                let at = self.at(*now);
                self.armed = None;
                let r = guarded(|| self.client.on_timeout(at));
                let ret = if r.is_err() { "panic" } else { "ok" };
                let (ev, extra) = self.events(*now);
                let (snap, _) = self.snapshot();
                out.imp(&format!("{};{};{}", ret, ev, snap));
                out.rec(&format!("J {}", extra));
            }
        }
        // keep the generator's view of outstanding / finished ids (from the implementation's own events)
        for e in self.last_events.clone() {
            let f: Vec<&str> = e.split(':').collect();
            let fin = match f[0] {
                "retry" | "fail" => f[1].parse::<u32>().ok(),
                "recv" if f[1] != "1" => f[3].parse::<u32>().ok(),
                _ => None,
            };
            if let Some(n) = fin {
                self.outstanding.retain(|x| *x != n);
                if !self.finished.contains(&n) {
                    self.finished.push(n);
                }
            }
        }
    }
}

fn err_tag(e: &StunAgentError) -> String {
    match e {
        StunAgentError::Discarded => "discarded",
        StunAgentError::FingerPrintValidationFailed => "fpfailed",
        StunAgentError::Ignored => "ignored",
        StunAgentError::MaxOutstandingRequestsReached => "maxout",
        StunAgentError::StunCheckFailed => "stuncheck",
        StunAgentError::InternalError(_) => "internal",
    }
    .to_string()
}

// ------------------------------------------------------------------------------------------ generators
fn gen_cfg(rng: &mut Rng) -> Cfg {
    if rng.chance(1, 12) {
        // the library defaults (RFC 8489: RTO 500 ms, Rm 16, Rc 7; granularity 1 ms; 10 outstanding requests)
        return Cfg { reliable: false, rto: 500_000_000, rm: 16, rc: 7, gran: 1_000_000, limit: 10, mech: *rng.pick(&[0u8, 0, 1, 4]), fp: rng.chance(1, 3), defaults: true };
    }
    if rng.chance(1, 25) {
        // many retransmissions of a tiny RTO: the doubling multiplier passes 2^31 within seconds (Rc >= 32 overflowed a u32, D9)
        return Cfg { reliable: false, rto: *rng.pick(&[1u64, 2, 3, 1000]), rm: *rng.pick(&[16u32, 1, 3]), rc: *rng.pick(&[31u32, 32, 33, 34, 40, 64]),
                     gran: *rng.pick(&[1u64, 0, 1_000_000]), limit: *rng.pick(&[1usize, 2, 10]), mech: *rng.pick(&[0u8, 0, 1, 4]), fp: rng.chance(1, 3), defaults: false };
    }
    if rng.chance(1, 16) {
        // extreme but legal configurations: RTOs of a minute to an hour (or a nanosecond), Rm / Rc of 0, 1 or very large, no or a
        // huge clock granularity, limits 0 / 1 / "unlimited"
        return Cfg { reliable: rng.chance(1, 5), rto: *rng.pick(&[61_000_000_000u64, 90_000_000_000, 240_000_000_000, 3_600_000_000_000, 1]),
                     rm: *rng.pick(&[0u32, 1, 16, 1000]), rc: *rng.pick(&[0u32, 1, 2, 7]),
                     gran: *rng.pick(&[0u64, 1_000_000, 10_000_000_000]), limit: *rng.pick(&[0usize, 1, 10, 4_000_000_000, usize::MAX]),
                     mech: *rng.pick(&[0u8, 0, 1, 4]), fp: rng.chance(1, 3), defaults: false };
    }
    let reliable = rng.chance(1, 4);
    let rto = *rng.pick(&[1_000_000u64, 20_000_000, 500_000_000, 500_000_000, 3_000_000_000, 7_300_001]);
    Cfg {
        reliable,
        rto,
        rm: *rng.pick(&[16u32, 16, 1, 2, 3, 32, 7]),
        rc: *rng.pick(&[7u32, 7, 1, 2, 3, 4, 10, 5]),
        gran: *rng.pick(&[1_000_000u64, 0, 10_000_000]),
        limit: *rng.pick(&[0usize, 1, 1, 2, 2, 3, 4, 10]),
        mech: *rng.pick(&[0u8, 0, 1, 1, 2, 3, 4, 4, 4]),
        fp: rng.chance(1, 3),
        defaults: false,
    }
}

fn gen_app(rng: &mut Rng) -> Vec<A> {
    let n = rng.below(6) as usize;
    (0..n)
        .map(|_| match rng.below(16) {
            0..=3 => A::App(T_SOFTWARE, rng.below(3) as u32),
            4..=5 => A::App(T_PRIORITY, rng.below(3) as u32),
            6 => A::App(T_USE_CANDIDATE, 0),
            7 => A::UserName(5),
            8 => A::Realm(77),
            9 => A::Nonce(88, 0),
            10 => A::Mi(KeyD::St(9)),
            11 => A::Sha(KeyD::St(9)),
            12 => A::Fp(true),
            13 => A::PwdAlg(Alg::Md5),
            14 => A::PwdAlgs(vec![Alg::Md5]),
            _ => A::UserHash(5, 77),
        })
        .collect()
}

fn pick_key(rng: &mut Rng, mech: u8, srv: &Server) -> KeyD {
    let good_key = match mech {
        4 => KeyD::Lt(srv.realm, 0, srv.alg.clone()),
        _ => KeyD::St(0),
    };
    match rng.below(10) {
        0 => KeyD::Corrupt,
        1 => match &good_key { KeyD::Lt(r, _, a) => KeyD::Lt(*r, 1, a.clone()), _ => KeyD::St(1) },
        2 if mech == 4 => KeyD::Lt(srv.realm + 1, 0, srv.alg.clone()),
        3 if mech == 4 => KeyD::Lt(srv.realm, 0, if srv.alg == Alg::Md5 { Alg::Sha256 } else { Alg::Md5 }),
        _ => good_key,
    }
}

struct Server {
    realm: u32,
    nonce: u32,
    algs: Option<Vec<Alg>>,
    alg: Alg,
}

/// a reply of the fake server / attacker for a client with the given mechanism
fn gen_reply(rng: &mut Rng, cfg: &Cfg, run: &Run, srv: &mut Server, now: u64) -> Op {
    // target id: outstanding (mostly), finished, unknown
    let id = if !run.outstanding.is_empty() && rng.chance(7, 10) {
        *rng.pick(&run.outstanding)
    } else if !run.finished.is_empty() && rng.chance(1, 2) {
        *rng.pick(&run.finished)
    } else {
        1000 + rng.below(3) as u32
    };
    let class = if cfg.mech == 4 { *rng.pick(&[2u8, 2, 3, 3, 3, 3, 1, 0]) } else { *rng.pick(&[2u8, 2, 2, 3, 3, 1, 0]) };
    let method = 1u16;
    let mut attrs: Vec<A> = vec![];
    for _ in 0..rng.below(3) {
        attrs.push(A::App(T_SOFTWARE, rng.below(3) as u32));
    }
    if cfg.mech == 4 && class == 3 {
        // long-term error responses
        let code = *rng.pick(&[401u16, 401, 401, 438, 438, 400, 500, 420]);
        if !rng.chance(1, 12) {
            attrs.push(A::ErrorCode(code));
        }
        if code == 401 {
            // a consistent server re-challenges with the same realm and algorithm list most of the time
            let keep = srv.nonce > 0 && rng.chance(1, 2);
            if !keep && rng.chance(1, 3) { srv.realm = *rng.pick(&[1u32, 2]) }
            srv.nonce += 1;
            let with_algs = if keep { srv.algs.is_some() } else { rng.chance(1, 2) };
            if !keep {
                srv.algs = if with_algs {
                    Some(rng.pick(&[vec![Alg::Md5, Alg::Sha256], vec![Alg::Sha256], vec![Alg::Md5], vec![Alg::Other(7), Alg::Md5], vec![Alg::Other(7)], vec![Alg::Sha256, Alg::Md5], vec![]]).clone())
                } else {
                    None
                };
            }
            srv.alg = match &srv.algs {
                None => Alg::Md5,
                Some(l) => if l.contains(&Alg::Sha256) { Alg::Sha256 } else { Alg::Md5 },
            };
            let cookie = if with_algs { *rng.pick(&[2u32, 2, 4, 4, 0, 1]) } else { *rng.pick(&[0u32, 0, 1, 3, 3, 2, 5, 6]) };
            if !rng.chance(1, 10) { attrs.push(A::Realm(srv.realm)) }
            if !rng.chance(1, 10) { attrs.push(A::Nonce(srv.nonce, cookie)) }
            if let Some(l) = &srv.algs { attrs.push(A::PwdAlgs(l.clone())) }
            // a duplicated PASSWORD-ALGORITHMS (the first one wins, and what follows it must still be read)
            if srv.algs.is_some() && rng.chance(1, 6) { attrs.push(A::PwdAlgs(rng.pick(&[vec![Alg::Md5], vec![Alg::Sha256, Alg::Md5], vec![Alg::Other(7)], vec![]]).clone())) }
            // the three challenge attributes in any order (each handler must be independent of the position of the others)
            if rng.chance(1, 3) { let n0 = attrs.len() - attrs.iter().rev().take_while(|a| matches!(a, A::Realm(_) | A::Nonce(..) | A::PwdAlgs(_))).count(); let k = attrs.len() - n0; for i in (1..k).rev() { let j = rng.below((i + 1) as u64) as usize; attrs.swap(n0 + i, n0 + j); } }
            if rng.chance(1, 8) { attrs.push(A::Realm(srv.realm + 5)) } // duplicate realm: the first one wins
            if rng.chance(1, 6) { attrs.push(A::Nonce(srv.nonce + 50, *rng.pick(&[0u32, 1, 2, 3, 4, 5]))) } // duplicate nonce with other feature bits: the first one wins
        } else if code == 438 {
            srv.nonce += 1;
            // RFC 8489 9.2.4: a 438 carries REALM and NONCE (and the algorithm list); a stale-nonce reply only renews the nonce,
            // so a REALM or list that differs from the challenge's must not be picked up on its own (the key is derived per realm)
            if rng.chance(1, 2) { attrs.push(A::Realm(if rng.chance(1, 2) { srv.realm } else { *rng.pick(&[1u32, 2, 3]) })) }
            if !rng.chance(1, 8) { attrs.push(A::Nonce(srv.nonce, *rng.pick(&[0u32, 1, 2, 6]))) }
            if rng.chance(1, 4) { attrs.push(A::PwdAlgs(rng.pick(&[vec![Alg::Md5, Alg::Sha256], vec![Alg::Sha256], vec![Alg::Md5], vec![]]).clone())) }
        }
        if rng.chance(1, 2) {
            let k = pick_key(rng, cfg.mech, srv);
            if srv.algs.is_some() { attrs.push(A::Sha(k)) } else { attrs.push(A::Mi(k)) }
        }
    } else if cfg.mech != 0 {
        if class == 3 { attrs.push(A::ErrorCode(*rng.pick(&[400u16, 420, 500]))) }
        match rng.below(9) {
            0 => {}
            1 | 2 => attrs.push(A::Mi(pick_key(rng, cfg.mech, srv))),
            3 | 4 => attrs.push(A::Sha(pick_key(rng, cfg.mech, srv))),
            5 => { attrs.push(A::Mi(pick_key(rng, cfg.mech, srv))); attrs.push(A::Sha(pick_key(rng, cfg.mech, srv))) }
            6 => { attrs.push(A::Sha(pick_key(rng, cfg.mech, srv))); attrs.push(A::Mi(pick_key(rng, cfg.mech, srv))) }
            _ => {
                // the kind the long-term server agreed, or a random one for short-term
                let k = pick_key(rng, cfg.mech, srv);
                if cfg.mech == 4 { if srv.algs.is_some() { attrs.push(A::Sha(k)) } else { attrs.push(A::Mi(k)) } }
                else if rng.chance(1, 2) { attrs.push(A::Mi(k)) } else { attrs.push(A::Sha(k)) }
            }
        }
    } else if class == 3 {
        attrs.push(A::ErrorCode(400));
    }
    // FINGERPRINT: valid, corrupted, absent or misplaced
    let fp_mode = if cfg.fp { rng.below(8) } else { rng.below(24) };
    match fp_mode {
        0 => {}
        1 => attrs.push(A::Fp(false)),
        2 => { attrs.push(A::Fp(true)); attrs.push(A::App(T_SOFTWARE, 7)) }
        3 => { attrs.insert(0, A::Fp(true)) }
        4..=7 => attrs.push(A::Fp(true)),
        _ => {}
    }
    let _ = now;
    Op::Recv { now, decodable: !rng.chance(1, 15), class, method, id, attrs }
}

/// long send / response sequences for the RTO estimator (C15): delays from 1 ms to beyond the first retransmission,
/// idle gaps around the 600 s staleness boundary
fn gen_rtt_history(rng: &mut Rng, out: &mut Out, stats: &mut HashMap<String, u64>) {
    let rto = *rng.pick(&[500_000_000u64, 100_000_000, 1_000_000_000, 37_000_001, 600_000_000, 300_000_000]);
    let cfg = Cfg { reliable: false, rto, rm: 16, rc: 7, gran: *rng.pick(&[1_000_000u64, 0, 50_000_000]), limit: 10, mech: 0, fp: false, defaults: false };
    out.rec(&header_of(&cfg));
    let mut run = Run::new(cfg.clone());
    let mut now: u64 = 5;
    let mut prev_send: Option<u64> = None;      // when the previous request was sent
    let mut prev_last_tx: u64 = 0;              // when it was last (re)transmitted
    let n = rng.range(20, 150);
    for _ in 0..n {
        // idle gap before the request. The estimator goes stale when MORE than 600 s have passed since the previous
        // request was SENT: the boundary values are taken relative to that instant (exactly 600 s, one nanosecond either
        // side, and a point inside the retransmission window of the previous request, i.e. before its last transmission
        // + 600 s), besides long and ordinary gaps
        let base = prev_send.unwrap_or(now);
        let target = match rng.below(14) {
            0 => base + 600_000_000_000,
            1 => base + 600_000_000_001,
            2 => base + 599_999_999_999,
            3 => base + 600_000_000_001 + rng.below(prev_last_tx.saturating_sub(base).max(1)),
            4 => base + 600_000_000_000 + prev_last_tx.saturating_sub(base),
            5 => base + 600_000_000_001 + prev_last_tx.saturating_sub(base),
            6 => now + 1_300_000_000_000,
            _ => now + rng.range(1, 2_000_000_000),
        };
        now = target.max(now + 1);
        prev_send = Some(now);
        prev_last_tx = now;
        run.apply(out, &Op::Send { now, method: 1, room: 1, attrs: vec![] });
        let Some(&id) = run.outstanding.last() else { continue };
        // response delay: mostly well below the RTO, sometimes beyond the first retransmission
        let delay = match rng.below(9) {
            0 => rng.range(1, 3) * 1_000_000_000,
            1 => 1_000_000,
            // a first sample of exactly a third of the configured RTO makes the computed RTO equal the configured one
            8 => (cfg.rto / 3).max(1),
            _ => rng.range(1_000_000, 400_000_000),
        };
        let mut t = now;
        while let Some(a) = run.armed {
            if a > now + delay { break }
            t = a.max(t);
            run.apply(out, &Op::Tmo { now: t });
            if !run.outstanding.contains(&id) { break }
            prev_last_tx = t;
        }
        now = (now + delay).max(t + 1);
        if run.outstanding.contains(&id) {
            run.apply(out, &Op::Recv { now, decodable: true, class: 2, method: 1, id, attrs: vec![] });
        }
        *stats.entry("rtt_transactions".into()).or_insert(0) += 1;
    }
    *stats.entry("rtt_histories".into()).or_insert(0) += 1;
}

/// long-term "stories": the handshake is driven to the authenticated state (401 challenge, retry, authenticated
/// success) and then varied step by step, so that the states behind the handshake (cached parameters, 438, a second 401
/// with other parameters, malformed challenges, wrongly keyed or stray responses) are reached in most histories instead
/// of by luck
fn gen_lt_history(rng: &mut Rng, out: &mut Out, stats: &mut HashMap<String, u64>) {
    let mut cfg = gen_cfg(rng);
    cfg.mech = 4;
    cfg.defaults = false;
    if cfg.limit < 2 { cfg.limit = 3 }
    out.rec(&header_of(&cfg));
    let mut run = Run::new(cfg.clone());
    let mut now: u64 = rng.below(1000);
    let step = (cfg.rto / 5).max(1);
    let mut srv = Server { realm: 1, nonce: 0, algs: None, alg: Alg::Md5 };
    let challenge = |rng: &mut Rng, srv: &mut Server, change: bool| -> Vec<A> {
        if change {
            srv.algs = rng.pick(&[None, Some(vec![Alg::Md5, Alg::Sha256]), Some(vec![Alg::Sha256]), Some(vec![Alg::Md5]), Some(vec![Alg::Other(7), Alg::Md5])]).clone();
            srv.alg = match &srv.algs { None => Alg::Md5, Some(l) => if l.contains(&Alg::Sha256) { Alg::Sha256 } else { Alg::Md5 } };
        }
        srv.nonce += 1;
        let cookie = if srv.algs.is_some() { *rng.pick(&[2u32, 4, 2, 4, 1]) } else { *rng.pick(&[0u32, 1, 3, 0, 3]) };
        let mut a = vec![A::ErrorCode(401), A::Realm(srv.realm), A::Nonce(srv.nonce, cookie)];
        if let Some(l) = &srv.algs { a.push(A::PwdAlgs(l.clone())) }
        // a second NONCE whose cookie carries other feature bits (the first one counts), sometimes a second REALM
        if rng.chance(1, 4) { a.push(A::Nonce(srv.nonce + 50, *rng.pick(&[0u32, 1, 2, 3, 4]))) }
        if rng.chance(1, 8) { a.push(A::Realm(srv.realm + 5)) }
        a
    };
    let signed = |srv: &Server, mut a: Vec<A>, key: KeyD| -> Vec<A> { if srv.algs.is_some() { a.push(A::Sha(key)) } else { a.push(A::Mi(key)) } a };
    let good = |srv: &Server| KeyD::Lt(srv.realm, 0, srv.alg.clone());
    let mut send = |run: &mut Run, out: &mut Out, rng: &mut Rng, now: &mut u64| -> Option<u32> {
        *now += step;
        run.apply(out, &Op::Send { now: *now, method: 1, room: 1, attrs: if rng.chance(1, 4) { gen_app(rng) } else { vec![] } });
        run.outstanding.last().copied()
    };
    let reply = |run: &mut Run, out: &mut Out, now: &mut u64, id: u32, class: u8, attrs: Vec<A>| {
        *now += step / 2 + 1;
        run.apply(out, &Op::Recv { now: *now, decodable: true, class, method: 1, id, attrs });
    };
    // handshake
    if let Some(id) = send(&mut run, out, rng, &mut now) { let a = challenge(rng, &mut srv, true); reply(&mut run, out, &mut now, id, 3, a) }
    if let Some(id) = send(&mut run, out, rng, &mut now) { let k = good(&srv); let a = signed(&srv, vec![], k); reply(&mut run, out, &mut now, id, 2, a) }
    // variations
    for _ in 0..rng.range(3, 12) {
        let Some(id) = send(&mut run, out, rng, &mut now) else { continue };
        let fp = if cfg.fp { vec![A::Fp(true)] } else { vec![] };
        let with_fp = |mut a: Vec<A>| -> Vec<A> { a.extend(fp.clone()); a };
        match rng.below(14) {
            12 | 13 => {
                // a forged response first (on unreliable transport it leaves the protection-violated marker), then replies that
                // must be REJECTED although their integrity verifies (a 438 without NONCE, a 401 without REALM, a success with
                // both integrity kinds): a rejected buffer changes nothing, the marker included; then the timer runs to the end
                reply(&mut run, out, &mut now, id, *rng.pick(&[2u8, 3]), with_fp(signed(&srv, vec![], KeyD::Lt(srv.realm, 1, srv.alg.clone()))));
                let k = good(&srv);
                let a = match rng.below(3) {
                    0 => signed(&srv, vec![A::ErrorCode(438)], k),
                    1 => signed(&srv, vec![A::ErrorCode(401), A::Nonce(srv.nonce + 70, 0)], k),
                    _ => vec![A::Mi(k.clone()), A::Sha(k)],
                };
                let cls = if a.iter().any(|x| matches!(x, A::ErrorCode(_))) { 3 } else { 2 };
                reply(&mut run, out, &mut now, id, cls, with_fp(a));
                let mut guard = 0;
                while let Some(a) = run.armed { guard += 1; if guard > 14 || !run.outstanding.contains(&id) { break } now = now.max(a); run.apply(out, &Op::Tmo { now }); }
            }
            0 | 1 => { let k = good(&srv); reply(&mut run, out, &mut now, id, 2, with_fp(signed(&srv, vec![], k))) }
            2 => { let k = good(&srv); reply(&mut run, out, &mut now, id, 3, with_fp(signed(&srv, vec![A::ErrorCode(400)], k))) }
            3 => { // malformed challenge: realm or nonce missing (must be discarded and change nothing)
                let mut a = challenge(rng, &mut srv, false);
                srv.nonce -= 1;
                a.remove(if rng.chance(1, 2) { 1 } else { 2 });
                reply(&mut run, out, &mut now, id, 3, with_fp(a))
            }
            4 | 5 => { let change = rng.chance(1, 2); if change && rng.chance(1, 4) { srv.realm = 3 - srv.realm.min(2) } let a = challenge(rng, &mut srv, change); reply(&mut run, out, &mut now, id, 3, with_fp(a)) }
            6 | 7 => { // stale nonce, authenticated or not
                srv.nonce += 1;
                let mut a = vec![A::ErrorCode(438)];
                if rng.chance(1, 2) { a.push(A::Realm(if rng.chance(1, 2) { srv.realm } else { 3 - srv.realm.min(2) })) }
                a.push(A::Nonce(srv.nonce, *rng.pick(&[0u32, 1, 2, 3, 4])));
                if rng.chance(1, 4) { a.push(A::PwdAlgs(rng.pick(&[vec![Alg::Md5, Alg::Sha256], vec![Alg::Sha256], vec![Alg::Md5]]).clone())) }
                let a = if rng.chance(1, 2) { let k = good(&srv); signed(&srv, a, k) } else { a };
                reply(&mut run, out, &mut now, id, 3, with_fp(a))
            }
            8 => { let k = pick_key(rng, 4, &srv); reply(&mut run, out, &mut now, id, 2, with_fp(signed(&srv, vec![], k))) }
            9 => reply(&mut run, out, &mut now, id, 1, with_fp(vec![])),               // an indication with the id of the request
            10 => { // a stray copy for a finished transaction, then the real answer
                if let Some(&old) = run.finished.last() { let a = challenge(rng, &mut srv, true); reply(&mut run, out, &mut now, old, 3, with_fp(a)) }
                let k = good(&srv); reply(&mut run, out, &mut now, id, 2, with_fp(signed(&srv, vec![], k)))
            }
            _ => { // nothing arrives: let the timer run once or to the end
                let mut guard = 0;
                while let Some(a) = run.armed { guard += 1; if guard > 12 || !run.outstanding.contains(&id) { break } now = now.max(a); run.apply(out, &Op::Tmo { now }); if rng.chance(1, 3) { break } }
            }
        }
    }
    *stats.entry("lt_stories".into()).or_insert(0) += 1;
    *stats.entry("finished_transactions".into()).or_insert(0) += run.finished.len() as u64;
}

fn gen_history(rng: &mut Rng, out: &mut Out, stats: &mut HashMap<String, u64>) {
    if rng.chance(1, 10) {
        return gen_rtt_history(rng, out, stats);
    }
    if rng.chance(1, 8) {
        return gen_lt_history(rng, out, stats);
    }
    let cfg = gen_cfg(rng);
    out.rec(&header_of(&cfg));
    let mut run = Run::new(cfg.clone());
    let nops = rng.range(8, 60);
    let mut now: u64 = rng.below(1000);
    let mut srv = Server { realm: 1, nonce: 0, algs: None, alg: Alg::Md5 };
    let unit = cfg.rto.max(1);
    for _ in 0..nops {
        let w = rng.below(12);
        let op = if w < 3 {
            if rng.chance(1, 3) { /* same instant as the previous operation */ } else { now += *rng.pick(&[0, 1, 1_000_000, unit / 2, unit, unit * 3, 601_000_000_000]) / if rng.chance(1, 2) { 1 } else { 7 }; }
            Op::Send { now, method: *rng.pick(&[1u16, 3, 0xFFF]), room: *rng.pick(&[1u8, 1, 1, 1, 1, 1, 1, 1, 1, 1, 1, 1, 1, 1, 1, 1, 1, 1, 1, 1, 1, 1, 1, 1, 1, 1, 1, 0, 0, 2]), attrs: gen_app(rng) }
        } else if w < 4 {
            Op::Ind { method: 1, room: *rng.pick(&[1u8, 1, 1, 1, 1, 1, 1, 1, 1, 1, 1, 1, 1, 1, 1, 1, 1, 1, 1, 1, 1, 1, 1, 1, 1, 1, 1, 0, 0, 2]), attrs: gen_app(rng) }
        } else if w < 8 {
            // the controller fires its timer: on time, early, or late by various amounts
            let target = run.armed.unwrap_or(now + unit);
            let t = match rng.below(10) {
                0..=3 => target,
                4 => target.saturating_sub(*rng.pick(&[1, 1_000_000, unit / 2])),
                5 => target + 1,
                6 => target + 1_000_000,
                7 => target + unit / 2,
                8 => target + unit * 3,
                _ => target + unit * (1 << cfg.rc.min(12)) * cfg.rm as u64,
            };
            now = now.max(t);
            Op::Tmo { now }
        } else {
            now += *rng.pick(&[0, 1, 1_000_000, unit / 3, unit]);
            gen_reply(rng, &cfg, &run, &mut srv, now)
        };
        *stats.entry(match &op { Op::Send { .. } => "send", Op::Ind { .. } => "ind", Op::Recv { .. } => "recv", Op::Tmo { .. } => "tmo" }.to_string()).or_insert(0) += 1;
        run.apply(out, &op);
    }
    *stats.entry(format!("mech{}", cfg.mech)).or_insert(0) += 1;
    *stats.entry(if cfg.reliable { "reliable" } else { "unreliable" }.to_string()).or_insert(0) += 1;
    *stats.entry("finished_transactions".into()).or_insert(0) += run.finished.len() as u64;
}

fn replay(lines: Vec<String>, out: &mut Out) {
    let mut run: Option<Run> = None;
    for l in lines {
        let f: Vec<&str> = l.split(' ').collect();
        match f[0] {
            "H" => {
                let cfg = Cfg {
                    reliable: f[1] == "1", rto: f[2].parse().unwrap(), rm: f[3].parse().unwrap(), rc: f[4].parse().unwrap(),
                    gran: f[5].parse().unwrap(), limit: f[6].parse().unwrap(), mech: f[7].parse().unwrap(), fp: f[8] == "1", defaults: f.get(9) == Some(&"d"),
                };
                out.rec(&header_of(&cfg));
                run = Some(Run::new(cfg));
            }
            "O" => {
                let r = run.as_mut().expect("H first");
                let op = match f[1] {
                    "S" => Op::Send { now: f[2].parse().unwrap(), method: f[5].parse().unwrap(), room: f[6].parse().unwrap(), attrs: parse_toks(f[7]) },
                    "N" => Op::Ind { method: f[3].parse().unwrap(), room: f[4].parse().unwrap(), attrs: parse_toks(f[5]) },
                    "R" => Op::Recv { now: f[2].parse().unwrap(), decodable: f[3] == "1", class: f[4].parse().unwrap(), method: f[5].parse().unwrap(), id: f[6].parse().unwrap(), attrs: parse_toks(f[7]) },
                    _ => Op::Tmo { now: f[2].parse().unwrap() },
                };
                r.apply(out, &op);
            }
            _ => {}
        }
    }
}

fn main() {
    let args = Args::parse();
    let mut out = args.writer();
    let glue = args.get("glue").is_some();
    if let Some(lines) = args.replay_lines() {
        if glue {
            *GLUE.lock().unwrap() = Some((vec![], 0, 1));
            for l in &lines {
                let f: Vec<&str> = l.split(' ').collect();
                if f.len() >= 5 && f[0] == "C" && f[1] == "P" { glue_replay(&f) }
            }
            for l in &GLUE.lock().unwrap().take().unwrap().0 { out.rec(l) }
        } else {
            replay(lines, &mut out);
        }
        out.finish();
        return;
    }
    if glue {
        *GLUE.lock().unwrap() = Some((vec![], 0, if args.thorough { 200 } else { 25 }));
        out = Out::sink();
    }
    let mut rng = args.rng(0xA6E7);
    let total = args.get("histories").map(|s| s.parse().unwrap()).unwrap_or(if args.thorough { 120000 } else { 1600 });
    let mine = total / args.shards + if args.shard < total % args.shards { 1 } else { 0 };
    let mut stats = HashMap::new();
    for _ in 0..mine {
        gen_history(&mut rng, &mut out, &mut stats);
    }
    let mut s: Vec<String> = stats.iter().map(|(k, v)| format!("{}={}", k, v)).collect();
    s.sort();
    if glue {
        let mut real = args.writer();
        let (v, seen, stride) = GLUE.lock().unwrap().take().unwrap();
        for l in &v { real.rec(l) }
        real.note(&format!("suite=absglue packets_seen={} stride={} records={}", seen, stride, v.len() / 2));
        real.finish();
        return;
    }
    out.note(&format!("suite=agent histories={} {}", mine, s.join(" ")));
    out.finish();
}
