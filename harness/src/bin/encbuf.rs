//! Suite `encbuf` (C14): messages encoded into caller buffers of every length around the needed size, pre-filled with
//! different patterns; attribute lists whose encoded size sits around and beyond the 16-bit limit.
//! Record  C <method> <class> <txid hex> <buflen> <fill 0|255|r> <attrs>     attrs: p<type>.<value hex>  m<key hex>  s<key hex>  f
//! Result  I OK <size> <md5 of the whole buffer afterwards>  |  ERR  |  PANIC
//! Facts   J tail=<0|1>   (after OK: buffer[size..] is still the pre-filled content)
//!         J indep=<0|1>  (the same message encoded into a buffer with every byte inverted gives the same result and bytes)
//! Record  C T <method> <class> <txid hex> <buflen> <fill> v<type>:<value token>...   messages of TYPED attribute values (all
//!         kinds of the attrval generators: nested / padded encoders such as PASSWORD-ALGORITHMS, ERROR-CODE, addresses)
use rustun_verif_harness::*;
use stun_rs::attributes::stun::*;
use stun_rs::*;

#[allow(dead_code)]
#[path = "attrval.rs"]
mod av;

#[derive(Clone)]
enum E {
    Plain(u16, Vec<u8>),
    Mi(Vec<u8>),
    Sha(Vec<u8>),
    Fp,
}
fn tok(e: &E) -> String {
    match e {
        E::Plain(t, v) => format!("p{}.{}", t, hex(v)),
        E::Mi(k) => format!("m{}", hex(k)),
        E::Sha(k) => format!("s{}", hex(k)),
        E::Fp => "f".into(),
    }
}
fn attr_of(e: &E) -> StunAttribute {
    match e {
        E::Plain(0x0013, v) => stun_rs::attributes::turn::Data::new(v).into(),
        E::Plain(0x8022, v) => Software::new(String::from_utf8(v.clone()).unwrap()).unwrap().into(),
        E::Plain(0x0024, v) => stun_rs::attributes::ice::Priority::from(u32::from_be_bytes(v[..4].try_into().unwrap())).into(),
        E::Plain(0x0025, _) => stun_rs::attributes::ice::UseCandidate::default().into(),
        E::Plain(0x8030, v) => stun_rs::attributes::mobility::MobilityTicket::new(v).into(),
        E::Plain(t, v) => panic!("no constructor for {} {:?}", t, v.len()),
        E::Mi(k) => MessageIntegrity::new(HMACKey::new_short_term(std::str::from_utf8(k).unwrap()).unwrap()).into(),
        E::Sha(k) => MessageIntegritySha256::new(HMACKey::new_short_term(std::str::from_utf8(k).unwrap()).unwrap()).into(),
        E::Fp => Fingerprint::default().into(),
    }
}
fn size_of(l: &[E]) -> usize {
    20 + l.iter().map(|e| { let n = match e { E::Plain(_, v) => v.len(), E::Mi(_) => 20, E::Sha(_) => 32, E::Fp => 4 }; 4 + n + wire::pad(n) }).sum::<usize>()
}
fn fill(buflen: usize, f: &str) -> Vec<u8> {
    match f {
        "0" => vec![0; buflen],
        "255" => vec![255; buflen],
        _ => (0..buflen).map(|i| ((i * 131 + 7) % 256) as u8).collect(),
    }
}
fn encode_and_report(out: &mut Out, msg: &StunMessage, buflen: usize, f: &str) {
    let mut buf = fill(buflen, f);
    let r = guarded(|| MessageEncoderBuilder::default().build().encode(&mut buf, msg));
    // the same message into a buffer whose every byte is inverted: same outcome, same size, same bytes written
    let mut inv: Vec<u8> = fill(buflen, f).iter().map(|b| !b).collect();
    let r2 = guarded(|| MessageEncoderBuilder::default().build().encode(&mut inv, msg));
    let same = match (&r, &r2) {
        (Ok(Ok(n)), Ok(Ok(m))) => n == m && *n <= buflen && buf[..*n] == inv[..*n],
        (Ok(Err(_)), Ok(Err(_))) => true,
        (Err(()), Err(())) => true,
        _ => false,
    };
    match r {
        Err(()) => { out.imp("PANIC"); out.rec(&format!("J indep={}", same as u8)) }
        Ok(Err(_)) => { out.imp("ERR"); out.rec(&format!("J indep={}", same as u8)) }
        Ok(Ok(n)) => {
            out.imp(&format!("OK {} {:x}", n, md5::compute(&buf)));
            // bytes beyond the returned size: still the pre-filled ones?
            let before = fill(buflen, f);
            out.rec(&format!("J tail={} indep={}", (n <= buflen && buf[n..] == before[n..]) as u8, same as u8));
        }
    }
}
fn run_case(out: &mut Out, method: u16, class: u8, txid: &[u8; 12], buflen: usize, f: &str, l: &[E]) {
    out.rec(&format!("C {} {} {} {} {} {}", method, class, hex(txid), buflen, f,
        if l.is_empty() { "-".to_string() } else { l.iter().map(tok).collect::<Vec<_>>().join(",") }));
    let cls = [MessageClass::Request, MessageClass::Indication, MessageClass::SuccessResponse, MessageClass::ErrorResponse][class as usize];
    let mut b = StunMessageBuilder::new(MessageMethod::try_from(method).unwrap(), cls).with_transaction_id(TransactionId::from(*txid));
    for e in l { b = b.with_attribute(attr_of(e)) }
    encode_and_report(out, &b.build(), buflen, f);
}
fn build_typed(method: u16, class: u8, txid: &[u8; 12], specs: &[String]) -> Option<StunMessage> {
    let cls = [MessageClass::Request, MessageClass::Indication, MessageClass::SuccessResponse, MessageClass::ErrorResponse][class as usize];
    let mut b = StunMessageBuilder::new(MessageMethod::try_from(method).unwrap(), cls).with_transaction_id(TransactionId::from(*txid));
    for s in specs {
        let (ty, tok) = s[1..].split_once(':')?;
        let a = guarded(|| av::build_stored(ty.parse().ok()?, tok)).ok()??;
        b = b.with_attribute(a);
    }
    Some(b.build())
}
fn run_typed(out: &mut Out, method: u16, class: u8, txid: &[u8; 12], buflen: usize, f: &str, specs: &[String]) {
    out.rec(&format!("C T {} {} {} {} {} {}", method, class, hex(txid), buflen, f, specs.join(" ")));
    match build_typed(method, class, txid, specs) {
        Some(msg) => encode_and_report(out, &msg, buflen, f),
        None => { out.imp("UNBUILDABLE"); out.rec("J") }
    }
}
/// typed attribute values within the documented limits (as in suite codecrt), with the structured encoders over-represented
fn gen_typed(rng: &mut Rng, round: u64, txid: &[u8; 12]) -> Vec<String> {
    let structured: Vec<usize> = (0..38).filter(|k| matches!(av::KINDS[*k].0, 0x8002 | 0x001D | 0x0009 | 0x8001 | 0x000A | 0x0001 | 0x0020 | 0x8004 | 0x0006 | 0x0014)).collect();
    let mut specs = vec![];
    *av::TXID_HINT.lock().unwrap() = *txid;
    for _ in 0..rng.range(1, 4) {
        let k = if rng.chance(2, 3) { *rng.pick(&structured) } else { rng.below(38) as usize };
        let (ty, fam) = av::KINDS[k];
        if ty == 0x0008 || ty == 0x001C || ty == 0x8028 { continue }
        let cands = av::gen_specs(rng, round, ty, fam, false);
        // the implementation under test must not decide which cases are generated: a value it fails to encode (it should not:
        // the values are within the documented limits) is kept, so that the model and the monitor judge the failure; only
        // values that DO encode to more than 600 bytes are left out, to keep the messages small
        let ok: Vec<String> = cands.iter().filter_map(|t| match guarded(|| av::build(ty, t)) {
            Ok(Some(a)) => match av::encode_value(&a, txid, 66000) { Ok(Some(ref v)) if v.len() > 600 => None, _ => Some(av::render(&a)) },
            _ => None }).filter(|r| !r.contains(".s-") && !r.ends_with(":s-") && !r.contains(' ')).collect();
        if ok.is_empty() { continue }
        let tok = rng.pick(&ok).clone();
        if !matches!(guarded(|| av::build_stored(ty, &tok)), Ok(Some(_))) { continue }
        specs.push(format!("v{}:{}", ty, tok));
    }
    specs
}
fn parse_attrs(s: &str) -> Vec<E> {
    if s == "-" { return vec![] }
    s.split(',').map(|t| {
        let (h, r) = t.split_at(1);
        match h {
            "p" => { let (ty, v) = r.split_once('.').unwrap(); E::Plain(ty.parse().unwrap(), unhex(v)) }
            "m" => E::Mi(unhex(r)),
            "s" => E::Sha(unhex(r)),
            _ => E::Fp,
        }
    }).collect()
}
fn gen_small(rng: &mut Rng) -> Vec<E> {
    let mut l = vec![];
    for _ in 0..rng.below(4) {
        l.push(match rng.below(5) {
            0 => { let n = rng.below(12) as usize; E::Plain(0x0013, rng.bytes(n)) }
            1 => { let n = rng.below(9) as usize; E::Plain(0x8022, (0..n).map(|_| b'a' + rng.below(26) as u8).collect()) }
            2 => E::Plain(0x0024, rng.bytes(4)),
            3 => E::Plain(0x0025, vec![]),
            _ => { let n = rng.below(7) as usize; E::Plain(0x8030, rng.bytes(n)) }
        });
    }
    let tail = *rng.pick(&["", "", "M", "S", "F", "MS", "MF", "SF", "MSF"]);
    for c in tail.bytes() { l.push(match c { b'M' => E::Mi(b"pw".to_vec()), b'S' => E::Sha(b"pw".to_vec()), _ => E::Fp }) }
    l
}
fn main() {
    let args = Args::parse();
    let mut out = args.writer();
    if let Some(lines) = args.replay_lines() {
        for l in lines {
            let f: Vec<&str> = l.split(' ').collect();
            if f[0] == "C" && f[1] == "T" {
                let txid: [u8; 12] = unhex(f[4]).try_into().unwrap();
                let specs: Vec<String> = f[7..].iter().map(|x| x.to_string()).collect();
                run_typed(&mut out, f[2].parse().unwrap(), f[3].parse().unwrap(), &txid, f[5].parse().unwrap(), f[6], &specs);
            } else if f[0] == "C" {
                let txid: [u8; 12] = unhex(f[3]).try_into().unwrap();
                run_case(&mut out, f[1].parse().unwrap(), f[2].parse().unwrap(), &txid, f[4].parse().unwrap(), f[5], &parse_attrs(f[6]));
            }
        }
        out.finish();
        return;
    }
    let mut rng = args.rng(0xE2CB);
    let mut idx = 0u64;
    let msgs = if args.thorough { 400 } else { 40 };
    let (mut small, mut large) = (0u64, 0u64);
    for _ in 0..msgs {
        let l = gen_small(&mut rng);
        let need = size_of(&l);
        let txid: [u8; 12] = rng.bytes(12).try_into().unwrap();
        let method = rng.below(0x1000) as u16;
        let class = rng.below(4) as u8;
        for buflen in 0..=need + 8 {
            for f in ["0", "255", "r"] {
                if f != "r" && !(buflen + 2 >= need || buflen % 7 == 0) { continue }
                idx += 1;
                if idx % args.shards != args.shard { continue }
                run_case(&mut out, method, class, &txid, buflen, f, &l);
                small += 1;
            }
        }
    }
    // typed attribute values: every buffer length from 0 to needed + 4 with the byte-pattern fill, the last lengths with all fills
    let tmsgs = if args.thorough { 600 } else { 60 };
    let mut typed = 0u64;
    for i in 0..tmsgs {
        let txid: [u8; 12] = rng.bytes(12).try_into().unwrap();
        let specs = gen_typed(&mut rng, i, &txid);
        if specs.is_empty() { continue }
        let (method, class) = (rng.below(0x1000) as u16, rng.below(4) as u8);
        let Some(msg) = build_typed(method, class, &txid, &specs) else { continue };
        let mut big = vec![0u8; 70000];
        // the size to sweep up to: what the implementation needs for a zeroed buffer, or 300 when it does not encode at all
        let need = match guarded(|| MessageEncoderBuilder::default().build().encode(&mut big, &msg)) { Ok(Ok(n)) => n, _ => 300 };
        for buflen in 0..=need + 4 {
            for f in ["r", "0", "255"] {
                if f != "r" && buflen + 1 < need { continue }
                idx += 1;
                if idx % args.shards != args.shard { continue }
                run_typed(&mut out, method, class, &txid, buflen, f, &specs);
                typed += 1;
            }
        }
    }
    // attribute bytes around the 16-bit limit: DATA chunks
    let targets: Vec<usize> = if args.thorough {
        (65500..=65540).chain([65544, 65548, 66000, 70000, 131072, 200000]).collect()
    } else {
        vec![65500, 65512, 65515, 65516, 65520, 65528, 65532, 65535, 65536, 65540, 70000, 200000]
    };
    for t in targets {
        // attribute bytes t4 = t rounded down to a multiple of 4 (TLVs are padded), split into DATA attributes; the LAST
        // value is 0, 1, 2 or 3 bytes short of alignment (its padding completes t4): the limit must count the padding
        let t4 = t / 4 * 4;
        for k in 0..4usize {
            let mut l = vec![];
            let mut left = t4;
            while left > 0 {
                let chunk = left.min(*rng.pick(&[20004usize, 40000, 65532, 65536, 8]));
                if chunk < 8 { break }
                let last = chunk == left;
                let vlen = chunk - 4 - if last { k } else { 0 };
                l.push(E::Plain(0x0013, vec![(left % 251) as u8; vlen]));
                left -= chunk;
            }
            let need = size_of(&l);
            let txid = [9u8; 12];
            let lens: Vec<usize> = if k == 0 { vec![need, need + 1, need - 1, need + 4096, 70000] } else { vec![need, 70000] };
            for buflen in lens {
                idx += 1;
                if idx % args.shards != args.shard { continue }
                run_case(&mut out, 1, 0, &txid, buflen, "r", &l);
                large += 1;
            }
        }
    }
    // a single value beyond 65,535 bytes
    if args.shard == 0 { run_case(&mut out, 1, 0, &[3u8; 12], 70000, "0", &[E::Plain(0x0013, vec![1u8; 65536])]); large += 1; }
    out.note(&format!("suite=encbuf small_cases={} typed_cases={} large_cases={}", small, typed, large));
    out.finish();
}
