//! Suite `attrval` (C01 / C03 at the level of one attribute value): every typed attribute value decoder and
//! encoder of stun-rs against the Gallina model `Codec/AttrValue.v`.
//!
//! Records (one per line, fields separated by one space, hex lower-case, `-` for empty):
//!   C D <ud:0|1> <txid hex> <type decimal> <value hex>
//!       the raw value wrapped by `wire::Raw` as the single attribute of a Binding request with that
//!       transaction id, decoded by `MessageDecoder` without a context (ud=0) or with a context that has
//!       `with_unknown_data` (ud=1).
//!       result: I OK <token> | I ERR | I PANIC
//!   C E <txid hex> <type decimal> <token> <room decimal>
//!       the attribute described by the token, built through the public constructors, encoded as the single
//!       attribute of a message into a buffer of exactly 20 + 4 + room bytes.
//!       result: I OK <value hex> | I ERR | I PANIC
//!       The value encoder's own result is reported: `MessageEncoder::encode` writes the attribute header only
//!       after the value encoder returned Ok, so a buffer pre-filled with 0xA5 tells "value encoder failed"
//!       (header untouched) from "value encoded, no room for the padding" (header written, length known).
//!       For Encodable MESSAGE-INTEGRITY / -SHA256 / FINGERPRINT the bytes patched in by `post_encode` are
//!       compared with an HMAC / CRC computed here and reported as the zeros the value encoder wrote.
//!
//! Generation: per round and per kind, constructor inputs with boundary lengths / values (`gen_specs`; when a
//! constructor refuses a string that a decoder accepts, e.g. a 600-byte USERNAME, the value is obtained by
//! decoding, so that the encoders' own limits are exercised), every buildable value encoded with rooms
//! {size+padding, size, size-1, random, 0}; its wire form decoded as is and mutated (truncate, extend, flip, overwrite,
//! special byte sequences injected into strings); random and structured raw values; unregistered types.
//! Round 0 adds a seed-independent sweep (`run_systematic`): every kind x every length 0..=36, every ERROR-CODE
//! class / number byte pair, every error code 300..699, every string kind x boundary length x injected sequence.
//!
//! Tokens (the canonical rendering of a value, produced from the decoded `StunAttribute` through its public
//! accessors): addr:<4|6>:<port>:<ip hex>  u16:<n>  u32:<n>  u64:<16 hex digits>  empty  text:<hex>
//! quoted:<hex>  user:<hex>  err:<code>:<reason hex>  aerr:<1|2>:<code>:<reason hex>  alg:<id>:<n|s<hex>>
//! algs:<id>.<n|s<hex>>,...  uattrs:<t>,...  fixed:<hex>  opaque:<hex>  chan:<n>  even:<0|1>  proto:<n>
//! fam:<1|2>  icmp:<type>:<code>:<hex>  mi:<hex>  mienc  sha:<hex>  shaenc  fp:<n>  fpenc
//! unk:<type>:<n|s<hex>>
use rustun_verif_harness::wire::*;
use rustun_verif_harness::*;
use std::net::{IpAddr, Ipv4Addr, Ipv6Addr, SocketAddr};
use stun_rs::attributes::discovery::{ChangeRequest, ChangeRequestFlags, OtherAddress, Padding, ResponseOrigin, ResponsePort};
use stun_rs::attributes::ice::{IceControlled, IceControlling, Priority, UseCandidate};
use stun_rs::attributes::mobility::MobilityTicket;
use stun_rs::attributes::stun::{
    AlternateServer, Fingerprint, MappedAddress, MessageIntegrity, MessageIntegritySha256, Nonce, PasswordAlgorithm,
    PasswordAlgorithms, Realm, Software, UnknownAttributes, UserHash, UserName, XorMappedAddress,
};
use stun_rs::attributes::turn::{
    AdditionalAddressFamily, AddressErrorCode, ChannelNumber, Data, DontFragment, EvenPort, Icmp, IcmpCode, IcmpType,
    LifeTime, RequestedAddressFamily, RequestedTrasport, ReservationToken, XorPeerAddress, XorRelayedAddress,
};
use stun_rs::methods::BINDING;
use stun_rs::protocols::{ProtocolNumber, UDP};
use stun_rs::{
    AddressFamily, Algorithm, AlgorithmId, DecoderContextBuilder, HMACKey, MessageClass, MessageDecoderBuilder,
    MessageEncoderBuilder, StunAttribute, StunAttributeType, StunMessageBuilder, TransactionId,
};

const KEY: &str = "pw";

#[derive(Clone, Copy, PartialEq, Eq, Debug)]
pub enum Fam {
    Addr,
    XorAddr,
    U16,
    U32,
    U64,
    Empty,
    Text,
    Quoted,
    User,
    Err,
    AErr,
    Alg,
    Algs,
    UAttrs,
    Hash,
    Token,
    Opaque,
    Chan,
    Even,
    Proto,
    Family,
    Icmp,
    MI,
    Sha,
    Fp,
    Unknown,
}

/// the 38 registered kinds (type code as the harness believes it; checked against `get_type()` at start)
pub const KINDS: [(u16, Fam); 38] = [
    (0x0001, Fam::Addr),
    (0x0003, Fam::U32),
    (0x0006, Fam::User),
    (0x0008, Fam::MI),
    (0x0009, Fam::Err),
    (0x000A, Fam::UAttrs),
    (0x000C, Fam::Chan),
    (0x000D, Fam::U32),
    (0x0012, Fam::XorAddr),
    (0x0013, Fam::Opaque),
    (0x0014, Fam::Quoted),
    (0x0015, Fam::Quoted),
    (0x0016, Fam::XorAddr),
    (0x0017, Fam::Family),
    (0x0018, Fam::Even),
    (0x0019, Fam::Proto),
    (0x001A, Fam::Empty),
    (0x001C, Fam::Sha),
    (0x001D, Fam::Alg),
    (0x001E, Fam::Hash),
    (0x0020, Fam::XorAddr),
    (0x0022, Fam::Token),
    (0x0024, Fam::U32),
    (0x0025, Fam::Empty),
    (0x0026, Fam::Text),
    (0x0027, Fam::U16),
    (0x8000, Fam::Family),
    (0x8001, Fam::AErr),
    (0x8002, Fam::Algs),
    (0x8004, Fam::Icmp),
    (0x8022, Fam::Text),
    (0x8023, Fam::Addr),
    (0x8028, Fam::Fp),
    (0x8029, Fam::U64),
    (0x802A, Fam::U64),
    (0x802B, Fam::Addr),
    (0x802C, Fam::Addr),
    (0x8030, Fam::Opaque),
];

fn type_codes_from_impl() -> Vec<u16> {
    let mut v = vec![
        MappedAddress::get_type(),
        ChangeRequest::get_type(),
        UserName::get_type(),
        MessageIntegrity::get_type(),
        stun_rs::attributes::stun::ErrorCode::get_type(),
        UnknownAttributes::get_type(),
        ChannelNumber::get_type(),
        LifeTime::get_type(),
        XorPeerAddress::get_type(),
        Data::get_type(),
        Realm::get_type(),
        Nonce::get_type(),
        XorRelayedAddress::get_type(),
        RequestedAddressFamily::get_type(),
        EvenPort::get_type(),
        RequestedTrasport::get_type(),
        DontFragment::get_type(),
        MessageIntegritySha256::get_type(),
        PasswordAlgorithm::get_type(),
        UserHash::get_type(),
        XorMappedAddress::get_type(),
        ReservationToken::get_type(),
        Priority::get_type(),
        UseCandidate::get_type(),
        Padding::get_type(),
        ResponsePort::get_type(),
        AdditionalAddressFamily::get_type(),
        AddressErrorCode::get_type(),
        PasswordAlgorithms::get_type(),
        Icmp::get_type(),
        Software::get_type(),
        AlternateServer::get_type(),
        Fingerprint::get_type(),
        IceControlled::get_type(),
        IceControlling::get_type(),
        ResponseOrigin::get_type(),
        OtherAddress::get_type(),
        MobilityTicket::get_type(),
    ]
    .into_iter()
    .map(|t| t.as_u16())
    .collect::<Vec<u16>>();
    v.sort();
    v
}

// ------------------------------------------------------------------------------------------ rendering

fn opt_tok(p: Option<&[u8]>) -> String {
    match p {
        None => "n".to_string(),
        Some(b) => format!("s{}", hex(b)),
    }
}

fn addr_tok(a: &SocketAddr) -> String {
    match a.ip() {
        IpAddr::V4(ip) => format!("addr:4:{}:{}", a.port(), hex(&ip.octets())),
        IpAddr::V6(ip) => format!("addr:6:{}:{}", a.port(), hex(&ip.octets())),
    }
}

fn fam_num(f: AddressFamily) -> u8 {
    match f {
        AddressFamily::IPv4 => 1,
        AddressFamily::IPv6 => 2,
    }
}

/// all maximal decimal numbers in a Debug rendering
fn numbers_in(s: &str) -> Vec<u64> {
    let mut v = vec![];
    let mut cur: Option<u64> = None;
    for c in s.chars() {
        if let Some(d) = c.to_digit(10) {
            cur = Some(cur.unwrap_or(0).wrapping_mul(10).wrapping_add(d as u64));
        } else if let Some(n) = cur.take() {
            v.push(n);
        }
    }
    if let Some(n) = cur {
        v.push(n);
    }
    v
}

fn alg_tok(a: &PasswordAlgorithm) -> String {
    format!("{}.{}", u16::from(a.algorithm()), opt_tok(a.parameters()))
}

pub fn render(a: &StunAttribute) -> String {
    match a {
        StunAttribute::MappedAddress(x) => addr_tok(x.socket_address()),
        StunAttribute::AlternateServer(x) => addr_tok(x.socket_address()),
        StunAttribute::ResponseOrigin(x) => addr_tok(x.socket_address()),
        StunAttribute::OtherAddress(x) => addr_tok(x.socket_address()),
        StunAttribute::XorMappedAddress(x) => addr_tok(x.socket_address()),
        StunAttribute::XorPeerAddress(x) => addr_tok(x.socket_address()),
        StunAttribute::XorRelayedAddress(x) => addr_tok(x.socket_address()),
        StunAttribute::ResponsePort(x) => format!("u16:{}", x.as_u16()),
        StunAttribute::LifeTime(x) => format!("u32:{}", x.as_u32()),
        StunAttribute::Priority(x) => format!("u32:{}", x.as_u32()),
        StunAttribute::ChangeRequest(x) => {
            // no accessor for the raw value: Debug is `ChangeRequest(<u32>)`
            let n = numbers_in(&format!("{:?}", x));
            format!("u32:{}", n.first().copied().unwrap_or(u64::MAX))
        }
        StunAttribute::IceControlled(x) => format!("u64:{:016x}", x.as_u64()),
        StunAttribute::IceControlling(x) => format!("u64:{:016x}", x.as_u64()),
        StunAttribute::UseCandidate(_) => "empty".to_string(),
        StunAttribute::DontFragment(_) => "empty".to_string(),
        StunAttribute::Software(x) => format!("text:{}", hex(x.as_str().as_bytes())),
        StunAttribute::Padding(x) => format!("text:{}", hex(x.as_str().as_bytes())),
        StunAttribute::Realm(x) => format!("quoted:{}", hex(x.as_str().as_bytes())),
        StunAttribute::Nonce(x) => format!("quoted:{}", hex(x.as_str().as_bytes())),
        StunAttribute::UserName(x) => format!("user:{}", hex(x.as_str().as_bytes())),
        StunAttribute::ErrorCode(x) => {
            let e = x.error_code();
            format!("err:{}:{}", e.error_code(), hex(e.reason().as_bytes()))
        }
        StunAttribute::AddressErrorCode(x) => {
            let e = x.error_code();
            format!("aerr:{}:{}:{}", fam_num(x.family()), e.error_code(), hex(e.reason().as_bytes()))
        }
        StunAttribute::PasswordAlgorithm(x) => format!("alg:{}:{}", u16::from(x.algorithm()), opt_tok(x.parameters())),
        StunAttribute::PasswordAlgorithms(x) => {
            let l: Vec<String> = x.iter().map(alg_tok).collect();
            format!("algs:{}", if l.is_empty() { "-".to_string() } else { l.join(",") })
        }
        StunAttribute::UnknownAttributes(x) => {
            let l: Vec<String> = x.iter().map(|t| t.to_string()).collect();
            format!("uattrs:{}", if l.is_empty() { "-".to_string() } else { l.join(",") })
        }
        StunAttribute::UserHash(x) => format!("fixed:{}", hex(x.hash())),
        StunAttribute::ReservationToken(x) => format!("fixed:{}", hex(x.token())),
        StunAttribute::Data(x) => format!("opaque:{}", hex(x.as_bytes())),
        StunAttribute::MobilityTicket(x) => format!("opaque:{}", hex(x.value())),
        StunAttribute::ChannelNumber(x) => format!("chan:{}", x.number()),
        StunAttribute::EvenPort(x) => format!("even:{}", if x.reserve() { 1 } else { 0 }),
        StunAttribute::RequestedTrasport(x) => format!("proto:{}", x.protocol().as_u8()),
        StunAttribute::RequestedAddressFamily(x) => format!("fam:{}", fam_num(x.family())),
        StunAttribute::AdditionalAddressFamily(x) => format!("fam:{}", fam_num(x.family())),
        StunAttribute::Icmp(x) => {
            format!("icmp:{}:{}:{}", x.icmp_type().get(), x.icmp_code().get(), hex(x.error_data()))
        }
        StunAttribute::MessageIntegrity(x) => match x {
            MessageIntegrity::Encodable(_) => "mienc".to_string(),
            MessageIntegrity::Decodable(d) => {
                let b: Vec<u8> = numbers_in(&format!("{:?}", d)).iter().map(|n| *n as u8).collect();
                format!("mi:{}", hex(&b))
            }
        },
        StunAttribute::MessageIntegritySha256(x) => match x {
            MessageIntegritySha256::Encodable(_) => "shaenc".to_string(),
            MessageIntegritySha256::Decodable(d) => {
                // Debug is `DecodableMessageIntegritySha256([..])`: drop the 256 of the type name
                let s = format!("{:?}", d);
                let s = s.splitn(2, '(').nth(1).unwrap_or("").to_string();
                let b: Vec<u8> = numbers_in(&s).iter().map(|n| *n as u8).collect();
                format!("sha:{}", hex(&b))
            }
        },
        StunAttribute::Fingerprint(x) => match x {
            Fingerprint::Encodable(_) => "fpenc".to_string(),
            Fingerprint::Decodable(d) => {
                let n = numbers_in(&format!("{:?}", d));
                format!("fp:{}", n.first().copied().unwrap_or(u64::MAX))
            }
        },
        StunAttribute::Unknown(x) => format!("unk:{}:{}", x.attribute_type().as_u16(), opt_tok(x.attribute_data())),
    }
}

// ------------------------------------------------------------------------------------------ building

fn decode_single(ud: bool, txid: &[u8; 12], ty: u16, val: &[u8]) -> Result<Result<Vec<StunAttribute>, ()>, ()> {
    let mut r = Raw::new(1, 0, txid);
    r.push(ty, val);
    let dec = if ud {
        MessageDecoderBuilder::default().with_context(DecoderContextBuilder::default().with_unknown_data().build()).build()
    } else {
        MessageDecoderBuilder::default().build()
    };
    let bytes = r.bytes;
    guarded(|| match dec.decode(&bytes) {
        Ok((msg, size)) => {
            if size == bytes.len() {
                Ok(msg.attributes().to_vec())
            } else {
                Ok(vec![])
            }
        }
        Err(_) => Err(()),
    })
}

/// a value that has no public constructor for the wanted content: obtained by decoding its wire form
fn via_decode(ty: u16, val: &[u8], ud: bool) -> Option<StunAttribute> {
    match decode_single(ud, &[9u8; 12], ty, val) {
        Ok(Ok(mut v)) if v.len() == 1 => v.pop(),
        _ => None,
    }
}

fn str_of(hexs: &str) -> Option<String> {
    String::from_utf8(unhex(hexs)).ok()
}

fn parse_opt(s: &str) -> Option<Option<Vec<u8>>> {
    if s == "n" {
        Some(None)
    } else if let Some(h) = s.strip_prefix('s') {
        Some(Some(unhex(h)))
    } else {
        None
    }
}

fn mk_alg(id: u16, p: &Option<Vec<u8>>) -> PasswordAlgorithm {
    PasswordAlgorithm::new(Algorithm::new(AlgorithmId::from(id), p.as_deref()))
}

fn family_of(n: &str) -> Option<AddressFamily> {
    match n {
        "1" => Some(AddressFamily::IPv4),
        "2" => Some(AddressFamily::IPv6),
        _ => None,
    }
}

/// build the attribute of type `ty` described by `tok` through the public API; None when there is no such value
pub fn build(ty: u16, tok: &str) -> Option<StunAttribute> {
    let f: Vec<&str> = tok.split(':').collect();
    match f[0] {
        "addr" => {
            let port: u16 = f[2].parse().ok()?;
            let b = unhex(f[3]);
            let ip = match f[1] {
                "4" => IpAddr::V4(Ipv4Addr::from(<[u8; 4]>::try_from(&b[..]).ok()?)),
                _ => IpAddr::V6(Ipv6Addr::from(<[u8; 16]>::try_from(&b[..]).ok()?)),
            };
            let sa = SocketAddr::new(ip, port);
            Some(match ty {
                0x0001 => MappedAddress::from(sa).into(),
                0x8023 => AlternateServer::new(ip, port).into(),
                0x802B => ResponseOrigin::from(sa).into(),
                0x802C => OtherAddress::new(ip, port).into(),
                0x0020 => XorMappedAddress::from(sa).into(),
                0x0012 => XorPeerAddress::from(sa).into(),
                0x0016 => XorRelayedAddress::from(sa).into(),
                _ => return None,
            })
        }
        "u16" => Some(ResponsePort::new(f[1].parse().ok()?).into()),
        "u32" => {
            let n: u32 = f[1].parse().ok()?;
            match ty {
                0x000D => Some(LifeTime::new(n).into()),
                0x0024 => Some(Priority::new(n).into()),
                0x0003 => match n {
                    0 => Some(ChangeRequest::new(None).into()),
                    2 => Some(ChangeRequest::new(Some(ChangeRequestFlags::ChangePort.into())).into()),
                    4 => Some(ChangeRequest::new(Some(ChangeRequestFlags::ChangeIp.into())).into()),
                    6 => Some(ChangeRequest::new(Some(ChangeRequestFlags::ChangeIp | ChangeRequestFlags::ChangePort)).into()),
                    _ => via_decode(ty, &n.to_be_bytes(), false),
                },
                _ => None,
            }
        }
        "u64" => {
            let n = u64::from_str_radix(f[1], 16).ok()?;
            match ty {
                0x8029 => Some(IceControlled::new(n).into()),
                0x802A => Some(IceControlling::new(n).into()),
                _ => None,
            }
        }
        "empty" => match ty {
            0x0025 => Some(UseCandidate::default().into()),
            0x001A => Some(DontFragment::default().into()),
            _ => None,
        },
        "text" => {
            let s = str_of(f[1])?;
            let raw = s.as_bytes().to_vec();
            match ty {
                0x8022 => Software::new(s).ok().map(|x| x.into()).or_else(|| via_decode(ty, &raw, false)),
                0x0026 => Padding::new(s).ok().map(|x| x.into()),
                _ => None,
            }
        }
        "quoted" => {
            let s = str_of(f[1])?;
            let mk = |s: &str| -> Option<StunAttribute> {
                match ty {
                    0x0014 => Realm::new(s).ok().map(|x| x.into()),
                    0x0015 => Nonce::new(s).ok().map(|x| x.into()),
                    _ => None,
                }
            };
            mk(&s).or_else(|| if s.len() > 509 { via_decode(ty, s.as_bytes(), false) } else { None })
        }
        "user" => {
            let s = str_of(f[1])?;
            UserName::new(&s).ok().map(|x| x.into()).or_else(|| if s.len() >= 509 { via_decode(ty, s.as_bytes(), false) } else { None })
        }
        "err" => {
            let e = stun_rs::ErrorCode::new(f[1].parse().ok()?, &str_of(f[2])?).ok()?;
            Some(stun_rs::attributes::stun::ErrorCode::from(e).into())
        }
        "aerr" => {
            let e = stun_rs::ErrorCode::new(f[2].parse().ok()?, &str_of(f[3])?).ok()?;
            Some(AddressErrorCode::new(family_of(f[1])?, e).into())
        }
        "alg" => Some(mk_alg(f[1].parse().ok()?, &parse_opt(f[2])?).into()),
        "algs" => {
            let mut v = vec![];
            if f[1] != "-" {
                for e in f[1].split(',') {
                    let (id, p) = e.split_once('.')?;
                    v.push(mk_alg(id.parse().ok()?, &parse_opt(p)?));
                }
            }
            Some(PasswordAlgorithms::from(v).into())
        }
        "uattrs" => {
            let mut v: Vec<u16> = vec![];
            if f[1] != "-" {
                for e in f[1].split(',') {
                    v.push(e.parse().ok()?);
                }
            }
            Some(UnknownAttributes::from(v.as_slice()).into())
        }
        "fixedsha" => UserHash::new(str_of(f[1])?, str_of(f[2])?).ok().map(|x| x.into()),
        "fixed" => {
            let b = unhex(f[1]);
            match ty {
                0x001E => via_decode(ty, &b, false),
                0x0022 => Some(ReservationToken::from(<[u8; 8]>::try_from(&b[..]).ok()?).into()),
                _ => None,
            }
        }
        "opaque" => {
            let b = unhex(f[1]);
            match ty {
                0x0013 => Some(Data::new(&b).into()),
                0x8030 => Some(MobilityTicket::new(&b).into()),
                _ => None,
            }
        }
        "chan" => Some(ChannelNumber::new(f[1].parse().ok()?).into()),
        "even" => Some(EvenPort::new(f[1] == "1").into()),
        "proto" => {
            let p: u8 = f[1].parse().ok()?;
            if p == 17 {
                Some(RequestedTrasport::new(UDP).into())
            } else if p == 0 {
                Some(RequestedTrasport::new(ProtocolNumber::default()).into())
            } else {
                via_decode(ty, &[p, 0, 0, 0], false)
            }
        }
        "fam" => match ty {
            0x0017 => Some(RequestedAddressFamily::new(family_of(f[1])?).into()),
            0x8000 => Some(AdditionalAddressFamily::new(family_of(f[1])?).into()),
            _ => None,
        },
        "icmp" => {
            let t = IcmpType::new(f[1].parse().ok()?)?;
            let c = IcmpCode::new(f[2].parse().ok()?)?;
            let d = <[u8; 4]>::try_from(&unhex(f[3])[..]).ok()?;
            Some(Icmp::new(t, c, d).into())
        }
        "mienc" => Some(MessageIntegrity::new(HMACKey::new_short_term(KEY).ok()?).into()),
        "shaenc" => Some(MessageIntegritySha256::new(HMACKey::new_short_term(KEY).ok()?).into()),
        "fpenc" => Some(Fingerprint::default().into()),
        "mi" => Some(MessageIntegrity::from(<[u8; 20]>::try_from(&unhex(f[1])[..]).ok()?).into()),
        "sha" => Some(MessageIntegritySha256::from(<[u8; 32]>::try_from(&unhex(f[1])[..]).ok()?).into()),
        "fp" => {
            let n: u32 = f[1].parse().ok()?;
            Some(Fingerprint::from((n ^ FP_XOR).to_be_bytes()).into())
        }
        "unk" => {
            let t: u16 = f[1].parse().ok()?;
            match parse_opt(f[2])? {
                None => via_decode(t, &[1, 2, 3], false),
                Some(d) => via_decode(t, &d, true),
            }
        }
        _ => None,
    }
}

/// replay of an E record: the token is the stored value; the quoted-string constructors trim, and the known
/// non-canonical values (D8) are only reachable from an input with a trailing quoted `"`
pub fn build_stored(ty: u16, tok: &str) -> Option<StunAttribute> {
    if let Some(a) = build(ty, tok) {
        if render(&a) == tok {
            return Some(a);
        }
    }
    if let Some(h) = tok.strip_prefix("quoted:") {
        let v = unhex(h);
        let mut quoted = vec![b'"'];
        quoted.extend_from_slice(&v);
        quoted.push(b'"');
        let mut tail = v.clone();
        tail.push(b'"');
        for b in [quoted, tail] {
            if let Some(a) = build(ty, &format!("quoted:{}", hex(&b))) {
                if render(&a) == tok {
                    return Some(a);
                }
            }
        }
    }
    if tok.starts_with("fixed:") || tok.starts_with("user:") || tok.starts_with("text:") {
        // values only a decoder produces (e.g. a 600-byte USERNAME): rebuild from the wire form
        let b = unhex(tok.split(':').nth(1).unwrap_or("-"));
        if let Some(a) = via_decode(ty, &b, false) {
            if render(&a) == tok {
                return Some(a);
            }
        }
    }
    None
}

// ------------------------------------------------------------------------------------------ records

fn rec_decode(out: &mut Out, ud: bool, txid: &[u8; 12], ty: u16, val: &[u8]) {
    out.rec(&format!("C D {} {} {} {}", if ud { 1 } else { 0 }, hex(txid), ty, hex(val)));
    match decode_single(ud, txid, ty, val) {
        Err(()) => out.imp("PANIC"),
        Ok(Err(())) => out.imp("ERR"),
        Ok(Ok(v)) => {
            if v.len() == 1 {
                out.imp(&format!("OK {}", render(&v[0])));
            } else {
                out.imp(&format!("OK count={}", v.len()));
            }
            // C19: every public accessor of a DECODED value (whatever the wire bytes were), of its clone, and its Debug
            // rendering must return without panicking
            let touched = guarded(|| for a in &v { touch(a); touch(&a.clone()) }).is_ok();
            out.rec(&format!("J touch={}", if touched { "ok" } else { "P" }));
        }
    }
}

/// call every public accessor of the attribute
pub fn touch(a: &StunAttribute) {
    let _ = (a.attribute_type().as_u16(), format!("{:?}", a));
    match a {
        StunAttribute::ChangeRequest(x) => { let _ = x.flags(); }
        StunAttribute::Nonce(x) => { let _ = (x.as_str().len(), x.is_nonce_cookie(), x.security_features().is_ok()); }
        StunAttribute::Realm(x) => { let _ = x.as_str().len(); }
        StunAttribute::Software(x) => { let _ = x.as_str().len(); }
        StunAttribute::Padding(x) => { let _ = x.as_str().len(); }
        StunAttribute::UserName(x) => { let _ = x.as_str().len(); }
        StunAttribute::UserHash(x) => { let _ = x.hash().len(); }
        StunAttribute::ErrorCode(x) => { let e = x.error_code(); let _ = (e.error_code(), e.class(), e.number(), e.reason().len()); }
        StunAttribute::AddressErrorCode(x) => { let e = x.error_code(); let _ = (x.family(), e.error_code(), e.class(), e.number(), e.reason().len()); }
        StunAttribute::PasswordAlgorithm(x) => { let _ = (x.algorithm(), x.parameters().map(|p| p.len())); }
        StunAttribute::PasswordAlgorithms(x) => { let _ = (x.iter().count(), x.password_algorithms().len(), x.clone().into_iter().count()); for p in x.iter() { let _ = (p.algorithm(), p.parameters().map(|q| q.len())); } }
        StunAttribute::UnknownAttributes(x) => { let _ = (x.iter().count(), x.attributes().len()); }
        StunAttribute::Unknown(x) => { let _ = (x.attribute_type(), x.attribute_data().map(|d| d.len())); }
        StunAttribute::Icmp(x) => { let _ = (x.icmp_type(), x.icmp_code(), x.error_data().len()); }
        StunAttribute::EvenPort(x) => { let _ = x.reserve(); }
        StunAttribute::RequestedTrasport(x) => { let _ = x.protocol().as_u8(); }
        StunAttribute::ChannelNumber(x) => { let _ = x.number(); }
        StunAttribute::RequestedAddressFamily(x) => { let _ = x.family(); }
        StunAttribute::AdditionalAddressFamily(x) => { let _ = x.family(); }
        StunAttribute::MappedAddress(x) => { let _ = x.socket_address(); }
        StunAttribute::AlternateServer(x) => { let _ = x.socket_address(); }
        StunAttribute::ResponseOrigin(x) => { let _ = x.socket_address(); }
        StunAttribute::OtherAddress(x) => { let _ = x.socket_address(); }
        StunAttribute::XorMappedAddress(x) => { let _ = x.socket_address(); }
        StunAttribute::XorPeerAddress(x) => { let _ = x.socket_address(); }
        StunAttribute::XorRelayedAddress(x) => { let _ = x.socket_address(); }
        StunAttribute::ResponsePort(x) => { let _ = x.as_u16(); }
        StunAttribute::LifeTime(x) => { let _ = x.as_u32(); }
        StunAttribute::Priority(x) => { let _ = x.as_u32(); }
        StunAttribute::IceControlled(x) => { let _ = x.as_u64(); }
        StunAttribute::IceControlling(x) => { let _ = x.as_u64(); }
        StunAttribute::ReservationToken(x) => { let _ = x.token(); }
        StunAttribute::Data(x) => { let _ = x.as_bytes().len(); }
        StunAttribute::MobilityTicket(x) => { let _ = x.value().len(); }
        _ => {}
    }
}

/// the value encoder's result for `attr` in a value buffer of `room` bytes
pub fn encode_value(attr: &StunAttribute, txid: &[u8; 12], room: usize) -> Result<Option<Vec<u8>>, ()> {
    let msg = StunMessageBuilder::new(BINDING, MessageClass::Request)
        .with_transaction_id(TransactionId::from(*txid))
        .with_attribute(attr.clone())
        .build();
    let enc = MessageEncoderBuilder::default().build();
    let mut buf = vec![0xA5u8; 24 + room];
    let r = guarded(|| enc.encode(&mut buf, &msg).is_ok());
    let ok = r?;
    if !ok && buf[20..24] == [0xA5u8; 4] {
        return Ok(None);
    }
    let n = u16::from_be_bytes([buf[22], buf[23]]) as usize;
    if 24 + n > buf.len() {
        return Ok(Some(vec![0xEE])); // impossible: reported as a value no model produces
    }
    let mut val = buf[24..24 + n].to_vec();
    if ok {
        // post_encode ran: check the patched HMAC / CRC and report what the value encoder wrote (zeros)
        let head = &buf[..20];
        let expect: Option<Vec<u8>> = match attr {
            StunAttribute::MessageIntegrity(_) => Some(hmac_sha1::hmac_sha1(KEY.as_bytes(), head).to_vec()),
            StunAttribute::MessageIntegritySha256(_) => Some(hmac_sha256::HMAC::mac(head, KEY.as_bytes()).to_vec()),
            StunAttribute::Fingerprint(_) => Some((crc32(head) ^ FP_XOR).to_be_bytes().to_vec()),
            _ => None,
        };
        if let Some(e) = expect {
            if e == val {
                val = vec![0u8; n];
            }
        }
    }
    Ok(Some(val))
}

fn rec_encode(out: &mut Out, txid: &[u8; 12], ty: u16, attr: &StunAttribute, room: usize) {
    out.rec(&format!("C E {} {} {} {}", hex(txid), ty, render(attr), room));
    match encode_value(attr, txid, room) {
        Err(()) => out.imp("PANIC"),
        Ok(None) => out.imp("ERR"),
        Ok(Some(v)) => out.imp(&format!("OK {}", hex(&v))),
    }
}

// ------------------------------------------------------------------------------------------ generators

const STR_LENS: [usize; 16] = [0, 1, 2, 3, 4, 5, 127, 128, 507, 508, 509, 510, 511, 762, 763, 764];

fn ascii_text(rng: &mut Rng, n: usize) -> Vec<u8> {
    (0..n).map(|_| rng.range(0x20, 0x7E) as u8).collect()
}

/// n bytes of valid UTF-8 mixing 1-4 byte characters (exact length)
/// code points at which Unicode-aware string code changes behaviour: every White_Space character, C0 / C1 controls,
/// combining marks (non-NFC sequences), compatibility characters that normalisation rewrites, soft hyphen, zero-width
/// characters, BOM, the last code points of the planes
pub const SPECIAL_CHARS: [u32; 44] = [
    0x09, 0x0A, 0x0B, 0x0C, 0x0D, 0x20, 0x85, 0xA0, 0x1680, 0x2000, 0x2001, 0x2002, 0x2007, 0x200A, 0x2028, 0x2029, 0x202F, 0x205F, 0x3000,
    0x7F, 0x80, 0x9F, 0xAD, 0x0301, 0x0308, 0x0327, 0x212B, 0x2126, 0xFB01, 0xFF21, 0x1E9B, 0x0130, 0x00DF, 0x200B, 0x200D, 0xFEFF,
    0xFFFD, 0xFFFF, 0x10FFFF, 0x22, 0x5C, 0xC0, 0xE9, 0x30DE,
];
fn utf8_text(rng: &mut Rng, n: usize) -> Vec<u8> {
    let mut v: Vec<u8> = vec![];
    let special = rng.chance(1, 2);
    while v.len() < n {
        let left = n - v.len();
        if special && rng.chance(1, 3) {
            let c = char::from_u32(*rng.pick(&SPECIAL_CHARS)).unwrap_or('x');
            if c.len_utf8() <= left {
                // a base letter before a combining mark makes a non-NFC sequence
                let mut b = [0u8; 4];
                v.extend_from_slice(c.encode_utf8(&mut b).as_bytes());
                continue;
            }
        }
        let w = rng.range(1, 4.min(left as u64)) as usize;
        let c = match w {
            1 => rng.range(0x20, 0x7E) as u32,
            2 => rng.range(0x80, 0x7FF) as u32,
            3 => {
                let c = rng.range(0x800, 0xFFFF) as u32;
                if (0xD800..0xE000).contains(&c) {
                    0xFFFD
                } else {
                    c
                }
            }
            _ => rng.range(0x10000, 0x10FFFF) as u32,
        };
        let ch = char::from_u32(c).unwrap_or('x');
        let mut b = [0u8; 4];
        v.extend_from_slice(ch.encode_utf8(&mut b).as_bytes());
    }
    v
}

/// quoted-string material: the alphabet the grammar distinguishes (code points, not bytes: U+C0..U+FD followed
/// by the right number of U+80..U+BF is what `utf8_nonascii` accepts)
fn qs_text(rng: &mut Rng, n: usize) -> Vec<u8> {
    // U+85 and U+A0 are "continuation" code points of the grammar AND Unicode white space (char::is_whitespace)
    const ALPHA: [&str; 39] = [
        "a", "z", "!", "#", "[", "]", "~", " ", "\t", "\r", "\n", "\r\n", "\r\n ", " \r\n", "\"", "\\", "\\\"", "\\a",
        "\\\r", "\\\n", "\u{0}", "\u{7f}", "\u{80}", "\u{bf}", "\u{c0}", "\u{e9}", "\u{f0}", "\u{f8}", "\u{fd}", "\u{fe}",
        "\u{ff}", "\u{100}", "\u{20ac}", "\u{85}", "\u{a0}", "\u{c0}\u{a0}", "\u{c0}\u{85}", "\u{2028}", "\u{3000}",
    ];
    let mut v = vec![];
    for _ in 0..n {
        v.extend_from_slice(rng.pick(&ALPHA).as_bytes());
    }
    v
}

const QS_MID: [&str; 24] = [
    "\u{c0}\u{a0}", "\u{c0}\u{85}", "\u{e9}\u{a0}\u{85}", "\u{df}\u{a0}", "a", "Z", "!", "#", "~", " ", "\t", " \r\n ", "\r\n\t", "\\\"", "\\\\", "\\a", "\\\u{0}", "\\\u{7f}", "\u{c0}\u{80}",
    "\u{df}\u{bf}", "\u{e9}\u{80}\u{bf}", "\u{f0}\u{80}\u{81}\u{bf}", "\u{f8}\u{80}\u{80}\u{80}\u{80}",
    "\u{fd}\u{80}\u{81}\u{82}\u{83}\u{bf}",
];
const QS_EDGE: [&str; 10] = ["a", "0", "!", "~", "\\a", "\u{c0}\u{80}", "\\\\", "\u{c0}\u{a0}", "\u{c0}\u{85}", "\u{e9}\u{80}\u{a0}"];

/// a text the grammar accepts as quoted_text and that is already trimmed (n "items")
fn qs_valid(rng: &mut Rng, n: usize) -> Vec<u8> {
    let mut v = vec![];
    if n == 0 {
        return v;
    }
    v.extend_from_slice(rng.pick(&QS_EDGE).as_bytes());
    for _ in 1..n.saturating_sub(1) {
        v.extend_from_slice(rng.pick(&QS_MID).as_bytes());
    }
    if n > 1 {
        v.extend_from_slice(rng.pick(&QS_EDGE).as_bytes());
    }
    v
}

/// the same, of exactly n bytes
fn qs_valid_len(rng: &mut Rng, n: usize) -> Vec<u8> {
    let mut v = vec![];
    if n == 0 {
        return v;
    }
    v.push(*rng.pick(&[b'a', b'0', b'!', b'~']));
    while v.len() + 1 < n {
        let it = rng.pick(&QS_MID).as_bytes();
        if v.len() + it.len() + 1 <= n {
            v.extend_from_slice(it);
        } else {
            v.push(b'x');
        }
    }
    if v.len() < n {
        v.push(*rng.pick(&[b'a', b'0', b'!', b'~']));
    }
    v
}

fn pick_len(rng: &mut Rng, round: u64, salt: u64) -> usize {
    match rng.below(4) {
        0 => STR_LENS[((round + salt) % STR_LENS.len() as u64) as usize],
        1 => *rng.pick(&STR_LENS),
        _ => rng.below(24) as usize,
    }
}

/// the transaction id of the message the generated address will be put in (set by the callers that know it): lets the
/// generator craft addresses whose XOR-ed form is special
pub static TXID_HINT: std::sync::Mutex<[u8; 12]> = std::sync::Mutex::new([0u8; 12]);
fn rand_ip(rng: &mut Rng) -> (u8, Vec<u8>) {
    let v4 = rng.bytes(4);
    match rng.below(12) {
        // addresses that address-handling code treats specially: IPv4-mapped / IPv4-compatible / NAT64 IPv6, unspecified,
        // loopback, broadcast
        0 => { let mut a = vec![0u8; 10]; a.extend_from_slice(&[0xFF, 0xFF]); a.extend_from_slice(&v4); (6, a) }
        1 => { let mut a = vec![0u8; 12]; a.extend_from_slice(&v4); (6, a) }
        2 => { let mut a = vec![0x00, 0x64, 0xFF, 0x9B, 0, 0, 0, 0, 0, 0, 0, 0]; a.extend_from_slice(&v4); (6, a) }
        3 => (6, rng.pick(&[vec![0u8; 16], { let mut l = vec![0u8; 15]; l.push(1); l }, vec![0xFFu8; 16]]).clone()),
        4 => (4, rng.pick(&[vec![0u8; 4], vec![255u8; 4], vec![127, 0, 0, 1]]).clone()),
        // an IPv6 address whose XOR with (magic cookie || transaction id) is an IPv4-mapped address
        5 => {
            let txid = *TXID_HINT.lock().unwrap();
            let mut key = vec![0x21, 0x12, 0xA4, 0x42];
            key.extend_from_slice(&txid);
            let mut target = vec![0u8; 10]; target.extend_from_slice(&[0xFF, 0xFF]); target.extend_from_slice(&v4);
            (6, target.iter().zip(key.iter()).map(|(a, b)| a ^ b).collect())
        }
        6 | 7 | 8 => (4, v4),
        _ => (6, rng.bytes(16)),
    }
}

fn rand_opt(rng: &mut Rng) -> String {
    match rng.below(4) {
        0 => "n".to_string(),
        1 => "s-".to_string(),
        _ => {
            let n = *rng.pick(&[1usize, 2, 3, 4, 5, 8, 13, 32]);
            format!("s{}", hex(&rng.bytes(n)))
        }
    }
}

/// constructor inputs (tokens understood by `build`) for one kind
pub fn gen_specs(rng: &mut Rng, round: u64, ty: u16, fam: Fam, big: bool) -> Vec<String> {
    let mut v = vec![];
    let k = 3;
    for i in 0..k {
        let s = match fam {
            Fam::Addr | Fam::XorAddr => {
                let (f, ip) = rand_ip(rng);
                let port = *rng.pick(&[0u64, 1, 0x2112, 0xFFFF, rng.0 & 0xFFFF]);
                format!("addr:{}:{}:{}", f, port, hex(&ip))
            }
            Fam::U16 => format!("u16:{}", *rng.pick(&[0u64, 1, 255, 256, 65535, rng.0 & 0xFFFF])),
            Fam::U32 => {
                let n = *rng.pick(&[0u64, 1, 2, 4, 6, 255, 65536, 0xFFFF_FFFF, rng.0 & 0xFFFF_FFFF, 0x5354_554e]);
                format!("u32:{}", n)
            }
            Fam::U64 => format!("u64:{:016x}", *rng.pick(&[0u64, 1, u64::MAX, 1 << 63, 0x0123_4567_89ab_cdef, rng.0])),
            Fam::Empty => "empty".to_string(),
            Fam::Text => {
                let n = if big && i == 0 {
                    *rng.pick(&[63999usize, 64000, 64001])
                } else {
                    pick_len(rng, round, i)
                };
                let b = if rng.chance(1, 2) { ascii_text(rng, n) } else { utf8_text(rng, n) };
                format!("text:{}", hex(&b))
            }
            Fam::Quoted => {
                let b = match rng.below(5) {
                    0 => {
                        let n = rng.below(10) as usize;
                        qs_text(rng, n)
                    }
                    1 => {
                        // quoted form with surrounding white space
                        let n0 = rng.below(3) as usize;
                        let mut b = qs_text(rng, n0);
                        b.push(b'"');
                        let n1 = rng.below(8) as usize;
                        b.extend(qs_valid(rng, n1));
                        b.push(b'"');
                        b
                    }
                    2 => {
                        let n = pick_len(rng, round, i);
                        let mut b = ascii_text(rng, n);
                        for x in b.iter_mut() {
                            if *x == b'"' || *x == b'\\' {
                                *x = b'q';
                            }
                        }
                        b
                    }
                    3 => {
                        // long valid texts around the limits, built from multi-byte items
                        let n = pick_len(rng, round, i);
                        qs_valid_len(rng, n)
                    }
                    _ => {
                        let n = rng.below(12) as usize;
                        qs_valid(rng, n)
                    }
                };
                format!("quoted:{}", hex(&b))
            }
            Fam::User => {
                let n = pick_len(rng, round, i);
                let b = match rng.below(6) {
                    0 => utf8_text(rng, n),
                    1 => {
                        let mut b = ascii_text(rng, n.max(1));
                        let p = rng.below(b.len() as u64) as usize;
                        b[p] = *rng.pick(&[0u8, 9, 10, 13, 0x1F, 0x7F]);
                        b
                    }
                    _ => ascii_text(rng, n),
                };
                format!("user:{}", hex(&b))
            }
            Fam::Err | Fam::AErr => {
                let code = match rng.below(8) {
                    0 => *rng.pick(&[0u64, 99, 299, 300, 699, 700, 701, 1000, 65535]),
                    _ => 300 + (round * 29 + i * 131 + rng.below(7)) % 400,
                };
                let n = pick_len(rng, round, i);
                let b = if rng.chance(1, 2) { ascii_text(rng, n) } else { utf8_text(rng, n) };
                if fam == Fam::Err {
                    format!("err:{}:{}", code, hex(&b))
                } else {
                    format!("aerr:{}:{}:{}", rng.range(1, 2), code, hex(&b))
                }
            }
            Fam::Alg => format!("alg:{}:{}", *rng.pick(&[0u64, 1, 2, 3, 255, 65535]), rand_opt(rng)),
            Fam::Algs => {
                let n = rng.below(5);
                let l: Vec<String> = (0..n).map(|_| format!("{}.{}", rng.below(5), rand_opt(rng))).collect();
                format!("algs:{}", if l.is_empty() { "-".to_string() } else { l.join(",") })
            }
            Fam::UAttrs => {
                let n = rng.below(7);
                let l: Vec<String> = (0..n).map(|_| rng.pick(&[0u64, 1, 2, 0x8000, 0xFFFF, 0x0101]).to_string()).collect();
                format!("uattrs:{}", if l.is_empty() { "-".to_string() } else { l.join(",") })
            }
            Fam::Hash => {
                if rng.chance(1, 2) {
                    format!("fixedsha:{}:{}", hex(&ascii_text(rng, 5)), hex(b"example.org"))
                } else {
                    format!("fixed:{}", hex(&rng.bytes(32)))
                }
            }
            Fam::Token => format!("fixed:{}", hex(&rng.bytes(8))),
            Fam::Opaque => {
                let n = match rng.below(6) {
                    0 => pick_len(rng, round, i),
                    1 => rng.range(1000, 3000) as usize,
                    _ => rng.below(20) as usize,
                };
                format!("opaque:{}", hex(&rng.bytes(n)))
            }
            Fam::Chan => format!("chan:{}", *rng.pick(&[0u64, 0x4000, 0x7FFF, 0xFFFF, rng.0 & 0xFFFF])),
            Fam::Even => format!("even:{}", rng.below(2)),
            Fam::Proto => format!("proto:{}", *rng.pick(&[17u64, 0, 6, 255, rng.0 & 0xFF])),
            Fam::Family => format!("fam:{}", rng.range(1, 2)),
            Fam::Icmp => format!(
                "icmp:{}:{}:{}",
                *rng.pick(&[0u64, 1, 3, 126, 127, rng.0 & 0x7F]),
                *rng.pick(&[0u64, 1, 255, 256, 510, 511, (rng.0 >> 8) & 0x1FF]),
                hex(&rng.bytes(4))
            ),
            Fam::MI => {
                if rng.chance(1, 2) {
                    "mienc".to_string()
                } else {
                    format!("mi:{}", hex(&rng.bytes(20)))
                }
            }
            Fam::Sha => {
                if rng.chance(1, 2) {
                    "shaenc".to_string()
                } else {
                    format!("sha:{}", hex(&rng.bytes(32)))
                }
            }
            Fam::Fp => {
                if rng.chance(1, 2) {
                    "fpenc".to_string()
                } else {
                    format!("fp:{}", rng.next() as u32)
                }
            }
            Fam::Unknown => format!("unk:{}:{}", ty, if rng.chance(1, 2) { "n".to_string() } else { format!("s{}", hex(&rng.bytes(3))) }),
        };
        v.push(s);
    }
    v
}

const INJECT: [&[u8]; 50] = [
    b"\\\n",
    b"\\\r",
    b"\\\x00",
    b"\\\x7f",
    b"\\\t",
    b"\\ ",
    b"\\a",
    b"\\\\",
    b"\\\xc2\x80",
    b"\r\n\t",
    b"\"",
    b"\\",
    b" ",
    b"\t",
    b"\r",
    b"\n",
    b"\r\n",
    b"\r\n ",
    b" \r\n",
    b"\\\"",
    b"\x00",
    b"\x7f",
    b"\xc3\xa9",
    b"\xc3\x80\xc2\x80",
    b"\xc3\xbd\xc2\xbf",
    b"\xc3\xb0\xc2\x80\xc2\x80\xc2\x80",
    b"\xc3\xbe",
    b"\xe2\x82\xac",
    b"\xf0\x9f\x98\x80",
    b"\xc0\x80",
    b"\xc1\xbf",
    b"\xc2\x80",
    b"\xdf\xbf",
    b"\xe0\x9f\xbf",
    b"\xe0\xa0\x80",
    b"\xed\x9f\xbf",
    b"\xed\xa0\x80",
    b"\xef\xbf\xbf",
    b"\xf0\x8f\xbf\xbf",
    b"\xf0\x90\x80\x80",
    b"\xf4\x8f\xbf\xbf",
    b"\xf4\x90\x80\x80",
    b"\xf5\x80\x80\x80",
    b"\xe1\x80",
    b"\xf1\x80\x80",
    b"\xc2",
    b"\xff",
    b"\xfe",
    b"\x80",
    b"\xbf",
];

fn mutate(rng: &mut Rng, v: &[u8], fam: Fam) -> Vec<u8> {
    let mut b = v.to_vec();
    // a 16-bit field (nested length, count, code) set to a boundary value: length arithmetic near 0xFFFF must not wrap or panic
    if b.len() >= 2 && rng.chance(1, if matches!(fam, Fam::Alg | Fam::Algs) { 4 } else { 10 }) {
        let p = 2 * rng.below((b.len() / 2) as u64) as usize;
        let w = *rng.pick(&[0xFFFFu16, 0xFFFE, 0xFFFD, 0xFFFC, 0xFFFB, 0xFFF8, 0x8000, 0x7FFF, 0x0100, 0x00FF]);
        b[p..p + 2].copy_from_slice(&w.to_be_bytes());
        return b;
    }
    let stringy = matches!(fam, Fam::Text | Fam::Quoted | Fam::User | Fam::Err | Fam::AErr);
    let choice = if stringy { rng.below(7) } else { rng.below(5) };
    match choice {
        0 => {
            let n = rng.below(b.len() as u64 + 1) as usize;
            b.truncate(n);
        }
        1 => {
            let n = rng.range(1, 5) as usize;
            if rng.chance(1, 2) {
                b.extend(std::iter::repeat(0u8).take(n));
            } else {
                b.extend(rng.bytes(n));
            }
        }
        2 => {
            if !b.is_empty() {
                let p = rng.below(b.len() as u64) as usize;
                b[p] ^= 1 << rng.below(8);
            }
        }
        3 => {
            if !b.is_empty() {
                let p = rng.below(b.len().min(8) as u64) as usize;
                b[p] = rng.next() as u8;
            }
        }
        4 => {
            if !b.is_empty() {
                b.pop();
            }
        }
        _ => {
            let lo = if matches!(fam, Fam::Err | Fam::AErr) { 4.min(b.len()) } else { 0 };
            let p = lo + rng.below((b.len() - lo) as u64 + 1) as usize;
            let ins = *rng.pick(&INJECT);
            let tail = b.split_off(p);
            b.extend_from_slice(ins);
            b.extend(tail);
        }
    }
    b
}

fn random_raw(rng: &mut Rng, round: u64, fam: Fam) -> Vec<u8> {
    let n = match fam {
        Fam::Text | Fam::Quoted | Fam::User => pick_len(rng, round, 7),
        Fam::Err | Fam::AErr => 4 + pick_len(rng, round, 9),
        _ => *rng.pick(&[0usize, 1, 2, 3, 4, 5, 7, 8, 9, 12, 16, 19, 20, 21, 24, 31, 32, 33, 40]),
    };
    match fam {
        Fam::Text | Fam::User => {
            if rng.chance(1, 2) {
                ascii_text(rng, n)
            } else {
                utf8_text(rng, n)
            }
        }
        Fam::Quoted => {
            match rng.below(4) {
                0 | 1 => qs_valid_len(rng, n),
                2 => {
                    let mut b = vec![b'"'];
                    b.extend(qs_valid_len(rng, n));
                    b.push(b'"');
                    b
                }
                _ => qs_text(rng, n.min(40)),
            }
        }
        Fam::Err | Fam::AErr => {
            let mut b = vec![rng.below(4) as u8, rng.next() as u8, rng.next() as u8, rng.below(110) as u8];
            if rng.chance(3, 4) {
                b[2] = (b[2] & 0xF8) | rng.range(2, 7) as u8;
            }
            b.extend(utf8_text(rng, n - 4));
            b
        }
        Fam::Alg | Fam::Algs => {
            // structured: entries with plausible lengths, sometimes broken
            let mut b = vec![];
            for _ in 0..rng.range(1, 3) {
                let pl = rng.below(7) as usize;
                b.extend_from_slice(&(rng.below(4) as u16).to_be_bytes());
                let shown = if rng.chance(1, 6) { pl + rng.range(1, 3) as usize } else { pl };
                b.extend_from_slice(&(shown as u16).to_be_bytes());
                b.extend(rng.bytes(pl));
                if rng.chance(4, 5) {
                    b.extend(std::iter::repeat(0u8).take(pad(pl)));
                }
            }
            b
        }
        _ => rng.bytes(n),
    }
}

fn rooms_for(rng: &mut Rng, size: usize) -> Vec<usize> {
    let mut v = vec![size + pad(size)];
    if size > 0 {
        v.push(size - 1);
    }
    v.push(size);
    v.push(rng.below(size as u64 + 9) as usize);
    if rng.chance(1, 4) {
        v.push(0);
    }
    v.dedup();
    v
}

fn run_kind(out: &mut Out, rng: &mut Rng, round: u64, ty: u16, fam: Fam, counts: &mut [u64; 4]) {
    let big = fam == Fam::Text && ty == 0x0026 && round % 64 == 0;
    let mut valid: Vec<Vec<u8>> = vec![];
    let txid: [u8; 12] = rng.bytes(12).try_into().unwrap();
    *TXID_HINT.lock().unwrap() = txid;
    for spec in gen_specs(rng, round, ty, fam, big) {
        let attr = match guarded(|| build(ty, &spec)) {
            Ok(Some(a)) => a,
            Ok(None) => {
                counts[2] += 1;
                continue;
            }
            Err(()) => {
                out.note(&format!("constructor panic ty={} spec={}", ty, &spec[..spec.len().min(200)]));
                counts[3] += 1;
                continue;
            }
        };
        // full-room encoding first: its size drives the boundary rooms
        let full = encode_value(&attr, &txid, if spec.len() > 8000 { 70000 } else { 4200 }).ok().flatten();
        let size = full.as_ref().map(|v| v.len()).unwrap_or(8);
        for room in rooms_for(rng, size) {
            rec_encode(out, &txid, ty, &attr, room);
            counts[1] += 1;
        }
        if let Some(v) = full {
            // the wire form of an Encodable integrity / fingerprint value is not zeros; any bytes will do here
            valid.push(v);
        }
    }
    for v in valid.iter() {
        let txid: [u8; 12] = rng.bytes(12).try_into().unwrap();
        rec_decode(out, rng.chance(1, 2), &txid, ty, v);
        counts[0] += 1;
        if v.len() > 4000 {
            continue;
        }
        for _ in 0..2 {
            let m = mutate(rng, v, fam);
            let txid: [u8; 12] = rng.bytes(12).try_into().unwrap();
            rec_decode(out, rng.chance(1, 2), &txid, ty, &m);
            counts[0] += 1;
        }
    }
    for _ in 0..3 {
        let v = random_raw(rng, round, fam);
        let txid: [u8; 12] = rng.bytes(12).try_into().unwrap();
        rec_decode(out, rng.chance(1, 2), &txid, ty, &v);
        counts[0] += 1;
    }
    if big {
        for n in [64000usize, 64001] {
            let v = ascii_text(rng, n);
            let txid: [u8; 12] = rng.bytes(12).try_into().unwrap();
            rec_decode(out, false, &txid, ty, &v);
            counts[0] += 1;
        }
    }
}

/// seed-independent part (round 0): boundary lengths, every length 0..=36 for every kind, every class/number
/// byte pair, every error code, and the special byte sequences at the start / middle / end of every string kind
fn run_systematic(out: &mut Out, rng: &mut Rng, counts: &mut [u64; 4]) {
    let tx = |rng: &mut Rng| -> [u8; 12] { rng.bytes(12).try_into().unwrap() };
    // every kind, every short length: zeros and random bytes
    for (ty, _) in KINDS.iter() {
        for n in 0..=36usize {
            for v in [vec![0u8; n], rng.bytes(n)] {
                let t = tx(rng);
                rec_decode(out, n % 2 == 1, &t, *ty, &v);
                counts[0] += 1;
            }
        }
    }
    // ERROR-CODE / ADDRESS-ERROR-CODE: every class byte (low 3 bits and a high bit) x every number byte
    for cb in [0u8, 1, 2, 3, 4, 5, 6, 7, 0xFB, 0xFE] {
        for nb in 0..=255u8 {
            let t = tx(rng);
            rec_decode(out, false, &t, 0x0009, &[0, 0, cb, nb, b'o', b'k']);
            counts[0] += 1;
            if nb % 16 == 3 {
                let t = tx(rng);
                rec_decode(out, false, &t, 0x8001, &[(nb >> 4) % 4, 0, cb, nb]);
                counts[0] += 1;
            }
        }
    }
    for code in 300..700u16 {
        if let Some(a) = build(0x0009, &format!("err:{}:{}", code, hex(b"x"))) {
            let t = tx(rng);
            rec_encode(out, &t, 0x0009, &a, 5);
            counts[1] += 1;
        }
    }
    // string kinds: boundary lengths, decoded and (when the constructor accepts) encoded with exact / short room
    let string_kinds: [(u16, &str, usize); 7] = [
        (0x8022, "text", 0),
        (0x0026, "text", 0),
        (0x0014, "quoted", 0),
        (0x0015, "quoted", 0),
        (0x0006, "user", 0),
        (0x0009, "err", 4),
        (0x8001, "aerr", 4),
    ];
    for (ty, tag, pre) in string_kinds.iter() {
        for n in STR_LENS.iter() {
            let body = vec![b'x'; *n];
            let mut raw = match *pre {
                0 => vec![],
                _ => vec![if *ty == 0x8001 { 1 } else { 0 }, 0, 4, 20],
            };
            raw.extend_from_slice(&body);
            let t = tx(rng);
            rec_decode(out, false, &t, *ty, &raw);
            counts[0] += 1;
            let spec = match *tag {
                "err" => format!("err:420:{}", hex(&body)),
                "aerr" => format!("aerr:2:420:{}", hex(&body)),
                _ => format!("{}:{}", tag, hex(&body)),
            };
            if let Ok(Some(a)) = guarded(|| build(*ty, &spec)) {
                for room in [raw.len(), raw.len().saturating_sub(1)] {
                    let t = tx(rng);
                    rec_encode(out, &t, *ty, &a, room);
                    counts[1] += 1;
                }
            }
        }
        for inj in INJECT.iter() {
            for shape in 0..4 {
                let mut raw = match *pre {
                    0 => vec![],
                    _ => vec![if *ty == 0x8001 { 2 } else { 0 }, 0, 3, 0],
                };
                if shape & 1 == 1 {
                    raw.extend_from_slice(b"ab");
                }
                raw.extend_from_slice(inj);
                if shape & 2 == 2 {
                    raw.extend_from_slice(b"yz");
                }
                let t = tx(rng);
                rec_decode(out, false, &t, *ty, &raw);
                counts[0] += 1;
            }
        }
    }
}

fn main() {
    let args = Args::parse();
    let mut out = args.writer();
    if let Some(lines) = args.replay_lines() {
        for l in lines {
            let f: Vec<&str> = l.split(' ').collect();
            if f.len() == 6 && f[0] == "C" && f[1] == "D" {
                let txid: [u8; 12] = unhex(f[3]).try_into().expect("txid");
                rec_decode(&mut out, f[2] == "1", &txid, f[4].parse().expect("type"), &unhex(f[5]));
            } else if f.len() == 6 && f[0] == "C" && f[1] == "E" {
                let txid: [u8; 12] = unhex(f[2]).try_into().expect("txid");
                let ty: u16 = f[3].parse().expect("type");
                out.rec(&l);
                match guarded(|| build_stored(ty, f[4])) {
                    Ok(Some(a)) => match encode_value(&a, &txid, f[5].parse().expect("room")) {
                        Err(()) => out.imp("PANIC"),
                        Ok(None) => out.imp("ERR"),
                        Ok(Some(v)) => out.imp(&format!("OK {}", hex(&v))),
                    },
                    Ok(None) => out.imp("UNBUILDABLE"),
                    Err(()) => out.imp("PANIC"),
                }
            }
        }
        out.finish();
        return;
    }
    let mut table: Vec<u16> = KINDS.iter().map(|k| k.0).collect();
    table.sort();
    let from_impl = type_codes_from_impl();
    if table != from_impl {
        out.note(&format!("TYPE-CODES-DIFFER harness={:?} impl={:?}", table, from_impl));
    }
    let rounds: u64 = args.get("rounds").map(|s| s.parse().unwrap()).unwrap_or(if args.thorough { 1600 } else { 32 });
    let mut counts = [0u64; 4];
    for round in 0..rounds {
        if round % args.shards != args.shard {
            continue;
        }
        let mut rng = Rng::new(args.seed.wrapping_mul(0x1000_0000_01B3) ^ 0xA77A ^ (round << 20));
        if round == 0 {
            run_systematic(&mut out, &mut rng, &mut counts);
        }
        for (ty, fam) in KINDS.iter() {
            run_kind(&mut out, &mut rng, round, *ty, *fam, &mut counts);
        }
        // types outside the registry (comprehension-required and -optional), and neighbours of registered codes
        for _ in 0..2 {
            let mut ty = match rng.below(3) {
                0 => rng.below(0x10000) as u16,
                1 => KINDS[rng.below(38) as usize].0 ^ (1 << rng.below(16)),
                _ => *rng.pick(&[0u16, 0x0002, 0x0004, 0x0005, 0x0007, 0x000B, 0x7FFF, 0x8003, 0x8027, 0x802D, 0xFFFF]),
            };
            if KINDS.iter().any(|k| k.0 == ty) {
                ty = 0x7F00;
            }
            run_kind(&mut out, &mut rng, round, ty, Fam::Unknown, &mut counts);
        }
    }
    out.note(&format!(
        "suite=attrval rounds={} decode_records={} encode_records={} unbuildable_specs={} constructor_panics={}",
        rounds, counts[0], counts[1], counts[2], counts[3]
    ));
    out.finish();
}
