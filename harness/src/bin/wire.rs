//! Suite `wire` (C03 decoder part, C04, C10, C18): byte buffers decoded under the 17 decoder configurations
//! (no context; {no key, key} x validation x unknown_data x not_ignore).
//! Record  C <key hex|-> <buffer hex>
//! Result  I r0|r1|...|r16   each  OK <size> <wire positions|->  |  ERR  |  PANIC  |  MAP
//! Facts   J ud=<0|1> mi=<0|1|-> sha=<0|1|-> fp=<0|1|-> prefix=<0|1>
//! Record  C F <kind MI|SHA|FP> <key hex> <buffer hex>   single-bit / byte-substitution fault enumeration on the
//! Result  I <faults tried> <accepted fault list|->       implementation (must accept none)
use rustun_verif_harness::wire::*;
use rustun_verif_harness::*;
use stun_rs::attributes::stun::*;
use stun_rs::*;

#[allow(dead_code)]
#[path = "attrval.rs"]
mod av;

/// the options are independent switches: the order in which the builder methods are called varies from call to call
/// (all 24 orders), the resulting decoder must be the same
static ORDER: std::sync::atomic::AtomicUsize = std::sync::atomic::AtomicUsize::new(0);
fn decoder(k: bool, v: bool, u: bool, n: bool, key: &[u8]) -> MessageDecoder {
    let mut steps: Vec<u8> = vec![0, 1, 2, 3];
    let mut o = ORDER.fetch_add(1, std::sync::atomic::Ordering::Relaxed) % 24;
    let mut order = vec![];
    for m in (1..=4).rev() { order.push(steps.remove(o % m)); o /= m }
    let mut b = DecoderContextBuilder::default();
    for s in order {
        b = match s {
            0 if k => b.with_key(HMACKey::new_short_term(std::str::from_utf8(key).unwrap()).unwrap()),
            1 if v => b.with_validation(),
            2 if u => b.with_unknown_data(),
            3 if n => b.not_ignore(),
            _ => b,
        };
    }
    MessageDecoderBuilder::default().with_context(b.build()).build()
}

fn wire_of(b: &[u8]) -> Vec<(u16, Vec<u8>)> {
    tlvs(b).map(|t| t.into_iter().map(|(ty, o, l)| (ty, b[o..o + l].to_vec())).collect()).unwrap_or_default()
}

/// the value of a decoded attribute as a 32-bit digest of its canonical rendering (the data of an Unknown attribute is
/// left out: whether it is kept is what the unknown-data option decides)
fn value_digest(a: &StunAttribute) -> u32 {
    let r = match a {
        StunAttribute::Unknown(x) => format!("unk:{}", x.attribute_type().as_u16()),
        other => format!("{}:{}", other.attribute_type().as_u16(), av::render(other)),
    };
    let d = md5::compute(r.as_bytes()).0;
    u32::from_be_bytes([d[0], d[1], d[2], d[3]])
}
/// result of one decode: the `I` rendering (size and wire positions), the same with every position combined with the
/// digest of the decoded value (position * 2^32 + digest), and (size, positions)
fn one(dec: &MessageDecoder, b: &[u8], ud: bool, ud_ok: &mut bool) -> (String, Option<(usize, Vec<usize>)>) {
    let (a, _, c) = one_v(dec, b, ud, ud_ok);
    (a, c)
}
fn one_v(dec: &MessageDecoder, b: &[u8], ud: bool, ud_ok: &mut bool) -> (String, String, Option<(usize, Vec<usize>)>) {
    match guarded(|| dec.decode(b)) {
        Err(()) => ("PANIC".into(), "PANIC".into(), None),
        Ok(Err(_)) => ("ERR".into(), "ERR".into(), None),
        Ok(Ok((m, size))) => {
            let w = wire_of(&b[..size.min(b.len())]);
            match map_positions(m.attributes(), &w, ud) {
                None => {
                    // distinguish a wrong unknown-data payload from an unmappable result
                    if map_positions(m.attributes(), &w, !ud).is_some() { *ud_ok = false }
                    ("MAP".into(), "MAP".into(), None)
                }
                Some(p) => {
                    let pv: Vec<String> = p.iter().zip(m.attributes().iter()).map(|(pos, a)| (((*pos as u64) << 32) | value_digest(a) as u64).to_string()).collect();
                    (
                        format!("OK {} {}", size, if p.is_empty() { "-".to_string() } else { p.iter().map(|x| x.to_string()).collect::<Vec<_>>().join(",") }),
                        format!("OK/{}/{}", size, if pv.is_empty() { "-".to_string() } else { pv.join(",") }),
                        Some((size, p)),
                    )
                }
            }
        }
    }
}

fn run_case(out: &mut Out, key: &[u8], b: &[u8]) {
    out.rec(&format!("C {} {}", hex(key), hex(b)));
    let mut res = vec![];
    let mut resv = vec![];
    let mut ud_ok = true;
    let (r0, v0, d0) = one_v(&MessageDecoderBuilder::default().build(), b, false, &mut ud_ok);
    res.push(r0);
    resv.push(v0);
    let mut all_cfg = None;
    for k in [false, true] {
        for v in [false, true] {
            for u in [false, true] {
                for n in [false, true] {
                    let (r, rv, d) = one_v(&decoder(k, v, u, n, key), b, u, &mut ud_ok);
                    if k && !v && !u && n { all_cfg = d.clone() }
                    res.push(r);
                    resv.push(rv);
                }
            }
        }
    }
    out.imp(&res.join("|"));
    // the public verification API on the first integrity / fingerprint attribute
    let hk = HMACKey::new_short_term(std::str::from_utf8(key).unwrap()).unwrap();
    let mut facts = vec![format!("ud={}", ud_ok as u8), format!("pv={}", resv.join("|"))];
    let all = guarded(|| decoder(true, false, false, true, key).decode(b)).ok().and_then(|r| r.ok());
    let verdict = |name: &str, f: &dyn Fn(&StunMessage) -> Option<bool>| -> String {
        match &all {
            Some((m, _)) => match guarded(|| f(m)) { Err(()) => format!("{}=P", name), Ok(Some(x)) => format!("{}={}", name, x as u8), Ok(None) => format!("{}=-", name) },
            None => format!("{}=-", name),
        }
    };
    facts.push(verdict("mi", &|m| {
        let a = m.attributes().iter().find(|a| a.is_message_integrity())?;
        let t = get_input_text::<MessageIntegrity>(b)?;
        Some(a.expect_message_integrity().validate(&t, &hk))
    }));
    facts.push(verdict("sha", &|m| {
        let a = m.attributes().iter().find(|a| a.is_message_integrity_sha256())?;
        let t = get_input_text::<MessageIntegritySha256>(b)?;
        Some(a.expect_message_integrity_sha256().validate(&t, &hk))
    }));
    facts.push(verdict("fp", &|m| {
        let a = m.attributes().iter().find(|a| a.is_fingerprint())?;
        let t = get_input_text::<Fingerprint>(b)?;
        Some(a.expect_fingerprint().validate(&t))
    }));
    // the result depends only on the first `size` bytes
    let prefix = match &d0 {
        Some((size, p)) => {
            let dec = MessageDecoderBuilder::default().build();
            let mut ext = b[..*size].to_vec();
            ext.extend_from_slice(&[0xAB, 0x00, 0xFF, 0x21, 0x12]);
            let same = |x: &[u8]| matches!(one(&dec, x, false, &mut true).1, Some((s, q)) if s == *size && q == *p);
            same(&b[..*size]) && same(&ext)
        }
        None => true,
    };
    facts.push(format!("prefix={}", prefix as u8));
    let _ = all_cfg;
    out.rec(&format!("J {}", facts.join(" ")));
}

/// every single-bit fault and 16 byte substitutions per byte of the region protected by the first attribute of `kind`
fn run_faults(out: &mut Out, kind: &str, key: &[u8], b: &[u8]) {
    out.rec(&format!("C F {} {} {}", kind, hex(key), hex(b)));
    let ty = match kind { "MI" => T_MI, "SHA" => T_SHA, _ => T_FP };
    let t = tlvs(b).unwrap_or_default();
    let Some(&(_, off, len)) = t.iter().find(|x| x.0 == ty) else { out.imp("-"); out.rec("J tried=0"); return };
    let hk = HMACKey::new_short_term(std::str::from_utf8(key).unwrap()).unwrap();
    let dec_v = decoder(true, true, false, false, key);
    let dec_nokey = decoder(false, true, false, false, key);
    let accepted = |x: &[u8]| -> bool {
        // "accepted as authenticated / as carrying a valid FINGERPRINT": the validating decoder returns a message that
        // contains the attribute, or the public validate API says yes for the first attribute of the kind
        let has = |d: &MessageDecoder| guarded(|| d.decode(x)).ok().and_then(|r| r.ok()).map(|(m, _)| m.attributes().iter().any(|a| a.attribute_type().as_u16() == ty)).unwrap_or(false);
        // FINGERPRINT needs no key: a validating decoder WITHOUT a key must reject a wrong FINGERPRINT as well
        let by_decode = has(&dec_v) || (kind == "FP" && has(&dec_nokey));
        let by_api = guarded(|| {
            let (m, _) = decoder(true, false, false, true, key).decode(x).ok()?;
            let a = m.attributes().iter().find(|a| a.attribute_type().as_u16() == ty)?;
            match kind {
                "MI" => Some(a.expect_message_integrity().validate(&get_input_text::<MessageIntegrity>(x)?, &hk)),
                "SHA" => Some(a.expect_message_integrity_sha256().validate(&get_input_text::<MessageIntegritySha256>(x)?, &hk)),
                _ => Some(a.expect_fingerprint().validate(&get_input_text::<Fingerprint>(x)?)),
            }
        }).ok().flatten().unwrap_or(false);
        by_decode || by_api
    };
    // protected bytes: everything before the attribute except the header length bytes, and the value itself;
    // for FINGERPRINT: the whole message (any change must not leave a valid FINGERPRINT)
    let end = if kind == "FP" { b.len() } else { off + len };
    let mut tried = 0u64;
    let mut acc = vec![];
    for i in 0..end {
        if kind != "FP" && (i == 2 || i == 3) { continue }
        if kind != "FP" && i >= off - 4 && i < off { continue } // the attribute's own type/length are not "protected bytes"
        for bit in 0..8 {
            let mut x = b.to_vec();
            x[i] ^= 1 << bit;
            tried += 1;
            if accepted(&x) { acc.push(format!("{}.{}", i, bit)) }
        }
        for s in 0..16u8 {
            let nv = b[i].wrapping_add(17u8.wrapping_mul(s + 1));
            if nv == b[i] { continue }
            let mut x = b.to_vec();
            x[i] = nv;
            tried += 1;
            if accepted(&x) { acc.push(format!("{}={}", i, nv)) }
        }
    }
    out.imp(&if acc.is_empty() { "-".to_string() } else { acc.join(",") });
    out.rec(&format!("J tried={}", tried));
}

const ORD_TYPES: [u16; 8] = [0x7F01, 0x7F02, 0x0100, 0xC001, 0xC002, 0xFFFE, 0x0002, 0x8100];

fn gen_msg(rng: &mut Rng, key: &[u8]) -> Vec<u8> {
    let txid: [u8; 12] = rng.bytes(12).try_into().unwrap();
    let mut r = Raw::new(rng.below(0x1000) as u16, rng.below(4) as u8, &txid);
    for _ in 0..rng.below(5) {
        let l = *rng.pick(&[0usize, 1, 2, 3, 4, 5, 7, 8, 13, 24]);
        let v = rng.bytes(l);
        r.push(*rng.pick(&ORD_TYPES), &v);
    }
    let tail = *rng.pick(&["", "M", "S", "F", "MS", "MF", "SF", "MSF", "MSF", "SM", "FM", "FF", "MM", "MOF", "FO", "SOM", "MSFO"]);
    for c in tail.bytes() {
        let off = match c {
            b'M' => r.push_mi(key),
            b'S' => r.push_sha(key),
            b'F' => r.push_fp(),
            _ => { let v = rng.bytes(3); r.push(*rng.pick(&ORD_TYPES), &v) }
        };
        if c != b'O' && rng.chance(1, 6) {
            let i = off + rng.below(4) as usize;
            r.bytes[i] ^= 1 << rng.below(8);
        }
    }
    r.bytes
}

/// a message whose ordinary attributes are valid encodings of registered kinds (values from the attrval generators,
/// encoded by stun-rs itself), with an integrity / fingerprint tail
fn gen_typed_msg(rng: &mut Rng, key: &[u8], round: u64) -> Vec<u8> {
    let txid: [u8; 12] = rng.bytes(12).try_into().unwrap();
    *av::TXID_HINT.lock().unwrap() = txid;
    let mut r = Raw::new(rng.below(0x1000) as u16, rng.below(4) as u8, &txid);
    for _ in 0..rng.range(1, 4) {
        let (ty, fam) = *rng.pick(&av::KINDS);
        if ty == T_MI || ty == T_SHA || ty == T_FP { continue }
        let specs = av::gen_specs(rng, round, ty, fam, false);
        if specs.is_empty() { continue }
        let tok = rng.pick(&specs).clone();
        // string kinds: half of the time the generated bytes go on the wire as they are (not through the constructor, which
        // normalises them): non-NFC sequences, non-ASCII spaces, un-trimmed quoted strings reach the typed decoders
        if matches!(fam, av::Fam::Text | av::Fam::Quoted | av::Fam::User) && rng.chance(1, 2) {
            if let Some((_, h)) = tok.rsplit_once(':') {
                let v = unhex(h);
                if v.len() <= 780 { r.push(ty, &v); continue }
            }
        }
        let Some(attr) = av::build(ty, &tok) else { continue };
        match av::encode_value(&attr, &txid, 800) {
            Ok(Some(v)) if v.len() <= 780 => { r.push(ty, &v); }
            _ => {}
        }
    }
    let tail = *rng.pick(&["", "M", "S", "F", "MS", "MF", "MSF", "SF"]);
    for c in tail.bytes() { match c { b'M' => { r.push_mi(key); } b'S' => { r.push_sha(key); } _ => { r.push_fp(); } } }
    r.bytes
}

/// a message whose string attributes carry, verbatim on the wire, text that Unicode-aware code treats specially
/// (non-ASCII white space, combining sequences that are not NFC, compatibility characters, zero-width characters), with a
/// valid integrity / fingerprint tail: the typed decoders must give the same values whatever the decoder options are
fn gen_string_msg(rng: &mut Rng, key: &[u8]) -> Vec<u8> {
    let txid: [u8; 12] = rng.bytes(12).try_into().unwrap();
    let mut r = Raw::new(rng.below(0x1000) as u16, rng.below(4) as u8, &txid);
    let text = |rng: &mut Rng| -> Vec<u8> {
        let mut sb = String::new();
        for _ in 0..rng.range(1, 8) {
            if rng.chance(1, 2) { sb.push((b'a' + rng.below(26) as u8) as char) }
            else { sb.push(char::from_u32(*rng.pick(&av::SPECIAL_CHARS)).unwrap_or('x')) }
        }
        sb.into_bytes()
    };
    for _ in 0..rng.range(1, 3) {
        match rng.below(5) {
            0 | 1 => { let v = text(rng); r.push(0x0006, &v); }
            2 => { let v = text(rng); r.push(0x8022, &v); }
            3 => { let v = text(rng); r.push(*rng.pick(&[0x0014u16, 0x0015]), &v); }
            _ => { let mut v = vec![0, 0, 4, 1]; v.extend_from_slice(&text(rng)); r.push(0x0009, &v); }
        }
    }
    let tail = *rng.pick(&["M", "S", "MS", "MF", "MSF", "", "F"]);
    for c in tail.bytes() { match c { b'M' => { r.push_mi(key); } b'S' => { r.push_sha(key); } _ => { r.push_fp(); } } }
    r.bytes
}

fn mutate(rng: &mut Rng, b: &[u8]) -> Vec<u8> {
    let mut x = b.to_vec();
    if x.len() < 20 {
        // too short to edit structurally: append a few bytes
        let j = rng.bytes(3);
        x.extend_from_slice(&j);
        return x;
    }
    match rng.below(9) {
        0 => { let i = rng.below(x.len() as u64) as usize; x[i] ^= 1 << rng.below(8) }
        1 => { let n = rng.below(x.len() as u64 + 1) as usize; x.truncate(n) }
        2 => { let k = rng.range(1, 9) as usize; let j = rng.bytes(k); x.extend_from_slice(&j) }
        3 => { let l = u16::from_be_bytes([x[2], x[3]]).wrapping_add(*rng.pick(&[1u16, 2, 3, 4, 0xFFFC, 0xFFFF, 8])); x[2..4].copy_from_slice(&l.to_be_bytes()) }
        4 => {
            // edit an attribute length field
            if let Some(t) = tlvs(&x) { if !t.is_empty() { let (_, off, _) = *rng.pick(&t); let d = *rng.pick(&[1u8, 2, 3, 4, 0xFF]); x[off - 1] = x[off - 1].wrapping_add(d) } }
        }
        5 => {
            // duplicate an attribute at the end and fix the header length
            if let Some(t) = tlvs(&x) { if !t.is_empty() {
                let (_, off, len) = *rng.pick(&t); let seg = x[off - 4..off + len + pad(len)].to_vec(); x.extend_from_slice(&seg);
                let l = (x.len() - 20) as u16; x[2..4].copy_from_slice(&l.to_be_bytes()) } }
        }
        6 => { for _ in 0..3 { let i = rng.below(x.len() as u64) as usize; x[i] = rng.next() as u8 } }
        7 => {
            // turn an attribute type into an integrity / fingerprint type or back
            if let Some(t) = tlvs(&x) { if !t.is_empty() { let (_, off, _) = *rng.pick(&t); let ty = *rng.pick(&[T_MI, T_SHA, T_FP, 0x7F01]); x[off - 4..off - 2].copy_from_slice(&ty.to_be_bytes()) } }
        }
        _ => { x[0] ^= 0x40 }
    }
    x
}

/// key derivation record:  C K S <password hex>  |  C K L <user hex> <realm hex> <password hex> <alg>   ->  I OK <key hex> | ERR | PANIC
fn run_key(out: &mut Out, f: &[&str]) {
    out.rec(&f.join(" "));
    let s = |h: &str| String::from_utf8(unhex(h)).unwrap_or_default();
    let r = guarded(|| {
        if f[2] == "S" {
            HMACKey::new_short_term(s(f[3])).ok().map(|k| k.as_bytes().to_vec())
        } else {
            let alg = Algorithm::from(AlgorithmId::from(f[6].parse::<u16>().unwrap()));
            HMACKey::new_long_term(s(f[3]), s(f[4]), s(f[5]), alg).ok().map(|k| k.as_bytes().to_vec())
        }
    });
    match r { Err(()) => out.imp("PANIC"), Ok(None) => out.imp("ERR"), Ok(Some(k)) => out.imp(&format!("OK {}", hex(&k))) }
}

fn main() {
    let args = Args::parse();
    let mut out = args.writer();
    if let Some(lines) = args.replay_lines() {
        for l in lines {
            let f: Vec<&str> = l.split(' ').collect();
            if f[0] == "C" && f[1] == "K" { run_key(&mut out, &f) }
            else if f[0] == "C" && f[1] == "F" { run_faults(&mut out, f[2], &unhex(f[3]), &unhex(f[4])) }
            else if f[0] == "C" { run_case(&mut out, &unhex(f[1]), &unhex(f[2])) }
        }
        out.finish();
        return;
    }
    let mut rng = args.rng(0x417E);
    let key = b"pw".to_vec();
    let n = args.get("cases").map(|s| s.parse().unwrap()).unwrap_or(if args.thorough { 60000u64 } else { 2400 });
    let mine = n / args.shards + if args.shard < n % args.shards { 1 } else { 0 };
    let (mut structured, mut mutated, mut random, mut faults) = (0u64, 0u64, 0u64, 0u64);
    for i in 0..mine {
        let base = match rng.below(5) { 0 => gen_string_msg(&mut rng, &key), 1 | 2 => gen_typed_msg(&mut rng, &key, i), _ => gen_msg(&mut rng, &key) };
        match rng.below(10) {
            0..=3 => { run_case(&mut out, &key, &base); structured += 1 }
            4..=7 => { let m = mutate(&mut rng, &base); let m = if rng.chance(1, 4) { mutate(&mut rng, &m) } else { m }; run_case(&mut out, &key, &m); mutated += 1 }
            8 if i % 3 == 0 => {
                // the 16-bit header length at its upper end (20 + length no longer fits 16 bits), on a bare header and on a
                // real message; and messages close to the 64 KiB limit (once per shard: the model walks 65,000 list cells)
                let l = *rng.pick(&[0xFFEBu16, 0xFFEC, 0xFFED, 0xFFF0, 0xFFFB, 0xFFFC, 0xFFFF, 0xFFE8, 0x8000]);
                let mut x = if rng.chance(1, 2) { base.clone() } else { let t: [u8; 12] = rng.bytes(12).try_into().unwrap(); Raw::new(1, 0, &t).bytes };
                if x.len() >= 20 { x[2..4].copy_from_slice(&l.to_be_bytes()); }
                run_case(&mut out, &key, &x); random += 1;
                if i == 0 {
                    for total in [65516usize, 65528, 65532] {
                        let t: [u8; 12] = rng.bytes(12).try_into().unwrap();
                        let mut r = Raw::new(1, 2, &t);
                        let mut left = total;
                        while left > 0 { let chunk = left.min(16384); r.push(0xC001, &vec![0x61u8; chunk - 4]); left -= chunk; }
                        run_case(&mut out, &key, &r.bytes); structured += 1;
                    }
                }
            }
            8 => {
                let l = rng.below(60) as usize;
                let mut x = rng.bytes(l);
                if x.len() >= 8 && rng.chance(2, 3) { x[0] &= 0x3F; x[4..8].copy_from_slice(&COOKIE.to_be_bytes()); if x.len() >= 20 { let ml = (x.len() - 20) as u16; x[2..4].copy_from_slice(&ml.to_be_bytes()) } }
                run_case(&mut out, &key, &x); random += 1
            }
            _ => {
                // fault enumeration on a clean message with the full legal tail
                if i % 4 == 0 || args.thorough {
                    let txid: [u8; 12] = rng.bytes(12).try_into().unwrap();
                    let mut r = Raw::new(1, rng.below(4) as u8, &txid);
                    for _ in 0..rng.below(3) { let k = rng.below(9) as usize; let v = rng.bytes(k); r.push(*rng.pick(&ORD_TYPES), &v); }
                    let tail = *rng.pick(&["M", "S", "MS", "MF", "SF", "MSF", "F"]);
                    for c in tail.bytes() { match c { b'M' => { r.push_mi(&key); } b'S' => { r.push_sha(&key); } _ => { r.push_fp(); } } }
                    for k in ["MI", "SHA", "FP"] {
                        let has = match k { "MI" => tail.contains('M'), "SHA" => tail.contains('S'), _ => tail.contains('F') };
                        if has { run_faults(&mut out, k, &key, &r.bytes); faults += 1 }
                    }
                }
            }
        }
    }
    // key derivation over generated user / realm / password strings (ASCII printable, with controls, empty, non-ASCII)
    let nkeys = if args.thorough { 6000 } else { 400 };
    let mut keys = 0u64;
    for k in 0..nkeys {
        if k % args.shards != args.shard { continue }
        let mut gs = |rng: &mut Rng| -> Vec<u8> {
            let n = *rng.pick(&[0usize, 1, 2, 5, 9, 30, 64, 65, 200]);
            let mut v: Vec<u8> = (0..n).map(|_| 0x20 + rng.below(0x5F) as u8).collect();
            match rng.below(12) {
                0 if n > 0 => v[0] = 0x09,
                1 if n > 0 => { v[n - 1] = 0x7F }
                2 => v.extend_from_slice("\u{e9}".as_bytes()),
                // non-ASCII spaces (the OpaqueString profile maps them to U+0020) at a random place
                3 | 4 | 5 => {
                    let sp = *rng.pick(&["\u{a0}", "\u{1680}", "\u{2000}", "\u{2003}", "\u{200a}", "\u{202f}", "\u{205f}", "\u{3000}", "\u{a0}\u{3000}"]);
                    let at = rng.below(v.len() as u64 + 1) as usize;
                    let tail = v.split_off(at);
                    v.extend_from_slice(sp.as_bytes());
                    v.extend_from_slice(&tail);
                }
                _ => {}
            }
            v
        };
        let line = if k % 3 == 0 {
            format!("C K S {}", hex(&gs(&mut rng)))
        } else {
            let (u, r, p) = (gs(&mut rng), gs(&mut rng), gs(&mut rng));
            format!("C K L {} {} {} {}", hex(&u), hex(&r), hex(&p), *rng.pick(&[1u16, 2, 2, 1, 0, 3]))
        };
        let f: Vec<&str> = line.split(' ').collect();
        run_key(&mut out, &f);
        keys += 1;
    }
    out.note(&format!("suite=wire structured={} mutated={} random={} fault_enumerations={} key_derivations={}", structured, mutated, random, faults, keys));
    out.finish();
}
