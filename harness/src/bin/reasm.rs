//! Suite `reasm` (C16, C03): streams of STUN packets (and garbage / oversized packets) cut into chunks and fed to
//! StunPacketDecoder the way a caller does: after a packet the rest of the chunk goes to a new decoder.
//! Record:  C <B> <chunk hex>...           (empty chunk = -)
//! Result:  I <calls of chunk 0>|<calls of chunk 1>|...   calls: D<consumed>:<packet hex>  M?  M<missing>
//!          EI<consumed>  ES<consumed>  P (panic)  NR (StunPacketDecoder::new refused the buffer)
use rustun_verif_harness::wire::*;
use rustun_verif_harness::*;
use stun_agent::{StunPacketDecodedValue, StunPacketDecoder, StunPacketErrorType};

/// The caller's buffer of `b` bytes. Its LENGTH is what the decoder may use; every third buffer carries spare capacity (a
/// pooled / truncated vector), which must make no difference (a buffer shorter than a header is refused whatever its capacity).
fn mk_buffer(fill: u8, b: usize) -> Vec<u8> {
    if b % 3 == 1 {
        let mut v = Vec::with_capacity(b + 64);
        v.resize(b, fill);
        v
    } else {
        vec![fill; b]
    }
}

fn guarded_new(fill: u8, b: usize) -> Result<StunPacketDecoder, stun_agent::StunPacketDecodedError> {
    StunPacketDecoder::new(mk_buffer(fill, b))
}

fn run_case(out: &mut Out, b: usize, chunks: &[Vec<u8>]) {
    let mut rec = format!("C {}", b);
    for c in chunks {
        rec.push(' ');
        rec.push_str(&hex(c));
    }
    out.rec(&rec);
    let fill = (b as u8).wrapping_mul(31) | 1;
    let mut log: Vec<String> = vec![];
    let mut dec = match guarded_new(fill, b) {
        Ok(d) => Some(d),
        Err(e) => {
            let ok = e.buffer.len() == b && e.size == 0 && e.consumed == 0 && matches!(e.error_type, StunPacketErrorType::SmallBuffer);
            out.imp(if ok { "NR" } else { "NR:bad-fields" });
            return;
        }
    };
    for chunk in chunks {
        let Some(mut d) = dec.take() else { break };
        let mut data: &[u8] = chunk;
        let mut calls: Vec<String> = vec![];
        loop {
            match guarded(move || d.decode(data)) {
                Err(()) => {
                    calls.push("P".into());
                    break;
                }
                Ok(Ok(StunPacketDecodedValue::Decoded((pkt, consumed)))) => {
                    calls.push(format!("D{}:{}", consumed, hex(pkt.as_ref())));
                    if consumed > data.len() {
                        calls.push("consumed-beyond-input".into());
                        break;
                    }
                    match guarded_new(fill, b) {
                        Err(_) => {
                            calls.push("NR".into());
                            break;
                        }
                        Ok(nd) => {
                            data = &data[consumed..];
                            if data.is_empty() {
                                dec = Some(nd);
                                break;
                            }
                            d = nd;
                        }
                    }
                }
                Ok(Ok(StunPacketDecodedValue::MoreBytesNeeded((nd, m)))) => {
                    calls.push(match m {
                        None => "M?".to_string(),
                        Some(k) => format!("M{}", k),
                    });
                    dec = Some(nd);
                    break;
                }
                Ok(Err(e)) => {
                    let tag = match e.error_type {
                        StunPacketErrorType::InvalidStunPacket => "EI",
                        StunPacketErrorType::SmallBuffer => "ES",
                    };
                    // the buffer is handed back, the header is what has been stored
                    if e.buffer.len() == b && e.size == 20 {
                        calls.push(format!("{}{}", tag, e.consumed));
                    } else {
                        calls.push(format!("{}{}:bad-size-or-buffer", tag, e.consumed));
                    }
                    break;
                }
            }
        }
        log.push(calls.join(","));
    }
    out.imp(&log.join("|"));
}

fn gen_packet(rng: &mut Rng, max_attr_bytes: usize) -> Vec<u8> {
    let txid: [u8; 12] = rng.bytes(12).try_into().unwrap();
    let mut r = Raw::new(rng.below(0x1000) as u16, rng.below(4) as u8, &txid);
    let target = rng.below(max_attr_bytes as u64 + 1) as usize;
    while r.bytes.len() - 20 < target {
        let room = target - (r.bytes.len() - 20);
        let l = rng.below(room.min(200) as u64 + 1) as usize;
        let v = rng.bytes(l);
        r.push(rng.next() as u16, &v);
    }
    r.bytes
}

fn cut(stream: &[u8], cuts: &[usize]) -> Vec<Vec<u8>> {
    let mut v = vec![];
    let mut p = 0;
    for &c in cuts {
        v.push(stream[p..c].to_vec());
        p = c;
    }
    v.push(stream[p..].to_vec());
    v
}

fn main() {
    let args = Args::parse();
    let mut out = args.writer();
    if let Some(lines) = args.replay_lines() {
        for l in lines {
            let f: Vec<&str> = l.split(' ').collect();
            if f[0] == "C" {
                let chunks: Vec<Vec<u8>> = f[2..].iter().map(|h| unhex(h)).collect();
                run_case(&mut out, f[1].parse().unwrap(), &chunks);
            }
        }
        out.finish();
        return;
    }
    let mut rng = args.rng(0x5EA5);
    let streams = if args.thorough { 60 } else { 12 };
    let mut cases = 0u64;
    let (mut n_garbage, mut n_small, mut n_multi) = (0u64, 0u64, 0u64);
    for si in 0..streams {
        // 1-3 packets; small ones for the exhaustive cuts, larger ones for random cuts
        let small = si % 3 != 2;
        let npk = rng.range(1, 3) as usize;
        let mut pk: Vec<Vec<u8>> = (0..npk).map(|_| gen_packet(&mut rng, if small { 40 } else { 1000 })).collect();
        let maxlen = pk.iter().map(|p| p.len()).max().unwrap();
        let mut bsizes = vec![maxlen, maxlen + 1, maxlen.saturating_sub(1).max(20), 20, 19, maxlen + 100, 16, 1, 0];
        // fault variants of the stream
        let variant = rng.below(5);
        if variant == 1 {
            // garbage where a header is expected (top bits or cookie wrong)
            let i = rng.below(npk as u64) as usize;
            let mut g = pk[i].clone();
            if rng.chance(1, 2) { g[0] |= 0x80 } else { g[4 + rng.below(4) as usize] ^= 1 << rng.below(8) }
            pk[i] = g;
            n_garbage += 1;
        }
        if variant == 2 {
            n_small += 1; // a buffer smaller than one of the packets is in bsizes anyway
            bsizes.push(pk.iter().map(|p| p.len()).min().unwrap());
        }
        let mut stream: Vec<u8> = pk.concat();
        if variant == 3 {
            let extra = rng.range(1, 25) as usize; // trailing incomplete packet
            let t = gen_packet(&mut rng, 30);
            stream.extend_from_slice(&t[..extra.min(t.len())]);
        }
        if npk > 1 { n_multi += 1 }
        bsizes.sort();
        bsizes.dedup();
        let n = stream.len();
        let mut idx = 0u64;
        for &b in &bsizes {
            let mut emit = |out: &mut Out, cuts: &[usize], cases: &mut u64| {
                idx += 1;
                if idx % args.shards == args.shard {
                    run_case(out, b, &cut(&stream, cuts));
                    *cases += 1;
                }
            };
            emit(&mut out, &[], &mut cases);
            // byte by byte
            emit(&mut out, &(1..n).collect::<Vec<_>>(), &mut cases);
            let exhaustive2 = small && (args.thorough || n <= 120);
            if exhaustive2 && b >= 20 && (b == maxlen || b == bsizes[bsizes.len() - 1] || args.thorough) {
                for i in 0..=n {
                    emit(&mut out, &[i], &mut cases);
                }
                let step = if args.thorough { 1 } else { 3 };
                for i in (0..=n).step_by(step) {
                    for j in (i..=n).step_by(step) {
                        emit(&mut out, &[i, j], &mut cases);
                        if args.thorough && n <= 90 {
                            for k in (j..=n).step_by(7) {
                                emit(&mut out, &[i, j, k], &mut cases);
                            }
                        }
                    }
                }
            }
            // random multi-cut chunkings with empty and one-byte chunks
            let reps = if args.thorough { 400 } else { 60 };
            for _ in 0..reps {
                let k = rng.range(1, 12) as usize;
                let mut cuts: Vec<usize> = (0..k).map(|_| rng.below(n as u64 + 1) as usize).collect();
                if rng.chance(1, 3) {
                    let c = rng.below(n as u64 + 1) as usize;
                    cuts.push(c);
                    cuts.push(c); // an empty chunk
                    cuts.push((c + 1).min(n)); // a one-byte chunk
                }
                cuts.sort();
                emit(&mut out, &cuts, &mut cases);
            }
        }
    }
    out.note(&format!("suite=reasm streams={} cases={} streams_with_garbage={} streams_with_small_buffer={} multi_packet_streams={}",
        streams, cases, n_garbage, n_small, n_multi));
    out.finish();
}
