//! Suite `filter` (C09, C18): every sequence over {O,M,S,F} up to a length, built as real messages
//! with correct or corrupted MAC / CRC values, decoded under every decoder option combination.
//! Record:  C <opts> <kinds> <good>      opts = N (no context) | v u n bits, e.g. 101
//! Result:  I OK <admitted wire positions, comma separated or -> | I ERR | I PANIC
use rustun_verif_harness::wire::*;
use rustun_verif_harness::*;
use stun_rs::{DecoderContextBuilder, HMACKey, MessageDecoder, MessageDecoderBuilder, StunAttribute};

const OPTS: [&str; 9] = ["N", "000", "001", "010", "011", "100", "101", "110", "111"];

fn build(kinds: &[u8], good: &[u8], key: &[u8]) -> (Vec<u8>, Vec<(u16, Vec<u8>)>) {
    let txid = [7u8; 12];
    let mut r = Raw::new(1, 2, &txid);
    let mut wire = vec![];
    for (i, k) in kinds.iter().enumerate() {
        let off = match k {
            b'O' => {
                // alternate a known kind (SOFTWARE), an unknown comprehension-optional and an unknown required type
                // ... and two known kinds whose value is LONGER than their typed decoder consumes (the decoders accept trailing
                // bytes inside a value; everything that is computed from offsets — the text a later MAC / CRC covers — must use
                // the wire length, not the consumed size)
                match i % 5 {
                    0 => r.push(0x8022, format!("sw{}", i).as_bytes()),
                    1 => r.push(0xC100 + i as u16, &[i as u8; 5]),
                    2 => r.push(0x0100 + i as u16, &[i as u8, 1, 2]),
                    3 => r.push(0x0001, &[0, 1, 0x12, 0x34, 192, 0, 2, i as u8, 9, 9, 9, 9]),
                    _ => r.push(0x0024, &[0, 0, 1, i as u8, 7, 7, 7, 7]),
                }
            }
            b'M' => r.push_mi(key),
            b'S' => r.push_sha(key),
            b'F' => r.push_fp(),
            _ => unreachable!(),
        };
        if good[i] == b'0' && *k != b'O' {
            // corrupt one byte of the value; unique per position
            r.bytes[off] ^= 0x80;
            r.bytes[off + 1] ^= (i as u8) | 0x40;
        }
        let t = tlvs(&r.bytes).unwrap();
        let (ty, o, l) = t[i];
        wire.push((ty, r.bytes[o..o + l].to_vec()));
    }
    (r.bytes, wire)
}

fn decoder(opts: &str, key: &[u8]) -> MessageDecoder {
    if opts == "N" {
        return MessageDecoderBuilder::default().build();
    }
    let o = opts.as_bytes();
    // the key is given first, in the middle or last (the options are independent switches)
    static ORDER: std::sync::atomic::AtomicUsize = std::sync::atomic::AtomicUsize::new(0);
    let at = ORDER.fetch_add(1, std::sync::atomic::Ordering::Relaxed) % 4;
    let hk = || HMACKey::new_short_term(std::str::from_utf8(key).unwrap()).unwrap();
    let mut b = DecoderContextBuilder::default();
    if at == 0 { b = b.with_key(hk()) }
    if o[0] == b'1' {
        b = b.with_validation();
    }
    if at == 1 { b = b.with_key(hk()) }
    if o[1] == b'1' {
        b = b.with_unknown_data();
    }
    if at == 2 { b = b.with_key(hk()) }
    if o[2] == b'1' {
        b = b.not_ignore();
    }
    if at == 3 { b = b.with_key(hk()) }
    MessageDecoderBuilder::default().with_context(b.build()).build()
}

fn matches_wire(a: &StunAttribute, wt: u16, wv: &[u8], unknown_data: bool) -> bool {
    use stun_rs::attributes::stun::*;
    if a.attribute_type().as_u16() != wt {
        return false;
    }
    match a {
        StunAttribute::Software(s) => s.as_str().as_bytes() == wv,
        StunAttribute::Unknown(u) => match u.attribute_data() {
            Some(d) => unknown_data && d == wv,
            None => !unknown_data,
        },
        StunAttribute::MessageIntegrity(m) => {
            <[u8; 20]>::try_from(wv).map(|v| *m == MessageIntegrity::from(v)).unwrap_or(false)
        }
        StunAttribute::MessageIntegritySha256(m) => {
            <[u8; 32]>::try_from(wv).map(|v| *m == MessageIntegritySha256::from(v)).unwrap_or(false)
        }
        StunAttribute::Fingerprint(f) => {
            <[u8; 4]>::try_from(wv).map(|v| *f == Fingerprint::from(v)).unwrap_or(false)
        }
        // the two over-long ordinary kinds: the decoded value is the leading part of the wire value
        StunAttribute::MappedAddress(m) => wv.len() >= 8 && m.socket_address().port() == u16::from_be_bytes([wv[2], wv[3]]),
        StunAttribute::Priority(p) => wv.len() >= 4 && p.as_u32() == u32::from_be_bytes([wv[0], wv[1], wv[2], wv[3]]),
        _ => false,
    }
}

fn run_case(out: &mut Out, opts: &str, kinds: &[u8], good: &[u8]) {
    let key = b"pw";
    out.rec(&format!(
        "C {} {} {}",
        opts,
        if kinds.is_empty() { "-" } else { std::str::from_utf8(kinds).unwrap() },
        if good.is_empty() { "-" } else { std::str::from_utf8(good).unwrap() }
    ));
    let (bytes, wire) = build(kinds, good, key);
    let dec = decoder(opts, key);
    let unknown_data = opts != "N" && opts.as_bytes()[1] == b'1';
    let res = guarded(|| dec.decode(&bytes));
    match res {
        Err(()) => out.imp("PANIC"),
        Ok(Err(_)) => out.imp("ERR"),
        Ok(Ok((msg, size))) => {
            if size != bytes.len() {
                out.imp(&format!("BADSIZE {}", size));
                return;
            }
            // map decoded attributes back to wire positions (order preserving, by type and value)
            let mut pos = 0usize;
            let mut adm: Vec<String> = vec![];
            let mut ok = true;
            for a in msg.attributes() {
                let mut found = None;
                while pos < wire.len() {
                    let (wt, wv) = &wire[pos];
                    if matches_wire(a, *wt, wv, unknown_data) {
                        found = Some(pos);
                        pos += 1;
                        break;
                    }
                    pos += 1;
                }
                match found {
                    Some(p) => adm.push(p.to_string()),
                    None => {
                        ok = false;
                        break;
                    }
                }
            }
            if ok {
                out.imp(&format!("OK {}", if adm.is_empty() { "-".to_string() } else { adm.join(",") }));
            } else {
                out.imp("FOREIGN");
            }
        }
    }
}

fn main() {
    let args = Args::parse();
    let mut out = args.writer();
    if let Some(lines) = args.replay_lines() {
        for l in lines {
            let f: Vec<&str> = l.split(' ').collect();
            if f[0] == "C" {
                let kinds = if f[2] == "-" { "" } else { f[2] };
                let good = if f[3] == "-" { "" } else { f[3] };
                run_case(&mut out, f[1], kinds.as_bytes(), good.as_bytes());
            }
        }
        out.finish();
        return;
    }
    let maxlen = args.get("maxlen").map(|s| s.parse().unwrap()).unwrap_or(if args.thorough { 8 } else { 6 });
    let mut rng = args.rng(0xF117);
    let alpha = [b'O', b'M', b'S', b'F'];
    let mut idx: u64 = 0;
    let mut cases = 0u64;
    for len in 0..=maxlen {
        let total = 4u64.pow(len as u32);
        for code in 0..total {
            idx += 1;
            if idx % args.shards != args.shard {
                continue;
            }
            let kinds: Vec<u8> = (0..len).map(|j| alpha[((code >> (2 * j)) & 3) as usize]).collect();
            // good-bit variants: all good; random subset bad; exactly the attributes after the first FINGERPRINT
            // / after an integrity attribute bad (they must not be validated)
            let all_good = vec![b'1'; len];
            let rnd: Vec<u8> = (0..len).map(|j| if kinds[j] != b'O' && rng.chance(1, 3) { b'0' } else { b'1' }).collect();
            let mut seen = false;
            let tail_bad: Vec<u8> = kinds
                .iter()
                .map(|k| {
                    let r = if seen && *k != b'O' { b'0' } else { b'1' };
                    if *k == b'F' {
                        seen = true;
                    }
                    r
                })
                .collect();
            let mut variants = vec![all_good];
            if !variants.contains(&rnd) {
                variants.push(rnd);
            }
            if !variants.contains(&tail_bad) {
                variants.push(tail_bad);
            }
            for good in &variants {
                for o in OPTS.iter() {
                    run_case(&mut out, o, &kinds, good);
                    cases += 1;
                }
            }
        }
    }
    out.note(&format!("suite=filter maxlen={} cases={}", maxlen, cases));
    out.finish();
}
