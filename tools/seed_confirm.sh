#!/bin/sh
# Confirm a seeded change in its scratch worktree: with the patch the whole test suite passes and the demo fails;
# without it the demo passes.   usage: seed_confirm.sh <worktree> <seed dir>
WT=$1; SD=$2
export CARGO_TARGET_DIR=$WT/target CARGO_NET_OFFLINE=true
crate=$(python3 -c "import json;print(json.load(open('$SD/meta.json'))['demo_crate'])")
cd $WT && git checkout -q -- . && git apply --check $SD/patch.diff || { echo "PATCH DOES NOT APPLY"; exit 2; }
mkdir -p $crate/tests && cp $SD/demo.rs $crate/tests/seed_demo.rs
echo "== demo without the change"; cargo test -q -p $crate --all-features --offline --test seed_demo 2>&1 | grep -E "^test result|panicked|error" | head -5
git apply $SD/patch.diff
echo "== demo with the change"; cargo test -q -p $crate --all-features --offline --test seed_demo 2>&1 | grep -E "^test result|panicked|error" | head -5
rm -f $crate/tests/seed_demo.rs; rmdir $crate/tests 2>/dev/null
echo "== existing suite with the change"; cargo test --workspace --offline 2>&1 | grep -E "^test result" | awk '{p+=$4; f+=$6} END {print "passed", p, "failed", f}'
git checkout -q -- . ; git status --short | head -3
rm -rf $WT/target
