#!/usr/bin/env python3
"""Build /verif/corpus/<suite>.cases from the replay files of earlier runs (replays/*.json, written when a check ran against
a seeded breakage): the failing inputs become a corpus that every later run executes first, so that a breakage of the same
shape is found whatever the generator seed.

Run on the UNCHANGED tree: a case is kept only if, replayed alone now, the harness and the driver process it, model and
implementation agree and no monitor fails except for the classes listed in known_findings.json (a kept case can therefore
never raise an alarm on the tree it was admitted on).   usage: tools/mkcorpus.py [replay.json ...]
"""
import sys, os, json, glob, shutil
sys.path.insert(0, os.path.dirname(os.path.abspath(__file__)))
import check as C  # noqa: E402


def main():
    files = sys.argv[1:] or sorted(glob.glob(os.path.join(C.ROOT, 'replays', '*.json')))
    known = set(k['class'] for k in C.load_known() if k['status'] == 'known')
    rc, out = C.build_driver()
    assert rc == 0, out
    rc, out = C.build_harness(sorted(set(s['bin'] for s in C.SUITES.values())))
    assert rc == 0, out
    per = {}
    for f in files:
        r = json.load(open(f))
        if r.get('kind') == 'broken-obligation':
            fd = (r.get('broken') or [{}])[0].get('first_difference')
            if not fd or not r['broken'][0].get('obligation', '').startswith('correspondence suite'):
                continue
            suite = r['broken'][0]['obligation'].split()[2].rstrip(':')
            case = fd['case']
        else:
            suite, case = r.get('suite'), r.get('case')
        if not suite or not case or suite not in C.SUITES:
            continue
        suite = suite.replace('-release', '')
        lines = [l for l in case if l and l[0] in 'CHO']
        if not lines or lines[0][0] not in 'CH':
            continue
        per.setdefault(suite, {})['\n'.join(lines)] = (lines, os.path.basename(f))
    os.makedirs(C.CORPUS, exist_ok=True)
    wd = os.path.join(C.CACHE, 'work', 'mkcorpus-%d' % os.getpid())
    for suite, cases in sorted(per.items()):
        path = os.path.join(C.CORPUS, suite + '.cases')
        have = {}
        if os.path.exists(path):
            cur = []
            for l in open(path):
                l = l.rstrip('\n')
                if l and l[0] in 'CH':
                    if cur:
                        have['\n'.join(cur)] = cur
                    cur = []
                if l and l[0] in 'CHO':
                    cur.append(l)
            if cur:
                have['\n'.join(cur)] = cur
        kept = dropped = 0
        for key, (lines, src) in cases.items():
            if key in have:
                continue
            try:
                res = C.run_suite(suite, 'quick', 1, wd, replay_lines=lines)
            except Exception as e:  # malformed for the current record format
                res = dict(errors=[str(e)], ndiff=0, mon_fail=[], results=0, missing_model=0)
            bad = res['errors'] or res['ndiff'] or res['missing_model'] or res['results'] == 0 or \
                any(m['cls'] not in known for m in res['mon_fail'])
            if bad:
                dropped += 1
                continue
            have[key] = lines
            kept += 1
        with open(path, 'w') as f:
            f.write('# kept failing inputs of earlier (seeded) breakages; every check of a property using suite %s runs them first\n' % suite)
            for lines in have.values():
                f.write('\n'.join(lines) + '\n')
        print('%s: %d cases in the corpus (+%d new, %d rejected as not replayable on the current tree)' % (suite, len(have), kept, dropped))
    shutil.rmtree(wd, ignore_errors=True)


if __name__ == '__main__':
    main()
