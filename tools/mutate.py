#!/usr/bin/env python3
"""Mutation testing of the CHECKS (not of /repo's tests): small syntactic changes are applied to scratch working trees of
/repo (never to /repo itself), and every change that still compiles is run through the quick checks of the properties its
file belongs to (VERIF_REPO mode of tools/check.py). A change that no check reports is then run through the existing test
suite; the ones that also pass the tests ("survivors") are listed for triage: each is either an equivalent change (the
behaviour the properties speak about is the same) or a gap in the checks.

usage: mutate.py [--workers 4] [--count 300] [--seed 1] [--files glob,...] [--out /tmp/mut/results.jsonl]
Results: one JSON line per mutant {file, line, op, before, after, status: nocompile | detected:<Cxx> | killed-by-tests |
SURVIVOR, ...}.  Scratch trees live under /tmp/mut/w<k>/ and are removed at the end (--keep to keep them)."""
import sys, os, re, json, random, subprocess, shutil, time, argparse
from concurrent.futures import ThreadPoolExecutor

ROOT = os.path.dirname(os.path.dirname(os.path.abspath(__file__)))
BASE = '/tmp/mut'

# which properties speak about which source file (quick checks run in this order; the first one that fires ends the run)
FILE_PROPS = [
    (r'stun-agent/src/timeout\.rs', ['C06', 'C11', 'C05', 'C12']),
    (r'stun-agent/src/rtt\.rs', ['C15']),
    (r'stun-agent/src/client\.rs', ['C05', 'C11', 'C12', 'C06', 'C17', 'C15', 'C13', 'C10', 'C07', 'C08', 'C03']),
    (r'stun-agent/src/lt_cred_mech\.rs', ['C08', 'C13', 'C17', 'C03']),
    (r'stun-agent/src/st_cred_mech\.rs', ['C07', 'C13', 'C17']),
    (r'stun-agent/src/integrity\.rs', ['C07', 'C08', 'C17', 'C05']),
    (r'stun-agent/src/fingerprint\.rs', ['C10', 'C13']),
    (r'stun-agent/src/message\.rs', ['C13', 'C07', 'C08']),
    (r'stun-agent/src/lib\.rs', ['C16', 'C03', 'C07', 'C08']),
    (r'stun-agent/src/events\.rs', ['C05', 'C11']),
    (r'stun-rs/src/context\.rs', ['C09', 'C18', 'C14', 'C01', 'C04', 'C10', 'C03']),
    (r'stun-rs/src/raw\.rs', ['C03', 'C04', 'C10', 'C09', 'C01']),
    (r'stun-rs/src/common\.rs', ['C01', 'C14', 'C02', 'C03']),
    (r'stun-rs/src/message\.rs', ['C02', 'C01', 'C19', 'C03']),
    (r'stun-rs/src/types\.rs', ['C01', 'C04', 'C19', 'C02', 'C03']),
    (r'stun-rs/src/strings\.rs', ['C01', 'C19', 'C03']),
    (r'stun-rs/src/registry\.rs', ['C18', 'C01', 'C03']),
    (r'stun-rs/src/algorithm\.rs', ['C01', 'C19', 'C08']),
    (r'stun-rs/src/attributes/stun/(message_integrity|message_integrity_sha256)\.rs|stun-rs/src/attributes/integrity_attr\.rs', ['C04', 'C01', 'C14']),
    (r'stun-rs/src/attributes/stun/fingerprint\.rs', ['C10', 'C01', 'C14']),
    (r'stun-rs/src/attributes/stun/nonce_cookie\.rs', ['C19', 'C03', 'C08']),
    (r'stun-rs/src/attributes/stun/password_algorithms?\.rs', ['C01', 'C02', 'C14', 'C19', 'C03']),
    (r'stun-rs/src/attributes/.*\.rs', ['C01', 'C02', 'C03', 'C14', 'C19']),
    (r'stun-rs/src/.*\.rs', ['C01', 'C03', 'C19']),
]


def props_for(rel):
    for pat, props in FILE_PROPS:
        if re.fullmatch(pat, rel):
            return props
    return []


def code_lines(path):
    """(line number, text) of the lines that are production code: not comments, not the trailing test module, not the
    verification hooks, not logging"""
    out = []
    lines = open(path, errors='replace').read().split('\n')
    in_hook = 0
    for i, l in enumerate(lines):
        st = l.strip()
        if st.startswith('#[cfg(test)]'):
            break
        if 'cfg(rustun_verif)' in st:
            in_hook = 1
            continue
        if in_hook:
            # skip the item that follows the cfg attribute (until its closing brace at the same indentation or a `;` line)
            if in_hook == 1:
                hook_indent = len(l) - len(l.lstrip())
                in_hook = 2
                if st.endswith(';') or st.endswith(','):
                    in_hook = 0
                continue
            if (len(l) - len(l.lstrip())) == hook_indent and st.startswith('}'):
                in_hook = 0
            continue
        if not st or st.startswith('//') or st.startswith('#[') or st.startswith('use ') or st.startswith('pub use '):
            continue
        if re.match(r'^(debug|trace|info|warn|error|println|eprintln)!', st):
            continue
        out.append((i, l))
    return out


def strip_strings(l):
    """the line with string / char literal contents and trailing comments blanked (same length)"""
    res, i, n = [], 0, len(l)
    while i < n:
        if l.startswith('//', i):
            res.append(' ' * (n - i))
            break
        if l[i] == '"':
            j = i + 1
            while j < n and l[j] != '"':
                j += 2 if l[j] == '\\' else 1
            res.append('"' + ' ' * max(0, min(j, n) - i - 1) + ('"' if j < n else ''))
            i = j + 1
            continue
        res.append(l[i])
        i += 1
    return ''.join(res)[:n].ljust(n)


def mutants_of_line(l):
    """[(op name, new line)]"""
    s = strip_strings(l)
    out = []

    def sub(op, m, rep):
        out.append((op, l[:m.start()] + rep + l[m.end():]))
    for m in re.finditer(r'==', s):
        if s[m.start() - 1:m.start()] not in ('=', '!', '<', '>') and s[m.end():m.end() + 1] != '=':
            sub('eq->ne', m, '!=')
    for m in re.finditer(r'!=', s):
        sub('ne->eq', m, '==')
    for m in re.finditer(r' <= ', s):
        sub('le->lt', m, ' < ')
    for m in re.finditer(r' >= ', s):
        sub('ge->gt', m, ' > ')
    for m in re.finditer(r' < ', s):
        sub('lt->le', m, ' <= ')
    for m in re.finditer(r' > ', s):
        sub('gt->ge', m, ' >= ')
    for m in re.finditer(r' && ', s):
        sub('and->or', m, ' || ')
    for m in re.finditer(r' \|\| ', s):
        if not re.match(r'\s*[{|]', s[m.end():]):
            sub('or->and', m, ' && ')
    for m in re.finditer(r' \+ ', s):
        sub('add->sub', m, ' - ')
    for m in re.finditer(r' - ', s):
        sub('sub->add', m, ' + ')
    for m in re.finditer(r' \+= ', s):
        sub('addassign->subassign', m, ' -= ')
    for m in re.finditer(r' -= ', s):
        sub('subassign->addassign', m, ' += ')
    for m in re.finditer(r' \* ', s):
        if not re.search(r'[(=,]\s*$', s[:m.start()]):
            sub('mul->add', m, ' + ')
    for m in re.finditer(r'\b(true|false)\b', s):
        sub('bool-flip', m, 'false' if m.group(1) == 'true' else 'true')
    for m in re.finditer(r'(?<![\w.])(0x[0-9A-Fa-f_]+|\d[\d_]*)(?![\w.]|\.\d)', s):
        t = m.group(1).replace('_', '')
        try:
            v = int(t, 16) if t.startswith('0x') else int(t)
        except ValueError:
            continue
        if v > 0xFFFFFF:
            continue
        fmt = (lambda x: hex(x)) if t.startswith('0x') else str
        sub('lit+1', m, fmt(v + 1))
        if v > 0:
            sub('lit-1', m, fmt(v - 1))
    for m in re.finditer(r'\bif !(?=[\w(])', s):
        sub('drop-not', m, 'if ')
    for m in re.finditer(r'\b(min|max)\(', s):
        sub('min<->max', m, ('max(' if m.group(1) == 'min' else 'min('))
    for m in re.finditer(r'\.is_(some|none)\(\)', s):
        sub('some<->none', m, '.is_none()' if m.group(1) == 'some' else '.is_some()')
    st = l.strip()
    if re.match(r'^(self\.)?[\w.\[\]]+\s*(=|\+=|-=|\*=|\|=)\s*[^=].*;$', st) and not st.startswith('let '):
        out.append(('delete-assignment', l[:len(l) - len(l.lstrip())] + '// ' + st))
    elif re.match(r'^[\w.:]+(::<[^>]*>)?\(.*\);$', st) or re.match(r'^self\.[\w.]+\(.*\);$', st):
        out.append(('delete-call', l[:len(l) - len(l.lstrip())] + '// ' + st))
    if re.match(r'^break;$', st):
        out.append(('break->continue', l.replace('break;', 'continue;')))
    if re.match(r'^continue;$', st):
        out.append(('continue->break', l.replace('continue;', 'break;')))
    return [(op, nl) for op, nl in out if nl != l]


def enumerate_mutants(repo, globs):
    import glob
    files = []
    for g in globs:
        files += glob.glob(os.path.join(repo, g), recursive=True)
    res = []
    for f in sorted(set(files)):
        rel = os.path.relpath(f, repo)
        if not props_for(rel) or '/tests/' in rel or rel.endswith('/tests.rs'):
            continue
        for i, l in code_lines(f):
            for op, nl in mutants_of_line(l):
                res.append(dict(file=rel, line=i + 1, op=op, before=l.strip(), after=nl.strip(), new_line=nl))
    return res


def sh(cmd, cwd=None, env=None, timeout=1800):
    """run in its own process group; on timeout the whole group is killed (a harness spinning on a mutant must not survive)"""
    import signal
    e = dict(os.environ)
    e.update({'CARGO_NET_OFFLINE': 'true'})
    if env:
        e.update(env)
    p = subprocess.Popen(cmd, cwd=cwd, env=e, stdout=subprocess.PIPE, stderr=subprocess.STDOUT, text=True, errors='replace',
                         shell=isinstance(cmd, str), start_new_session=True)
    try:
        out, _ = p.communicate(timeout=timeout)
        return p.returncode, out
    except subprocess.TimeoutExpired:
        try:
            os.killpg(p.pid, signal.SIGKILL)
        except OSError:
            pass
        out, _ = p.communicate()
        return 124, out or ''


def worker(k, jobs, out_path, jobs_per_cargo):
    wd = os.path.join(BASE, 'w%d' % k)
    repo = os.path.join(wd, 'repo')
    cache = os.path.join(wd, 'cache')
    if not os.path.exists(repo):
        os.makedirs(wd, exist_ok=True)
        sh(['git', '-C', '/repo', 'worktree', 'add', '-q', '--detach', repo, 'HEAD'])
    env = {'VERIF_REPO': repo, 'VERIF_CACHE': cache, 'CARGO_BUILD_JOBS': str(jobs_per_cargo)}
    tenv = {'CARGO_TARGET_DIR': os.path.join(wd, 'target'), 'CARGO_BUILD_JOBS': str(jobs_per_cargo)}
    for mu in jobs:
        t0 = time.time()
        path = os.path.join(repo, mu['file'])
        orig = open(path).read()
        lines = orig.split('\n')
        if lines[mu['line'] - 1].strip() != mu['before']:
            continue
        lines[mu['line'] - 1] = mu['new_line']
        open(path, 'w').write('\n'.join(lines))
        status, detail = None, ''
        try:
            crate = mu['file'].split('/')[0]
            rc, out = sh(['cargo', 'build', '--offline', '-q', '-p', crate, '--all-features'] if crate == 'stun-rs' else ['cargo', 'build', '--offline', '-q', '-p', crate], cwd=repo, env=tenv)
            if rc != 0:
                status = 'nocompile'
            else:
                weak = []
                for prop in props_for(mu['file']):
                    rc, out = sh([os.path.join(ROOT, 'check'), prop, '--tier', 'quick'], cwd=ROOT, env=env, timeout=1200)
                    if rc != 0 and 'VIOLATION property=%s' % prop in out:
                        vs = [x for x in out.split('\n') if x.startswith('VIOLATION')]
                        if any('no-failing-input-found' not in v for v in vs):
                            status = 'detected:%s' % prop            # a concrete failing input
                            break
                        weak.append(prop)                           # only an obligation that no longer checks: look further
                    if rc not in (0, 1):
                        detail += 'check %s exit %s: %s\n' % (prop, rc, out[-400:])
                if status is None and weak:
                    status = 'detected:%s:obligation-only' % ','.join(weak)
                if status is None:
                    rc, out = sh(['cargo', 'test', '--workspace', '--offline', '--no-fail-fast'], cwd=repo, env=tenv, timeout=1800)
                    status = 'SURVIVOR' if rc == 0 else 'killed-by-tests'
                    if rc != 0:
                        detail += '\n'.join(x for x in out.split('\n') if x.startswith('test ') and 'FAILED' in x)[:600]
        finally:
            open(path, 'w').write(orig)
            shutil.rmtree(os.path.join(cache, 'work'), ignore_errors=True)
            shutil.rmtree(os.path.join(cache, 'replays'), ignore_errors=True)
        if shutil.disk_usage('/tmp').free < 20 * 2 ** 30:
            print('worker %d: less than 20 GB free, stopping' % k, flush=True)
            break
        rec = {k2: v for k2, v in mu.items() if k2 != 'new_line'}
        rec.update(status=status, detail=detail, secs=round(time.time() - t0, 1), worker=k)
        with open(out_path, 'a') as f:
            f.write(json.dumps(rec) + '\n')
    return k


def main():
    ap = argparse.ArgumentParser()
    ap.add_argument('--workers', type=int, default=4)
    ap.add_argument('--count', type=int, default=300)
    ap.add_argument('--seed', type=int, default=1)
    ap.add_argument('--files', default='stun-rs/src/**/*.rs,stun-agent/src/**/*.rs')
    ap.add_argument('--out', default=os.path.join(BASE, 'results.jsonl'))
    ap.add_argument('--ops', default='')
    ap.add_argument('--keep', action='store_true')
    ap.add_argument('--list', action='store_true')
    a = ap.parse_args()
    os.makedirs(BASE, exist_ok=True)
    allm = enumerate_mutants('/repo', a.files.split(','))
    if a.ops:
        allm = [m for m in allm if m['op'] in a.ops.split(',')]
    done = set()
    if os.path.exists(a.out):
        for l in open(a.out):
            try:
                r = json.loads(l)
                done.add((r['file'], r['line'], r['op'], r['after']))
            except ValueError:
                pass
    allm = [m for m in allm if (m['file'], m['line'], m['op'], m['after']) not in done]
    rnd = random.Random(a.seed)
    rnd.shuffle(allm)
    pick = allm[:a.count]
    print('%d candidate mutants, %d already done, running %d on %d workers' % (len(allm), len(done), len(pick), a.workers), flush=True)
    if a.list:
        for m in pick:
            print(m['file'], m['line'], m['op'], '|', m['before'], '->', m['after'])
        return 0
    shares = [pick[i::a.workers] for i in range(a.workers)]
    jobs_per = max(2, 16 // a.workers)
    with ThreadPoolExecutor(max_workers=a.workers) as ex:
        list(ex.map(lambda kv: worker(kv[0], kv[1], a.out, jobs_per), enumerate(shares)))
    if not a.keep:
        for k in range(a.workers):
            wd = os.path.join(BASE, 'w%d' % k)
            sh(['git', '-C', '/repo', 'worktree', 'remove', '--force', os.path.join(wd, 'repo')])
            shutil.rmtree(wd, ignore_errors=True)
        sh(['git', '-C', '/repo', 'worktree', 'prune'])
    summary = {}
    for l in open(a.out):
        r = json.loads(l)
        key = r['status'].split(':')[0] if r['status'] else 'none'
        summary[key] = summary.get(key, 0) + 1
    print('summary:', summary)
    return 0


if __name__ == '__main__':
    sys.exit(main())
