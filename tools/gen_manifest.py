#!/usr/bin/env python3
"""Regenerates MANIFEST.json from the table below (run after changing what is claimed)."""
import json, os, sys
ROOT = os.path.dirname(os.path.dirname(os.path.abspath(__file__)))
sys.path.insert(0, os.path.join(ROOT, 'tools'))
from props import PROPS

TECH = 'Rocq (Coq 8.16) theorems over an executable Gallina model + differential correspondence of the extracted model against the crates + Gallina spec monitors on the implementation trace'
NOTE_BASE = ('Trusted: Coq kernel (vm_compute used), extraction with ExtrOcamlBasic only, ocaml/driver.ml (parsing/printing), the Rust harness '
             '(generators, packet crafter, read-back of emitted packets, canonical renderings), tools/check.py. The Gallina models are hand-written; '
             'they are tied to /repo by the correspondence suites on every run, not by translation. ')

CLAIMS = {
 'C01': ('Theorems: (value level) under the documented limits every value of the 35 value-carrying kinds encodes in every large enough buffer and the typed decoder returns it; (message level) any method/class/transaction id and any sequence of such values encodes iff the 16-bit length allows, with size 20 + attribute bytes, a multiple of four, and the default decoder returns exactly those values in order with the same size (composition of the TLV round trip, the buffer-level encoder theorem, the ordering filter and the per-kind theorems). Tied to the code by codecrt (messages over all kinds, every method, every tail: bytes and decoded values compared with the Gallina codec) and attrval (per-kind decode/encode records). Known finding: the quoted-string constructors can store a non-canonical value (D8).',
         'PRECIS OpaqueString modelled on printable ASCII only; the Encodable integrity / fingerprint variants decode as value-carrying variants (their correctness is C04 / C10)'),
 'C02': ('Theorems: an independent reference written from the RFC figures as bit-field lists (Rfc/RfcLayout.v: header with the M11..M7 C1 M6..M4 C0 M3..M0 interleaving, magic cookie, length, TLV with zero padding, the 38 IANA type codes, address / XOR-address with cookie and transaction id, ERROR-CODE class/number, PASSWORD-ALGORITHM(S), every TURN / ICE / NAT-discovery layout) is proved equal to the codec model for every method, class, length, transaction id and every value within its documented limits of all 35 written kinds (C02_header, C02_attribute_tlv, C02_value_layout, C02_message_layout, C02_type_codes, C02_fingerprint_layout; message type also by exhaustive enumeration of the 16,384 pairs). The codec model is compared byte for byte with EVERY value and message the implementation encodes (suites attrval, codecrt; monitor C02). Must-ignore bits: named from the RFC texts by the Gallina mask msg_mask (Codec/Ignored.v); theorems C02_ignored_value / C02_ignored_message (the decoder model returns the same values for any two inputs that agree outside the mask); the codecrt suite decodes every encoded message and a copy perturbed only inside the mask and the monitor C02ign requires identical results.',
         'partial: the reference is tied to the implementation through the codec model and the sampled correspondence (not by a proof about the Rust code); the three attributes whose value the message encoder computes (MESSAGE-INTEGRITY, -SHA256, FINGERPRINT) have their layout theorems on the decode side and their bytes compared in the wire / codecrt suites (C04, C10)'),
 'C03': ('Model level: every operation of the reassembler and of the client is total in the model (explicit Panic outcomes for slice / subtraction sites of the reassembler, C16_no_panic); implementation level: every call of the agent and reassembler suites runs under catch_unwind and a panic is a violation. The decoder byte-level part is covered by the codec suites once registered.',
         'partial: external crates (PRECIS, pest, base64, hashes) are total functions by assumption; the codec byte-level no-panic theorem is not yet part of this check'),
 'C05': ('Trace monitor (Gallina, from the property text) on every implementation history: at most one final event per request, finals only for outstanding requests, no retransmission/notification for a finished request; plus exact agreement of every return value, event list and hook snapshot with the Gallina client model.',
         'assumes fresh transaction ids and monotone instants'),
 'C06': ('Theorems on RtoManager model: absolute schedule invariant, late calls skip to the least slot after now, failure iff the deadline has passed (Agent/Rto.v next_rto_expired/next_rto_first); monitor checks every retransmission instant, count, byte-identity and failure instant of every implementation history against slot/deadline.', ''),
 'C07': ('Trace monitor from the property text (delivery only with a valid MAC of the agreed algorithm, learned algorithm, outgoing USERNAME+integrity, protection-violated vs. timed-out) + exact model agreement.', 'MAC validity is abstract here (key descriptor equality); the byte-level meaning is C04'),
 'C08': ('Trace monitor with an RFC 8489 9.2.4 server (Gallina) judging every request, delivery soundness, indication refusal + exact model agreement. Two known findings (retry after 401 without integrity; retry after 438 without algorithm attributes) are listed in known_findings.json and reported as KNOWN-FINDING.', 'key derivation is abstract (token tuple)'),
 'C09': ('Theorems (all sequence lengths, all option sets, all correct/incorrect MAC assignments): the decoder filter equals the admission rule of the property text; the decode loop returns exactly the admitted sub-list and validates only admitted attributes; anything appended after an admitted FINGERPRINT changes nothing. Tied to the code by decoding every kind sequence up to length 6 (quick) / 8 (thorough: all 87,380) as real messages under 9 option sets.',
         'kind-level abstraction: typed decoders succeed on generated attributes; HMAC/CRC collisions excluded'),
 'C11': ('Trace monitor: notification iff something outstanding, names an entry of minimal expiry of the hook snapshot with max(0, expiry-now), one pending entry per outstanding request; with C06 (everything past its deadline fails in that very call) this gives the sufficiency argument. Exact model agreement.', 'liveness relative to the controller firing its timer'),
 'C12': ('Trace monitor: refusal iff live = limit, refusal is a no-op (events, snapshot), count never exceeds the limit, finals free exactly one slot (through C05), indications free. Exact model agreement.', ''),
 'C13': ('Trace monitor on every first transmission read back by the harness (independent TLV walk, HMAC, CRC): class/method, one attribute per type, application attributes first in first-insertion order, integrity/FINGERPRINT last in order and verifying; retransmissions byte-identical. Exact model agreement of the full attribute layout.', 'id freshness is checked by the harness, not proved'),
 'C04': ('Theorems on the byte-level decoder model with the Gallina HMAC-SHA1/SHA256: acceptance of any buffer under key k <-> its first integrity attribute equals HMAC(k, RFC input text); the input text is the RFC 8489 14.5/14.6 prefix with adjusted length whatever follows; the RFC MAC is accepted whatever is appended; no key -> no acceptance; acceptance under another key or text is an explicit HMAC collision. Tied to the code by the wire suite (impl verdict = Gallina verdict on every buffer) and by enumerating every single-bit fault and 16 byte substitutions per protected byte on the implementation.',
         'never = no HMAC collision (not excluded by any theorem); key derivation (OpaqueString / MD5 / SHA-256 of user:realm:pass) is exercised through the agent suite and the attrval suite, not proved'),
 'C10': ('Theorems: acceptance of any buffer <-> its first FINGERPRINT xor 0x5354554e = CRC-32 of the RFC text (Gallina CRC-32/ISO-HDLC with check value); the encoder value validates; CRC linearity => any error pattern confined to one byte changes the CRC. Tied to the code by the wire suite (verdict equality, all single-bit faults and 16 substitutions of EVERY byte of messages with a FINGERPRINT) and the agent suite (client enforcement monitor).',
         'faults that re-interpret the layout are covered by accept_iff_crc + enumeration, not by a never-theorem'),
 'C14': ('Theorems: the encoder with the caller buffer explicit succeeds exactly when the message fits the buffer and the 16-bit length (every value too), returns the exact size, leaves the rest of the buffer untouched, otherwise returns an error (never a wrapped length, never a panic); with MI/SHA256/FINGERPRINT tails success, size and buffer length are unchanged. Tied to the code by encoding into every buffer length 0..needed+8 with three pre-fills, and attribute lists around and beyond 65,535 bytes, in debug and release builds, comparing the whole buffer.',
         ''),
 'C15': ('Trace monitor: the RTO in force at every send_request (read from the hook) is compared with an RFC 6298 reference in Gallina (alpha 1/8, beta 1/4, K 4, granularity, first sample SRTT=R RTTVAR=R/2, RTTVAR before SRTT, Karn: only transactions completed without retransmission, reset when more than 600 s pass between consecutive requests) within the tolerance the property states (1e-5 relative + 1 us); dedicated long send/response sequences with gaps around the 600 s boundary.',
         'partial: the implementation computes in f32; closeness is measured within the stated tolerance, not proved; the reference uses fixed point with 2^-16 ns resolution; zero-length response times are outside the property and switch the monitor off for the rest of the history'),
 'C18': ('Theorems on the byte-level decoder model for every buffer and whatever the typed decoders do: validation success implies the same result without validation; with the ordering rule disabled every wire attribute is returned and the default result is the sub-list selected by the admission rule, both succeed together without validation; no context = default context; unknown-attribute data cannot change which attributes are returned. Tied to the code by the wire suite (17 decoder configurations per buffer, pairwise monitor) and the filter suite.',
         'unknown-data payload equality is checked on the implementation by the harness (value level)'),
 'C19': ('Theorems on a reference-counted heap model of the Arc-backed mutable value types: with copy-on-write every operation of every well-formed script over {new, clone, add, read} returns what value semantics returns and never panics (refinement, any script length); witness that the get_mut().unwrap() variant panics. Tied to the code by 8,000 (quick) / 200,000 (thorough) clone scripts on PasswordAlgorithms and UnknownAttributes and by sweeps of the public constructors / accessors / conversions under catch_unwind (all u16 / u8 domains exhaustively, ~900 strings).',
         'partial: Arc is a hand-written model; the API sweeps are an implementation-side no-panic oracle (finite domains exhaustive, strings sampled); per-function no-panic theorems exist for the typed decoders (attribute-value model) only'),
 'C16': ('Theorems: any two chunkings of a stream give the same packets and first error; a concatenation of well-formed packets yields exactly those packets; every decode() call outcome (packet, consumed, missing, error kind and consumed) equals the unchunked reading; no call panics; bytes are conserved; missing count exact. Tied to the code by the reasm suite.', ''),
 'C17': ('Trace monitor: an error return from on_buffer_recv produces no events and leaves the hook snapshot (outstanding ids, pending timeouts, credential state) unchanged except for at most one marker on unreliable transport; exact model agreement of the continuation.', ''),
}

def main():
    props = [json.loads(l) for l in open(os.path.join(ROOT, 'properties.jsonl'))]
    checks, na = [], []
    for p in props:
        pid = p['id']
        if pid in CLAIMS and pid in PROPS:
            text, note = CLAIMS[pid]
            checks.append(dict(
                property_id=pid, quick_cmd='./check %s --tier quick' % pid, thorough_cmd='./check %s --tier thorough' % pid,
                evidence_file='evidence/%s.json' % pid, replay_cmd_template='./check %s --replay {path}' % pid,
                engine='rocq-proof+correspondence',
                level_claimed=dict(category='proof', text=text, design_ref='DESIGN.md section 5, ' + pid),
                level_note=NOTE_BASE + note, technique=TECH))
        else:
            na.append(dict(property_id=pid, reason='not yet claimed: the check for this property is still being built (DESIGN.md section 7)'))
    m = dict(version=1, setup_cmd='./setup.sh',
             hooks=dict(guard='rustun_verif', enable='RUSTFLAGS="--cfg rustun_verif" (set by tools/check.py when it builds harness/ against /repo)',
                        baseline_off_cmd='cd /repo && cargo test --workspace --no-fail-fast --offline',
                        source_commits=['13cb044'], add_only=True),
             engines=[dict(name='rocq-proof+correspondence', path='check', serves_properties=[c['property_id'] for c in checks],
                           kind_free_text='Rocq (Coq 8.16.1) theorems over hand-written executable Gallina models; models and Gallina spec monitors extracted to OCaml (ExtrOcamlBasic) and run against the real crates on generated cases / histories by a Rust harness')],
             checks=checks, notes='see DESIGN.md; known findings in known_findings.json', not_applicable=na)
    json.dump(m, open(os.path.join(ROOT, 'MANIFEST.json'), 'w'), indent=1)
    print('claimed:', [c['property_id'] for c in checks])

main()
