#!/bin/sh
# Run the given checks against a seeded change applied to a scratch working tree (never to /repo).
# usage: seed_run.sh <patch> <Cxx> [<Cxx>...]
P=$1; shift
W=/tmp/seedrun.$$
mkdir -p $W
git -C /repo worktree add -q --detach $W/repo HEAD || exit 2
git -C $W/repo apply $P || { git -C /repo worktree remove --force $W/repo; exit 2; }
for c in "$@"; do
  echo "--- ./check $c (with $P applied)"
  (cd /verif && VERIF_REPO=$W/repo VERIF_CACHE=$W/cache ./check $c ${TIER:+--tier $TIER} 2>&1 | grep -E "^VIOLATION|^OK|^KNOWN|FAILED|\[suite" | head -12)
done
git -C /repo worktree remove --force $W/repo; rm -rf $W; git -C /repo worktree prune
