#!/bin/sh
# Apply a seeded change to /repo, run the given checks, undo it.  usage: seed_run.sh <patch> <Cxx> [<Cxx>...]
P=$1; shift
cd /repo && git status --short | grep -q . && { echo "/repo is not clean"; exit 2; }
git -C /repo apply $P || exit 2
for c in "$@"; do
  echo "--- ./check $c (with $P applied)"
  (cd /verif && ./check $c ${TIER:+--tier $TIER} 2>&1 | grep -E "^VIOLATION|^OK|^KNOWN|FAILED|\[suite" | head -12)
done
git -C /repo checkout -- .
