#!/bin/sh
# False-alarm test: behaviour-preserving refactorings of /repo (refactorings/<id>/patch.diff, produced by independent
# sub-agents, every one passing the whole test suite) are applied to a scratch working tree and every quick check runs
# against it (VERIF_REPO mode). Prints the checks that raise an alarm. Expected (DESIGN 8.8): only obligations of the
# functions translated from the Rust text (agreement lemmas whose proof is tied to the shape of the code), each ending
# `no-failing-input-found`; never a failing input, never a monitor, constant or correspondence alarm.
# usage: tools/refactor_test.sh [R1 ...]
cd /verif
W=/tmp/reftest.$$
mkdir -p $W
git -C /repo worktree add -q --detach $W/repo HEAD || exit 2
for n in ${*:-$(ls refactorings)}; do
  git -C $W/repo checkout -q -- . ; git -C $W/repo apply /verif/refactorings/$n/patch.diff || { echo "$n: patch does not apply"; continue; }
  for c in C01 C02 C03 C04 C05 C06 C07 C08 C09 C10 C11 C12 C13 C14 C15 C16 C17 C18 C19; do
    out=$(VERIF_REPO=$W/repo VERIF_CACHE=$W/cache ./check $c 2>&1)
    if echo "$out" | grep -q "^VIOLATION"; then
      echo "$n $c ALARM: $(echo "$out" | grep -E "FAILED|^VIOLATION" | head -3 | cut -c1-260 | tr '\n' ' ')"
    fi
  done
  echo "$n done"
done
git -C /repo worktree remove --force $W/repo; rm -rf $W; git -C /repo worktree prune
