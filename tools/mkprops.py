#!/usr/bin/env python3
"""Generate a Props/<Cxx>.v statement file from already proved lemmas: the statement of each lemma is printed by coqtop
(Check) and restated verbatim as `Theorem <name> : <statement>. Proof. exact <lemma>. Qed.` followed by Print Assumptions.
usage: mkprops.py <Cxx> <header comment file or -> <imports line> name=Module.lemma[@comment] ..."""
import sys, subprocess, re, os
ROOT = os.path.dirname(os.path.dirname(os.path.abspath(__file__)))
COQ = os.path.join(ROOT, 'coq')

def statement(imports, lemma):
    src = 'From Coq Require Import List NArith Bool.\nImport ListNotations.\n%s\nOpen Scope N_scope.\nSet Printing Width 110.\nSet Printing Depth 1000.\nCheck %s.\n' % (imports, lemma)
    p = subprocess.run(['coqtop', '-Q', COQ, 'Rustun', '-quiet'], input=src, capture_output=True, text=True, cwd=COQ)
    out = p.stdout
    m = re.search(r'\n\s*: (.*?)\n\n', out + '\n\n', re.S)
    if not m:
        raise SystemExit('cannot get statement of %s:\n%s\n%s' % (lemma, out, p.stderr))
    return m.group(1)

def main():
    prop, title, imports = sys.argv[1], sys.argv[2], sys.argv[3]
    items = sys.argv[4:]
    lines = ['(* %s. Statements only; proofs live in the imported files. *)' % title,
             'From Coq Require Import List NArith Bool.', 'Import ListNotations.', imports, 'Open Scope N_scope.', '']
    for it in items:
        spec, _, comment = it.partition('@')
        name, lemma = spec.split('=')
        st = statement(imports, lemma)
        if comment:
            lines.append('(* %s *)' % comment)
        lines.append('Theorem %s :\n  %s.' % (name, st.replace('\n', '\n  ')))
        lines.append('Proof. exact %s. Qed.' % lemma)
        lines.append('Print Assumptions %s.\n' % name)
    open(os.path.join(COQ, 'Props', prop + '.v'), 'w').write('\n'.join(lines))
    print('wrote Props/%s.v with %d theorems' % (prop, len(items)))
main()
