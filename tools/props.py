"""Per-property and per-suite configuration of the orchestrator."""

# .vo files Extract.v depends on (built before extraction)
EXTRACT_DEPS = ['Codec/FilterCase.vo', 'Agent/ReasmRs.vo', 'Agent/Model.vo', 'Agent/Monitors.vo', 'Codec/WireMon.vo', 'Codec/EncodeMsg.vo', 'Proofs/ArcHeapProofs.vo', 'Codec/AttrValue.vo', 'Codec/WireFull.vo', 'Codec/Message.vo', 'Codec/Keys.vo', 'Codec/Ignored.vo', 'Agent/AbsGlue.vo', 'Agent/Concrete.vo', 'Agent/RttExact.vo', 'Codec/ValueApi.vo']

# which constant-agreement files (Proofs/<name>.v over the generated constants) belong to which property
CONSTS = {}
for _p in ('C01', 'C02', 'C03', 'C04', 'C09', 'C10', 'C13', 'C14', 'C16', 'C18', 'C19'):
    CONSTS.setdefault(_p, []).append('ConstantsCodec')
for _p in ('C06', 'C12', 'C15'):
    CONSTS.setdefault(_p, []).append('ConstantsAgent')           # client defaults
CONSTS.setdefault('C02', []).append('ConstantsMethods')         # IANA method numbers
CONSTS.setdefault('C08', []).append('ConstantsAgentNonce')       # nonce-cookie header and feature bits
CONSTS.setdefault('C15', []).append('ConstantsAgentRtt')         # ALPHA, BETA, K, staleness limit
# functions translated from /repo's current Rust text (tools/rs2v.py -> coq/Generated/Code.v) and the lemmas proving that
# each equals the hand-written model for all arguments
for _p in ('C01', 'C02', 'C14'):
    CONSTS.setdefault(_p, []).append('CodeAgreePad')             # padding()
for _p in ('C09', 'C18'):
    CONSTS.setdefault(_p, []).append('CodeAgreeFilter')          # ignore_attribute()
for _p in ('C02', 'C19'):
    CONSTS.setdefault(_p, []).append('CodeAgreeCodec')           # message-type conversions
for _p in ('C06', 'C11'):
    CONSTS.setdefault(_p, []).append('CodeAgreeRto')
CONSTS.setdefault('C15', []).append('CodeAgreeRtt')
for _p in ('C07', 'C08'):
    CONSTS.setdefault(_p, []).append('CodeAgreeIter')           # the agent's protected-attribute iterator
CONSTS.setdefault('C13', []).append('CodeAgreeAttrs')           # message.rs StunAttributes::add / remove = Model.add_attr / remove
for _p in ('C07', 'C08', 'C17'):
    CONSTS.setdefault(_p, []).append('CodeAgreeIntegrity')      # integrity.rs TransportIntegrity = Model.discard_message / compute_mi / mem, del
# raw.rs (header, RawMessage, attribute iterator, get_input_text) = Wire.hdr_valid / Tlv.dec_tlvs / InputText.input_text
for _p in ('C03', 'C04', 'C09', 'C10', 'C18'):
    CONSTS.setdefault(_p, []).append('CodeAgreeRaw')
# lib.rs StunPacketDecoder::new / decode (with raw.rs MessageHeader::try_from) = Reasm.feed / ReasmRs.feed_rs / new_rs / run_log
CONSTS.setdefault('C16', []).append('CodeAgreeRaw')
for _p in ('C03', 'C16'):
    CONSTS.setdefault(_p, []).append('CodeAgreeReasm')

SUITES = {
    'attrval': dict(bin='attrval', nontrivial=r'^C [DE] '),
    # bin: harness binary; driver: suite name given to ocaml/driver; nontrivial: regex on the record line
    'filter': dict(bin='filter', nontrivial=r'^C \S+ \S*[MSF]\S*[OMSF]'),
    # non-trivial: at least two chunks
    'agent': dict(bin='agent', nontrivial=r'^H '),
    # the harness' byte <-> abstract-message glue against the Gallina abstraction function (AbsGlue.abs_packet)
    'absglue': dict(bin='agent', driver='absglue', args=['--glue', '1'], nontrivial=r'^C P \S+ \S+ .*[0-9a-f]{60}'),
    'wire': dict(bin='wire', nontrivial=r'^C (F |\S+ \S{48})'),
    'encbuf': dict(bin='encbuf', nontrivial=r'^C (T |\d+ \d \S+ \d+ \S+ [pmsf])'),
    'encbuf-release': dict(bin='encbuf', driver='encbuf', release=True, nontrivial=r'^C (T |\d+ \d \S+ \d+ \S+ [pmsf])'),
    'valueapi': dict(bin='valueapi', nontrivial=r'^C (A|V|S \S \S*c)'),
    # C V records: the RESULT of every modelled value-type function against Codec/ValueApi.v (harness/src/valuev.rs)
    'codecrt': dict(bin='codecrt', nontrivial=r'^C \d+ \d \S+ v'),
    'reasm': dict(bin='reasm', nontrivial=r'^C \d+ \S+ \S+'),
}

AGENT_RULE = ('suite agent: random histories (8-60 operations) of a StunClient over {send_request, send_indication, on_buffer_recv of crafted '
    'replies, on_timeout on time / early / late up to beyond the deadline}, configurations reliable/unreliable x RTO x Rm x Rc x limit 0-10 '
    'x {no mechanism, short-term x3, long-term} x fingerprint; replies addressed to outstanding, finished and unknown ids, valid / corrupted / '
    'wrongly keyed / absent integrity, valid / corrupted / absent / misplaced FINGERPRINT, undecodable bytes; every return value, event list '
    'and hook snapshot compared with the model; distinct = distinct histories, every history is non-trivial')
AGENT_ASSUME = ['transaction ids drawn by the implementation are pairwise distinct (checked by the harness, not proved)',
                'instants passed to the client are monotone',
                'abstract-message level: the harness crafts real packets from abstract descriptions and reads emitted packets back with its own TLV walk, HMAC and CRC; for C07, C08 and C13 this glue is checked on every run against the Gallina abstraction function AbsGlue.abs_packet (suite absglue: sampled sent and crafted packets, byte-level HMAC / CRC / key derivation / nonce-cookie models)']

WIRE_RULE = ('suite wire: buffers = messages crafted by the harness (unknown-type attributes of lengths 0-24, every legal and illegal '
    'arrangement of MESSAGE-INTEGRITY / SHA256 / FINGERPRINT tails with correct or corrupted values), their mutations (bit flips, truncation, '
    'extension, header and attribute length edits, duplicated attributes, type rewrites into integrity types) and random bytes, each decoded under '
    'the 17 decoder configurations and compared with the byte-level Gallina decoder (real HMAC-SHA1/SHA256/CRC-32 in Gallina); plus, for clean '
    'messages with each legal tail, EVERY single-bit fault and 16 byte substitutions per protected byte (for FINGERPRINT: every byte of the message) '
    'on the implementation, none of which may be accepted; distinct = distinct records, non-trivial = buffers of at least 24 bytes or fault enumerations')
WIRE_ASSUME = ['typed decoders of registered attribute kinds other than MI/SHA256/FINGERPRINT are outside the basic wire instance: buffers containing them are compared by the monitors only (counted as unmodelled)',
               'HMAC / CRC collisions are not excluded by any theorem (C04 never = no collision)']

PROPS = {
    'C09': dict(
        suites=['filter'],
        monitors=['C09'],
        rule='suite filter: every sequence over {ordinary, MI, SHA256, FINGERPRINT} up to length 6 (quick) / 8 (thorough: all 87,380), '
             'built as real messages (SOFTWARE / unknown attributes, HMAC-SHA1, HMAC-SHA256 and CRC computed by the harness), '
             'x {all correct, random subset corrupted, everything after the first FINGERPRINT corrupted} x 9 decoder option sets; '
             'distinct = distinct record lines, non-trivial = at least one integrity/fingerprint attribute followed by another attribute',
        exhaustive=dict(quick=False, thorough=True),
        assumptions=['kind-level model: typed attribute decoders always succeed on the generated (well-formed) attributes; '
                     'a later duplicate integrity attribute never verifies (HMAC/CRC collision excluded)'],
    ),
    'C16': dict(
        suites=['reasm'],
        monitors=['C16'],
        rule='suite reasm: streams of 1-3 generated packets (0-1000 attribute bytes), optionally with a corrupted header, a trailing '
             'incomplete packet or a buffer smaller than a packet; buffer sizes {19, 20, max-1, max, max+1, max+100, min}; chunkings: whole, '
             'byte by byte, all 1-cuts, 2-cuts (all in thorough, every third offset in quick), sampled 3-cuts, random multi-cuts with empty and '
             'one-byte chunks; the caller loop re-feeds the remainder of a chunk to a new decoder. distinct = distinct record lines; '
             'non-trivial = at least two chunks',
        assumptions=['the caller allocates a new buffer of the same size for every new decoder (as the documentation shows)'],
    ),
    'C05': dict(
        suites=['agent'],
        monitors=['C05'],
        rule='suite agent: random histories (8-60 operations) of a StunClient over {send_request, send_indication, on_buffer_recv of crafted '
             'replies, on_timeout on time / early / late up to beyond the deadline}, configurations reliable/unreliable x RTO x Rm x Rc x limit 0-10 '
             'x {no mechanism, short-term x3, long-term} x fingerprint; replies addressed to outstanding, finished and unknown ids, valid / corrupted / '
             'wrongly keyed / absent integrity, valid / corrupted / absent / misplaced FINGERPRINT, undecodable bytes; every return value, event list '
             'and hook snapshot compared with the model; distinct = distinct histories, every history is non-trivial',
        assumptions=['transaction ids drawn by the implementation are pairwise distinct (checked by the harness, not proved)',
                     'instants passed to the client are monotone'],
    ),
    'C03': dict(
        suites=['agent', 'reasm', 'wire', 'attrval'],
        monitors=['C03', 'C03reasm', 'C03dec', 'C03prefix', 'C03val'],
        rule='suites agent and reasm (see C05, C16): every call is made under catch_unwind; a panic is the result PANIC',
        assumptions=['external crates (PRECIS tables, pest runtime, base64, hash crates) are total functions in the model'],
    ),
    'C06': dict(suites=['agent'], monitors=['C06'], rule=AGENT_RULE, assumptions=AGENT_ASSUME + []),
    'C07': dict(suites=['agent', 'absglue'], monitors=['C07'], rule=AGENT_RULE, assumptions=AGENT_ASSUME + []),
    'C08': dict(suites=['agent', 'absglue'], monitors=['C08'], rule=AGENT_RULE, assumptions=AGENT_ASSUME + []),
    'C11': dict(suites=['agent'], monitors=['C11'], rule=AGENT_RULE, assumptions=AGENT_ASSUME + ['the controller eventually fires the timer it armed (environment assumption)']),
    'C12': dict(suites=['agent'], monitors=['C12'], rule=AGENT_RULE, assumptions=AGENT_ASSUME + []),
    'C13': dict(suites=['agent', 'absglue'], monitors=['C13'], rule=AGENT_RULE, assumptions=AGENT_ASSUME + []),
    'C17': dict(suites=['agent'], monitors=['C17'], rule=AGENT_RULE, assumptions=AGENT_ASSUME + []),
    'C04': dict(suites=['wire'], monitors=['C04acc', 'C04fault', 'C04key'], rule=WIRE_RULE, assumptions=WIRE_ASSUME),
    'C10': dict(suites=['wire', 'agent'], monitors=['C10acc', 'C10fault', 'C10'], rule=WIRE_RULE + ' + ' + AGENT_RULE, assumptions=WIRE_ASSUME + AGENT_ASSUME),
    'C18': dict(suites=['filter', 'wire'], monitors=['C18all', 'C18', 'C18ud'], rule=WIRE_RULE + '; the option relations are judged twice: on sizes and wire positions, and on positions combined with a digest of every decoded attribute value (same message = same values); one base message in five carries raw special-character text (non-ASCII white space, non-NFC sequences, compatibility characters) in USERNAME / SOFTWARE / REALM / NONCE / ERROR-CODE with a valid tail + suite filter (see C09)', assumptions=WIRE_ASSUME),
    'C14': dict(suites=['encbuf', 'encbuf-release'], monitors=['C14'],
                rule='suite encbuf (debug build with overflow checks, and release build): generated messages (DATA, SOFTWARE, PRIORITY, USE-CANDIDATE, MOBILITY-TICKET '
                     'values, every legal MI/SHA256/FINGERPRINT tail) encoded into buffers of EVERY length 0..needed+8, pre-filled with 0x00, 0xFF and a byte pattern; '
                     'attribute lists of 65,500..65,540, 70,000, 131,072 and 200,000 attribute bytes built from DATA chunks, one value of 65,536 bytes; the whole buffer '
                     'after the call (md5) is compared with the Gallina encoder, the harness states whether buffer[size..] still holds the pre-filled bytes (monitor_C14_tail) and whether encoding into the byte-inverted buffer gives the same outcome and bytes (monitor_C14_indep); messages of typed attribute values of all kinds (nested / padded encoders over-represented) into every buffer length 0..needed+4; distinct = distinct records; non-trivial = at least one attribute',
                assumptions=['value encoders of the kinds used write exactly their value after checking the room (checked by the correspondence)']),
    'C15': dict(suites=['agent'], monitors=['C15'], rule=AGENT_RULE + '; one history in ten is a long send/response sequence (20-150 transactions, response delays 1 ms .. 3 s, the next request placed exactly 600 s, 600 s -1/+1 ns after the previous SEND, inside and at the end of the previous request retransmission window + 600 s, and 1300 s later)', assumptions=AGENT_ASSUME),
    'C19': dict(suites=['valueapi', 'attrval'], monitors=['C19clone', 'C19api', 'C19acc'],
                rule='suite valueapi: scripts of 3-9 operations over {new, clone, add through either copy, read} on PasswordAlgorithms and UnknownAttributes with up to 6 bindings, '
                     'compared with the reference-counted heap model and with value semantics; sweeps under catch_unwind of the public constructors / accessors / conversions: all u16 '
                     'for MessageType / MessageMethod / AlgorithmId / ErrorCode / turn integer types, all u8 for classes and families, ~3000 strings over ASCII, multi-byte, Unicode white space / combining / compatibility / zero-width characters, quoting, '
                     'cookie-prefix and boundary-length (507..510, 762..764, 64000, 64001) alphabets for every string constructor and key derivation; distinct = distinct records; '
                     'non-trivial = scripts with a clone, every API sweep and every result record; reads go through every access path (iter, slice accessor, consuming iterator over a clone); '
                     'result records (C V): the value returned by each modelled function (Codec/ValueApi.v: MessageType / MessageMethod / MessageClass / AddressFamily / AlgorithmId / ErrorCode / AttributeType / ICMP / TURN integer types over ALL u16 / u8 values in blocks of 256, '
                     'Nonce (+ cookie accessors) / Realm / Software / Padding / UserName / UserHash / HMACKey constructors over the ~3000 sweep strings + 4000 generated strings (40000 thorough), array conversions of every length 0..39, MessageHeader, UnknownAttributes, PasswordAlgorithms) is compared with the model; '
                     'suite attrval: every public accessor of every DECODED value (valid, mutated and random wire values of all 38 kinds) and of its clone is called under catch_unwind',
                assumptions=['Arc is a hand-written model (reference-counted heap); documented panicking accessors (expect_*) are not called on mismatching variants']),
    'C01': dict(suites=['codecrt', 'attrval', 'wire'], monitors=['C01'],
                rule='suite codecrt: messages of 0-12 attributes over all 35 value-carrying kinds (values from the per-kind generators: boundary lengths 0/1/508/509, all lengths mod 4, '
                     'both address families, error codes 300-699, ...), every method 0x000-0xFFF (boundaries over-represented) x 4 classes, random transaction ids, every legal integrity / '
                     'fingerprint tail; encoded and decoded by stun-rs, compared byte for byte (md5) and value for value with the Gallina codec; plus quoted-string constructor probes; '
                     'suite attrval: per-kind value decode / encode records (valid, mutated, random); suite wire: see C04; distinct = distinct records; non-trivial = at least one attribute',
                assumptions=['PRECIS OpaqueString is modelled on printable ASCII only (non-ASCII user names are UNMODELLED: compared by the monitor only)']),
    'C02': dict(suites=['attrval', 'codecrt'], monitors=['C02', 'C02ign'],
                rule='suites attrval and codecrt (see C01): every value and every message the implementation encodes is compared byte for byte with the Gallina reference codec',
                assumptions=['the reference codec is the Gallina model (written from the code and the RFCs) plus the RFC layout theorems of Props/C02.v; type codes are part of every compared record']),
}
