"""Per-property and per-suite configuration of the orchestrator."""

# .vo files Extract.v depends on (built before extraction)
EXTRACT_DEPS = ['Codec/FilterCase.vo']

SUITES = {
    # bin: harness binary; driver: suite name given to ocaml/driver; nontrivial: regex on the record line
    'filter': dict(bin='filter', nontrivial=r'^C \S+ \S*[MSF]\S*[OMSF]'),
}

PROPS = {
    'C09': dict(
        suites=['filter'],
        monitors=['C09'],
        rule='suite filter: every sequence over {ordinary, MI, SHA256, FINGERPRINT} up to length 6 (quick) / 8 (thorough: all 87,380), '
             'built as real messages (SOFTWARE / unknown attributes, HMAC-SHA1, HMAC-SHA256 and CRC computed by the harness), '
             'x {all correct, random subset corrupted, everything after the first FINGERPRINT corrupted} x 9 decoder option sets; '
             'distinct = distinct record lines, non-trivial = at least one integrity/fingerprint attribute followed by another attribute',
        exhaustive=dict(quick=False, thorough=True),
        assumptions=['kind-level model: typed attribute decoders always succeed on the generated (well-formed) attributes; '
                     'a later duplicate integrity attribute never verifies (HMAC/CRC collision excluded)'],
    ),
}
