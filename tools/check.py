#!/usr/bin/env python3
"""Orchestrator of the rustun verification machinery (see DESIGN.md section 3).

  ./check <Cxx> [--tier quick|thorough] [--replay FILE]

For one property: (1) re-check the Rocq theorems pinned in coq/Props/<Cxx>.v (make, Print Assumptions audit,
forbidden-construct scan), (2) rebuild the Rust harness against /repo's working tree and the extracted OCaml
model driver, (3) run the property's correspondence suites (implementation vs. extracted model on the same
generated cases) and its Gallina spec monitors on the implementation's behaviour, (4) write evidence/<Cxx>.json.
Exit 0 if everything held; exit 1 with `VIOLATION property=<id> replay=<path>` otherwise.
"""
import sys, os, re, json, time, subprocess, hashlib, fcntl, shutil
from concurrent.futures import ProcessPoolExecutor

ROOT = os.path.dirname(os.path.dirname(os.path.abspath(__file__)))
sys.path.insert(0, os.path.join(ROOT, 'tools'))
MAIN_CACHE = os.path.join(ROOT, '.cache')
COQ = os.path.join(ROOT, 'coq')
OCAML = os.path.join(ROOT, 'ocaml')
# The registered checks always run against /repo. For testing the checks themselves against many changed copies of the
# repository in parallel (tools/mutate.py, seeded changes) without touching /repo, VERIF_REPO names another working tree;
# VERIF_CACHE (required then) holds that run's harness build, work files, evidence and replays. In that mode nothing
# under /verif is written: the generated Coq files are produced in the cache and only COMPARED with the committed ones.
REPO = os.environ.get('VERIF_REPO', '/repo')
ALT = os.path.realpath(REPO) != '/repo'
CACHE = os.environ['VERIF_CACHE'] if ALT else MAIN_CACHE
OUTROOT = CACHE if ALT else ROOT
HARNESS = os.path.join(CACHE, 'harness') if ALT else os.path.join(ROOT, 'harness')
TARGET = os.path.join(CACHE, 'target')
NPROC = min(16, os.cpu_count() or 4)

from props import PROPS, SUITES, EXTRACT_DEPS, CONSTS  # noqa: E402

TRUSTED_BASE = [
    "Coq 8.16.1 kernel (coqc; vm_compute used, native_compute not used)",
    "Print Assumptions of every pinned theorem must read 'Closed under the global context' (no axioms)",
    "extraction with ExtrOcamlBasic only (bool, option, unit, list, prod, sumbool, sumor; andb/orb inlined), OCaml 4.13.1, ocaml/driver.ml (parsing/printing)",
    "hand-written Gallina models of the Rust code, tied to /repo by the correspondence suites of this run (Rust harness, generators, canonical renderings, tools/check.py string comparison)",
    "guarded hook commit in /repo (cfg rustun_verif): read-only snapshot accessors",
    "tools/gen_constants.py (regular-expression translator of the numeric constants of /repo into coq/Generated/Constants.v; a constant it cannot find becomes an impossible value, so the agreement lemma fails)",
    "tools/rs2v.py (translator of a small imperative subset of Rust — integer / boolean logic, early returns, if let, match, while let, &mut field updates, debug-build overflow checks as explicit panics — byte slices, `?`, copy_from_slice, loops over explicit fuel — into coq/Generated/Code.v for 30 functions: padding, check_buffer_boundaries, ignore_attribute, the MessageType / MessageMethod / MessageClass conversions, the raw.rs header / TLV iterator / get_input_text, the stream reassembler StunPacketDecoder, RtoCalculator, RtoManager and RttCalcuator; an untranslatable function becomes a unit definition, so its agreement lemma fails; its reading of Rust semantics is trusted, what it emits is proved equal to the hand-written models by Proofs/CodeAgree*.v)",
]


def log(*a):
    print(*a, flush=True)


class Lock:
    def __init__(self, name):
        base = CACHE if name == 'cargo' else MAIN_CACHE      # the Coq and driver builds are shared by every run
        os.makedirs(base, exist_ok=True)
        self.path = os.path.join(base, name + '.lock')

    def __enter__(self):
        self.f = open(self.path, 'w')
        fcntl.flock(self.f, fcntl.LOCK_EX)

    def __exit__(self, *a):
        fcntl.flock(self.f, fcntl.LOCK_UN)
        self.f.close()


def run(cmd, cwd=None, timeout=3600, env=None, stdin=None):
    e = dict(os.environ)
    e.update({'CARGO_NET_OFFLINE': 'true'})
    if env:
        e.update(env)
    try:
        p = subprocess.run(cmd, cwd=cwd, env=e, stdout=subprocess.PIPE, stderr=subprocess.STDOUT,
                           timeout=timeout, stdin=stdin, text=True, errors='replace')
        return p.returncode, p.stdout
    except subprocess.TimeoutExpired as ex:
        return 124, (ex.stdout or '') + '\n[timeout after %ss]' % timeout


# ----------------------------------------------------------------------------------------------- Coq

def coq_makefile():
    mk = os.path.join(COQ, 'Makefile.coq')
    cp = os.path.join(COQ, '_CoqProject')
    if not os.path.exists(mk) or os.path.getmtime(mk) < os.path.getmtime(cp):
        rc, out = run(['coq_makefile', '-f', '_CoqProject', '-o', 'Makefile.coq'], cwd=COQ)
        if rc != 0:
            raise RuntimeError('coq_makefile failed: ' + out)


def coq_make(targets, timeout=2400):
    with Lock('coq'):
        coq_makefile()
        return run(['make', '-f', 'Makefile.coq', '-j%d' % NPROC] + targets, cwd=COQ, timeout=timeout)


FORBIDDEN = re.compile(
    r'\b(Admitted|admit|Axiom|Axioms|Parameter|Parameters|Conjecture|Conjectures|Abort All)\b'
    r'|Admit Obligations|Unset Guard Checking|Unset Positivity Checking|Unset Universe Checking'
    r'|bypass_check|type-in-type|impredicative-set|Guard Checking|Positivity Checking|Universe Checking')
SECTION_VARS = re.compile(r'^\s*(Variable|Variables|Hypothesis|Hypotheses|Context)\b')


def strip_comments(src):
    out, depth, i = [], 0, 0
    while i < len(src):
        if src.startswith('(*', i):
            depth += 1
            i += 2
        elif src.startswith('*)', i) and depth > 0:
            depth -= 1
            i += 2
        else:
            if depth == 0:
                out.append(src[i])
            elif src[i] == '\n':
                out.append('\n')
            i += 1
    return ''.join(out)


def scan_forbidden():
    """Every .v file of the development: no Admitted/admit/Axiom/Parameter/..., no Variable outside a Section."""
    hits = []
    for d, _, fs in os.walk(COQ):
        for f in sorted(fs):
            if not f.endswith('.v'):
                continue
            p = os.path.join(d, f)
            src = strip_comments(open(p).read())
            depth = 0
            for n, line in enumerate(src.split('\n'), 1):
                if re.match(r'^\s*(Section|Module)\s+\w+', line) and ':=' not in line:
                    depth += 1
                elif re.match(r'^\s*End\s+\w+\s*\.', line):
                    depth = max(0, depth - 1)
                m = FORBIDDEN.search(line)
                if m:
                    hits.append('%s:%d: %s' % (os.path.relpath(p, ROOT), n, line.strip()))
                if depth == 0 and SECTION_VARS.match(line):
                    hits.append('%s:%d: (outside section) %s' % (os.path.relpath(p, ROOT), n, line.strip()))
    return hits


def theorems_of(prop):
    src = strip_comments(open(os.path.join(COQ, 'Props', prop + '.v')).read())
    return re.findall(r'^\s*Theorem\s+(\w+)', src, re.M)


def audit(prop):
    """Print Assumptions for every theorem of Props/<prop>.v, from a fresh file compiled against the .vo"""
    names = theorems_of(prop)
    d = os.path.join(CACHE, 'audit')
    os.makedirs(d, exist_ok=True)
    path = os.path.join(d, 'Audit_%s.v' % prop)
    with open(path, 'w') as f:
        f.write('From Rustun Require Props.%s.\n' % prop)
        for n in names:
            f.write('Print Assumptions Rustun.Props.%s.%s.\n' % (prop, n))
    rc, out = run(['coqc', '-Q', COQ, 'Rustun', path], cwd=d, timeout=600)
    closed = out.count('Closed under the global context')
    bad = []
    if rc != 0 or closed != len(names) or 'Axioms:' in out:
        bad.append(out.strip()[-2000:])
    return names, closed, bad


# --------------------------------------------------------------------------------------------- builds

def build_driver():
    with Lock('driver'):
        rc, out = coq_make(EXTRACT_DEPS)
        if rc != 0:
            return rc, out
        ml = os.path.join(OCAML, 'model.ml')
        drv = os.path.join(OCAML, 'driver')
        deps = [os.path.join(COQ, t) for t in EXTRACT_DEPS] + [os.path.join(COQ, 'Extract', 'Extract.v')]
        newest = max(os.path.getmtime(p) for p in deps)
        if not os.path.exists(ml) or os.path.getmtime(ml) < newest:
            rc, out = run(['coqc', '-Q', COQ, 'Rustun', os.path.join(COQ, 'Extract', 'Extract.v')], cwd=OCAML, timeout=900)
            if rc != 0:
                return rc, out
        srcs = [ml, os.path.join(OCAML, 'driver.ml')]
        if not os.path.exists(drv) or os.path.getmtime(drv) < max(os.path.getmtime(p) for p in srcs):
            rc, out = run(['ocamlfind', 'ocamlopt', '-w', '-a', 'model.mli', 'model.ml', 'driver.ml', '-o', 'driver'],
                          cwd=OCAML, timeout=900)
            if rc != 0:
                return rc, out
        return 0, ''


def alt_harness():
    """VERIF_REPO mode: a copy of harness/ whose path dependencies point at that working tree"""
    os.makedirs(HARNESS, exist_ok=True)
    toml = open(os.path.join(ROOT, 'harness', 'Cargo.toml')).read().replace('/repo/', REPO.rstrip('/') + '/')
    tp = os.path.join(HARNESS, 'Cargo.toml')
    if not os.path.exists(tp) or open(tp).read() != toml:
        open(tp, 'w').write(toml)
    src = os.path.join(HARNESS, 'src')
    if not os.path.islink(src):
        os.symlink(os.path.join(ROOT, 'harness', 'src'), src)


def build_harness(bins, release=False):
    if ALT:
        alt_harness()
    with Lock('cargo'):
        lock = os.path.join(HARNESS, 'Cargo.lock')
        lock_src = next((x for x in (os.path.join(REPO, 'Cargo.lock'), os.path.join(ROOT, 'harness', 'Cargo.lock'), '/repo/Cargo.lock')
                         if os.path.exists(x) and x != lock), os.path.join(REPO, 'Cargo.lock'))
        if not os.path.exists(lock):
            shutil.copy(lock_src, lock)
        cmd = ['cargo', 'build', '--offline']
        if release:
            cmd.append('--release')
        for b in bins:
            cmd += ['--bin', b]
        env = {'RUSTFLAGS': '--cfg rustun_verif', 'CARGO_TARGET_DIR': TARGET}
        rc, out = run(cmd, cwd=HARNESS, timeout=3000, env=env)
        if rc != 0 and 'Cargo.lock' in out:
            shutil.copy(lock_src, lock)
            rc, out = run(cmd, cwd=HARNESS, timeout=3000, env=env)
        return rc, out


def bin_path(b, release=False):
    return os.path.join(TARGET, 'release' if release else 'debug', b)


# --------------------------------------------------------------------------------------------- suites

def _finish_case(cur, hashes, ntre, counters):
    """distinctness is by the whole case (all its record lines); non-triviality by the suite's rule on its first line"""
    h = hashlib.blake2b('\n'.join(cur).encode(), digest_size=8).digest()
    if h not in hashes:
        hashes.add(h)
        if ntre is None or ntre.search(cur[0]):
            counters[0] += 1


def _compare_shard(args):
    """Compare one shard: the k-th `I` line of the case file with the k-th `M` line of the driver output;
    collect monitor verdicts. Returns a summary dict (picklable)."""
    cases_path, model_path, nontrivial_re, max_keep = args
    ntre = re.compile(nontrivial_re) if nontrivial_re else None
    impl, ctx_of, case_of = [], [], []
    cur, cur_start = [], 0
    hashes, nontrivial, records = set(), 0, 0
    counters = [0]
    samples, notes = [], []
    with open(cases_path, errors='replace') as f:
        for line in f:
            line = line.rstrip('\n')
            if not line:
                continue
            t = line[0]
            if t == 'I':
                impl.append(line[2:])
                ctx_of.append((cur_start, len(cur)))
                case_of.append(records)
            elif t == '#':
                notes.append(line[2:])
            else:
                if t in 'CH':   # a new case starts
                    if cur:
                        _finish_case(cur, hashes, ntre, counters)
                    cur_start += len(cur)
                    cur = []
                    records += 1
                    if len(samples) < 3:
                        samples.append(line[:400])
                if t != 'J':
                    cur.append(line)
    if cur:
        _finish_case(cur, hashes, ntre, counters)
    nontrivial = counters[0]
    # second pass to recover context lines lazily (only for failures)
    model = {}
    mon_fail, mon_count, kept = [], {}, {}
    with open(model_path, errors='replace') as f:
        for line in f:
            line = line.rstrip('\n')
            if line.startswith('M '):
                _, i, rest = (line.split(' ', 2) + [''])[:3]
                model[int(i)] = rest
            elif line.startswith('S '):
                p = line.split(' ', 4)
                i, v, name = int(p[1]), p[2], p[3]
                cls = p[4] if len(p) > 4 else '-'
                c = mon_count.setdefault(name, [0, 0])
                c[0] += 1
                if v != '1':
                    c[1] += 1
                    # keep the first failures of every (monitor, class) pair: the many failures of a listed known finding must
                    # not crowd out the failing input of another monitor or class
                    kk = kept.setdefault((name, cls), [0])
                    if kk[0] < max_keep:
                        kk[0] += 1
                        mon_fail.append((i, name, cls))
    diffs = []
    ndiff = 0
    diffed = set()
    unmodelled = 0
    for i, im in enumerate(impl):
        mo = model.get(i)
        if mo == 'UNMODELLED':
            unmodelled += 1
            continue
        if mo is None or mo != im:
            # a history diverges once: later differences of the same case are consequences of the first
            if case_of[i] in diffed:
                continue
            diffed.add(case_of[i])
            ndiff += 1
            if len(diffs) < max_keep:
                diffs.append((i, im, mo))
    missing_model = len(impl) - len(model)
    need = sorted(set([d[0] for d in diffs] + [m[0] for m in mon_fail]))
    ctx = {}
    if need:
        want = set(need)
        # re-read the file and collect the record lines of the wanted result indices
        k = -1
        cur = []
        with open(cases_path, errors='replace') as f:
            for line in f:
                line = line.rstrip('\n')
                if not line or line[0] == '#':
                    continue
                if line[0] == 'I':
                    k += 1
                    if k in want:
                        ctx[k] = list(cur) + [line]
                    continue
                if line[0] in 'CH':
                    cur = []
                cur.append(line)
    return dict(results=len(impl), records=records, distinct=len(hashes), nontrivial=nontrivial, ndiff=ndiff,
                diffs=diffs, mon_fail=mon_fail, mon_count=mon_count, ctx=ctx, samples=samples, notes=notes,
                missing_model=missing_model, unmodelled=unmodelled, hashes=[h.hex() for h in list(hashes)[:200000]])


def run_suite(name, tier, seed, workdir, replay_lines=None):
    """Run one correspondence suite over all shards. Returns summary dict."""
    cfg = SUITES[name]
    release = cfg.get('release', False)
    shards = 1 if replay_lines is not None else cfg.get('shards', NPROC)
    os.makedirs(workdir, exist_ok=True)
    procs = []
    hangs = []
    crashes = []
    t0 = time.time()
    for i in range(shards):
        out = os.path.join(workdir, '%s.%d.cases' % (name, i))
        cmd = [bin_path(cfg['bin'], release), '--seed', str(seed), '--tier', tier, '--shard', str(i),
               '--shards', str(shards), '--out', out] + cfg.get('args', [])
        if replay_lines is not None:
            rp = os.path.join(workdir, 'replay.in')
            open(rp, 'w').write('\n'.join(replay_lines) + '\n')
            cmd += ['--replay', rp]
        procs.append((i, out, subprocess.Popen(cmd, stdout=subprocess.PIPE, stderr=subprocess.PIPE)))
    errs = []
    for i, out, p in procs:
        try:
            so, se = p.communicate(timeout=cfg.get('timeout', 3000 if tier == 'thorough' else 900))
        except subprocess.TimeoutExpired:
            p.kill()
            so, se = p.communicate()
            errs.append('harness shard %d timed out' % i)
        if p.returncode == 4 and b'HANGCASE ' in (se or b''):
            # the watchdog of the harness: a call of the implementation did not return; the history it was given is a failing input
            hangs.append([l[len('HANGCASE '):] for l in (se or b'').decode(errors='replace').split('\n') if l.startswith('HANGCASE ')])
        elif p.returncode == 5 and b'CRASHCASE ' in (se or b''):
            # the implementation aborted the process (failed allocation, stack overflow): the history it was given is a failing input
            crashes.append([l[len('CRASHCASE '):] for l in (se or b'').decode(errors='replace').split('\n') if l.startswith('CRASHCASE ')])
        elif p.returncode != 0:
            errs.append('harness shard %d exit %s: %s' % (i, p.returncode, (se or b'').decode(errors='replace')[-500:]))
    t1 = time.time()
    dprocs = []
    for i, out, _ in procs:
        mo = out[:-6] + '.model'
        fin = open(out, 'rb')
        fout = open(mo, 'wb')
        dprocs.append((i, mo, fin, fout, subprocess.Popen([os.path.join(OCAML, 'driver'), cfg.get('driver', name)],
                                                          stdin=fin, stdout=fout, stderr=subprocess.PIPE)))
    for i, mo, fin, fout, p in dprocs:
        try:
            _, se = p.communicate(timeout=cfg.get('timeout', 3000 if tier == 'thorough' else 900))
        except subprocess.TimeoutExpired:
            p.kill()
            _, se = p.communicate()
            errs.append('driver shard %d timed out' % i)
        fin.close()
        fout.close()
        if p.returncode != 0:
            errs.append('driver shard %d exit %s: %s' % (i, p.returncode, (se or b'').decode(errors='replace')[-500:]))
    t2 = time.time()
    jobs = [(out, out[:-6] + '.model', cfg.get('nontrivial'), 20) for _, out, _ in procs]
    if len(jobs) > 1:
        with ProcessPoolExecutor(max_workers=min(NPROC, len(jobs))) as ex:
            parts = list(ex.map(_compare_shard, jobs))
    else:
        parts = [_compare_shard(j) for j in jobs]
    allh = set()
    tot = dict(suite=name, results=0, records=0, nontrivial=0, ndiff=0, diffs=[], mon_fail=[], mon_count={},
               samples=[], notes=[], errors=errs, hangs=hangs, crashes=crashes, missing_model=0, unmodelled=0,
               t_harness=round(t1 - t0, 2), t_driver=round(t2 - t1, 2))
    for part in parts:
        for k in ('results', 'records', 'nontrivial', 'ndiff', 'missing_model', 'unmodelled'):
            tot[k] += part[k]
        allh.update(part['hashes'])
        for d in part['diffs']:
            tot['diffs'].append(dict(index=d[0], impl=d[1], model=d[2], case=part['ctx'].get(d[0], [])))
        for m in part['mon_fail']:
            tot['mon_fail'].append(dict(index=m[0], monitor=m[1], cls=m[2], case=part['ctx'].get(m[0], [])))
        for k, v in part['mon_count'].items():
            c = tot['mon_count'].setdefault(k, [0, 0])
            c[0] += v[0]
            c[1] += v[1]
        tot['samples'] += part['samples'][:2]
        tot['notes'] += part['notes']
    tot['distinct'] = len(allh)
    tot['samples'] = tot['samples'][:4]
    tot['t_compare'] = round(time.time() - t2, 2)
    if not os.environ.get('VERIF_KEEP'):
        for _, out, _ in procs:
            for p in (out, out[:-6] + '.model'):
                try:
                    os.remove(p)
                except OSError:
                    pass
    return tot


# ------------------------------------------------------------------------------- corpus and shrinking

CORPUS = os.path.join(ROOT, 'corpus')


def load_corpus(suite):
    """minimised failing inputs of earlier (seeded) breakages, kept under /verif/corpus/<suite>.cases; they run first"""
    p = os.path.join(CORPUS, suite.replace('-release', '') + '.cases')
    if not os.path.exists(p):
        return []
    return [l.rstrip('\n') for l in open(p) if l.strip() and l[0] in 'CHO']


def merge_results(a, b):
    """a = corpus run, b = generated run"""
    tot = dict(b)
    for k in ('results', 'records', 'nontrivial', 'ndiff', 'missing_model', 'unmodelled', 'distinct'):
        tot[k] = a[k] + b[k]
    for k in ('t_harness', 't_driver', 't_compare'):
        tot[k] = round(a[k] + b[k], 2)
    tot['diffs'] = a['diffs'] + b['diffs']
    tot['mon_fail'] = a['mon_fail'] + b['mon_fail']
    tot['errors'] = a['errors'] + b['errors']
    tot['hangs'] = a.get('hangs', []) + b.get('hangs', [])
    tot['crashes'] = a.get('crashes', []) + b.get('crashes', [])
    mc = {k: list(v) for k, v in b['mon_count'].items()}
    for k, v in a['mon_count'].items():
        c = mc.setdefault(k, [0, 0])
        c[0] += v[0]
        c[1] += v[1]
    tot['mon_count'] = mc
    tot['notes'] = ['corpus: %d results from %d kept cases ran first (%d differences, %d monitor failures)'
                    % (a['results'], a['records'], a['ndiff'], len(a['mon_fail']))] + b['notes']
    return tot


def shrink_case(suite, seed, case, monitor, cls, workdir, budget_s=30):
    """delta debugging over the operations of an agent history: the smallest sub-sequence on which the same monitor
    still rejects the implementation with the same class. Returns (lines, replays run) or None."""
    if SUITES[suite]['bin'] != 'agent':
        return None
    head = [l for l in case if l[0] == 'H']
    ops = [l for l in case if l[0] == 'O']
    if not head or len(ops) < 2:
        return None
    t0 = time.time()
    runs = [0]

    def fails(o):
        runs[0] += 1
        r = run_suite(suite, 'quick', seed, os.path.join(workdir, 'shrink'), replay_lines=head[:1] + o)
        return any(m['monitor'] == monitor and m['cls'] == cls for m in r['mon_fail'])
    if not fails(ops):
        return None
    n = 2
    while len(ops) >= 2 and time.time() - t0 < budget_s:
        size = max(1, len(ops) // n)
        reduced = False
        for start in range(0, len(ops), size):
            cand = ops[:start] + ops[start + size:]
            if cand and fails(cand):
                ops = cand
                n = max(n - 1, 2)
                reduced = True
                break
            if time.time() - t0 > budget_s:
                break
        if not reduced:
            if size == 1:
                break
            n = min(n * 2, len(ops))
    return head[:1] + ops, runs[0]


# ------------------------------------------------------------------------------------------- findings

def load_known():
    p = os.path.join(ROOT, 'known_findings.json')
    if not os.path.exists(p):
        return []
    return json.load(open(p))


def write_replay(prop, kind, payload):
    d = os.path.join(OUTROOT, 'replays')
    os.makedirs(d, exist_ok=True)
    body = json.dumps(payload, indent=1, sort_keys=True)
    h = hashlib.sha1(body.encode()).hexdigest()[:10]
    path = os.path.join(d, '%s-%s-%s.json' % (prop, kind, h))
    open(path, 'w').write(body)
    return path


# ----------------------------------------------------------------------------------------------- main

def check(prop, tier, seed):
    t0 = time.time()
    cfg = PROPS[prop]
    workdir = os.path.join(CACHE, 'work', '%s-%d' % (prop, os.getpid()))
    violations = []      # (replay_path, tail)
    known_lines = []
    broken = []          # obligations that no longer check (theorems, audit, build)
    obligations = []
    coverage_suites = []

    # 0. translator: the constants of /repo's current source -> coq/Generated/Constants.v (rewritten only when they changed)
    consts = CONSTS.get(prop, [])
    if not ALT:
        run([sys.executable, os.path.join(ROOT, 'tools', 'gen_constants.py'), REPO], cwd=ROOT, timeout=120)
        #    and the functions rs2v.py translates from the current Rust text -> coq/Generated/Code.v
        run([sys.executable, os.path.join(ROOT, 'tools', 'rs2v.py'), REPO], cwd=ROOT, timeout=120)
    else:
        # VERIF_REPO mode: the files generated from that working tree go beside the cache; when they differ from the committed
        # ones the agreement lemmas are re-checked against them in a scratch overlay (logical root RustunT), so that a change
        # which only renames things is judged by the proofs and not by a textual comparison
        T = os.path.join(CACHE, 'overlay')
        shutil.rmtree(T, ignore_errors=True)
        os.makedirs(os.path.join(T, 'Generated'))
        os.makedirs(os.path.join(T, 'Proofs'))
        differs = False
        for tool, fname in (('gen_constants.py', 'Constants.v'), ('rs2v.py', 'Code.v')):
            gp = os.path.join(T, 'Generated', fname)
            run([sys.executable, os.path.join(ROOT, 'tools', tool), REPO, gp], cwd=ROOT, timeout=120)
            if not os.path.exists(gp) or open(gp).read() != open(os.path.join(COQ, 'Generated', fname)).read():
                differs = True
        if differs and consts:
            OVER = ['ConstantsCodec', 'ConstantsMethods', 'ConstantsAgent', 'ConstantsAgentNonce', 'ConstantsAgentRtt', 'CodeAgreePad', 'CodeAgreeFilter', 'CodeAgreeCodec', 'CodeAgreeRto', 'CodeAgreeRtt', 'CodeAgreeRaw', 'CodeAgreeReasm', 'CodeAgreeIter', 'CodeAgreeAttrs', 'CodeAgreeIntegrity']

            def is_over(x):
                return x.startswith('Generated.') or (x.startswith('Proofs.') and x[len('Proofs.'):] in OVER)

            def retarget(text):
                def fix(m):
                    mods = m.group(2).split()
                    gen = [x for x in mods if is_over(x)]
                    rest_ = [x for x in mods if not is_over(x)]
                    if not gen:
                        return m.group(0)
                    return (('From Rustun Require %s%s.\n' % (m.group(1), ' '.join(rest_))) if rest_ else '') + 'From RustunT Require %s%s.' % (m.group(1), ' '.join(gen))
                return re.sub(r'From\s+Rustun\s+Require\s+(Import\s+|Export\s+|)([^.]*(?:\.[A-Za-z][^.]*)*)\.(?=\s)', fix, text)
            okg = True
            for fname in ('Constants.v', 'Code.v'):
                gp = os.path.join(T, 'Generated', fname)
                gtext = retarget(open(gp).read())
                open(gp, 'w').write(gtext)
                rcg, outg = run(['coqc', '-Q', T, 'RustunT', '-Q', COQ, 'Rustun', gp], cwd=T, timeout=600)
                if rcg != 0:
                    okg = False
                    broken.append(dict(obligation='coq/Generated/%s regenerated from this working tree does not compile' % fname, log=outg[-1500:]))
            failed = set()
            for cv in OVER:
                if not okg:
                    break
                src_p = os.path.join(T, 'Proofs', cv + '.v')
                text = open(os.path.join(COQ, 'Proofs', cv + '.v')).read()
                deps = [d for d in OVER if re.search(r'Proofs\.%s\b' % d, text)]
                if any(d in failed for d in deps):
                    failed.add(cv)
                    continue
                open(src_p, 'w').write(retarget(text))
                rcc, outc = run(['coqc', '-Q', T, 'RustunT', '-Q', COQ, 'Rustun', src_p], cwd=T, timeout=900)
                if cv in consts:
                    obligations.append('agreement lemmas Proofs/%s.v re-checked against the files generated from this working tree' % cv)
                if rcc != 0:
                    failed.add(cv)
                    m = re.search(r'line (\d+)', outc)
                    lemma = ''
                    if m:
                        src_lines = open(src_p).read().split('\n')
                        for ln in range(min(int(m.group(1)), len(src_lines)) - 1, -1, -1):
                            mm = re.match(r'\s*(?:Lemma|Theorem|Example|Definition|Fixpoint)\s+(\w+)', src_lines[ln])
                            if mm:
                                lemma = mm.group(1)
                                break
                    if cv in consts or any(cv in [d for d in OVER if re.search(r'Proofs\.%s\b' % d, open(os.path.join(COQ, 'Proofs', c2 + '.v')).read())] for c2 in consts):
                        broken.append(dict(obligation='the generated code / constants of this working tree differ from the model: lemma %s of Proofs/%s.v no longer checks' % (lemma or '?', cv), log=outc[-1500:]))
                        log('[coq] agreement FAILED against this working tree: lemma %s of Proofs/%s.v' % (lemma or '?', cv))
                elif cv in consts:
                    log('[coq] agreement lemmas of Proofs/%s.v hold for the files generated from this working tree' % cv)
        consts = []
    # 1. theorems
    rc, out = coq_make(['Props/%s.vo' % prop] + cfg.get('extra_vo', []))
    names = theorems_of(prop)
    obligations += ['theorem ' + n for n in names]
    if rc != 0:
        m = re.search(r'File "([^"]+)", line (\d+)', out)
        broken.append(dict(obligation='coq build of Props/%s.vo' % prop, where=(m.group(0) if m else ''), log=out[-3000:]))
        log('[coq] build FAILED:', out[-1500:])
    else:
        anames, closed, bad = audit(prop)
        if bad:
            broken.append(dict(obligation='Print Assumptions audit of Props/%s.v' % prop, log=bad[0]))
            log('[coq] assumptions audit FAILED:', bad[0][-1500:])
        else:
            log('[coq] %d theorems of Props/%s.v re-checked, all closed under the global context' % (len(names), prop))
    for cv in consts:
        rcc, outc = coq_make(['Proofs/%s.vo' % cv])
        is_code = cv.startswith('CodeAgree')
        what = ('functions translated from the current Rust text (tools/rs2v.py -> Generated/Code.v) equal the models for all arguments (Proofs/%s.v)' % cv
                if is_code else 'constants of the current source agree with the models (Proofs/%s.v over Generated/Constants.v)' % cv)
        obligations.append(what)
        if rcc != 0:
            m = re.search(r'File "([^"]+)", line (\d+)', outc)
            lemma = ''
            if m:
                try:
                    src_lines = open(os.path.join(COQ, m.group(1).lstrip('./'))).read().split('\n')
                    for ln in range(int(m.group(2)) - 1, -1, -1):
                        mm = re.match(r'\s*(?:Lemma|Theorem)\s+(\w+)', src_lines[ln])
                        if mm:
                            lemma = mm.group(1)
                            break
                except OSError:
                    pass
            broken.append(dict(obligation=('the Rust text of a translated function of /repo differs from the model: lemma %s of Proofs/%s.v no longer checks' if is_code
                                           else 'a constant of /repo differs from the model: lemma %s of Proofs/%s.v no longer checks') % (lemma or '?', cv),
                               where=(m.group(0) if m else ''), log=outc[-2000:]))
            log('[coq] %s agreement FAILED: lemma %s of Proofs/%s.v' % ('translated code' if is_code else 'constants', lemma or '?', cv))
        else:
            log('[coq] %s (Proofs/%s.v)' % ('the functions translated from the current Rust text equal the models' if is_code
                                           else 'constants extracted from the source agree with the models', cv))
    hits = scan_forbidden()
    obligations.append('forbidden-construct scan of coq/**/*.v')
    if hits:
        broken.append(dict(obligation='forbidden-construct scan', log='\n'.join(hits[:50])))
        log('[coq] forbidden constructs:', hits[:10])
    if tier == 'thorough' and rc == 0 and cfg.get('coqchk', True):
        mods = ['Rustun.Props.%s' % prop]
        rc2, out2 = run(['coqchk', '-o', '-silent', '-Q', COQ, 'Rustun'] + mods, cwd=COQ, timeout=3000)
        obligations.append('coqchk -o Rustun.Props.%s' % prop)
        okc = rc2 == 0 and all(re.search(k + r'\s*<none>', out2) for k in
                               ['Axioms:', 'type-in-type:', 'unsafe \\(co\\)fixpoints:', 'positivity is assumed:'])
        if not okc:
            broken.append(dict(obligation='coqchk', log=out2[-3000:]))
            log('[coqchk] FAILED', out2[-1500:])
        else:
            log('[coqchk] ok: no axioms, no type-in-type, no unsafe fixpoints, no assumed positivity')

    # 2. builds
    suites = cfg['suites']
    bins = sorted(set(SUITES[s]['bin'] for s in suites))
    build_ok = True
    if suites:
        rc, out = build_driver()
        if rc != 0:
            broken.append(dict(obligation='extraction / driver build', log=out[-3000:]))
            log('[driver] build FAILED', out[-1500:])
            build_ok = False
        for rel in sorted(set(SUITES[s].get('release', False) for s in suites)):
            bs = sorted(set(SUITES[s]['bin'] for s in suites if SUITES[s].get('release', False) == rel))
            rc, out = build_harness(bs, rel)
            if rc != 0:
                broken.append(dict(obligation='harness build against /repo (does the public API still exist?)', log=out[-3000:]))
                log('[harness] build FAILED', out[-2500:])
                build_ok = False

    # 3. suites
    known = [k for k in load_known() if k['property'] == prop and k['status'] == 'known']
    evaluations = distinct = nontrivial = 0
    samples = []
    mon_totals = {}
    if build_ok:
        for s in suites:
            res = run_suite(s, tier, seed, workdir)
            corpus = load_corpus(s)
            if corpus:
                res = merge_results(run_suite(s, tier, seed, os.path.join(workdir, 'corpus'), replay_lines=corpus), res)
            obligations.append('correspondence suite ' + s)
            evaluations += res['results']
            distinct += res['distinct']
            nontrivial += min(res['nontrivial'], res['distinct'])
            samples += res['samples']
            coverage_suites.append({k: res[k] for k in ('suite', 'results', 'records', 'distinct', 'nontrivial', 'ndiff', 'unmodelled',
                                                        'mon_count', 'notes', 't_harness', 't_driver', 't_compare')})
            log('[suite %s] %d results, %d distinct cases, %d model/impl differences, monitors %s (%.1fs harness, %.1fs model, %.1fs compare)'
                % (s, res['results'], res['distinct'], res['ndiff'], json.dumps(res['mon_count']), res['t_harness'], res['t_driver'], res['t_compare']))
            for hcase in res.get('hangs', [])[:2]:
                path = write_replay(prop, 'failing-input', dict(
                    property=prop, kind='failing-input', suite=s, seed=seed, monitor='termination', cls='call-does-not-return',
                    case=hcase, note='the implementation call that follows this history did not return within 90 s (harness watchdog)'))
                violations.append((path, ''))
            for ccase in res.get('crashes', [])[:2]:
                path = write_replay(prop, 'failing-input', dict(
                    property=prop, kind='failing-input', suite=s, seed=seed, monitor='termination', cls='call-aborts-process',
                    case=ccase, note='the implementation call that follows this history aborted the process (SIGABRT: failed allocation, stack overflow or abort())'))
                violations.append((path, ''))
            if res['errors'] or res['missing_model'] != 0 and res['ndiff'] == 0 and not res.get('hangs') and not res.get('crashes'):
                broken.append(dict(obligation='correspondence suite %s ran to completion' % s, log='\n'.join(res['errors']) or 'model produced %d fewer results' % res['missing_model']))
            mine = [m for m in res['mon_fail'] if m['monitor'] in cfg['monitors']]
            unlisted = []
            for m in mine:
                k = next((k for k in known if k['class'] == m['cls']), None)
                if k:
                    line = 'KNOWN-FINDING: property=%s %s' % (prop, k['text'])
                    if line not in known_lines:
                        known_lines.append(line)
                else:
                    unlisted.append(m)
            for n_, m in enumerate(unlisted[:3]):
                extra = {}
                if n_ == 0:
                    sh = shrink_case(s, seed, m['case'], m['monitor'], m['cls'], workdir)
                    if sh and len(sh[0]) < len([l for l in m['case'] if l[0] in 'HO']):
                        extra = dict(original_case=m['case'], shrink='delta debugging over the operations: %d replays' % sh[1])
                        m = dict(m, case=sh[0])
                path = write_replay(prop, 'failing-input', dict(
                    property=prop, kind='failing-input', suite=s, seed=seed, monitor=m['monitor'], cls=m['cls'],
                    case=m['case'], **extra, note='the Gallina spec monitor %s rejects the implementation\'s behaviour on this case' % m['monitor']))
                violations.append((path, ''))
            for name_, c in res['mon_count'].items():
                if name_ in cfg['monitors']:
                    t = mon_totals.setdefault(name_, [0, 0])
                    t[0] += c[0]
                    t[1] += c[1]
            if res['ndiff'] and not unlisted:
                # model and implementation disagree, but no monitor of this property fails on the implementation
                broken.append(dict(obligation='correspondence suite %s: model = implementation' % s,
                                   first_difference=res['diffs'][0], differences=res['ndiff']))
    # 4. verdict
    if broken and not violations:
        path = write_replay(prop, 'broken-obligation', dict(property=prop, kind='broken-obligation', seed=seed, broken=broken,
                                                           note='no failing input found by the suites of this property; the listed obligation(s) no longer check'))
        violations.append((path, ' no-failing-input-found'))
    wall = time.time() - t0
    ev = dict(
        property_id=prop, tier=tier, seed=seed, level='proof',
        coverage=dict(
            obligations=len(obligations), discharged=len(obligations) - len(broken),
            checker_cmd='make -C coq -f Makefile.coq Props/%s.vo && coqc audit (Print Assumptions) && ./check %s --tier %s' % (prop, prop, tier),
            trusted_base=TRUSTED_BASE + cfg.get('trusted_extra', []),
            theorems=names, obligation_list=obligations,
            evaluations=evaluations, distinct_nontrivial=nontrivial,
            rule=cfg.get('rule', ''), samples=samples[:6] or ['(no suite ran)'],
            suites=coverage_suites, monitors=mon_totals,
            exhaustive=bool(cfg.get('exhaustive', {}).get(tier, False)),
            known_findings=known_lines,
        ),
        assumptions=cfg.get('assumptions', []),
        wall_s=round(wall, 2), violations=len(violations))
    os.makedirs(os.path.join(OUTROOT, 'evidence'), exist_ok=True)
    json.dump(ev, open(os.path.join(OUTROOT, 'evidence', prop + '.json'), 'w'), indent=1)
    if not os.environ.get("VERIF_KEEPWORK"):
        shutil.rmtree(workdir, ignore_errors=True)
    for l in known_lines:
        log(l)
    if violations:
        for path, tail in violations:
            log('VIOLATION property=%s replay=%s%s' % (prop, os.path.relpath(path, ROOT), tail))
        return 1
    log('OK property=%s tier=%s obligations=%d evaluations=%d wall=%.1fs' % (prop, tier, len(obligations), evaluations, wall))
    return 0


def replay(prop, path):
    r = json.load(open(path))
    if r.get('kind') == 'broken-obligation':
        log(json.dumps(r, indent=1)[:6000])
        log('this replay names obligations that no longer check; re-run ./check %s to re-evaluate them' % prop)
        b = r.get('broken', [{}])[0].get('first_difference')
        if not b:
            return 0
        r = dict(suite=r['broken'][0]['obligation'].split()[2].rstrip(':'), case=b['case'], seed=r.get('seed', 1))
    s = r['suite']
    rc, out = build_driver()
    if rc != 0:
        log(out)
        return 2
    rc, out = build_harness([SUITES[s]['bin']], SUITES[s].get('release', False))
    if rc != 0:
        log(out)
        return 2
    os.environ['VERIF_KEEP'] = '1'
    wd = os.path.join(CACHE, 'work', 'replay-%d' % os.getpid())
    res = run_suite(s, 'quick', r.get('seed', 1), wd, replay_lines=[l for l in r['case'] if not l.startswith('I ')])
    for l in open(os.path.join(wd, '%s.0.cases' % s)):
        log('  ' + l.rstrip())
    for l in open(os.path.join(wd, '%s.0.model' % s)):
        log('  ' + l.rstrip())
    shutil.rmtree(wd, ignore_errors=True)
    bad = res['ndiff'] or res['mon_fail']
    log('replay: %d model/impl differences, monitor failures: %s' % (res['ndiff'], [(m['monitor'], m['cls']) for m in res['mon_fail']]))
    return 1 if bad else 0


def main():
    a = sys.argv[1:]
    if not a:
        print(__doc__)
        return 2
    prop = a[0]
    tier = os.environ.get('VERIF_TIER', 'quick')
    rp = None
    i = 1
    while i < len(a):
        if a[i] == '--tier':
            tier = a[i + 1]
            i += 2
        elif a[i] == '--replay':
            rp = a[i + 1]
            i += 2
        else:
            i += 1
    seed = int(os.environ.get('VERIF_SEED', '1') or 1)
    if prop not in PROPS:
        print('unknown property', prop)
        return 2
    if rp:
        return replay(prop, rp)
    return check(prop, tier, seed)


if __name__ == '__main__':
    sys.exit(main())
