#!/usr/bin/env python3
"""rs2v: a translator from a small imperative subset of Rust to Gallina, run on /repo's CURRENT source at check time.

For the functions listed in TARGETS (pure integer / boolean logic with early returns, `if let`, `match` on options and
literals, `while let` loops, field updates through `&mut self`) it parses the Rust text and writes
coq/Generated/Code.v: one Gallina definition per function, in the result type `gres` (GOk value | GPanic | GFuel) of
Base/GRes.v.  Proofs/CodeAgree*.v then prove, for ALL arguments, that each generated definition equals the hand-written
model the property theorems are about (Filter.ignore_attribute, Rto.calc_next / Rto.next_rto, Tlv.pad, the message-type
bit layout), so those theorems are re-checked against what the code says now: a change of the Rust text changes the
generated definition and the agreement lemma no longer checks.

Semantics implemented (what is trusted about this translator):
  * unsigned integers, Duration and Instant are N; `a - b` and `a * b`, `a + b` on fixed-width integers carry the debug-build
    panic condition (underflow / overflow) as an explicit GPanic branch; `<<` truncates to the operand width and checks the
    shift amount; `as uN` truncates; `x.try_into().unwrap()` and `T::try_from(x).unwrap()` panic outside the target range;
    `Option::unwrap()` panics on None;
  * mutable places (`self.field`, `&mut` parameters' fields, `let mut` locals) become let-rebound Gallina variables;
    statements are translated in continuation-passing style, so an early `return` simply ends the term;
  * `while let P = E { .. }` becomes a local `fix` over an explicit fuel parameter of the generated function (GFuel when
    it runs out; the agreement lemma shows it does not for the stated fuel);
  * C-like enums are N by declaration index; newtype wrappers `T(uN)` are N; `Ok(e)` / `Err(..)` of conversion functions
    are Some e / None (the error text is dropped); `debug!`-style macro statements are dropped.
A construct outside the subset makes the translator emit `Definition <name> : unit := tt.` with the reason in a comment:
the agreement lemma then fails to type-check (an obligation that no longer checks), the translator itself never fails.

usage: rs2v.py [repo root]      (writes coq/Generated/Code.v only when its content changed)"""
import os, re, sys

REPO = sys.argv[1] if len(sys.argv) > 1 else '/repo'
ROOT = os.path.dirname(os.path.dirname(os.path.abspath(__file__)))
OUT = sys.argv[2] if len(sys.argv) > 2 and not sys.argv[2].startswith('-') else os.path.join(ROOT, 'coq', 'Generated', 'Code.v')


class Unsupported(Exception):
    pass


# ------------------------------------------------------------------------------------------------ lexer
PUNCT3 = ['<<=', '>>=', '..=', '...']
PUNCT2 = ['::', '->', '=>', '==', '!=', '<=', '>=', '&&', '||', '<<', '>>', '+=', '-=', '*=', '/=', '|=', '&=', '^=', '..']


def lex(src):
    toks = []
    i, n = 0, len(src)
    while i < n:
        c = src[i]
        if c.isspace():
            i += 1
        elif src.startswith('//', i):
            j = src.find('\n', i)
            i = n if j < 0 else j
        elif src.startswith('/*', i):
            j = src.find('*/', i)
            i = n if j < 0 else j + 2
        elif c == '"':
            j = i + 1
            while j < n and src[j] != '"':
                j += 2 if src[j] == '\\' else 1
            toks.append(('str', src[i + 1:j]))
            i = j + 1
        elif c == "'":
            m = re.match(r"'(\\.|[^\\'])'", src[i:])
            if m:
                toks.append(('chr', m.group(1)))
                i += m.end()
            else:
                m = re.match(r"'[A-Za-z_]\w*", src[i:])
                toks.append(('life', m.group(0)))
                i += m.end()
        elif c.isdigit() and re.match(r'[0-9][0-9_]*\.[0-9][0-9_]*(?:f32|f64)?', src[i:]) and not (toks and toks[-1] == ('p', '.')):
            m = re.match(r'([0-9][0-9_]*\.[0-9][0-9_]*)(f32|f64)?', src[i:])
            toks.append(('fnum', m.group(1).replace('_', '')))
            i += m.end()
        elif c.isdigit():
            m = re.match(r'0x[0-9A-Fa-f_]+|0b[01_]+|0o[0-7_]+|[0-9][0-9_]*', src[i:])
            txt = m.group(0)
            i += m.end()
            ms = re.match(r'(u8|u16|u32|u64|u128|usize|i8|i16|i32|i64|isize)\b', src[i:])
            suf = None
            if ms:
                suf = ms.group(1)
                i += ms.end()
            t = txt.replace('_', '')
            val = int(t, 16) if t.startswith('0x') else int(t[2:], 2) if t.startswith('0b') else int(t[2:], 8) if t.startswith('0o') else int(t)
            toks.append(('num', (val, suf)))
        elif c.isalpha() or c == '_':
            m = re.match(r'[A-Za-z_]\w*', src[i:])
            toks.append(('id', m.group(0)))
            i += m.end()
        else:
            for p in PUNCT3 + PUNCT2:
                if src.startswith(p, i):
                    toks.append(('p', p))
                    i += len(p)
                    break
            else:
                toks.append(('p', c))
                i += 1
    toks.append(('eof', None))
    return toks


# ------------------------------------------------------------------------------------------------ parser
class P:
    def __init__(self, toks):
        self.t = toks
        self.i = 0

    def peek(self, k=0):
        return self.t[min(self.i + k, len(self.t) - 1)]

    def at(self, kind, val=None, k=0):
        t = self.peek(k)
        return t[0] == kind and (val is None or t[1] == val)

    def atp(self, val, k=0):
        return self.at('p', val, k)

    def next(self):
        t = self.t[self.i]
        self.i += 1
        return t

    def expect(self, kind, val=None):
        if not self.at(kind, val):
            raise Unsupported('expected %s %s, found %s' % (kind, val, self.peek()))
        return self.next()

    # types: kept as text
    def ty(self):
        parts = []
        depth = 0
        while True:
            t = self.peek()
            if t[0] == 'eof':
                break
            if t[0] == 'p' and t[1] in ('<', '(', '['):
                depth += 1
            elif t[0] == 'p' and t[1] in ('>', ')', ']'):
                if depth == 0:
                    break
                depth -= 1
            elif t[0] == 'p' and t[1] == '>>':
                if depth < 2:
                    break
                depth -= 2
            elif depth == 0 and t[0] == 'p' and t[1] in (',', '=', ';', '{', '=>', '|'):
                break
            if t[0] != 'life':
                parts.append(str(t[1]) if t[0] != 'num' else str(t[1][0]))
            self.next()
        return ''.join(parts)

    def pat(self):
        if self.at('id', '_'):
            self.next()
            return ('pwild',)
        if self.at('num'):
            return ('pnum', self.next()[1][0])
        if self.atp('('):
            self.next()
            ps = []
            while not self.atp(')'):
                ps.append(self.pat())
                if self.atp(','):
                    self.next()
            self.next()
            return ('ptuple', ps)
        if self.atp('&'):
            self.next()
            return self.pat()
        if self.at('id', 'mut') or self.at('id', 'ref'):
            self.next()
            return self.pat()
        if self.at('id'):
            path = [self.next()[1]]
            while self.atp('::'):
                self.next()
                path.append(self.expect('id')[1])
            if self.atp('('):
                self.next()
                ps = []
                while not self.atp(')'):
                    ps.append(self.pat())
                    if self.atp(','):
                        self.next()
                self.next()
                return ('pctor', path, ps)
            if len(path) == 1 and (path[0][0].islower() or path[0] == '_'):
                return ('pid', path[0])
            return ('ppath', path)
        raise Unsupported('pattern at %s' % (self.peek(),))

    def block(self):
        self.expect('p', '{')
        stmts = []
        tail = None
        while not self.atp('}'):
            if self.atp(';'):
                self.next()
                continue
            if self.at('id', 'let'):
                self.next()
                mut = False
                if self.at('id', 'mut'):
                    self.next()
                    mut = True
                pat = self.pat()
                if mut and pat[0] == 'pid':
                    pat = ('pid', pat[1], True)
                ty = None
                if self.atp(':'):
                    self.next()
                    ty = self.ty()
                self.expect('p', '=')
                e = self.expr(nostruct=False)
                if self.at('id', 'else'):
                    self.next()
                    eb = self.block()
                    self.expect('p', ';')
                    stmts.append(('letelse', pat, e, eb))
                    continue
                self.expect('p', ';')
                stmts.append(('let', pat, mut, ty, e))
                continue
            if self.at('id', 'return'):
                self.next()
                e = None if self.atp(';') or self.atp('}') else self.expr()
                if self.atp(';'):
                    self.next()
                stmts.append(('return', e))
                continue
            if self.at('id', 'while'):
                self.next()
                cond = self.cond()
                body = self.block()
                stmts.append(('while', cond, body))
                continue
            if self.at('id', 'for'):
                self.next()
                pat = self.pat()
                self.expect('id', 'in')
                it = self.expr(nostruct=True)
                body = self.block()
                stmts.append(('for', pat, it, body))
                continue
            if self.at('id', 'continue') and (self.atp(';', 1) or self.atp('}', 1)):
                self.next()
                if self.atp(';'):
                    self.next()
                stmts.append(('continue',))
                continue
            if self.at('id', 'break') and (self.atp(';', 1) or self.atp('}', 1)):
                self.next()
                if self.atp(';'):
                    self.next()
                stmts.append(('break',))
                continue
            e = self.expr(stmt=True)
            if self.atp('=') or (self.at('p') and self.peek()[1] in ('+=', '-=', '*=', '/=', '|=', '&=', '^=', '<<=', '>>=')):
                op = self.next()[1]
                rhs = self.expr()
                self.expect('p', ';')
                stmts.append(('assign', e, None if op == '=' else op[:-1], rhs))
                continue
            if self.atp(';'):
                self.next()
                stmts.append(('expr', e))
                continue
            if self.atp('}'):
                tail = e
                break
            if e[0] in ('if', 'match', 'block', 'macro'):
                stmts.append(('expr', e))
                continue
            raise Unsupported('statement ends at %s' % (self.peek(),))
        self.expect('p', '}')
        return ('block', stmts, tail)

    def cond(self):
        if self.at('id', 'let'):
            self.next()
            pat = self.pat()
            self.expect('p', '=')
            e = self.expr(nostruct=True)
            return ('letc', pat, e)
        return self.expr(nostruct=True)

    BIN = [['||'], ['&&'], ['==', '!=', '<', '>', '<=', '>='], ['|'], ['^'], ['&'], ['<<', '>>'], ['+', '-'], ['*', '/', '%']]

    def expr(self, stmt=False, nostruct=False):
        return self.binexpr(0, nostruct)

    def binexpr(self, lvl, nostruct):
        if lvl == len(self.BIN):
            return self.castexpr(nostruct)
        l = self.binexpr(lvl + 1, nostruct)
        while self.at('p') and self.peek()[1] in self.BIN[lvl]:
            # `|` directly followed by `|`-closure is not produced by the subset; `||` is one token
            op = self.next()[1]
            r = self.binexpr(lvl + 1, nostruct)
            l = ('bin', op, l, r)
        return l

    def castexpr(self, nostruct):
        e = self.unary(nostruct)
        while self.at('id', 'as'):
            self.next()
            e = ('cast', e, self.ty())
        return e

    def unary(self, nostruct):
        if self.atp('!'):
            self.next()
            return ('un', '!', self.unary(nostruct))
        if self.atp('-'):
            self.next()
            return ('un', '-', self.unary(nostruct))
        if self.atp('*'):
            self.next()
            return self.unary(nostruct)
        if self.atp('&') or self.atp('&&'):
            self.next()
            if self.at('id', 'mut'):
                self.next()
            return self.unary(nostruct)
        return self.postfix(nostruct)

    def args(self):
        self.expect('p', '(')
        a = []
        while not self.atp(')'):
            a.append(self.expr())
            if self.atp(','):
                self.next()
        self.next()
        return a

    def postfix(self, nostruct):
        e = self.primary(nostruct)
        while True:
            if self.atp('.'):
                self.next()
                if self.at('num'):
                    e = ('field', e, str(self.next()[1][0]))
                    continue
                name = self.expect('id')[1]
                if self.atp('::'):      # turbofish
                    self.next()
                    self.expect('p', '<')
                    self.ty()
                    self.expect('p', '>')
                if self.atp('('):
                    e = ('mcall', e, name, self.args())
                else:
                    e = ('field', e, name)
                continue
            if self.atp('('):
                e = ('call', e, self.args())
                continue
            if self.atp('?'):
                self.next()
                e = ('try', e)
                continue
            if self.atp('['):
                self.next()
                a = b = None
                if self.atp('..'):
                    self.next()
                    if not self.atp(']'):
                        b = self.expr()
                    e = ('index', e, ('range', None, b))
                else:
                    a = self.expr()
                    if self.atp('..'):
                        self.next()
                        if not self.atp(']'):
                            b = self.expr()
                        e = ('index', e, ('range', a, b))
                    else:
                        e = ('index', e, a)
                self.expect('p', ']')
                continue
            return e

    def skip_balanced(self, open_, close):
        depth = 0
        while True:
            t = self.next()
            if t[0] == 'eof':
                raise Unsupported('unbalanced')
            if t[0] == 'p' and t[1] == open_:
                depth += 1
            elif t[0] == 'p' and t[1] == close:
                depth -= 1
                if depth == 0:
                    return

    def primary(self, nostruct):
        t = self.peek()
        if t[0] == 'num':
            self.next()
            return ('num', t[1][0], t[1][1])
        if t[0] == 'fnum':
            self.next()
            return ('fnum', t[1])
        if t[0] == 'str':
            self.next()
            return ('str', t[1])
        if self.atp('('):
            self.next()
            if self.atp(')'):
                self.next()
                return ('unit',)
            e = self.expr()
            if self.atp(','):
                es = [e]
                while self.atp(','):
                    self.next()
                    if self.atp(')'):
                        break
                    es.append(self.expr())
                self.expect('p', ')')
                return ('tuple', es)
            self.expect('p', ')')
            return ('paren', e)
        if self.atp('{'):
            return self.block()
        if self.atp('<'):
            self.next()
            ty = self.ty()
            self.expect('p', '>')
            self.expect('p', '::')
            name = self.expect('id')[1]
            return ('qpath', ty, name)
        if self.atp('|') or self.atp('||'):
            # closure: parameters are skipped, the body is parsed (and never translated)
            params = []
            if self.atp('||'):
                self.next()
            else:
                self.next()
                while not self.atp('|'):
                    t2 = self.next()
                    if t2[0] == 'id' and t2[1] not in ('mut', 'ref'):
                        params.append(t2[1])
                self.next()
            body = self.expr()
            return ('closure', body, params)
        if t[0] == 'id':
            if t[1] == 'if':
                self.next()
                c = self.cond()
                th = self.block()
                el = None
                if self.at('id', 'else'):
                    self.next()
                    if self.at('id', 'if'):
                        el = ('block', [], self.primary(nostruct))
                    else:
                        el = self.block()
                return ('if', c, th, el)
            if t[1] == 'match':
                self.next()
                s = self.expr(nostruct=True)
                self.expect('p', '{')
                arms = []
                while not self.atp('}'):
                    pats = [self.pat()]
                    while self.atp('|'):
                        self.next()
                        pats.append(self.pat())
                    self.expect('p', '=>')
                    body = self.expr()
                    if self.atp(','):
                        self.next()
                    arms.append((pats, body))
                self.next()
                return ('match', s, arms)
            if t[1] in ('true', 'false'):
                self.next()
                return ('bool', t[1] == 'true')
            path = [self.next()[1]]
            while self.atp('::'):
                self.next()
                if self.atp('<'):
                    self.next()
                    self.ty()
                    self.expect('p', '>')
                    continue
                path.append(self.expect('id')[1])
            if self.atp('!'):
                self.next()
                if self.atp('('):
                    self.skip_balanced('(', ')')
                elif self.atp('['):
                    self.skip_balanced('[', ']')
                else:
                    self.skip_balanced('{', '}')
                return ('macro', path[-1])
            if self.atp('{') and not nostruct and path[-1][0].isupper():
                self.next()
                fields = []
                while not self.atp('}'):
                    name = self.expect('id')[1]
                    if self.atp(':'):
                        self.next()
                        fields.append((name, self.expr()))
                    else:
                        fields.append((name, ('path', [name])))
                    if self.atp(','):
                        self.next()
                self.next()
                return ('struct', path, fields)
            return ('path', path)
        raise Unsupported('expression at %s' % (t,))


# ------------------------------------------------------------------------------------------------ source access
def read(rel):
    try:
        return open(os.path.join(REPO, rel), errors='replace').read()
    except OSError:
        return ''


def strip_comments(src):
    out = []
    i, n = 0, len(src)
    while i < n:
        if src.startswith('//', i):
            j = src.find('\n', i)
            i = n if j < 0 else j
        elif src.startswith('/*', i):
            j = src.find('*/', i)
            i = n if j < 0 else j + 2
        elif src[i] == '"':
            j = i + 1
            while j < n and src[j] != '"':
                j += 2 if src[j] == '\\' else 1
            out.append('"' + ' ' * max(0, j - i - 1) + '"')
            i = j + 1
        else:
            out.append(src[i])
            i += 1
    return ''.join(out)


def match_brace(s, i):
    """s[i] == '{' ; index just after the matching '}'"""
    depth = 0
    while i < len(s):
        if s[i] == '{':
            depth += 1
        elif s[i] == '}':
            depth -= 1
            if depth == 0:
                return i + 1
        i += 1
    raise Unsupported('unbalanced braces')


def find_impl(src, header_re):
    m = re.search(header_re + r'\s*\{', src)
    if not m:
        raise Unsupported('impl block /%s/ not found' % header_re)
    start = m.end() - 1
    return src[start:match_brace(src, start)]


def find_fn(src, name):
    """(params text, return type text, body text incl. braces) of the first `fn name` in src"""
    m = re.search(r'\bfn\s+%s\s*(?:<[^>]*>)?\s*\(' % re.escape(name), src)
    if not m:
        raise Unsupported('fn %s not found' % name)
    i = m.end() - 1
    depth = 0
    j = i
    while True:
        if src[j] == '(':
            depth += 1
        elif src[j] == ')':
            depth -= 1
            if depth == 0:
                break
        j += 1
    params = src[i + 1:j]
    k = src.index('{', j)
    sig = src[j + 1:k]
    mr = re.search(r'->\s*(.+)', sig, re.S)
    ret = mr.group(1).strip() if mr else '()'
    ret = re.sub(r'\s+where\b.*', '', ret, flags=re.S).strip()
    return params, ret, src[k:match_brace(src, k)]


def split_top(s, sep=','):
    out, depth, cur = [], 0, ''
    for ch in s:
        if ch in '<([{':
            depth += 1
        elif ch in '>)]}':
            depth -= 1
        if ch == sep and depth == 0:
            out.append(cur)
            cur = ''
        else:
            cur += ch
    if cur.strip():
        out.append(cur)
    return [x.strip() for x in out]


def find_struct(src, name):
    m = re.search(r'\bstruct\s+%s\s*(?:<[^>]*>)?\s*\{' % name, src)
    if not m:
        mt = re.search(r'\bstruct\s+%s\s*(?:<[^>]*>)?\s*\(((?:[^()]|\([^()]*\))*)\)\s*;' % name, src)
        if mt:
            return ('tuple', [re.sub(r'^pub(\([a-z]+\))?\s+', '', x) for x in split_top(mt.group(1))])
        raise Unsupported('struct %s not found' % name)
    start = m.end() - 1
    body = src[start + 1:match_brace(src, start) - 1]
    fields = []
    for f in split_top(body):
        f = re.sub(r'#\[[^\]]*\]\s*', '', f).strip()
        if not f:
            continue
        mm = re.match(r'(?:pub(?:\([a-z]+\))?\s+)?(\w+)\s*:\s*(.+)$', f, re.S)
        if not mm:
            raise Unsupported('struct field %r' % f)
        fields.append((mm.group(1), mm.group(2).strip()))
    return ('record', fields)


def find_enum(src, name):
    m = re.search(r'\benum\s+%s\s*\{' % name, src)
    if not m:
        raise Unsupported('enum %s not found' % name)
    start = m.end() - 1
    body = src[start + 1:match_brace(src, start) - 1]
    vs = []
    for f in split_top(body):
        f = re.sub(r'#\[[^\]]*\]\s*', '', f).strip()
        if not f:
            continue
        mm = re.match(r'(\w+)\s*(?:=\s*(.+))?$', f, re.S)
        if not mm:
            raise Unsupported('enum variant %r' % f)
        vs.append(mm.group(1))
    return vs


def find_payload_enum(src, name):
    """[(variant, payload type text or None)] of an enum whose variants carry at most one (tuple) payload"""
    m = re.search(r'\benum\s+%s\s*(?:<[^>]*>)?\s*\{' % name, src)
    if not m:
        raise Unsupported('enum %s not found' % name)
    start = m.end() - 1
    body = src[start + 1:match_brace(src, start) - 1]
    vs = []
    for f in split_top(body):
        f = re.sub(r'#\[[^\]]*\]\s*', '', f).strip()
        if not f:
            continue
        mm = re.match(r'(\w+)\s*(?:\((.*)\))?$', f, re.S)
        if not mm:
            raise Unsupported('enum variant %r' % f)
        vs.append((mm.group(1), mm.group(2).strip() if mm.group(2) else None))
    return vs


# ------------------------------------------------------------------------------------------------ translation
INT_BITS = {'u8': 8, 'u16': 16, 'u32': 32, 'u64': 64, 'usize': 64}


def is_bytes(ty):
    """byte slices, arrays and vectors are all `list N`"""
    return bool(re.match(r'^(\[u8(;.*)?\]|Vec<u8>)$', ty or ''))


def opt_inner(ty):
    """T of Option<T> / Result<T, E> (normalised type text), or None"""
    ty = ty or ''
    m = re.match(r'^(Option|Result)<(.*)>$', ty)
    if not m:
        return None
    parts = split_top(m.group(2))
    return parts[0] if parts else None
N_TYPES = set(INT_BITS) | {'Duration', 'Instant', 'AttributeType'}


class World:
    """what the translator knows about the crate: records, enums, newtypes, translated functions, constants"""

    def __init__(self):
        self.records = {}      # name -> [(field, rust type)]
        self.enums = {}        # name -> [variants]
        self.newtypes = {}     # name -> inner rust type
        self.funcs = {}        # (type or None, fn name) -> dict(gname, plain, params, ret, recv ('mut'|'ref'|None), fuel)
        self.consts = {}       # rust path text -> (gallina term, rust type)
        self.get_type = {}     # attribute struct name -> gallina constant
        self.const_vals = {}   # rust constant name -> python value (int, or float for f32)
        self.penums = {}       # payload enum name -> [(variant, payload rust type or None)]
        self.opaque = {}       # opaque item type -> {predicate method name: gallina boolean function}; values are N
        self.oracles = {}      # free function name -> (gallina parameter name, gallina type): calls become applications of an explicit extra parameter
        self.on_demand = None  # callback (type or None, fn name) -> funcinfo or None: translate a helper of the current file when first called
        self.tried = set()

    def gty(self, ty, self_ty=None):
        ty = self.norm(ty, self_ty)
        if is_bytes(ty):
            return 'list N'
        if ty in self.newtypes:
            return self.gty(self.newtypes[ty])
        if ty in N_TYPES or ty in self.enums:
            return 'N'
        m = re.match(r'^(?:Arc|Box|Rc)<(.+)>$', ty)
        if m:
            return self.gty(m.group(1), self_ty)
        if ty in self.penums:
            return ty
        if ty in self.opaque:
            return self.opaque[ty].get('@type', 'N')
        m = re.match(r'^(?:Iter|IterMut|std::slice::Iter|Vec)<(.+)>$', ty)
        if m:
            return 'list %s' % self.paren(self.gty(m.group(1), self_ty))
        m = re.match(r'^HashSet<(.+)>$', ty)
        if m:
            # a HashSet is a list under SET semantics (set_insert / set_remove / set_mem of Base/GRes.v); only N elements
            if self.gty(m.group(1), self_ty) != 'N':
                raise Unsupported('HashSet of %s' % m.group(1))
            return 'list N'
        m = re.match(r'^Result<(.*)>$', ty)
        if m:
            parts = split_top(m.group(1))
            if len(parts) == 2 and self.known_data(parts[1]):
                return 'gresult %s %s' % (self.paren(self.gty(parts[0], self_ty)), self.paren(self.gty(parts[1], self_ty)))
        if ty.startswith('(') and ty.endswith(')') and ty != '()':
            parts = split_top(ty[1:-1])
            return '(%s)' % ' * '.join(self.paren(self.gty(x, self_ty)) for x in parts)
        if ty == 'bool':
            return 'bool'
        if ty == '()':
            return 'unit'
        m = re.match(r'Option<(.+)>$', ty)
        if m:
            return 'option %s' % self.paren(self.gty(m.group(1), self_ty))
        m = re.match(r'Result<(.+),[^,]+>$', ty)
        if m:
            return 'option %s' % self.paren(self.gty(m.group(1), self_ty))
        if ty in self.records:
            return ty
        raise Unsupported('type %s' % ty)

    def lookup(self, ty, name):
        """the translated function (ty, name), translating it now if it is a private helper of the file being translated"""
        f = self.funcs.get((ty, name))
        if f is None and self.on_demand is not None and (ty, name) not in self.tried:
            self.tried.add((ty, name))
            f = self.on_demand(ty, name)
        return f

    def known_data(self, ty):
        """error types that carry data the caller uses (translated records / enums): Result<A, E> keeps E"""
        ty = self.norm(ty)
        return ty in self.records or ty in self.penums or ty in self.enums

    @staticmethod
    def paren(s):
        return '(%s)' % s if ' ' in s else s

    def norm(self, ty, self_ty=None):
        ty = re.sub(r"'\w+\s*", '', ty or '')          # lifetimes
        ty = ty.replace(' ', '')
        ty = re.sub(r"^&(?:mut)?", '', ty)
        ty = re.sub(r'<,+', '<', ty)
        ty = re.sub(r',+>', '>', ty)
        ty = re.sub(r',,+', ',', ty)
        ty = re.sub(r'<>', '', ty)
        ty = re.sub(r'^(\w+)<,*>$', r'\1', ty)          # Name<'a> after the lifetime was dropped
        m = re.match(r'^(?:Arc|Box|Rc)<(.+)>$', ty)
        if m:
            ty = m.group(1)
        if self_ty:
            ty = re.sub(r'\bSelf::Error\b', 'Error', ty)
            ty = re.sub(r'\bSelf\b', self_ty, ty)
        return ty


class Ctx:
    def __init__(self, world, self_ty, ret_ty, recvs, fuel_used):
        self.w = world
        self.self_ty = self_ty
        self.ret_ty = ret_ty
        self.recvs = recvs            # [(rust name, record type)] of &mut struct parameters, in order
        self.vars = {}                # rust name -> (gallina name, rust type)
        self.places = {}              # 'self.field' -> (gallina name, rust type)
        self.muts = []                # gallina names of mutable places in declaration order (with types)
        self.fuel_used = fuel_used    # one-element list: set to True when a loop was emitted
        self.uses_panic = [False]
        self.fresh = [0]
        self.lifted = []
        self.fn_gname = ''
        self.fn_rty = '_'
        self.break_k = None
        self.continue_k = None
        self.generic_types = {}
        self.oracles_used = []        # [(gallina parameter name, gallina type)] of the oracle calls met (shared by copies)

    def copy(self):
        c = Ctx(self.w, self.self_ty, self.ret_ty, self.recvs, self.fuel_used)
        c.vars = dict(self.vars)
        c.places = dict(self.places)
        c.muts = list(self.muts)
        c.uses_panic = self.uses_panic
        c.fresh = self.fresh
        c.lifted = self.lifted
        c.fn_gname = self.fn_gname
        c.fn_rty = self.fn_rty
        c.break_k = self.break_k
        c.continue_k = self.continue_k
        c.generic_types = self.generic_types
        c.oracles_used = self.oracles_used
        return c

    def tmp(self, base='t'):
        self.fresh[0] += 1
        return '%s_%d' % (base, self.fresh[0])


RESERVED = {'len', 'take', 'drop', 'nth', 'pad', 'bytes', 'zeros', 'be16', 'rd16', 'fuel', 'fix', 'match', 'with', 'end', 'let', 'in', 'fun',
            'if', 'then', 'else', 'as', 'at', 'return', 'Some', 'None', 'true', 'false', 'list', 'option', 'bool', 'nat', 'N', 'Z', 'tt',
            'unit', 'mul_f32', 'absdiffN', 'negb', 'andb', 'orb', 'fst', 'snd', 'app', 'rev', 'map', 'length', 'forall', 'exists',
            'Type', 'Prop', 'Set', 'where', 'struct', 'using', 'for', 'cofix', 'res', 'Ok', 'Err', 'Panic', 'tlv', 'mod'}


def gal_name(n):
    """Gallina name of a Rust local: names the generated code itself uses are suffixed"""
    return n + '_' if n in RESERVED else n


def conj(conds):
    conds = [c for c in conds if c != 'true']
    if not conds:
        return 'true'
    return ' && '.join('(%s)' % c for c in conds)


def place_key(e):
    """'self.a.b' for a field path rooted at a variable, else None"""
    if e[0] == 'path' and len(e[1]) == 1:
        return e[1][0]
    if e[0] == 'field':
        b = place_key(e[1])
        return None if b is None else b + '.' + e[2]
    if e[0] == 'paren':
        return place_key(e[1])
    return None


def spread_self(cx):
    """is `self` a `&mut self` receiver of a translated record type, held as one variable per field?"""
    return 'self' not in cx.vars and any(rn == 'self' for rn, _ in cx.recvs) and cx.self_ty in cx.w.records


def set_place(cx, key):
    """(gallina name, element rust type) when key names a place of type HashSet<T>, else None"""
    if key is None:
        return None
    ent = cx.places.get(key) or cx.vars.get(key)
    if not ent:
        return None
    m = re.match(r'^HashSet<(.+)>$', cx.w.norm(ent[1], cx.self_ty) or '')
    return (ent[0], m.group(1)) if m else None


def effect_call(e, cx):
    """(funcinfo, receiver place key or None, args) when e is a call of a translated non-plain function"""
    while e[0] == 'paren':
        e = e[1]
    if e[0] == 'mcall':
        key = place_key(e[1])
        if key is not None:
            ty = None
            if key in cx.places:
                ty = cx.w.norm(cx.places[key][1], cx.self_ty)
            elif key in cx.vars:
                ty = cx.w.norm(cx.vars[key][1], cx.self_ty)
            f = cx.w.funcs.get((ty, e[2]))
            if f and not f['plain']:
                return f, key, e[3]
            if key == 'self' and spread_self(cx):
                # self.method(..) where self is a `&mut self` record spread into its fields
                f = cx.w.lookup(cx.self_ty, e[2])
                if f and not f['plain']:
                    return f, key, e[3]
    if e[0] == 'call' and e[1][0] == 'path':
        p = e[1][1]
        f = None
        if len(p) == 2 and (p[0] == 'Self' or p[0] == cx.self_ty or (p[0], p[1]) in cx.w.funcs):
            f = cx.w.lookup(cx.self_ty if p[0] == 'Self' else p[0], p[1])
        elif len(p) == 1 and p[0][0].islower() and p[0] not in cx.vars and p[0] not in cx.w.oracles:
            f = cx.w.lookup(None, p[0])
        if f and not f['plain'] and f['recv'] is None:
            return f, None, e[2]
    return None


def f32_round(x):
    """nearest binary32 to the double x (ties to even), as a Python float"""
    import struct
    return struct.unpack('<f', struct.pack('<f', x))[0]


def f32_term(x):
    """a positive binary32 value as the (mantissa, exponent) pair of Agent/F32.v: 2^23 <= m < 2^24, value = m * 2^e"""
    import math
    if x == 0:
        return '(0, 0%Z)'
    if x < 0 or math.isinf(x) or math.isnan(x):
        raise Unsupported('f32 constant %r' % x)
    m, e = math.frexp(x)            # x = m * 2^e, 0.5 <= m < 1
    mant = int(m * (1 << 24))
    if mant * 2.0 ** (e - 24) != x:
        raise Unsupported('f32 constant %r is not representable' % x)
    return '(%d, (%d)%%Z)' % (mant, e - 24)


def f32_const(e, cx):
    """value of a constant f32 expression (literals, f32 / integer constants, + - * /, `as f32`), or None"""
    w = cx.w
    k = e[0]
    if k == 'paren':
        return f32_const(e[1], cx)
    if k == 'fnum':
        return f32_round(float(e[1]))
    if k == 'path':
        v = w.const_vals.get('::'.join(e[1]))
        if isinstance(v, float):
            return v
        return None
    if k == 'cast' and w.norm(e[2]) == 'f32':
        inner = e[1]
        while inner[0] == 'paren':
            inner = inner[1]
        if inner[0] == 'num':
            return f32_round(float(inner[1]))
        if inner[0] == 'path':
            v = w.const_vals.get('::'.join(inner[1]))
            if isinstance(v, int):
                return f32_round(float(v))
        return None
    if k == 'bin' and e[1] in ('+', '-', '*', '/'):
        a, b = f32_const(e[2], cx), f32_const(e[3], cx)
        if a is None or b is None:
            return None
        r = a + b if e[1] == '+' else a - b if e[1] == '-' else a * b if e[1] == '*' else (a / b if b != 0 else None)
        return None if r is None else f32_round(r)     # double rounding is innocuous for one binary32 operation
    return None


def tr_expr(e, cx, expect=None):
    """pure expression -> (gallina term, [conditions that must hold or the code panics], rust type or None)"""
    w = cx.w
    k = e[0]
    if k in ('fnum', 'cast', 'bin', 'path'):
        fv = f32_const(e, cx)
        if fv is not None:
            return f32_term(fv), [], 'f32'
    if k == 'paren':
        t, c, ty = tr_expr(e[1], cx, expect)
        return '(%s)' % t, c, ty
    if k == 'num':
        return str(e[1]), [], e[2] or expect
    if k == 'bool':
        return ('true' if e[1] else 'false'), [], 'bool'
    if k == 'unit':
        return 'tt', [], '()'
    if k == 'path':
        p = e[1]
        if len(p) == 3 and p[0] in ('stun_rs', 'crate') and p[1] in w.enums:
            p = p[1:]                      # stun_rs::MessageClass::Indication
        if p == ['self'] and 'self' not in cx.vars and cx.self_ty in w.records:
            sty = cx.self_ty
            return '{| %s |}' % '; '.join('%s_%s := %s' % (sty, f, cx.places['self.%s' % f][0]) for f, _ in w.records[sty]), [], sty
        if len(p) == 1:
            if p[0] in cx.vars:
                g, ty = cx.vars[p[0]]
                return g, [], ty
            if p[0] == 'None':
                return 'None', [], expect
        txt = '::'.join(p)
        if txt in w.consts:
            g, ty = w.consts[txt]
            return g, [], ty
        if len(p) == 2 and (p[0] in w.enums or (p[0] == 'Self' and cx.self_ty in w.enums)):
            en = cx.self_ty if p[0] == 'Self' else p[0]
            if p[1] in w.enums[en]:
                return str(w.enums[en].index(p[1])), [], en
        raise Unsupported('name %s' % txt)
    if k == 'field':
        key = place_key(e)
        if key is not None and key in cx.places:
            g, ty = cx.places[key]
            return g, [], ty
        bt, bc, bty = tr_expr(e[1], cx)
        bty = w.norm(bty, cx.self_ty)
        if bty in w.newtypes and e[2] == '0':
            return bt, bc, w.newtypes[bty]
        if bty in w.records:
            for f, fty in w.records[bty]:
                if f == e[2]:
                    return '(%s_%s %s)' % (bty, f, bt), bc, fty
        raise Unsupported('field .%s of %s' % (e[2], bty))
    if k == 'tuple':
        ts = [tr_expr(x, cx) for x in e[1]]
        tys = [w.norm(t[2], cx.self_ty) or '?' for t in ts]
        return '(%s)' % ', '.join(t[0] for t in ts), sum((t[1] for t in ts), []), '(%s)' % ','.join(tys)
    if k == 'index':
        bt, bc, bty = tr_expr(e[1], cx)
        if not is_bytes(w.norm(bty, cx.self_ty)):
            raise Unsupported('indexing a value of type %s' % bty)
        ix = e[2]
        if ix[0] == 'range':
            conds = list(bc)
            at = ac = None
            if ix[1] is not None:
                at, ac, _ = tr_expr(ix[1], cx, 'usize')
                conds += ac
            if ix[2] is not None:
                et, ec, _ = tr_expr(ix[2], cx, 'usize')
                conds += ec
                if at is not None:
                    conds.append('%s <=? %s' % (atom(at), atom(et)))
                conds.append('%s <=? len %s' % (atom(et), atom(bt)))
                term = 'take %s %s' % (atom(et), atom(bt)) if at is None else 'take (%s - %s) (drop %s %s)' % (atom(et), atom(at), atom(at), atom(bt))
            else:
                if at is None:
                    return bt, conds, '[u8]'
                conds.append('%s <=? len %s' % (atom(at), atom(bt)))
                term = 'drop %s %s' % (atom(at), atom(bt))
            return term, conds, '[u8]'
        it, ic, _ = tr_expr(ix, cx, 'usize')
        return 'nth (N.to_nat %s) %s 0' % (atom(it), atom(bt)), bc + ic + ['%s <? len %s' % (atom(it), atom(bt))], 'u8'
    if k == 'struct':
        name = cx.self_ty if e[1] == ['Self'] else e[1][-1]
        if name not in w.records:
            raise Unsupported('struct literal %s' % name)
        fs = dict(e[2])
        parts, conds = [], []
        for f, fty in w.records[name]:
            if f not in fs:
                raise Unsupported('struct literal %s lacks %s' % (name, f))
            t, c, _ = tr_expr(fs[f], cx, fty)
            parts.append('%s_%s := %s' % (name, f, t))
            conds += c
        return '{| %s |}' % '; '.join(parts), conds, name
    if k == 'cast':
        t, c, ty = tr_expr(e[1], cx)
        to = w.norm(e[2])
        if to in INT_BITS:
            src = w.norm(ty, cx.self_ty)
            if src in INT_BITS and INT_BITS[src] <= INT_BITS[to]:
                return t, c, to
            if src == 'bool':
                return '(if %s then 1 else 0)' % t, c, to
            return '(%s mod %d)' % (t, 2 ** INT_BITS[to]), c, to
        raise Unsupported('cast to %s' % to)
    if k == 'un':
        t, c, ty = tr_expr(e[2], cx, expect)
        if e[1] == '!' and w.norm(ty) in ('bool', ''):
            return 'negb %s' % atom(t), c, 'bool'
        raise Unsupported('unary %s on %s' % (e[1], ty))
    if k == 'bin':
        op = e[1]
        if op in ('&&', '||'):
            lt, lc, _ = tr_expr(e[2], cx, 'bool')
            rt, rc, _ = tr_expr(e[3], cx, 'bool')
            conds = list(lc)
            if conj(rc) != 'true':
                conds.append('if %s then %s else true' % (lt, conj(rc)) if op == '&&' else 'if %s then true else %s' % (lt, conj(rc)))
            return '%s %s %s' % (atom(lt), op, atom(rt)), conds, 'bool'
        lt, lc, lty = tr_expr(e[2], cx, expect if op not in ('==', '!=', '<', '>', '<=', '>=') else None)
        rt, rc, rty = tr_expr(e[3], cx, lty if op not in ('<<', '>>') else None)
        if lty is None and rty is not None and op not in ('<<', '>>'):
            lt, lc, lty = tr_expr(e[2], cx, rty)
        conds = lc + rc
        nl = w.norm(lty, cx.self_ty)
        nl = w.newtypes.get(nl, nl)
        bits = INT_BITS.get(nl)
        if op in ('==', '!='):
            if is_bytes(nl) or is_bytes(w.norm(rty, cx.self_ty)):
                t = 'list_N_eqb %s %s' % (atom(lt), atom(rt))
                return (t if op == '==' else 'negb (%s)' % t), conds, 'bool'
            if nl == 'bool':
                t = 'Bool.eqb %s %s' % (atom(lt), atom(rt))
            elif w.gty(nl, cx.self_ty) == 'N' if nl else True:
                t = '%s =? %s' % (atom(lt), atom(rt))
            else:
                raise Unsupported('== on %s' % nl)
            return (t if op == '==' else 'negb (%s)' % t), conds, 'bool'
        if op in ('<', '<=', '>', '>='):
            a, b = (lt, rt) if op in ('<', '<=') else (rt, lt)
            return '%s %s %s' % (atom(a), '<?' if op in ('<', '>') else '<=?', atom(b)), conds, 'bool'
        if op == '&' and nl == 'bool':
            return '%s && %s' % (atom(lt), atom(rt)), conds, 'bool'
        if op == '|' and nl == 'bool':
            return '%s || %s' % (atom(lt), atom(rt)), conds, 'bool'
        if op == '&':
            return 'N.land %s %s' % (atom(lt), atom(rt)), conds, lty
        if op == '|':
            return 'N.lor %s %s' % (atom(lt), atom(rt)), conds, lty
        if op == '^':
            return 'N.lxor %s %s' % (atom(lt), atom(rt)), conds, lty
        if op in ('<<', '>>') and bits and re.match(r'^\d+$', rt) and int(rt) < bits:
            bits_checked = True
        else:
            bits_checked = False
        if op == '>>':
            if bits and not bits_checked:
                conds.append('%s <? %d' % (atom(rt), bits))
            return 'N.shiftr %s %s' % (atom(lt), atom(rt)), conds, lty
        if op == '<<':
            if not bits:
                raise Unsupported('<< on a value of unknown width')
            if not bits_checked:
                conds.append('%s <? %d' % (atom(rt), bits))
            return '(N.shiftl %s %s) mod %d' % (atom(lt), atom(rt), 2 ** bits), conds, lty
        if op == '+':
            t = '%s + %s' % (atom(lt), atom(rt))
            if bits:
                conds.append('%s <? %d' % (t, 2 ** bits))
            return t, conds, lty
        if op == '*':
            t = '%s * %s' % (atom(lt), atom(rt))
            if bits:
                conds.append('%s <? %d' % (t, 2 ** bits))
            return t, conds, lty
        if op == '-':
            t = '%s - %s' % (atom(lt), atom(rt))
            rn = w.norm(rty, cx.self_ty)
            if nl == 'Instant' and rn == 'Instant':
                return t, conds, 'Duration'          # Instant - Instant saturates (std, since 1.60)
            conds.append('%s <=? %s' % (atom(rt), atom(lt)))
            return t, conds, lty
        if op in ('/', '%'):
            if not (re.match(r'^\(?\d+\)?$', rt) and int(rt.strip('()')) != 0):
                conds.append('negb (%s =? 0)' % atom(rt))
            return '%s %s %s' % (atom(lt), '/' if op == '/' else 'mod', atom(rt)), conds, lty
        raise Unsupported('operator %s' % op)
    if k == 'if':
        if e[3] is None:
            raise Unsupported('if without else as a value')
        at, ac, aty = tr_value_block(e[2], cx, expect)
        bt, bc, bty = tr_value_block(e[3], cx, expect or aty)
        ty = aty or bty
        if e[1][0] == 'letc':
            st, sc, sty = tr_expr(e[1][2], cx)
            pt, binds = tr_pat(e[1][1], cx, sty)
            cx2 = cx.copy()
            for rn, (g, ty2) in binds.items():
                cx2.vars[rn] = (g, ty2)
            at, ac, aty = tr_value_block(e[2], cx2, expect)
            conds = sc + ([] if conj(ac) == 'true' and conj(bc) == 'true' else
                          ['match %s with %s => %s | _ => %s end' % (st, pt, conj(ac), conj(bc))])
            return '(match %s with %s => %s | _ => %s end)' % (st, pt, at, bt), conds, aty or bty
        ct, cc, _ = tr_expr(e[1], cx, 'bool')
        conds = list(cc)
        if conj(ac) != 'true' or conj(bc) != 'true':
            conds.append('if %s then %s else %s' % (ct, conj(ac), conj(bc)))
        return '(if %s then %s else %s)' % (ct, at, bt), conds, ty
    if k == 'block':
        return tr_value_block(e, cx, expect)
    if k == 'match':
        st, sc, sty = tr_expr(e[1], cx)
        return tr_match_value(st, sc, sty, e[2], cx, expect)
    if k == 'call':
        f = e[1]
        if f[0] == 'path':
            p = f[1]
            nexp = w.norm(expect, cx.self_ty)
            mres = re.match(r'^Result<(.*)>$', nexp or '')
            if mres and p in (['Ok'], ['Err']):
                rparts = split_top(mres.group(1))
                if len(rparts) == 2 and w.known_data(rparts[1]):
                    t, c, ty = tr_expr(e[2][0], cx, rparts[0] if p == ['Ok'] else rparts[1])
                    return '%s %s' % ('ROk' if p == ['Ok'] else 'RErr', atom(t)), c, nexp
            if p == ['Some'] or p == ['Ok']:
                inner = opt_inner(w.norm(expect, cx.self_ty))
                t, c, ty = tr_expr(e[2][0], cx, inner)
                return 'Some %s' % atom(t), c, 'Option<%s>' % (w.norm(ty, cx.self_ty) or '?')
            if p == ['Err']:
                return 'None', [], expect
            if p in (['Arc', 'new'], ['Box', 'new'], ['Rc', 'new']) and len(e[2]) == 1:
                return tr_expr(e[2][0], cx, expect)
            if len(p) == 2 and p[0] in w.penums and any(v == p[1] for v, _ in w.penums[p[0]]):
                pty = dict(w.penums[p[0]])[p[1]]
                if pty is None or len(e[2]) != 1:
                    raise Unsupported('constructor %s::%s' % (p[0], p[1]))
                t, c, _ = tr_expr(e[2][0], cx, pty)
                return '%s_%s %s' % (p[0], p[1], atom(t)), c, p[0]
            if len(p) == 2 and p[1] == 'get_type' and p[0] in w.get_type:
                return w.get_type[p[0]], [], 'AttributeType'
            if len(p) == 2 and p[1] == 'get_type' and p[0] in cx.generic_types:
                return cx.generic_types[p[0]], [], 'AttributeType'
            if p == ['Duration', 'default'] or p == ['Duration', 'ZERO']:
                return '0', [], 'Duration'
            if p == ['HashSet', 'new'] and not e[2]:
                return '[]', [], expect or 'HashSet<?>'
            if len(p) == 1 and p[0] in w.oracles:
                # a function outside the translated subset whose RESULT is an explicit parameter of the translated caller
                oname, oty = w.oracles[p[0]]
                if (oname, oty) not in cx.oracles_used:
                    cx.oracles_used.append((oname, oty))
                ats, conds = [], []
                for a in e[2]:
                    t, c, _ = tr_expr(a, cx)
                    ats.append(atom(t))
                    conds += c
                return '%s %s' % (oname, ' '.join(ats)), conds, 'bool'
            if p in (['BigEndian', 'read_u16'], ['BigEndian', 'read_u32']) and len(e[2]) == 1:
                t, c, ty = tr_expr(e[2][0], cx)
                nb = 2 if p[1] == 'read_u16' else 4
                return 'be_read %d %s' % (nb, atom(t)), c + ['%d <=? len %s' % (nb, atom(t))], 'u16' if nb == 2 else 'u32'
            if len(p) == 1 and (None, p[0]) in w.funcs:
                fi = w.funcs[(None, p[0])]
                if not fi['plain']:
                    raise Unsupported('call of %s inside an expression' % p[0])
                ats, conds = [], []
                for a, (pn, pty) in zip(e[2], fi['params']):
                    t, c, _ = tr_expr(a, cx, pty)
                    ats.append(atom(t))
                    conds += c
                return '%s %s' % (fi['gname'], ' '.join(ats)), conds, fi['ret']
            if p in (['cmp', 'max'], ['cmp', 'min'], ['std', 'cmp', 'max'], ['std', 'cmp', 'min']) and len(e[2]) == 2:
                at, ac, aty = tr_expr(e[2][0], cx, expect)
                bt, bc, bty = tr_expr(e[2][1], cx, aty)
                return 'N.%s %s %s' % (p[-1], atom(at), atom(bt)), ac + bc, aty or bty
            if len(p) == 2 and p[0] == 'Duration' and p[1] in ('from_secs', 'from_millis', 'from_micros', 'from_nanos') and len(e[2]) == 1:
                t, c, _ = tr_expr(e[2][0], cx, 'u64')
                mult = {'from_secs': 1000000000, 'from_millis': 1000000, 'from_micros': 1000, 'from_nanos': 1}[p[1]]
                return ('%s * %d' % (atom(t), mult) if mult != 1 else t), c, 'Duration'
            ty = cx.self_ty if p[0] == 'Self' else p[0]
            if len(p) == 2 and (p[0] == 'Self' or p[0] == cx.self_ty) and p[1][0].islower():
                w.lookup(ty, p[1])
            if len(p) == 1 and p[0][0].islower() and p[0] not in cx.vars:
                w.lookup(None, p[0])
            if len(p) == 2 and (ty, p[1]) in w.funcs:
                fi = w.funcs[(ty, p[1])]
                if not fi['plain']:
                    raise Unsupported('call of %s::%s inside an expression' % (ty, p[1]))
                ats, conds = [], []
                for a, (pn, pty) in zip(e[2], fi['params']):
                    t, c, _ = tr_expr(a, cx, pty)
                    ats.append(atom(t))
                    conds += c
                return '%s %s' % (fi['gname'], ' '.join(ats)), conds, fi['ret']
            if len(p) == 1 and p[0] in w.newtypes:
                t, c, _ = tr_expr(e[2][0], cx, w.newtypes[p[0]])
                return t, c, p[0]
            if len(p) == 2 and p[1] == 'try_from' and p[0] in INT_BITS and len(e[2]) == 1:
                t, c, ty2 = tr_expr(e[2][0], cx)
                return '(if %s <? %d then Some %s else None)' % (atom(t), 2 ** INT_BITS[p[0]], atom(t)), c, 'Result<%s,Error>' % p[0]
            if len(p) == 2 and p[1] == 'from' and p[0] in INT_BITS:
                t, c, ty2 = tr_expr(e[2][0], cx)
                return t, c, p[0]
        if f[0] == 'qpath' and f[2] == 'try_from' and len(e[2]) == 1:
            # <&[u8; N]>::try_from(slice): Ok exactly when the slice has N bytes
            m = re.match(r'^\[u8;(.+)\]$', w.norm(f[1]))
            if m:
                nt, nc, _ = tr_expr(P(lex(m.group(1))).expr(), cx, 'usize')
                t, c, _ = tr_expr(e[2][0], cx)
                return '(if len %s =? %s then Some %s else None)' % (atom(t), atom(nt), atom(t)), c + nc, 'Result<[u8],Error>'
        raise Unsupported('call %s' % (f,))
    if k == 'mcall':
        recv, name, args = e[1], e[2], e[3]
        # x.try_into().unwrap()  /  T::try_from(x).unwrap()  /  option.unwrap()
        if name in ('unwrap', 'expect'):
            inner = recv
            while inner[0] == 'paren':
                inner = inner[1]
            if inner[0] == 'mcall' and inner[2] == 'try_into':
                to = w.norm(expect)
                ma = re.match(r'^\[u8;(.+)\]$', to)
                if ma:
                    nt, nc, _ = tr_expr(P(lex(ma.group(1))).expr(), cx, 'usize')
                    t, c, _ = tr_expr(inner[1], cx)
                    return t, c + nc + ['len %s =? %s' % (atom(t), atom(nt))], to
                if to not in INT_BITS:
                    raise Unsupported('try_into() to an unknown type')
                t, c, _ = tr_expr(inner[1], cx)
                return t, c + ['%s <? %d' % (atom(t), 2 ** INT_BITS[to])], to
            t, c, ty = tr_expr(inner, cx, ('Option<%s>' % expect) if expect else None)
            inner_ty = opt_inner(w.norm(ty, cx.self_ty))
            if inner_ty is None:
                raise Unsupported('unwrap on %s' % ty)
            if w.gty(inner_ty, cx.self_ty) != 'N':
                raise Unsupported('unwrap of a non-numeric option')
            return 'opt_get %s' % atom(t), c + ['opt_is_some %s' % atom(t)], inner_ty
        if not args:
            t0, c0, ty0 = (None, None, None)
            try:
                t0, c0, ty0 = tr_expr(recv, cx)
            except Unsupported:
                pass
            oty = w.norm(ty0, cx.self_ty) if ty0 else None
            if oty in w.opaque and name in w.opaque[oty]:
                spec = w.opaque[oty][name]
                fn_, rty_ = (spec, 'bool') if isinstance(spec, str) else spec
                return '%s %s' % (fn_, atom(t0)), c0, rty_
        if name == 'position' and len(args) == 1 and args[0][0] == 'closure' and len(args[0][2]) == 1:
            lt_, lc_, lty_ = tr_expr(recv, cx)
            mm = re.match(r'^(?:Vec|Iter|IterMut)<(.+)>$', w.norm(lty_, cx.self_ty) or '')
            if not mm:
                raise Unsupported('position() on %s' % lty_)
            cx2 = cx.copy()
            pn = args[0][2][0]
            cx2.vars[pn] = (gal_name(pn), mm.group(1))
            bt, bc, _ = tr_expr(args[0][1], cx2, 'bool')
            if bc:
                raise Unsupported('partial operation inside a closure')
            return 'list_position (fun %s => %s) %s' % (gal_name(pn), bt, atom(lt_)), lc_, 'Option<usize>'
        if name in ('iter', 'iter_mut') and not args:
            t, c, ty = tr_expr(recv, cx)
            mm = re.match(r'^Vec<(.+)>$', w.norm(ty, cx.self_ty) or '')
            if mm:
                return t, c, 'Iter<%s>' % mm.group(1)
        if name in ('len', 'to_vec', 'is_empty', 'as_slice', 'as_ref') and not args:
            t, c, ty = tr_expr(recv, cx)
            if is_bytes(w.norm(ty, cx.self_ty)):
                if name == 'len':
                    return 'len %s' % atom(t), c, 'usize'
                if name == 'is_empty':
                    return '(len %s =? 0)' % atom(t), c, 'bool'
                return t, c, '[u8]'
        if name == 'try_into' and not args:
            to = w.norm(opt_inner(w.norm(expect)) or '')
            if to not in INT_BITS:
                raise Unsupported('try_into() to an unknown type (%s)' % expect)
            t, c, _ = tr_expr(recv, cx)
            return '(if %s <? %d then Some %s else None)' % (atom(t), 2 ** INT_BITS[to], atom(t)), c, 'Result<%s,Error>' % to
        if name in ('into', 'clone', 'to_owned', 'as_u16', 'as_u8', 'as_u32', 'as_usize') and not args:
            key = place_key(recv)
            t, c, ty = tr_expr(recv, cx)
            nty = w.norm(ty, cx.self_ty)
            if (nty, name) in w.funcs:
                fi = w.funcs[(nty, name)]
                if fi['plain']:
                    return '%s %s' % (fi['gname'], atom(t)), c, fi['ret']
                raise Unsupported('call of %s::%s inside an expression' % (nty, name))
            if name in ('into', 'clone', 'to_owned'):
                return t, c, expect or ty
            raise Unsupported('method %s of %s is not translated' % (name, nty))
        if name in ('saturating_mul', 'saturating_add', 'saturating_sub') and len(args) == 1:
            t, c, ty = tr_expr(recv, cx)
            nty = w.norm(ty, cx.self_ty)
            at, ac, _ = tr_expr(args[0], cx, None if nty == 'Duration' else ty)
            if nty == 'Duration':
                top = 'duration_max'
            elif nty in INT_BITS:
                top = str(2 ** INT_BITS[nty] - 1)
            else:
                raise Unsupported('%s on %s' % (name, nty))
            if name == 'saturating_sub':
                return '%s - %s' % (atom(t), atom(at)), c + ac, ty      # N subtraction truncates at zero
            return 'N.min (%s %s %s) %s' % (atom(t), '*' if name == 'saturating_mul' else '+', atom(at), top), c + ac, ty
        if name == 'mul_f32' and len(args) == 1:
            t, c, ty = tr_expr(recv, cx)
            at, ac, aty = tr_expr(args[0], cx, 'f32')
            if w.norm(ty, cx.self_ty) != 'Duration' or aty != 'f32':
                raise Unsupported('mul_f32 on %s by %s' % (ty, aty))
            return 'mul_f32 %s %s' % (atom(t), atom(at)), c + ac, 'Duration'
        if name == 'abs_diff' and len(args) == 1:
            t, c, ty = tr_expr(recv, cx)
            at, ac, _ = tr_expr(args[0], cx, ty)
            return 'absdiffN %s %s' % (atom(t), atom(at)), c + ac, ty
        if name in ('max', 'min') and len(args) == 1:
            t, c, ty = tr_expr(recv, cx)
            at, ac, _ = tr_expr(args[0], cx, ty)
            return 'N.%s %s %s' % (name, atom(t), atom(at)), c + ac, ty
        if name == 'then_some' and len(args) == 1:
            ct, cc, _ = tr_expr(recv, cx, 'bool')
            vt, vc, vty = tr_expr(args[0], cx)
            conds = cc + ([] if conj(vc) == 'true' else ['if %s then %s else true' % (ct, conj(vc))])
            return '(if %s then Some %s else None)' % (ct, atom(vt)), conds, 'Option<%s>' % (w.norm(vty, cx.self_ty) or '?')
        if name in ('ok_or_else', 'ok_or') and len(args) == 1:
            return tr_expr(recv, cx, expect)
        if name == 'contains' and len(args) == 1 and set_place(cx, place_key(recv)):
            t, c, ty = tr_expr(recv, cx)
            at, ac, _ = tr_expr(args[0], cx)
            return 'set_mem %s %s' % (atom(at), atom(t)), c + ac, 'bool'
        if name == 'is_some' or name == 'is_none':
            t, c, _ = tr_expr(recv, cx)
            return ('opt_is_some %s' % atom(t)) if name == 'is_some' else 'negb (opt_is_some %s)' % atom(t), c, 'bool'
        t, c, ty = tr_expr(recv, cx)
        nty = w.norm(ty, cx.self_ty)
        if nty and (nty == cx.self_ty or nty in w.records):
            w.lookup(nty, name)
        if (nty, name) in w.funcs:
            fi = w.funcs[(nty, name)]
            if not fi['plain'] or fi['recv'] == 'mut':
                raise Unsupported('call of %s::%s inside an expression' % (nty, name))
            ats, conds = [atom(t)], list(c)
            for a, (pn, pty) in zip(args, fi['params']):
                t2, c2, _ = tr_expr(a, cx, pty)
                ats.append(atom(t2))
                conds += c2
            return '%s %s' % (fi['gname'], ' '.join(ats)), conds, fi['ret']
        raise Unsupported('method call .%s() on %s' % (name, nty))
    raise Unsupported('expression kind %s' % k)


def atom(t):
    return t if re.match(r'^[\w.]+$', t) or (t.startswith('(') and t.endswith(')') and balanced(t)) else '(%s)' % t


def balanced(t):
    depth = 0
    for i, ch in enumerate(t):
        if ch == '(':
            depth += 1
        elif ch == ')':
            depth -= 1
            if depth == 0 and i != len(t) - 1:
                return False
    return True


def tr_value_block(b, cx, expect):
    if b[0] != 'block':
        return tr_expr(b, cx, expect)
    stmts, tail = b[1], b[2]
    stmts = [s for s in stmts if not (s[0] == 'expr' and s[1][0] == 'macro')]
    if tail is None:
        raise Unsupported('block without a value')
    cx2 = cx.copy()
    lets, conds = [], []
    for s in stmts:
        if s[0] != 'let' or s[1][0] != 'pid' or s[2]:
            raise Unsupported('statements inside a value block')
        t, c, ty = tr_expr(s[4], cx2, s[3])
        if conds or c:
            raise Unsupported('partial operation inside a value block with lets')
        g = gal_name(s[1][1])
        cx2.vars[s[1][1]] = (g, s[3] or ty)
        lets.append('let %s := %s in ' % (g, t))
    t, c, ty = tr_expr(tail, cx2, expect)
    if lets and c:
        raise Unsupported('partial operation inside a value block with lets')
    return (''.join(lets) + t if not lets else '(%s%s)' % (''.join(lets), t)), c, ty


def tr_pat(p, cx, sty):
    """pattern -> (gallina pattern, {rust name: (gallina name, rust type)})"""
    w = cx.w
    if p[0] == 'pwild':
        return '_', {}
    if p[0] == 'pid':
        return gal_name(p[1]), {p[1]: (gal_name(p[1]), sty)}
    if p[0] == 'pctor' and p[1] in (['Some'], ['Ok']) and len(p[2]) == 1:
        inner = opt_inner(w.norm(sty, cx.self_ty))
        ip, b = tr_pat(p[2][0], cx, inner)
        return 'Some %s' % (ip if re.match(r'^\w+$', ip) else '(%s)' % ip), b
    if p[0] == 'ptuple':
        nty = w.norm(sty, cx.self_ty)
        tys = split_top(nty[1:-1]) if nty.startswith('(') and nty.endswith(')') else []
        parts, binds = [], {}
        for i, q in enumerate(p[1]):
            ip, b = tr_pat(q, cx, tys[i] if i < len(tys) else None)
            parts.append(ip)
            binds.update(b)
        return '(%s)' % ', '.join(parts), binds
    if p[0] == 'ppath' and p[1] == ['None']:
        return 'None', {}
    if p[0] == 'pctor' and p[1] == ['Err']:
        return 'None', {}
    raise Unsupported('pattern %s' % (p,))


def lit_of_pat(p, cx, sty):
    """numeric value of a literal / enum-variant pattern, or None"""
    w = cx.w
    if p[0] == 'pnum':
        return p[1]
    if p[0] == 'ppath' and len(p[1]) == 2:
        en = cx.self_ty if p[1][0] == 'Self' else p[1][0]
        if en in w.enums and p[1][1] in w.enums[en]:
            return w.enums[en].index(p[1][1])
    return None


def tr_match_value(st, sc, sty, arms, cx, expect):
    """pure match with literal / enum / option patterns and pure arm values"""
    w = cx.w
    nty = w.norm(sty, cx.self_ty)
    if opt_inner(nty) is not None:
        parts, conds_arms, ty = [], [], None
        for pats, body in arms:
            for p in pats:
                pt, binds = tr_pat(p, cx, sty)
                cx2 = cx.copy()
                for rn, v in binds.items():
                    cx2.vars[rn] = v
                bt, bc, bty = tr_value_block(body, cx2, expect)
                ty = ty or bty
                parts.append('%s => %s' % (pt, bt))
                conds_arms.append('%s => %s' % (pt, conj(bc)))
        conds = list(sc)
        if any(not c.endswith('=> true') for c in conds_arms):
            conds.append('match %s with %s end' % (st, ' | '.join(conds_arms)))
        return '(match %s with %s end)' % (st, ' | '.join(parts)), conds, ty
    # literals: a chain of ifs; the last arm must be a wildcard / binding, or the literals must cover an enum
    out, cond_out, ty = None, None, None
    chain = []
    default = None
    for pats, body in arms:
        vals = [lit_of_pat(p, cx, sty) for p in pats]
        if all(v is not None for v in vals):
            bt, bc, bty = tr_value_block(body, cx, expect)
            ty = ty or bty
            chain.append((vals, bt, conj(bc)))
        elif len(pats) == 1 and pats[0][0] in ('pwild', 'pid'):
            cx2 = cx.copy()
            if pats[0][0] == 'pid':
                cx2.vars[pats[0][1]] = (st, sty)
            bt, bc, bty = tr_value_block(body, cx2, expect)
            ty = ty or bty
            default = (bt, conj(bc))
            break
        else:
            raise Unsupported('match pattern %s' % (pats,))
    if default is None:
        if nty in w.enums and sorted(v for vs, _, _ in chain for v in vs) == list(range(len(w.enums[nty]))):
            vals, bt, bc = chain.pop()
            default = (bt, bc)
        else:
            raise Unsupported('match without a default arm')
    t, c = default
    for vals, bt, bc in reversed(chain):
        test = ' || '.join('(%s =? %d)' % (atom(st), v) for v in vals)
        c = 'true' if (bc == 'true' and c == 'true') else 'if %s then %s else %s' % (test, bc, c)
        t = 'if %s then %s else %s' % (test, bt, t)
    return '(%s)' % t, sc + ([] if c == 'true' else [c]), ty


# ---- statements (continuation-passing)
def chk(conds, term, cx):
    c = conj(conds)
    if c == 'true':
        return term
    cx.uses_panic[0] = True
    return 'if negb (%s) then GPanic else %s' % (c, term)


def exit_term(cx, value):
    recs = []
    for rn, rty in cx.recvs:
        recs.append('{| %s |}' % '; '.join('%s_%s := %s' % (rty, f, cx.places['%s.%s' % (rn, f)][0]) for f, _ in cx.w.records[rty]))
    parts = ([] if value is None else [value]) + recs
    if not parts:
        parts = ['tt']
    return 'GOk %s' % (atom(parts[0]) if len(parts) == 1 else '(%s)' % ', '.join(parts))


def bind_effect(call, cx, k):
    """emit the call of a non-plain translated function; k(cx, result term, result rust type) continues"""
    fi, key, args = call
    ats, conds = [], []
    for a, (pn, pty) in zip(args, fi['params']):
        t, c, _ = tr_expr(a, cx, pty)
        ats.append(atom(t))
        conds += c
    respread = ''
    if key == 'self' and key not in cx.places and key not in cx.vars:
        # the receiver is the current record, rebuilt from its field variables; after a `&mut self` call they are re-read
        sty = cx.self_ty
        recv_term = '{| %s |}' % '; '.join('%s_%s := %s' % (sty, f, cx.places['self.%s' % f][0]) for f, _ in cx.w.records[sty])
        recv_g = cx.tmp('self')
        if fi['recv'] == 'mut':
            respread = ''.join('let %s := %s_%s %s in\n  ' % (cx.places['self.%s' % f][0], sty, f, recv_g) for f, _ in cx.w.records[sty])
    else:
        recv_g = None if key is None else (cx.places[key][0] if key in cx.places else cx.vars[key][0])
        recv_term = recv_g
    r = cx.tmp('r')
    fuel = ['fuel'] if fi.get('fuel') else []
    if fi.get('fuel'):
        cx.fuel_used[0] = True
    callt = '%s %s' % (fi['gname'], ' '.join(fuel + ([recv_term] if recv_g else []) + ats))
    cx.uses_panic[0] = True
    if fi['recv'] == 'mut':
        if fi['ret'] in ('()', None):
            pat = recv_g
            res = None
        else:
            pat = '(%s, %s)' % (r, recv_g)
            res = r
    else:
        pat = r
        res = r
    body = respread + k(cx, res, fi['ret'])
    return chk(conds, 'match %s with GOk %s => %s | GPanic => GPanic | GFuel => GFuel end' % (callt, pat, body), cx)


def has_try(e):
    if isinstance(e, tuple):
        if e and e[0] == 'try':
            return True
        if e and e[0] == 'closure':
            return False
        return any(has_try(x) for x in e)
    if isinstance(e, list):
        return any(has_try(x) for x in e)
    return False


def nested_effect(e, cx, top=True):
    """does e contain a call of a non-plain translated function below its root?"""
    if isinstance(e, tuple):
        if e and e[0] == 'closure':
            return False
        if not top and e and e[0] in ('call', 'mcall') and effect_call(e, cx):
            return True
        return any(nested_effect(x, cx, False) for x in e[1:])
    if isinstance(e, list):
        return any(nested_effect(x, cx, False) for x in e)
    return False


def needs_hoist(e, cx):
    return e is not None and (has_try(e) or nested_effect(e, cx))


def hoist(e, acc, cx, expect=None, top=True):
    if not (has_try(e) or nested_effect(e, cx, top)):
        return e
    if not top and e[0] in ('call', 'mcall') and effect_call(e, cx):
        inner = hoist(e, acc, cx, None, True)
        v = cx.tmp('q')
        acc.append((v, inner, 'eff'))
        return ('path', [v])
    return hoist1(e, acc, cx, expect)


def hoist1(e, acc, cx, expect=None):
    """replace every `inner?` sub-expression (left to right, innermost first) by a fresh variable;
    acc collects (variable, inner expression, expected type of the variable)"""
    k = e[0]
    if k == 'try':
        inner = hoistn(e[1], acc, cx)
        v = cx.tmp('q')
        acc.append((v, inner, expect))
        return ('path', [v])
    if k == 'paren':
        return ('paren', hoistn(e[1], acc, cx, expect))
    if k == 'un':
        return ('un', e[1], hoistn(e[2], acc, cx, expect))
    if k == 'cast':
        return ('cast', hoistn(e[1], acc, cx), e[2])
    if k == 'field':
        return ('field', hoistn(e[1], acc, cx), e[2])
    if k == 'bin':
        if e[1] in ('&&', '||') and has_try(e[3]):
            raise Unsupported('`?` under a short-circuit operator')
        return ('bin', e[1], hoistn(e[2], acc, cx), hoistn(e[3], acc, cx))
    if k == 'mcall':
        r = hoistn(e[1], acc, cx)
        return ('mcall', r, e[2], [hoistn(a, acc, cx) for a in e[3]])
    if k == 'call':
        args = list(e[2])
        if e[1][0] == 'path' and e[1][1] == ['BigEndian', 'write_u16'] and len(args) == 2:
            return ('call', e[1], [hoistn(args[0], acc, cx), hoistn(args[1], acc, cx, 'u16')])
        if e[1][0] == 'path' and e[1][1] in (['Ok'], ['Some']) and len(args) == 1:
            return ('call', e[1], [hoistn(args[0], acc, cx, opt_inner(cx.w.norm(expect, cx.self_ty)))])
        return ('call', e[1], [hoistn(a, acc, cx) for a in args])
    if k == 'index':
        b = hoistn(e[1], acc, cx)
        ix = e[2]
        if ix[0] == 'range':
            ix = ('range', None if ix[1] is None else hoistn(ix[1], acc, cx), None if ix[2] is None else hoistn(ix[2], acc, cx))
        else:
            ix = hoistn(ix, acc, cx)
        return ('index', b, ix)
    if k == 'tuple':
        return ('tuple', [hoistn(x, acc, cx) for x in e[1]])
    if k == 'struct':
        return ('struct', e[1], [(n, hoistn(x, acc, cx)) for n, x in e[2]])
    raise Unsupported('`?` inside %s' % k)




def hoistn(e, acc, cx, expect=None):
    return hoist(e, acc, cx, expect, False)


def with_tries(e, cx, expect, k):
    """translate the `?`s of e (each becomes: evaluate, on the error / None case leave the function with that case),
    then continue with k(cx', e') where e' has no `?` left"""
    acc = []
    e2 = hoist(e, acc, cx, expect)

    def go(i, cx_i):
        if i == len(acc):
            return k(cx_i, e2)
        v, inner, exp = acc[i]
        if exp == 'eff':
            def bound_eff(cx2, res, ty):
                cx3 = cx2.copy()
                cx3.vars[v] = (v, ty)
                return 'let %s := %s in\n  %s' % (v, res, go(i + 1, cx3))
            return bind_effect(effect_call(inner, cx_i), cx_i, bound_eff)

        def bound(cx2, term, ty):
            cx3 = cx2.copy()
            ity = opt_inner(cx3.w.norm(ty, cx3.self_ty)) or exp
            cx3.vars[v] = (v, ity)
            return 'match %s with\n  | Some %s => %s\n  | None => %s\n  end' % (term, v, go(i + 1, cx3), exit_term(cx2, 'None'))
        call = effect_call(inner, cx_i)
        if call:
            return bind_effect(call, cx_i, bound)
        t, c, ty = tr_expr(inner, cx_i, ('Option<%s>' % exp) if exp else None)
        return chk(c, bound(cx_i, t, ty), cx_i)
    return go(0, cx)


def bind_pattern(pat, term, ty, cx):
    """`let PAT = term`: (gallina let-prefix, context with the bound names)"""
    cx2 = cx.copy()
    if pat[0] == 'pid':
        cx2.vars[pat[1]] = (gal_name(pat[1]), ty)
        return 'let %s := %s in\n  ' % (gal_name(pat[1]), term), cx2
    if pat[0] == 'pwild':
        return '', cx2
    if pat[0] == 'ptuple':
        pt, binds = tr_pat(pat, cx, ty)
        for rn, v in binds.items():
            cx2.vars[rn] = v
        return "let '%s := %s in\n  " % (pt, term), cx2
    raise Unsupported('let pattern %s' % (pat,))


def assign_place(cx, key, term, ty=None):
    if key in cx.places:
        g, oty = cx.places[key]
        return g
    if key in cx.vars:
        return cx.vars[key][0]
    raise Unsupported('assignment to %s' % key)


def tr_stmts(stmts, tail, cx, k):
    """k(cx, value term or None) builds what follows this block"""
    if not stmts:
        if tail is None:
            return k(cx, None)
        if tail[0] in ('if', 'match') and is_control(tail, cx):
            return tr_control(tail, cx, k)
        if tail[0] == 'mcall' and tail[2] in ('insert', 'remove') and len(tail[3]) == 1 and set_place(cx, place_key(tail[1])):
            # SET.insert(x) / SET.remove(x) as a value: whether x was new / was present; the set is updated
            g, ety = set_place(cx, place_key(tail[1]))
            vt, vc, _ = tr_expr(tail[3][0], cx, ety)
            r = cx.tmp('r')
            val = 'negb (set_mem %s %s)' % (atom(vt), g) if tail[2] == 'insert' else 'set_mem %s %s' % (atom(vt), g)
            return chk(vc, 'let %s := %s in\n  let %s := set_%s %s %s in\n  %s' % (r, val, g, tail[2], atom(vt), g, k(cx, r)), cx)
        call = effect_call(tail, cx)
        if call:
            return bind_effect(call, cx, lambda cx2, res, ty: k(cx2, res))
        if tail[0] == 'macro':
            return k(cx, None)
        if needs_hoist(tail, cx):
            return with_tries(tail, cx, cx.ret_ty, lambda cx2, e2: tr_stmts([], e2, cx2, k))
        t, c, _ = tr_expr(tail, cx, cx.ret_ty)
        return chk(c, k(cx, t), cx)
    s, rest = stmts[0], stmts[1:]
    if s[0] == 'expr' and s[1][0] == 'macro':
        return tr_stmts(rest, tail, cx, k)
    if s[0] == 'letelse':
        pat, e, eb = s[1], s[2], s[3]

        def le(cx2, e2):
            def with_scrut(cx3, st, sty):
                pt, binds = tr_pat(pat, cx3, sty)
                cxa = cx3.copy()
                for rn, v in binds.items():
                    cxa.vars[rn] = v
                a = tr_stmts(rest, tail, cxa, k)
                b = tr_stmts(eb[1], eb[2], cx3.copy(), lambda cx4, v: k(cx4, v))
                return 'match %s with\n  | %s => %s\n  | _ => %s\n  end' % (st, pt, a, b)
            call = effect_call(e2, cx2)
            if call:
                return bind_effect(call, cx2, with_scrut)
            st, sc, sty = tr_expr(e2, cx2)
            return chk(sc, with_scrut(cx2, st, sty), cx2)
        if needs_hoist(e, cx):
            return with_tries(e, cx, None, le)
        return le(cx, e)
    if s[0] == 'continue':
        if cx.continue_k is None:
            raise Unsupported('continue outside a loop')
        return cx.continue_k(cx)
    if s[0] == 'for':
        return tr_for(s, rest, tail, cx, k)
    if s[0] == 'break':
        if cx.break_k is None:
            raise Unsupported('break outside a loop')
        return cx.break_k(cx)
    if s[0] in ('return', 'let', 'assign', 'expr') and needs_hoist(s[-1] if s[0] != 'assign' else s[3], cx) and not (s[0] == 'expr' and s[1][0] in ('if', 'match', 'block')):
        # `?`: bind the fallible sub-expressions first, then translate the statement without them
        if s[0] == 'return':
            return with_tries(s[1], cx, cx.ret_ty, lambda cx2, e2: tr_stmts([('return', e2)] + rest, tail, cx2, k))
        if s[0] == 'let':
            return with_tries(s[4], cx, s[3], lambda cx2, e2: tr_stmts([('let', s[1], s[2], s[3], e2)] + rest, tail, cx2, k))
        if s[0] == 'assign':
            return with_tries(s[3], cx, None, lambda cx2, e2: tr_stmts([('assign', s[1], s[2], e2)] + rest, tail, cx2, k))
        return with_tries(s[1], cx, None, lambda cx2, e2: tr_stmts([('expr', e2)] + rest, tail, cx2, k))
    if s[0] == 'return' and s[1] is not None:
        r = s[1]
        inner = r[2][0] if (r[0] == 'call' and r[1] == ('path', ['Some']) and len(r[2]) == 1) else r
        if inner[0] == 'mcall' and inner[2] == 'take' and not inner[3]:
            # return PLACE.take(): the old value is returned, the place becomes None
            key = place_key(inner[1])
            if key is not None and (key in cx.vars or key in cx.places):
                g = assign_place(cx, key, None)
                old = cx.tmp('old')
                val = old if inner is r else 'Some %s' % old
                return 'let %s := %s in\n  let %s := None in\n  %s' % (old, g, g, exit_term(cx, val))
        if inner[0] == 'mcall' and inner[2] == 'remove' and len(inner[3]) == 1:
            # return Some(VEC.remove(i)): the element is returned, the vector loses it (panics when i is out of range)
            key = place_key(inner[1])
            if key is not None and (key in cx.vars or key in cx.places):
                g = assign_place(cx, key, None)
                it, ic, _ = tr_expr(inner[3][0], cx, 'usize')
                old = cx.tmp('old')
                val = ('Some (list_get %s %s)' % (old, atom(it))) if inner is not r else 'list_get %s %s' % (old, atom(it))
                return chk(ic + ['%s <? N.of_nat (length %s)' % (atom(it), g)],
                           'let %s := %s in\n  let %s := list_remove %s %s in\n  %s' % (old, g, g, old, atom(it), exit_term(cx, val)), cx)
    if s[0] == 'return':
        if s[1] is None:
            return exit_term(cx, None)
        call = effect_call(s[1], cx)
        if call:
            return bind_effect(call, cx, lambda cx2, res, ty: exit_term(cx2, res))
        t, c, _ = tr_expr(s[1], cx, cx.ret_ty)
        return chk(c, exit_term(cx, t), cx)
    if s[0] == 'let':
        pat, mut, ty, e = s[1], s[2], s[3], s[4]
        if pat[0] not in ('pid', 'ptuple', 'pwild'):
            raise Unsupported('let pattern %s' % (pat,))
        name = pat[1] if pat[0] == 'pid' else None

        def after(cx2, term, ety):
            if term is None:
                term = 'tt'
            if pat[0] == 'pid' and len(pat) == 2 and e[0] == 'path' and e[1] == [name] and not mut:
                return tr_stmts(rest, tail, cx2, k)          # `let x = x?;` after hoisting
            prefix, cx3 = bind_pattern(pat if pat[0] != 'pid' else ('pid', name), term, ty or ety, cx2)
            if mut and name and gal_name(name) not in [m[0] for m in cx3.muts]:
                cx3.muts.append((gal_name(name), ty or ety))
            if mut and name:
                cx3.muts = [(g, (ty or ety) if g == gal_name(name) else t0) for g, t0 in cx3.muts]
            return prefix + tr_stmts(rest, tail, cx3, k)
        call = effect_call(e, cx)
        if call:
            return bind_effect(call, cx, after)
        t, c, ety = tr_expr(e, cx, ty)
        if ety is None and e[0] == 'num':
            ety = 'usize'
        return chk(c, after(cx, t, ety), cx)
    if s[0] == 'assign' and s[1][0] == 'index' and s[1][2][0] != 'range' and s[2] is None:
        # VEC[i] = v  (panics when i is out of range)
        key = place_key(s[1][1])
        if key is None or not (key in cx.vars or key in cx.places):
            raise Unsupported('indexed assignment target')
        g = assign_place(cx, key, None)
        it, ic, _ = tr_expr(s[1][2], cx, 'usize')
        vt, vc, _ = tr_expr(s[3], cx)
        return chk(ic + vc + ['%s <? N.of_nat (length %s)' % (atom(it), g)],
                   'let %s := list_set %s %s %s in\n  %s' % (g, g, atom(it), atom(vt), tr_stmts(rest, tail, cx, k)), cx)
    if s[0] == 'assign':
        key = place_key(s[1])
        if key is None:
            raise Unsupported('assignment target')
        g = assign_place(cx, key, None)
        rhs = s[3] if s[2] is None else ('bin', s[2], s[1], s[3])
        pty = cx.places[key][1] if key in cx.places else cx.vars[key][1]
        call = effect_call(rhs, cx)
        if call:
            return bind_effect(call, cx, lambda cx2, res, ty: 'let %s := %s in\n  %s' % (g, res, tr_stmts(rest, tail, cx2, k)))
        t, c, _ = tr_expr(rhs, cx, pty)
        return chk(c, 'let %s := %s in\n  %s' % (g, t, tr_stmts(rest, tail, cx, k)), cx)
    if s[0] == 'expr':
        e = s[1]
        if e[0] in ('if', 'match'):
            return tr_control(e, cx, lambda cx2, v: tr_stmts(rest, tail, cx, k))
        if e[0] == 'block':
            return tr_stmts(e[1], e[2], cx.copy(), lambda cx2, v: tr_stmts(rest, tail, cx, k))
        call = effect_call(e, cx)
        if call:
            return bind_effect(call, cx, lambda cx2, res, ty: tr_stmts(rest, tail, cx2, k))
        if e[0] == 'call' and e[1][0] == 'path' and e[1][1] == ['BigEndian', 'write_u16'] and len(e[2]) == 2:
            tgt = e[2][0]
            while tgt[0] == 'paren':
                tgt = tgt[1]
            if tgt[0] == 'index' and tgt[2][0] == 'range' and tgt[2][1] is not None:
                key = place_key(tgt[1])
                if key is not None and (key in cx.vars or key in cx.places):
                    g = assign_place(cx, key, None)
                    _, rc, _ = tr_expr(tgt, cx)                       # the slice itself must be in range ...
                    at, _, _ = tr_expr(tgt[2][1], cx, 'usize')
                    lt = 'len %s - %s' % (g, atom(at)) if tgt[2][2] is None else '%s - %s' % (atom(tr_expr(tgt[2][2], cx, 'usize')[0]), atom(at))
                    vt, vc, vty = tr_expr(e[2][1], cx, 'u16')
                    conds = rc + vc + ['2 <=? %s' % lt]                 # ... and hold two bytes
                    if cx.w.norm(vty, cx.self_ty) not in ('u16', 'u8'):
                        conds.append('%s <? 65536' % atom(vt))
                    return chk(conds, 'let %s := be_write16 %s %s %s in\n  %s' % (g, g, atom(at), atom(vt), tr_stmts(rest, tail, cx, k)), cx)
        if e[0] == 'mcall' and e[2] == 'copy_from_slice' and len(e[3]) == 1 and e[1][0] == 'index' and e[1][2][0] == 'range':
            # PLACE[a..b].copy_from_slice(src): panics unless the range is inside PLACE and b - a == src.len()
            key = place_key(e[1][1])
            if key is not None and (key in cx.vars or key in cx.places):
                g = assign_place(cx, key, None)
                _, rc, _ = tr_expr(e[1], cx)
                a = e[1][2][1]
                at = '0' if a is None else tr_expr(a, cx, 'usize')[0]
                bt = ('len %s' % g) if e[1][2][2] is None else tr_expr(e[1][2][2], cx, 'usize')[0]
                st, sc, _ = tr_expr(e[3][0], cx)
                conds = rc + sc + ['%s - %s =? len %s' % (atom(bt), atom(at), atom(st))]
                return chk(conds, 'let %s := list_splice %s %s %s in\n  %s' % (g, g, atom(at), atom(st), tr_stmts(rest, tail, cx, k)), cx)
        if e[0] == 'mcall' and e[2] in ('insert', 'remove') and len(e[3]) == 1 and set_place(cx, place_key(e[1])):
            # SET.insert(x); / SET.remove(x); the returned boolean is dropped
            g, ety = set_place(cx, place_key(e[1]))
            vt, vc, _ = tr_expr(e[3][0], cx, ety)
            return chk(vc, 'let %s := set_%s %s %s in\n  %s' % (g, e[2], atom(vt), g, tr_stmts(rest, tail, cx, k)), cx)
        if e[0] == 'mcall' and e[2] == 'push' and len(e[3]) == 1:
            key = place_key(e[1])
            if key is not None and (key in cx.vars or key in cx.places):
                g = assign_place(cx, key, None)
                vt, vc, _ = tr_expr(e[3][0], cx)
                return chk(vc, 'let %s := %s ++ [%s] in\n  %s' % (g, g, vt, tr_stmts(rest, tail, cx, k)), cx)
        if e[0] == 'path':
            return tr_stmts(rest, tail, cx, k)     # what is left of `f(..)?;` once the `?` is bound
        if e[0] == 'call' or e[0] == 'mcall':
            t, c, ty = tr_expr(e, cx)          # a pure call whose value is dropped: only its panic conditions matter
            return chk(c, tr_stmts(rest, tail, cx, k), cx)
        raise Unsupported('expression statement %s' % (e[0],))
    if s[0] == 'while':
        return tr_while(s, rest, tail, cx, k)
    raise Unsupported('statement %s' % s[0])


def is_control(e, cx):
    """an if / match whose branches contain statements, returns or effectful calls (cannot be a pure value)"""
    def impure_block(b):
        if b is None:
            return True
        if b[0] != 'block':
            return effect_call(b, cx) is not None or (b[0] in ('if', 'match') and is_control(b, cx)) or b[0] == 'macro'
        for s in b[1]:
            if not (s[0] == 'let' and not s[2] and effect_call(s[4], cx) is None):
                return True
        return b[2] is None or impure_block(b[2])
    if e[0] == 'if':
        if e[1][0] == 'letc' and effect_call(e[1][2], cx):
            return True
        return impure_block(e[2]) or impure_block(e[3])
    if e[0] == 'match':
        if effect_call(e[1], cx):
            return True
        return any(impure_block(b) for _, b in e[2])
    return False


def as_block(b):
    return b if b[0] == 'block' else ('block', [], b)


def tr_control(e, cx, k):
    if e[0] == 'if':
        th = as_block(e[2])
        el = as_block(e[3]) if e[3] is not None else None
        if e[1][0] == 'letc':
            pat, se = e[1][1], e[1][2]

            def with_scrut(cx2, st, sty):
                pt, binds = tr_pat(pat, cx2, sty)
                cxa = cx2.copy()
                for rn, v in binds.items():
                    cxa.vars[rn] = v
                a = tr_stmts(th[1], th[2], cxa, k)
                b = tr_stmts(el[1], el[2], cx2.copy(), k) if el else k(cx2, None)
                return 'match %s with\n  | %s => %s\n  | _ => %s\n  end' % (st, pt, a, b)
            call = effect_call(se, cx)
            if call:
                return bind_effect(call, cx, with_scrut)
            st, sc, sty = tr_expr(se, cx)
            return chk(sc, with_scrut(cx, st, sty), cx)
        ct, cc, _ = tr_expr(e[1], cx, 'bool')
        a = tr_stmts(th[1], th[2], cx.copy(), k)
        b = tr_stmts(el[1], el[2], cx.copy(), k) if el else k(cx, None)
        return chk(cc, 'if %s\n  then %s\n  else %s' % (ct, a, b), cx)
    if e[0] == 'match':
        def with_scrut(cx2, st, sty):
            parts = []
            nty = cx2.w.norm(sty, cx2.self_ty)
            if not re.match(r'(Option|Result)<', nty or ''):
                raise Unsupported('statement match on %s' % nty)
            for pats, body in e[2]:
                for p in pats:
                    pt, binds = tr_pat(p, cx2, sty)
                    cxa = cx2.copy()
                    for rn, v in binds.items():
                        cxa.vars[rn] = v
                    bb = as_block(body)
                    parts.append('| %s => %s' % (pt, tr_stmts(bb[1], bb[2], cxa, k)))
            return 'match %s with\n  %s\n  end' % (st, '\n  '.join(parts))
        call = effect_call(e[1], cx)
        if call:
            return bind_effect(call, cx, with_scrut)
        st, sc, sty = tr_expr(e[1], cx)
        return chk(sc, with_scrut(cx, st, sty), cx)
    raise Unsupported('control %s' % e[0])


def tr_for(s, rest, tail, cx, k):
    """`for PAT in &mut PLACE { body }` over a list-typed place: a Fixpoint by structural recursion on the list; the place holds
    the not yet visited elements (so an early `return` leaves the iterator where Rust leaves it)"""
    pat, it, body = s[1], s[2], s[3]
    key = place_key(it)
    if key is None or not (key in cx.places or key in cx.vars):
        raise Unsupported('for over %s' % (it,))
    g, lty = cx.places[key] if key in cx.places else cx.vars[key]
    glist = cx.w.gty(lty, cx.self_ty)
    if not glist.startswith('list'):
        raise Unsupported('for over a value of type %s' % lty)
    m = re.match(r'^(?:Iter|IterMut|std::slice::Iter)<(.+)>$', cx.w.norm(lty, cx.self_ty))
    ety = m.group(1) if m else None
    if pat[0] != 'pid':
        raise Unsupported('for pattern')
    state = [(gg, ty) for (gg, ty) in cx.muts if gg != g]
    names = [gg for gg, _ in state]
    loop = cx.tmp('loop')
    free = [(gg, ty) for rn, (gg, ty) in cx.vars.items() if gg not in names and gg != g]
    lname = '%s_%s' % (cx.fn_gname, loop)
    binders = ' '.join('(%s : %s)' % (gg, safe_gty(cx, ty)) for gg, ty in state)
    fb = ' '.join('(%s : %s)' % (gg, safe_gty(cx, ty)) for gg, ty in free)
    call_rest = '%s %s todo_ %s' % (lname, ' '.join(gg for gg, _ in free), ' '.join(names))

    def after(cx2, v=None):
        cx4 = cx2.copy()
        cx4.break_k, cx4.continue_k = cx.break_k, cx.continue_k
        return tr_stmts(rest, tail, cx4, k)
    cxb = cx.copy()
    cxb.vars[pat[1]] = (gal_name(pat[1]), ety)
    cxb.break_k = lambda c2: after(c2)
    cxb.continue_k = lambda c2: call_rest
    body_t = tr_stmts(body[1], body[2], cxb, lambda c2, v: call_rest)
    done_t = after(cx.copy())
    cx.lifted.append('Fixpoint %s %s (todo_0 : %s) %s {struct todo_0} : %s :=\n  match todo_0 with\n  | [] => let %s := [] in\n  %s\n  | %s :: todo_ => let %s := todo_ in\n  %s\n  end.'
                     % (lname, fb, glist, binders, cx.fn_rty, g, done_t, gal_name(pat[1]), g, body_t))
    return '%s %s %s %s' % (lname, ' '.join(gg for gg, _ in free), g, ' '.join(names))


def tr_control_iflet(pat, scrut, body, cx, k_body, k_else):
    """match scrut with pat => body ; k_body | _ => k_else"""
    st, sc, sty = tr_expr(scrut, cx)
    pt, binds = tr_pat(pat, cx, sty)
    cxa = cx.copy()
    for rn, v in binds.items():
        cxa.vars[rn] = v
    a = tr_stmts(body[1], body[2], cxa, k_body)
    b = k_else(cx.copy())
    return chk(sc, 'match %s with\n  | %s => %s\n  | _ => %s\n  end' % (st, pt, a, b), cx)


def tr_while(s, rest, tail, cx, k):
    cond, body = s[1], s[2]
    cx.fuel_used[0] = True
    # loop state: every mutable place in scope
    state = [(g, ty) for (g, ty) in cx.muts]
    names = [g for g, _ in state]
    loop = cx.tmp('loop')
    binders = ' '.join('(%s : %s)' % (g, safe_gty(cx, ty)) for g, ty in state)

    def again(cx2, v):
        return '%s fuel\' %s' % (loop, ' '.join(names))

    def after(cx2, v=None):
        cx4 = cx2.copy()
        cx4.break_k = cx.break_k
        return tr_stmts(rest, tail, cx4, k)
    cx = cx.copy()
    outer_break = cx.break_k
    cx.break_k = lambda cxb: after(cxb)
    if cond[0] == 'letc' and cond[2][0] == 'try':
        # `while let P = E? { .. }`: E is evaluated each time round; its error case leaves the function
        pat = cond[1]
        inner = with_tries(cond[2], cx, None, lambda cx2, e2: tr_control_iflet(pat, e2, body, cx2, again, after))
    elif cond[0] == 'letc':
        pat, se = cond[1], cond[2]

        def with_scrut(cx2, st, sty):
            pt, binds = tr_pat(pat, cx2, sty)
            cxa = cx2.copy()
            for rn, v in binds.items():
                cxa.vars[rn] = v
            a = tr_stmts(body[1], body[2], cxa, again)
            b = after(cx2.copy())
            return 'match %s with\n  | %s => %s\n  | _ => %s\n  end' % (st, pt, a, b)
        call = effect_call(se, cx)
        if call:
            inner = bind_effect(call, cx, with_scrut)
        else:
            st, sc, sty = tr_expr(se, cx)
            inner = chk(sc, with_scrut(cx, st, sty), cx)
    else:
        ct, cc, _ = tr_expr(cond, cx, 'bool')
        inner = chk(cc, 'if %s then %s else %s' % (ct, tr_stmts(body[1], body[2], cx.copy(), again), after(cx.copy())), cx)
    # lambda-lifted: a top-level Fixpoint over the fuel, the immutable variables in scope and the mutable places
    free = [(g, ty) for rn, (g, ty) in cx.vars.items() if g not in names]
    fb = ' '.join('(%s : %s)' % (g, safe_gty(cx, ty)) for g, ty in free)
    lname = '%s_%s' % (cx.fn_gname, loop)
    cx.lifted.append('Fixpoint %s (fuel : nat) %s %s {struct fuel} : %s :=\n  match fuel with\n  | O => GFuel\n  | S fuel\' =>\n  %s\n  end.'
                     % (lname, fb, binders, cx.fn_rty, inner.replace(loop + " fuel' ", '%s fuel\' %s ' % (lname, ' '.join(g for g, _ in free)))))
    return '%s fuel %s %s' % (lname, ' '.join(g for g, _ in free), ' '.join(names))


def safe_gty(cx, ty):
    try:
        return cx.w.gty(ty, cx.self_ty) if ty else '_'
    except Unsupported:
        return '_'


# ------------------------------------------------------------------------------------------------ driver
def translate_fn(world, gname, src, fn, self_ty=None, recv_record=None):
    """returns (gallina definition text, funcinfo)"""
    params, ret, body = find_fn(src, fn)
    # associated types of the impl block (`type Item = RawAttribute<'a>;`): Self::Item etc. in the signature
    for am in re.finditer(r'\btype\s+(\w+)\s*=\s*([^;]+);', src):
        ret = re.sub(r'\bSelf::%s\b' % am.group(1), am.group(2).strip(), ret)
        params = re.sub(r'\bSelf::%s\b' % am.group(1), am.group(2).strip(), params)
    ps = split_top(params)
    generics = []
    mg = re.search(r'\bfn\s+%s\s*<([^>]*)>' % re.escape(fn), src)
    if mg:
        generics = [x.strip().split(':')[0].strip() for x in split_top(mg.group(1)) if x.strip() and not x.strip().startswith("'")]
    generic_into = {}
    for gt in generics:
        mi = re.search(r'\b%s\s*:\s*Into<(\w+)>' % gt, src)
        if mi:
            generic_into[gt] = mi.group(1)            # a by-value `x: T` with `T: Into<X>` is an X (`.into()` is the identity)
    recv = None
    plist = []
    fuel_used, cx = [False], None
    cx = Ctx(world, self_ty, ret, [], fuel_used)
    binders = []
    entry_lets = []
    for p in ps:
        p = p.strip()
        if re.match(r"^&(?:'\w+\s+)?mut\s+self$", p) or p in ('&self', 'self', 'mut self'):
            recv = 'mut' if 'mut' in p and p != 'mut self' else 'ref'
            by_value = p in ('self', 'mut self')
            sty = world.norm(self_ty)
            if sty in world.records:
                binders.append('(self : %s)' % sty)
                for f, fty in world.records[sty]:
                    g = 'self_%s' % f
                    entry_lets.append('let %s := %s_%s self in' % (g, sty, f))
                    cx.places['self.%s' % f] = (g, fty)
                    if recv == 'mut' or p == 'mut self':
                        cx.muts.append((g, fty))
                if recv == 'mut':
                    cx.recvs.append(('self', sty))
            else:
                binders.append('(self : %s)' % world.paren(world.gty(sty)))
                cx.vars['self'] = ('self', sty)
            continue
        m = re.match(r'(?:mut\s+)?(\w+)\s*:\s*(.+)$', p, re.S)
        if not m:
            raise Unsupported('parameter %r' % p)
        name, ty = m.group(1), m.group(2).strip()
        if ty in generic_into:
            ty = generic_into[ty]
        nty = world.norm(ty, self_ty)
        if re.match(r'&\s*mut\b', ty) and nty in world.records:
            binders.append('(%s : %s)' % (name, nty))
            for f, fty in world.records[nty]:
                g = '%s_%s' % (name, f)
                entry_lets.append('let %s := %s_%s %s in' % (g, nty, f, name))
                cx.places['%s.%s' % (name, f)] = (g, fty)
                cx.muts.append((g, fty))
            cx.recvs.append((name, nty))
            recv = recv or 'mutparam'
        else:
            binders.append('(%s : %s)' % (gal_name(name), world.gty(ty, self_ty)))
            cx.vars[name] = (gal_name(name), nty)
        plist.append((name, nty))
    for gname_t in generics:
        if re.search(r'\b%s::get_type\(\)' % gname_t, body):
            cx.generic_types[gname_t] = 'type_of_%s' % gname_t
            binders.append('(type_of_%s : N)' % gname_t)
            plist.append(('type_of_%s' % gname_t, 'AttributeType'))
    ast = P(lex(body)).block()
    ret_n = world.norm(ret, self_ty)
    if self_ty:
        ret_n = re.sub(r'\bSelf::Error\b', 'Error', ret_n)
        ret_n = re.sub(r'\bSelf\b', self_ty, ret_n)
    cx.ret_ty = ret_n
    cx.fn_gname = gname
    gret0 = world.gty(ret, self_ty) if ret_n not in ('()', '') else None
    parts0 = ([gret0] if gret0 else []) + [r for _, r in cx.recvs]
    cx.fn_rty = 'gres %s' % World.paren(parts0[0] if len(parts0) == 1 else '(%s)' % ' * '.join(parts0) if parts0 else 'unit')
    term = tr_stmts(ast[1], ast[2], cx, lambda cx2, v: exit_term(cx2, v))
    plain = not cx.uses_panic[0] and not fuel_used[0] and not cx.recvs
    if plain:
        # no partial operation, no loop, no mutation: a plain function (strip the GOk of every exit)
        term = re.sub(r'\bGOk ', '', term)
    gret = world.gty(ret, self_ty) if ret_n not in ('()', '') else None
    parts = ([gret] if gret else []) + [r for _, r in cx.recvs]
    rty = parts[0] if len(parts) == 1 else '(%s)' % ' * '.join(parts) if parts else 'unit'
    if not plain:
        rty = 'gres %s' % World.paren(rty)
    fuel_b = ['(fuel : nat)'] if fuel_used[0] else []
    binders = binders + ['(%s : %s)' % (on, oty) for on, oty in cx.oracles_used]      # oracle parameters come last
    text = ''.join(l + '\n' for l in cx.lifted) + 'Definition %s %s : %s :=\n  %s\n  %s.' % (gname, ' '.join(fuel_b + binders), rty, '\n  '.join(entry_lets), term)
    info = dict(gname=gname, plain=plain, params=plist[0 if recv in (None, 'mutparam') else 0:], ret=ret_n, recv=('mut' if recv == 'mut' else recv),
                fuel=fuel_used[0])
    return text, info


def record_decl(world, name):
    fs = world.records[name]
    return 'Record %s := { %s }.' % (name, '; '.join('%s_%s : %s' % (name, f, world.gty(ty)) for f, ty in fs))


def attr_type_constants(world):
    """`stunt_attribute!(Type, CONST)` pairs of the attribute modules: Type::get_type() is gen_T_CONST of Generated/Constants.v"""
    import glob
    for f in glob.glob(os.path.join(REPO, 'stun-rs/src/attributes/**/*.rs'), recursive=True):
        src = open(f, errors='replace').read()
        for m in re.finditer(r'stunt_attribute!\(\s*(\w+)\s*,\s*(\w+)\s*\)', src):
            world.get_type[m.group(1)] = 'gen_T_%s' % m.group(2)
        # message_integrity_attribute!( doc comments, Class, TYPE_CONST, SIZE_CONST ) expands to stunt_attribute!(Class, TYPE_CONST)
        plain = strip_comments(src)
        for m in re.finditer(r'message_integrity_attribute!\(', plain):
            end = plain.find(');', m.end())
            body = plain[m.end():end if end > 0 else len(plain)]
            ids = [x.strip() for x in body.split(',') if x.strip()]
            if len(ids) == 3 and all(re.match(r'^\w+$', x) for x in ids):
                world.get_type[ids[0]] = 'gen_T_%s' % ids[1]


def main():
    w = World()
    out = ['(* GENERATED by tools/rs2v.py from the source of /repo at check time: do not edit. *)',
           'From Coq Require Import List NArith Bool.', 'Import ListNotations.',
           'From Coq Require Import ZArith.', 'From Rustun Require Import Base.GRes Base.Tlv Generated.Constants Agent.F32.', 'Open Scope N_scope.', 'Open Scope bool_scope.', '']
    failures = []
    attr_type_constants(w)

    def guarded(gname, what, thunk):
        try:
            return thunk()
        except Unsupported as ex:
            failures.append('%s: %s' % (gname, ex))
            out.append('(* %s could not be translated: %s *)' % (what, str(ex).replace('*)', '* )')))
            out.append('Definition %s : unit := tt.' % gname)
            out.append('')
            return None
        except Exception as ex:   # a translator fault must not stop the check: the agreement lemma reports it
            failures.append('%s: translator fault %r' % (gname, ex))
            out.append('(* %s could not be translated: translator fault %s *)' % (what, repr(ex).replace('*)', '* )')))
            out.append('Definition %s : unit := tt.' % gname)
            out.append('')
            return None

    consts_done = set()
    current = {}

    def on_demand(ty, name):
        """a helper function of the file being translated, found by name (in an `impl Type` block, or free)"""
        rel = current.get('rel')
        if not rel:
            return None
        src = strip_comments(read(rel))
        if ty is None:
            if not re.search(r'^(?:pub(?:\([a-z]+\))?\s+)?fn\s+%s\b' % re.escape(name), src, re.M):
                return None
            saved = dict(current)
            info = emit_fn('gen_%s' % name, rel, name, key=(None, name))
            current.update(saved)
            return info
        for m in re.finditer(r'impl(?:<[^>]*>)?\s+%s(?:<[^>]*>)?\s*\{' % re.escape(ty), src):
            blk = src[m.end() - 1:match_brace(src, m.end() - 1)]
            if re.search(r'\bfn\s+%s\b' % re.escape(name), blk):
                saved = dict(current)
                info = emit_fn('gen_%s_%s' % (ty, name), rel, name, ty, r'impl(?:<[^>]*>)?\s+%s(?:<[^>]*>)?' % re.escape(ty), scope_text=blk)
                current.update(saved)
                return info
        return None
    w.on_demand = on_demand

    def emit_fn(gname, rel, fn, self_ty=None, impl_re=None, key=None, scope_text=None):
        current['rel'] = rel
        if rel not in consts_done:
            consts_done.add(rel)
            emit_consts(rel)          # private constants of the file (same values under any name)

        def thunk():
            src = strip_comments(read(rel))
            scope = scope_text if scope_text is not None else (find_impl(src, impl_re) if impl_re else src)
            text, info = translate_fn(w, gname, scope, fn, self_ty)
            out.append('(* %s :: %s%s *)' % (rel, (self_ty + '::') if self_ty else '', fn))
            out.append(text)
            out.append('')
            w.funcs[key or (self_ty, fn)] = info
            return info
        return guarded(gname, '%s %s' % (rel, fn), thunk)

    def emit_record(rel, name):
        def thunk():
            kind, fs = find_struct(strip_comments(read(rel)), name)
            if kind != 'record':
                raise Unsupported('%s is not a record struct' % name)
            w.records[name] = fs
            out.append('(* %s :: struct %s *)' % (rel, name))
            out.append(record_decl(w, name))
            out.append('')
        try:
            thunk()
        except Unsupported as ex:
            failures.append('struct %s: %s' % (name, ex))
            out.append('(* struct %s could not be translated: %s *)' % (name, ex))
            w.records.pop(name, None)

    def emit_newtype(rel, name):
        try:
            kind, fs = find_struct(strip_comments(read(rel)), name)
            if kind != 'tuple' or len(fs) != 1 or not (w.norm(fs[0]) in INT_BITS or is_bytes(w.norm(fs[0])) or w.norm(fs[0]) in w.records):
                raise Unsupported('%s is not a newtype over an integer, a byte slice or a translated record' % name)
            w.newtypes[name] = w.norm(fs[0])
        except Unsupported as ex:
            failures.append('newtype %s: %s' % (name, ex))

    def emit_enum(rel, name):
        try:
            w.enums[name] = find_enum(strip_comments(read(rel)), name)
            out.append('(* %s :: enum %s = %s (by declaration index) *)' % (rel, name, ', '.join('%s %d' % (v, i) for i, v in enumerate(w.enums[name]))))
            out.append('Definition gen_%s_variants : N := %d.' % (name, len(w.enums[name])))
            out.append('')
        except Unsupported as ex:
            failures.append('enum %s: %s' % (name, ex))

    def emit_penum(rel, name):
        try:
            vs = find_payload_enum(strip_comments(read(rel)), name)
            w.penums[name] = [(v, (w.norm(t) if t else None)) for v, t in vs]
            ctors = ' | '.join('%s_%s%s' % (name, v, (' (_ : %s)' % w.gty(t)) if t else '') for v, t in vs)
            out.append('(* %s :: enum %s *)' % (rel, name))
            out.append('Inductive %s := %s.' % (name, ctors))
            out.append('')
        except Unsupported as ex:
            failures.append('enum %s: %s' % (name, ex))
            w.penums.pop(name, None)

    def emit_consts(rel):
        """file-level `const NAME: T = EXPR;` items with an integer or f32 value become known constants"""
        src = strip_comments(read(rel))
        for m in re.finditer(r'^\s*(?:pub(?:\([a-z]+\))?\s+)?const\s+([A-Z][A-Z0-9_]*)\s*:\s*([\w:<>]+)\s*=\s*([^;]+);', src, re.M):
            name, ty, text = m.group(1), m.group(2), m.group(3)
            try:
                ex = P(lex(text)).expr()
                cxc = Ctx(w, None, None, [], [False])
                if ty == 'f32':
                    v = f32_const(ex, cxc)
                    if v is not None:
                        w.const_vals[name] = v
                elif ty in INT_BITS or ty == 'Duration':
                    t, c, _ = tr_expr(ex, cxc, ty)
                    if not c:
                        w.consts[name] = ('(%s)' % t, ty)
                        if re.match(r'^\d+$', t):
                            w.const_vals[name] = int(t)
            except Unsupported:
                pass

    # ---- stun-rs/src/common.rs
    emit_fn('gen_padding', 'stun-rs/src/common.rs', 'padding', key=(None, 'padding'))
    # ---- stun-rs/src/context.rs : the attribute admission filter of the decoder (C09)
    emit_record('stun-rs/src/context.rs', 'AttributeFilter')
    emit_fn('gen_ignore_attribute', 'stun-rs/src/context.rs', 'ignore_attribute', key=(None, 'ignore_attribute'))
    # ---- stun-rs/src/message.rs : message type bit layout (C02)
    msg = 'stun-rs/src/message.rs'
    emit_newtype(msg, 'MessageMethod')
    emit_enum(msg, 'MessageClass')
    emit_fn('gen_MessageMethod_as_u16', msg, 'as_u16', 'MessageMethod', r'impl\s+MessageMethod')
    emit_fn('gen_MessageClass_as_u16', msg, 'as_u16', 'MessageClass', r'impl\s+MessageClass')
    emit_fn('gen_MessageMethod_try_from', msg, 'try_from', 'MessageMethod', r'impl\s+TryFrom<u16>\s+for\s+MessageMethod')
    emit_fn('gen_MessageClass_try_from', msg, 'try_from', 'MessageClass', r'impl\s+TryFrom<u8>\s+for\s+MessageClass')
    emit_record(msg, 'MessageType')
    emit_fn('gen_MessageType_new', msg, 'new', 'MessageType', r'impl\s+MessageType')
    emit_fn('gen_MessageType_as_u16', msg, 'as_u16', 'MessageType', r'impl\s+MessageType')
    emit_fn('gen_MessageType_from_u16', msg, 'from', 'MessageType', r'impl\s+From<u16>\s+for\s+MessageType')
    # ---- stun-agent/src/timeout.rs : retransmission schedule (C06)
    tmo = 'stun-agent/src/timeout.rs'
    emit_record(tmo, 'RtoCalculator')
    emit_fn('gen_RtoCalculator_new', tmo, 'new', 'RtoCalculator', r'impl\s+RtoCalculator')
    emit_fn('gen_RtoCalculator_next_rto', tmo, 'next_rto', 'RtoCalculator', r'impl\s+RtoCalculator')
    emit_record(tmo, 'RtoManager')
    emit_fn('gen_RtoManager_new', tmo, 'new', 'RtoManager', r'impl\s+RtoManager')
    emit_fn('gen_RtoManager_next_rto', tmo, 'next_rto', 'RtoManager', r'impl\s+RtoManager')

    # ---- stun-rs/src/raw.rs : header parse, TLV iteration, the text a MAC / CRC covers (C03, C04, C09, C10, C18)
    raw = 'stun-rs/src/raw.rs'
    emit_fn('gen_check_buffer_boundaries', 'stun-rs/src/common.rs', 'check_buffer_boundaries', key=(None, 'check_buffer_boundaries'))
    emit_consts('stun-rs/src/types.rs')
    emit_consts(raw)
    w.consts['MAGIC_COOKIE'] = ('(be32_bytes gen_MAGIC_COOKIE)', '[u8]')      # compared with the four cookie bytes of the header
    emit_record(raw, 'MessageHeader')
    emit_fn('gen_MessageHeader_decode', raw, 'decode', 'MessageHeader', r"impl<'a>\s+Decode<'a>\s+for\s+MessageHeader<'a>")
    emit_record(raw, 'RawMessage')
    emit_fn('gen_RawMessage_decode', raw, 'decode', 'RawMessage', r"impl<'a>\s+Decode<'a>\s+for\s+RawMessage<'a>")
    emit_record(raw, 'RawAttribute')
    emit_fn('gen_RawAttribute_decode', raw, 'decode', 'RawAttribute', r"impl<'a>\s+Decode<'a>\s+for\s+RawAttribute<'a>")
    emit_newtype(raw, 'RawAttributes')
    emit_fn('gen_RawAttributes_from', raw, 'from', 'RawAttributes', r"impl<'a>\s+From<&'a\s*\[u8\]>\s+for\s+RawAttributes<'a>")
    emit_record(raw, 'RawAttributesIter')
    emit_fn('gen_RawAttributesIter_pos', raw, 'pos', 'RawAttributesIter', r"impl\s+RawAttributesIter<'_>")
    emit_fn('gen_RawAttributesIter_next', raw, 'next', 'RawAttributesIter', r"impl<'a>\s+FallibleIterator\s+for\s+RawAttributesIter<'a>")
    emit_fn('gen_RawAttributes_into_fallible_iter', raw, 'into_fallible_iter', 'RawAttributes', r"impl<'a>\s+IntoFallibleIterator\s+for\s+RawAttributes<'a>")
    emit_fn('gen_get_input_text', raw, 'get_input_text', key=(None, 'get_input_text'))

    # ---- stun-agent/src/lib.rs : the stream reassembler StunPacketDecoder (C16, C03)
    lib = 'stun-agent/src/lib.rs'
    emit_fn('gen_MessageHeader_try_from', raw, 'try_from', 'MessageHeader', r"impl<'a>\s+TryFrom<&'a\s*\[u8;\s*MESSAGE_HEADER_SIZE\]>\s+for\s+MessageHeader<'a>")
    emit_enum(lib, 'StunPacketErrorType')
    emit_record(lib, 'StunPacketInternal')
    emit_newtype(lib, 'StunPacket')
    emit_fn('gen_StunPacket_new', lib, 'new', 'StunPacket', r'impl\s+StunPacket')
    emit_record(lib, 'StunPacketDecoder')
    emit_record(lib, 'StunPacketDecodedError')
    emit_penum(lib, 'StunPacketDecodedValue')
    emit_fn('gen_StunPacketDecoder_new', lib, 'new', 'StunPacketDecoder', r'impl\s+StunPacketDecoder')
    emit_fn('gen_StunPacketDecoder_decode', lib, 'decode', 'StunPacketDecoder', r'impl\s+StunPacketDecoder')

    # ---- stun-agent/src/lib.rs : the agent's own implementation of the RFC 8489 ordering rule (what the credential mechanisms read)
    w.opaque['StunAttribute'] = {'is_message_integrity': 'attr_is_mi', 'is_message_integrity_sha256': 'attr_is_sha', 'is_fingerprint': 'attr_is_fp'}
    emit_record(lib, 'ProtectedAttributeIteratorObject')
    emit_fn('gen_ProtectedAttributeIterator_next', lib, 'next', 'ProtectedAttributeIteratorObject', r"impl<'a>\s+Iterator\s+for\s+ProtectedAttributeIteratorObject<'a>")

    # ---- stun-agent/src/message.rs : StunAttributes (one attribute per type, integrity / fingerprint slots) (C13)
    amsg = 'stun-agent/src/message.rs'
    saved_opaque = dict(w.opaque)
    # here an attribute is (wire type, payload): attribute_type() is the first component
    w.opaque['StunAttribute'] = {'@type': '(N * N)', 'is_message_integrity': 'sattr_is_mi', 'is_message_integrity_sha256': 'sattr_is_sha',
                                 'is_fingerprint': 'sattr_is_fp', 'attribute_type': ('fst', 'AttributeType')}
    emit_record(amsg, 'StunAttributes')
    emit_fn('gen_StunAttributes_add', amsg, 'add', 'StunAttributes', r'impl\s+StunAttributes')
    emit_fn('gen_StunAttributes_remove', amsg, 'remove', 'StunAttributes', r'impl\s+StunAttributes')
    w.opaque = saved_opaque

    # ---- stun-agent/src/rtt.rs : the RTO estimator (C15); Duration::mul_f32 is Agent/F32.mul_f32 (binary32, round to nearest even)
    rtt = 'stun-agent/src/rtt.rs'
    emit_consts(rtt)
    emit_record(rtt, 'RttCalcuator')
    emit_fn('gen_RttCalcuator_new', rtt, 'new', 'RttCalcuator', r'impl\s+RttCalcuator')
    emit_fn('gen_RttCalcuator_reset', rtt, 'reset', 'RttCalcuator', r'impl\s+RttCalcuator')
    emit_fn('gen_RttCalcuator_update', rtt, 'update', 'RttCalcuator', r'impl\s+RttCalcuator')
    emit_fn('gen_RttCalcuator_rto', rtt, 'rto', 'RttCalcuator', r'impl\s+RttCalcuator')

    # ---- stun-agent/src/integrity.rs : TransportIntegrity (C07, C08, C17)
    #   HashSet<TransactionId> is a `list N` under SET semantics (Base/GRes.v: set_insert / set_remove / set_mem);
    #   a StunMessage is opaque: (class by declaration index of MessageClass, transaction id);
    #   HMACKey and StunAttribute are opaque values (N);
    #   validate_message_integrity (cryptography, outside the subset) is an ORACLE: an explicit function parameter of the
    #   translated caller, applied to the translated arguments of the call.
    itg = 'stun-agent/src/integrity.rs'
    saved_opaque = dict(w.opaque)
    w.opaque['TransactionId'] = {}
    w.opaque['HMACKey'] = {}
    w.opaque['StunAttribute'] = {}
    w.opaque['StunMessage'] = {'@type': '(N * N)', 'class': ('fst', 'MessageClass'), 'transaction_id': ('snd', 'TransactionId')}
    w.oracles['validate_message_integrity'] = ('oracle_validate_message_integrity', 'N -> N -> list N -> bool')
    emit_enum(itg, 'IntegrityError')
    for i_, v_ in enumerate(w.enums.get('IntegrityError', [])):
        out.append('Definition gen_IntegrityError_%s : N := %d.' % (v_, i_))       # the codes BY NAME (what the agreement lemmas use)
    out.append('')
    emit_record(itg, 'TransportIntegrity')
    emit_fn('gen_TransportIntegrity_new', itg, 'new', 'TransportIntegrity', r'impl\s+TransportIntegrity')
    emit_fn('gen_TransportIntegrity_discard_message', itg, 'discard_message', 'TransportIntegrity', r'impl\s+TransportIntegrity')
    emit_fn('gen_TransportIntegrity_compute_message_integrity', itg, 'compute_message_integrity', 'TransportIntegrity', r'impl\s+TransportIntegrity')
    emit_fn('gen_TransportIntegrity_signal_protection_violated_on_timeout', itg, 'signal_protection_violated_on_timeout', 'TransportIntegrity',
            r'impl\s+TransportIntegrity')
    w.opaque = saved_opaque
    w.oracles.pop('validate_message_integrity', None)

    body = '\n'.join(out) + '\n'
    os.makedirs(os.path.dirname(OUT), exist_ok=True)
    old = open(OUT).read() if os.path.exists(OUT) else None
    if old != body:
        open(OUT, 'w').write(body)
        print('rs2v: wrote %s (%d functions%s)' % (os.path.relpath(OUT, ROOT), len(w.funcs), '; NOT TRANSLATED: ' + '; '.join(failures) if failures else ''))
    elif failures and '-v' in sys.argv:
        print('rs2v: NOT TRANSLATED: ' + '; '.join(failures))
    return 0


if __name__ == '__main__':
    sys.exit(main())
