#!/bin/sh
# Re-validate the checks against every kept seeded change: apply, run the quick check of the seed's property, revert.
# usage: tools/selftest.sh [seed dir names...]     prints one line per seed: DETECTED / MISSED
cd /verif
[ -n "$(git -C /repo status --short)" ] && { echo "/repo is not clean"; exit 2; }
seeds=${*:-$(ls seeded)}
miss=0
for s in $seeds; do
  prop=$(python3 -c "import json;print(json.load(open('seeded/$s/meta.json'))['property'])")
  git -C /repo apply /verif/seeded/$s/patch.diff || { echo "$s: patch does not apply"; continue; }
  out=$(./check $prop 2>&1)
  git -C /repo checkout -- .
  if echo "$out" | grep -q "^VIOLATION property=$prop"; then
    tail=$(echo "$out" | grep "^VIOLATION" | head -1 | grep -q "no-failing-input-found" && echo " (broken obligation only)")
    echo "$s: DETECTED by ./check $prop$tail"
  else
    echo "$s: MISSED by ./check $prop"; miss=$((miss+1))
  fi
done
echo "missed: $miss"
