#!/bin/sh
# Re-validate the checks against every kept seeded change WITHOUT touching /repo: the change is applied to a scratch working
# tree and the quick check of the seed's property runs against it (VERIF_REPO mode of tools/check.py).
# usage: tools/selftest.sh [seed dir names...]     prints one line per seed: DETECTED / MISSED
cd /verif
W=/tmp/selftest.$$
mkdir -p $W
git -C /repo worktree add -q --detach $W/repo HEAD || exit 2
seeds=${*:-$(ls seeded)}
miss=0
for s in $seeds; do
  prop=$(python3 -c "import json;print(json.load(open('seeded/$s/meta.json'))['property'])")
  git -C $W/repo apply /verif/seeded/$s/patch.diff || { echo "$s: patch does not apply"; continue; }
  out=$(VERIF_REPO=$W/repo VERIF_CACHE=$W/cache ./check $prop 2>&1)
  git -C $W/repo checkout -q -- .
  if echo "$out" | grep -q "^VIOLATION property=$prop"; then
    tail=$(echo "$out" | grep "^VIOLATION" | head -1 | grep -q "no-failing-input-found" && echo " (broken obligation only)")
    echo "$s: DETECTED by ./check $prop$tail"
  else
    echo "$s: MISSED by ./check $prop"; miss=$((miss+1))
  fi
done
echo "missed: $miss"
git -C /repo worktree remove --force $W/repo; rm -rf $W; git -C /repo worktree prune
