#!/bin/sh
# Build the framework from files on disk only (offline): Rocq development, extracted driver, Rust harness.
set -e
cd "$(dirname "$0")"
export CARGO_NET_OFFLINE=true
mkdir -p .cache evidence replays
python3 tools/gen_constants.py /repo
python3 tools/rs2v.py /repo
# -k: a proof obligation that no longer checks (e.g. a constant of /repo that changed) is reported by the check of the
# property it belongs to, not by the set-up
# a dependency file left by an interrupted or concurrent run (e.g. a sandbox copy taken while coqdep was writing it) would make
# every file compile out of order: always start from a fresh one
rm -f coq/.Makefile.coq.d coq/Makefile.coq coq/Makefile.coq.conf
( cd coq && coq_makefile -f _CoqProject -o Makefile.coq && (timeout 3000 make -f Makefile.coq -j16 -k || echo 'setup: some Coq targets did not build; the checks will report them') )
python3 - <<'PY'
import sys
sys.path.insert(0, 'tools')
import check
rc, out = check.build_driver()
if rc != 0:
    print(out); sys.exit(1)
bins = sorted(set(s['bin'] for s in check.SUITES.values()))
rc, out = check.build_harness(bins)
if rc != 0:
    print(out); sys.exit(1)
rel = sorted(set(s['bin'] for s in check.SUITES.values() if s.get('release')))
if rel:
    rc, out = check.build_harness(rel, True)
    if rc != 0:
        print(out); sys.exit(1)
print('setup ok')
PY
