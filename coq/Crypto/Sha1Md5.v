From Coq Require Import List NArith Lia Bool.
Import ListNotations.
Open Scope N_scope.

Definition w32 (x:N) : N := N.land x 0xFFFFFFFF.
Definition add32 (a b:N) : N := w32 (a + b).
Definition rotl (n x:N) : N := N.lor (w32 (N.shiftl x n)) (N.shiftr x (32 - n)).
Definition not32 (x:N) : N := N.lxor x 0xFFFFFFFF.
Definition be_bytes (n:nat) (x:N) : list N := map (fun i => (N.shiftr x (8 * N.of_nat i)) mod 256) (rev (seq 0 n)).
Definition le_bytes (n:nat) (x:N) : list N := map (fun i => (N.shiftr x (8 * N.of_nat i)) mod 256) (seq 0 n).
Fixpoint words_be (l:list N) : list N := match l with a::b::c::d::r => (a*16777216 + b*65536 + c*256 + d) :: words_be r | _ => [] end.
Fixpoint words_le (l:list N) : list N := match l with a::b::c::d::r => (d*16777216 + c*65536 + b*256 + a) :: words_le r | _ => [] end.
Fixpoint chunks16 (fuel:nat) (ws:list N) : list (list N) :=
  match fuel with O => [] | S k => match ws with [] => [] | _ => firstn 16 ws :: chunks16 k (skipn 16 ws) end end.
Definition pad_len (l:N) : nat := N.to_nat ((119 - (l mod 64)) mod 64).
Definition hex (l:list N) : N := fold_left (fun a b => a * 256 + b) l 0.

(* ---------------- SHA-1 (FIPS 180-4) ---------------- *)
Fixpoint sched1 (n:nat) (win:list N) (acc:list N) : list N :=   (* win: last 16 words, most recent first *)
  match n with
  | O => rev acc
  | S k => match win with
           | w1 :: w2 :: w3 :: w4 :: w5 :: w6 :: w7 :: w8 :: w9 :: w10 :: w11 :: w12 :: w13 :: w14 :: w15 :: w16 :: _ =>
               let w := rotl 1 (N.lxor (N.lxor w3 w8) (N.lxor w14 w16)) in sched1 k (w :: firstn 15 win) (w :: acc)
           | _ => rev acc
           end
  end.
Definition f1 (t:nat) (b c d:N) : N * N :=
  if Nat.ltb t 20 then (N.lor (N.land b c) (N.land (not32 b) d), 0x5A827999)
  else if Nat.ltb t 40 then (N.lxor (N.lxor b c) d, 0x6ED9EBA1)
  else if Nat.ltb t 60 then (N.lor (N.lor (N.land b c) (N.land b d)) (N.land c d), 0x8F1BBCDC)
  else (N.lxor (N.lxor b c) d, 0xCA62C1D6).
Definition round1 (st:list N) (tw:nat*N) : list N :=
  match st with
  | [a;b;c;d;e] => let '(f,k) := f1 (fst tw) b c d in
                   [add32 (add32 (add32 (rotl 5 a) f) (add32 e k)) (snd tw); a; rotl 30 b; c; d]
  | _ => st end.
Definition compress1 (h:list N) (blk:list N) : list N :=
  let ws := blk ++ sched1 64 (rev blk) [] in
  let st := fold_left round1 (combine (seq 0 80) ws) h in
  map (fun p => add32 (fst p) (snd p)) (combine h st).
Definition sha1 (m:list N) : list N :=
  let l := N.of_nat (length m) in
  let ws := words_be (m ++ [128] ++ repeat 0 (pad_len l) ++ be_bytes 8 (8 * l)) in
  flat_map (be_bytes 4) (fold_left compress1 (chunks16 (length ws) ws) [0x67452301;0xEFCDAB89;0x98BADCFE;0x10325476;0xC3D2E1F0]).

(* ---------------- MD5 (RFC 1321) ---------------- *)
Definition md5_s : list N := [7;12;17;22;7;12;17;22;7;12;17;22;7;12;17;22;5;9;14;20;5;9;14;20;5;9;14;20;5;9;14;20;
                              4;11;16;23;4;11;16;23;4;11;16;23;4;11;16;23;6;10;15;21;6;10;15;21;6;10;15;21;6;10;15;21].
Definition md5_k : list N := [
0xd76aa478;0xe8c7b756;0x242070db;0xc1bdceee;0xf57c0faf;0x4787c62a;0xa8304613;0xfd469501;
0x698098d8;0x8b44f7af;0xffff5bb1;0x895cd7be;0x6b901122;0xfd987193;0xa679438e;0x49b40821;
0xf61e2562;0xc040b340;0x265e5a51;0xe9b6c7aa;0xd62f105d;0x02441453;0xd8a1e681;0xe7d3fbc8;
0x21e1cde6;0xc33707d6;0xf4d50d87;0x455a14ed;0xa9e3e905;0xfcefa3f8;0x676f02d9;0x8d2a4c8a;
0xfffa3942;0x8771f681;0x6d9d6122;0xfde5380c;0xa4beea44;0x4bdecfa9;0xf6bb4b60;0xbebfbc70;
0x289b7ec6;0xeaa127fa;0xd4ef3085;0x04881d05;0xd9d4d039;0xe6db99e5;0x1fa27cf8;0xc4ac5665;
0xf4292244;0x432aff97;0xab9423a7;0xfc93a039;0x655b59c3;0x8f0ccc92;0xffeff47d;0x85845dd1;
0x6fa87e4f;0xfe2ce6e0;0xa3014314;0x4e0811a1;0xf7537e82;0xbd3af235;0x2ad7d2bb;0xeb86d391].
Definition md5_round (blk:list N) (st:list N) (i:nat) : list N :=
  match st with
  | [a;b;c;d] =>
      let '(f,g) :=
        if Nat.ltb i 16 then (N.lor (N.land b c) (N.land (not32 b) d), i)
        else if Nat.ltb i 32 then (N.lor (N.land d b) (N.land (not32 d) c), Nat.modulo (5*i+1) 16)
        else if Nat.ltb i 48 then (N.lxor (N.lxor b c) d, Nat.modulo (3*i+5) 16)
        else (N.lxor c (N.lor b (not32 d)), Nat.modulo (7*i) 16) in
      let x := add32 (add32 a f) (add32 (nth i md5_k 0) (nth g blk 0)) in
      [d; add32 b (rotl (nth i md5_s 0) x); b; c]
  | _ => st end.
Definition md5_compress (h:list N) (blk:list N) : list N :=
  map (fun p => add32 (fst p) (snd p)) (combine h (fold_left (md5_round blk) (seq 0 64) h)).
Definition md5 (m:list N) : list N :=
  let l := N.of_nat (length m) in
  let ws := words_le (m ++ [128] ++ repeat 0 (pad_len l) ++ le_bytes 8 (8 * l)) in
  flat_map (le_bytes 4) (fold_left md5_compress (chunks16 (length ws) ws) [0x67452301;0xefcdab89;0x98badcfe;0x10325476]).

Definition xor_pad (c:N) (k:list N) : list N := map (fun b => N.lxor b c) (k ++ repeat 0 (64 - length k)).
Definition hmac_sha1 (key msg:list N) : list N :=
  let k := if Nat.ltb 64 (length key) then sha1 key else key in
  sha1 (xor_pad 0x5c k ++ sha1 (xor_pad 0x36 k ++ msg)).

Example sha1_abc : hex (sha1 [97;98;99]) = 0xa9993e364706816aba3e25717850c26c9cd0d89d. Proof. vm_compute. reflexivity. Qed.
Example md5_abc : hex (md5 [97;98;99]) = 0x900150983cd24fb0d6963f7d28e17f72. Proof. vm_compute. reflexivity. Qed.
Example md5_empty : hex (md5 []) = 0xd41d8cd98f00b204e9800998ecf8427e. Proof. vm_compute. reflexivity. Qed.
(* RFC 2202 test case 2 *)
Example hmac_sha1_tc2 : hex (hmac_sha1 [74;101;102;101]
   [119;104;97;116;32;100;111;32;121;97;32;119;97;110;116;32;102;111;114;32;110;111;116;104;105;110;103;63])
 = 0xeffcdf6ae5eb2fa2d27416d5f184df9c259a7c79.
Proof. vm_compute. reflexivity. Qed.
(* the long-term key of the stun-rs doc example: MD5("user:realm:pass") *)
Example lt_key_doc : hex (md5 [117;115;101;114;58;114;101;97;108;109;58;112;97;115;115]) = 0x8493FBC53BA582FB4C044C456BDC40EB.
Proof. vm_compute. reflexivity. Qed.
