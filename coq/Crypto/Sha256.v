From Coq Require Import List NArith Lia Bool.
Import ListNotations.
Open Scope N_scope.

Definition w32 (x:N) : N := N.land x 0xFFFFFFFF.
Definition add32 (a b:N) : N := w32 (a + b).
Definition rotr (n x:N) : N := N.lor (N.shiftr x n) (w32 (N.shiftl x (32 - n))).
Definition shr (n x:N) : N := N.shiftr x n.
Definition not32 (x:N) : N := N.lxor x 0xFFFFFFFF.

Definition Ch x y z := N.lxor (N.land x y) (N.land (not32 x) z).
Definition Maj x y z := N.lxor (N.lxor (N.land x y) (N.land x z)) (N.land y z).
Definition S0 x := N.lxor (N.lxor (rotr 2 x) (rotr 13 x)) (rotr 22 x).
Definition S1 x := N.lxor (N.lxor (rotr 6 x) (rotr 11 x)) (rotr 25 x).
Definition s0 x := N.lxor (N.lxor (rotr 7 x) (rotr 18 x)) (shr 3 x).
Definition s1 x := N.lxor (N.lxor (rotr 17 x) (rotr 19 x)) (shr 10 x).

Definition K : list N := [
0x428a2f98;0x71374491;0xb5c0fbcf;0xe9b5dba5;0x3956c25b;0x59f111f1;0x923f82a4;0xab1c5ed5;
0xd807aa98;0x12835b01;0x243185be;0x550c7dc3;0x72be5d74;0x80deb1fe;0x9bdc06a7;0xc19bf174;
0xe49b69c1;0xefbe4786;0x0fc19dc6;0x240ca1cc;0x2de92c6f;0x4a7484aa;0x5cb0a9dc;0x76f988da;
0x983e5152;0xa831c66d;0xb00327c8;0xbf597fc7;0xc6e00bf3;0xd5a79147;0x06ca6351;0x14292967;
0x27b70a85;0x2e1b2138;0x4d2c6dfc;0x53380d13;0x650a7354;0x766a0abb;0x81c2c92e;0x92722c85;
0xa2bfe8a1;0xa81a664b;0xc24b8b70;0xc76c51a3;0xd192e819;0xd6990624;0xf40e3585;0x106aa070;
0x19a4c116;0x1e376c08;0x2748774c;0x34b0bcb5;0x391c0cb3;0x4ed8aa4a;0x5b9cca4f;0x682e6ff3;
0x748f82ee;0x78a5636f;0x84c87814;0x8cc70208;0x90befffa;0xa4506ceb;0xbef9a3f7;0xc67178f2].
Definition H0 : list N := [0x6a09e667;0xbb67ae85;0x3c6ef372;0xa54ff53a;0x510e527f;0x9b05688c;0x1f83d9ab;0x5be0cd19].

Fixpoint words (l:list N) : list N :=
  match l with a::b::c::d::r => (a*16777216 + b*65536 + c*256 + d) :: words r | _ => [] end.

(* message schedule: keep a sliding window of the last 16 words (most recent first) *)
Fixpoint sched (n:nat) (win:list N) (acc:list N) : list N :=
  match n with
  | O => rev acc
  | S k => match win with
           | w1 :: w2 :: w3 :: w4 :: w5 :: w6 :: w7 :: w8 :: w9 :: w10 :: w11 :: w12 :: w13 :: w14 :: w15 :: w16 :: _ =>
               let w := add32 (add32 (s1 w2) w7) (add32 (s0 w15) w16) in
               sched k (w :: firstn 15 win) (w :: acc)
           | _ => rev acc
           end
  end.
Definition schedule (blk:list N) : list N := blk ++ sched 48 (rev blk) [].

Definition round (st:list N) (kw:N*N) : list N :=
  match st with
  | [a;b;c;d;e;f;g;h] =>
      let t1 := add32 (add32 (add32 h (S1 e)) (add32 (Ch e f g) (fst kw))) (snd kw) in
      let t2 := add32 (S0 a) (Maj a b c) in
      [add32 t1 t2; a; b; c; add32 d t1; e; f; g]
  | _ => st
  end.
Definition compress (h:list N) (blk:list N) : list N :=
  let st := fold_left round (combine K (schedule blk)) h in
  map (fun p => add32 (fst p) (snd p)) (combine h st).

Fixpoint chunks16 (fuel:nat) (ws:list N) : list (list N) :=
  match fuel with O => [] | S k => match ws with [] => [] | _ => firstn 16 ws :: chunks16 k (skipn 16 ws) end end.

Definition be_bytes (n:nat) (x:N) : list N := map (fun i => (N.shiftr x (8 * N.of_nat i)) mod 256) (rev (seq 0 n)).
Definition pad_msg (m:list N) : list N :=
  let l := N.of_nat (length m) in
  let k := (N.to_nat ((119 - (l mod 64)) mod 64)) in
  m ++ [128] ++ repeat 0 k ++ be_bytes 8 (8 * l).
Definition sha256 (m:list N) : list N :=
  let ws := words (pad_msg m) in
  let h := fold_left compress (chunks16 (length ws) ws) H0 in
  flat_map (be_bytes 4) h.

Definition xor_pad (c:N) (k:list N) : list N := map (fun b => N.lxor b c) (k ++ repeat 0 (64 - length k)).
Definition hmac_sha256 (key msg:list N) : list N :=
  let k := if Nat.ltb 64 (length key) then sha256 key else key in
  sha256 (xor_pad 0x5c k ++ sha256 (xor_pad 0x36 k ++ msg)).

Definition hex (l:list N) : N := fold_left (fun a b => a * 256 + b) l 0.
(* "abc" *)
Example sha256_abc : hex (sha256 [97;98;99]) = 0xba7816bf8f01cfea414140de5dae2223b00361a396177a9cb410ff61f20015ad.
Proof. vm_compute. reflexivity. Qed.
(* RFC 4231 test case 2: key "Jefe", data "what do ya want for nothing?" *)
Example hmac_tc2 : hex (hmac_sha256 [74;101;102;101]
   [119;104;97;116;32;100;111;32;121;97;32;119;97;110;116;32;102;111;114;32;110;111;116;104;105;110;103;63])
 = 0x5bdcc146bf60754e6a042426089575c75a003f089d2739839dec58b964ec3843.
Proof. vm_compute. reflexivity. Qed.

