From Coq Require Import List NArith Lia Bool.
Import ListNotations.
Open Scope N_scope.

Definition poly : N := 0xEDB88320.
Definition step (s:N) (b:bool) : N :=
  let s' := N.shiftr s 1 in if xorb (N.odd s) b then N.lxor s' poly else s'.
Definition raw (s:N) (bits:list bool) : N := fold_left step bits s.

Fixpoint bits_of_byte_aux (n:nat) (v:N) : list bool :=
  match n with O => [] | S k => N.odd v :: bits_of_byte_aux k (N.shiftr v 1) end.
Definition bits_of_byte (v:N) := bits_of_byte_aux 8 v.          (* LSB first: reflected CRC *)
Definition bits_of (l:list N) : list bool := flat_map bits_of_byte l.
Definition crc32 (l:list N) : N := N.lxor (raw 0xFFFFFFFF (bits_of l)) 0xFFFFFFFF.

Example crc_check : crc32 [49;50;51;52;53;54;55;56;57] = 0xCBF43926.   (* "123456789" *)
Proof. vm_compute. reflexivity. Qed.

Lemma odd_lxor a b : N.odd (N.lxor a b) = xorb (N.odd a) (N.odd b).
Proof. rewrite <- !N.bit0_odd. apply N.lxor_spec. Qed.

Lemma step_linear s1 s2 b1 b2 : step (N.lxor s1 s2) (xorb b1 b2) = N.lxor (step s1 b1) (step s2 b2).
Proof.
  unfold step. rewrite odd_lxor, N.shiftr_lxor.
  set (x := N.shiftr s1 1). set (y := N.shiftr s2 1).
  destruct (N.odd s1), (N.odd s2), b1, b2; cbn [xorb];
  rewrite ?N.lxor_assoc; try reflexivity;
  try (rewrite (N.lxor_comm poly (N.lxor y poly)), N.lxor_assoc, N.lxor_nilpotent, N.lxor_0_r; reflexivity);
  try (rewrite (N.lxor_comm poly y); reflexivity).
Qed.

Fixpoint xor_bits (a e:list bool) : list bool :=
  match a, e with x :: a', y :: e' => xorb x y :: xor_bits a' e' | _, _ => [] end.

Lemma raw_linear : forall a e s1 s2, length a = length e ->
  raw (N.lxor s1 s2) (xor_bits a e) = N.lxor (raw s1 a) (raw s2 e).
Proof.
  induction a as [|x a IH]; intros [|y e] s1 s2 Hl; try discriminate; cbn [xor_bits raw fold_left]; [reflexivity|].
  rewrite step_linear. apply IH. cbn in Hl. lia.
Qed.

Lemma lxor_lt a b n : a < 2^n -> b < 2^n -> N.lxor a b < 2^n.
Proof.
  intros Ha Hb.
  destruct (N.eq_dec n 0) as [->|Hn].
  { change (2^0) with 1 in *. assert (a = 0) by lia. assert (b = 0) by lia. subst. cbn. lia. }
  destruct (N.eq_dec (N.lxor a b) 0) as [->|Hne]; [apply N.neq_0_lt_0, N.pow_nonzero; lia|].
  apply N.log2_lt_pow2; [lia|].
  eapply N.le_lt_trans; [apply N.log2_lxor|].
  apply N.max_lub_lt.
  - destruct (N.eq_dec a 0) as [->|]; [cbn; lia|apply N.log2_lt_pow2; lia].
  - destruct (N.eq_dec b 0) as [->|]; [cbn; lia|apply N.log2_lt_pow2; lia].
Qed.

Lemma shiftr1_lt s : s < 2^32 -> N.shiftr s 1 < 2^31.
Proof. intros H. rewrite N.shiftr_div_pow2. change (2^1) with 2. apply N.div_lt_upper_bound; [lia|]. change (2*2^31) with (2^32). exact H. Qed.

Lemma step_bound s b : s < 2^32 -> step s b < 2^32.
Proof.
  intros H. unfold step. pose proof (shiftr1_lt s H) as H1.
  destruct (xorb (N.odd s) b).
  - apply lxor_lt; [eapply N.lt_trans; [exact H1|reflexivity]|reflexivity].
  - eapply N.lt_trans; [exact H1|reflexivity].
Qed.

Lemma step0_injective s : s < 2^32 -> step s false = 0 -> s = 0.
Proof.
  intros Hb Hs. unfold step in Hs. rewrite xorb_false_r in Hs.
  pose proof (shiftr1_lt s Hb) as H1.
  destruct (N.odd s) eqn:Ho.
  - apply N.lxor_eq in Hs. rewrite Hs in H1. vm_compute in H1. discriminate.
  - rewrite N.shiftr_div_pow2 in Hs. change (2^1) with 2 in Hs.
    apply N.div_small_iff in Hs; [|lia].
    assert (Hc : s = 0 \/ s = 1) by lia. destruct Hc as [ -> | -> ]; [reflexivity|cbn in Ho; discriminate].
Qed.

Lemma raw_bound : forall bits s, s < 2^32 -> raw s bits < 2^32.
Proof. induction bits as [|b r IH]; intros s H; cbn [raw fold_left]; [exact H|]. apply IH, step_bound, H. Qed.

Lemma raw_zeros_nonzero : forall n s, s < 2^32 -> s <> 0 -> raw s (repeat false n) <> 0.
Proof.
  induction n as [|n IH]; intros s Hb Hne; cbn [repeat raw fold_left]; [exact Hne|].
  apply IH; [apply step_bound, Hb|]. intros H0. apply Hne. apply step0_injective; assumption.
Qed.
Lemma raw0_zeros : forall n, raw 0 (repeat false n) = 0.
Proof. induction n as [|n IH]; cbn [repeat raw fold_left]; [reflexivity|]. exact IH. Qed.
Lemma raw_app s a b : raw s (a ++ b) = raw (raw s a) b.
Proof. unfold raw. apply fold_left_app. Qed.

Definition all_bytes_nonzero_ok : bool :=
  forallb (fun v => negb (raw 0 (bits_of_byte v) =? 0)) (map N.of_nat (seq 1 255)).
Lemma byte_fault_nonzero v : 0 < v < 256 -> raw 0 (bits_of_byte v) <> 0.
Proof.
  intros Hv. assert (H : all_bytes_nonzero_ok = true) by (vm_compute; reflexivity).
  unfold all_bytes_nonzero_ok in H. rewrite forallb_forall in H.
  specialize (H v). apply negb_true_iff, N.eqb_neq in H; [exact H|].
  apply in_map_iff. exists (N.to_nat v). split; [lia|]. apply in_seq. lia.
Qed.

(* an error pattern confined to one byte, anywhere in a message of any length *)
Theorem single_byte_error_nonzero n1 n2 v : 0 < v < 256 ->
  raw 0 (repeat false n1 ++ bits_of_byte v ++ repeat false n2) <> 0.
Proof.
  intros Hv. rewrite !raw_app, raw0_zeros.
  apply raw_zeros_nonzero; [apply raw_bound; reflexivity|apply byte_fault_nonzero, Hv].
Qed.

Theorem crc_detects : forall a e s0, length a = length e -> raw 0 e <> 0 ->
  raw s0 (xor_bits a e) <> raw s0 a.
Proof.
  intros a e s0 Hl Hne Heq. apply Hne.
  pose proof (raw_linear a e s0 0 Hl) as H. rewrite N.lxor_0_r in H. rewrite Heq in H.
  symmetry in H. rewrite <- (N.lxor_0_r (raw s0 a)) in H at 2.
  apply (f_equal (N.lxor (raw s0 a))) in H. rewrite <- !N.lxor_assoc, N.lxor_nilpotent, !N.lxor_0_l in H. exact H.
Qed.
Print Assumptions crc_detects.
Print Assumptions single_byte_error_nonzero.
