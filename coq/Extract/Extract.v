(* Extraction of the executable models and spec monitors for the correspondence driver.
   ExtrOcamlBasic only; N / positive / Z stay as extracted datatypes; no directive of ours. *)
From Coq Require Import List NArith Bool.
From Coq Require Import ExtrOcamlBasic.
From Rustun Require Import Codec.Filter Codec.DecodeLoop Codec.FilterCase.
From Rustun Require Import Base.Tlv Agent.Reasm Agent.ReasmDrive Agent.ReasmRs.
From Rustun Require Import Agent.Rto Agent.Model Agent.Monitors Agent.AbsGlue Agent.Concrete Agent.F32 Agent.RttExact.
From Rustun Require Import Codec.Wire Codec.WireMon Codec.EncodeMsg.
From Rustun Require Import Agent.ArcHeap Proofs.ArcHeapProofs.
From Rustun Require Import Codec.AttrValue Codec.WireFull Codec.Message Codec.Keys Codec.Ignored.
From Rustun Require Import Codec.ValueApi.
Extraction Language OCaml.
Extraction "model.ml"
  FilterCase.filter_case FilterCase.monitor_C09 FilterCase.monitor_C18_all
  ReasmRs.run_log ReasmRs.monitor_C16
  Model.step Model.init Model.wire_type Monitors.monitor_step Monitors.mon_C08_secret Monitors.mon_C13_ltkey Monitors.mon_C13_ltcred Monitors.mon_C06_initial Monitors.mon_C08_retry Monitors.mon_C07_reject Monitors.mon_C17_undecodable Monitors.mall0
  Wire.decode Wire.dec_ok_basic WireMon.monitor_C18 WireMon.monitor_C18val WireMon.monitor_C03dec WireMon.rfc_verdict
  EncodeMsg.encode_msg EncodeMsg.monitor_C14 EncodeMsg.monitor_C14_tail EncodeMsg.monitor_C14_indep Message.enc_values EncodeMsg.msg_type_of
  ArcHeap.heap0 ArcHeapProofs.outs_s ArcHeapProofs.outs_p ArcHeapProofs.wfb
  AttrValue.av_case_dec AttrValue.av_case_enc AttrValue.av_wf
  WireFull.dec_ok_full WireFull.typed_attrs
  Message.encode_typed Message.decode_typed Message.monitor_C01 Message.ctor_of Message.quoted_roundtrips Message.ctor_class Message.dangling_backslash Keys.st_key Keys.lt_key
  Ignored.monitor_C02ign Ignored.diff_bits
  AbsGlue.abs_packet AbsGlue.nonce_features AbsGlue.nonce_str Concrete.craft_packet
  ValueApi.va_num_case ValueApi.va_nonce_new ValueApi.va_new_nonce_cookie ValueApi.va_nonce_view ValueApi.va_realm_new
  ValueApi.va_software_new ValueApi.va_padding_new ValueApi.va_username_new ValueApi.va_userhash_new ValueApi.va_key_short_term
  ValueApi.va_key_long_term ValueApi.va_error_code_view ValueApi.va_array_from_slice ValueApi.va_header_try_from
  ValueApi.va_fingerprint_from ValueApi.va_fixed_from ValueApi.va_cookie_eq ValueApi.va_txid_display ValueApi.va_msgtype_from_bytes
  ValueApi.va_ua_from ValueApi.va_ua_add ValueApi.va_pa_from
  RttExact.est0 RttExact.est_step RttExact.est_rto_for_send.
