(* Result type of the definitions GENERATED from the Rust source by tools/rs2v.py (coq/Generated/Code.v):
   GOk v   the Rust function returns v (for `&mut self` functions: the returned value paired with the updated record)
   GPanic  the Rust function panics in a debug build (arithmetic overflow / underflow, shift amount, unwrap of None /
           failed conversion)
   GFuel   the fuel given to a translated loop ran out (excluded by the agreement lemmas) *)
From Coq Require Import NArith.
Inductive gres (A:Type) : Type := GOk (a:A) | GPanic | GFuel.
Arguments GOk {A} a.
Arguments GPanic {A}.
Arguments GFuel {A}.
Definition opt_is_some {A} (o:option A) : bool := match o with Some _ => true | None => false end.
Definition opt_get (o:option N) : N := match o with Some v => v | None => 0%N end.
(* core::time::Duration::MAX in nanoseconds: u64::MAX seconds + 999,999,999 ns (saturating_mul / saturating_add clamp here) *)
Definition duration_max : N := 18446744073709551615999999999%N.
