(* Result type of the definitions GENERATED from the Rust source by tools/rs2v.py (coq/Generated/Code.v):
   GOk v   the Rust function returns v (for `&mut self` functions: the returned value paired with the updated record)
   GPanic  the Rust function panics in a debug build (arithmetic overflow / underflow, shift amount, unwrap of None /
           failed conversion)
   GFuel   the fuel given to a translated loop ran out (excluded by the agreement lemmas) *)
From Coq Require Import NArith.
Inductive gres (A:Type) : Type := GOk (a:A) | GPanic | GFuel.
Arguments GOk {A} a.
Arguments GPanic {A}.
Arguments GFuel {A}.
Definition opt_is_some {A} (o:option A) : bool := match o with Some _ => true | None => false end.
Definition opt_get (o:option N) : N := match o with Some v => v | None => 0%N end.
(* core::time::Duration::MAX in nanoseconds: u64::MAX seconds + 999,999,999 ns (saturating_mul / saturating_add clamp here) *)
Definition duration_max : N := 18446744073709551615999999999%N.

(* byte slices of the translated code are lists of N (the element range is the caller's hypothesis, as in Base/Tlv.v) *)
From Coq Require Import List.
Import ListNotations.
Definition be_read (n:N) (l:list N) : N := fold_left (fun a x => (a * 256 + x)%N) (firstn (N.to_nat n) l) 0%N.
Definition be_write16 (l:list N) (off v:N) : list N :=
  firstn (N.to_nat off) l ++ [(v / 256)%N; (v mod 256)%N] ++ skipn (N.to_nat off + 2) l.
Fixpoint list_N_eqb (a b:list N) : bool :=
  match a, b with [], [] => true | x :: a', y :: b' => (x =? y)%N && list_N_eqb a' b' | _, _ => false end.
Definition be32_bytes (v:N) : list N := [(v / 16777216)%N; ((v / 65536) mod 256)%N; ((v / 256) mod 256)%N; (v mod 256)%N].
(* Result<A, E> whose error type carries data the caller uses *)
Inductive gresult (A E:Type) : Type := ROk (a:A) | RErr (e:E).
Arguments ROk {A E} a.
Arguments RErr {A E} e.
(* dst[a .. a + len src].copy_from_slice(src) *)
Definition list_splice (dst:list N) (a:N) (src:list N) : list N :=
  firstn (N.to_nat a) dst ++ src ++ skipn (N.to_nat a + length src) dst.
(* An opaque StunAttribute of the translated agent code is abstracted to its kind: 0 ordinary, 1 MESSAGE-INTEGRITY,
   2 MESSAGE-INTEGRITY-SHA256, 3 FINGERPRINT; the macro-generated predicates is_message_integrity() etc. are these tests *)
Definition attr_is_mi (k:N) : bool := (k =? 1)%N.
Definition attr_is_sha (k:N) : bool := (k =? 2)%N.
Definition attr_is_fp (k:N) : bool := (k =? 3)%N.
(* vectors of the translated agent code are lists; an attribute of StunAttributes is (wire type, payload) *)
Fixpoint list_position {A} (p:A -> bool) (l:list A) : option N :=
  match l with [] => None | x :: r => if p x then Some 0%N else match list_position p r with Some i => Some (i + 1)%N | None => None end end.
Fixpoint list_set_nat {A} (l:list A) (i:nat) (v:A) : list A :=
  match l, i with [], _ => [] | _ :: r, O => v :: r | x :: r, S j => x :: list_set_nat r j v end.
Definition list_set {A} (l:list A) (i:N) (v:A) : list A := list_set_nat l (N.to_nat i) v.
Definition list_get (l:list (N * N)) (i:N) : N * N := nth (N.to_nat i) l (0%N, 0%N).
Fixpoint list_remove_nat {A} (l:list A) (i:nat) : list A :=
  match l, i with [], _ => [] | _ :: r, O => r | x :: r, S j => x :: list_remove_nat r j end.
Definition list_remove {A} (l:list A) (i:N) : list A := list_remove_nat l (N.to_nat i).
Definition sattr_is_mi (a:N * N) : bool := (fst a =? 8)%N.
Definition sattr_is_sha (a:N * N) : bool := (fst a =? 28)%N.
Definition sattr_is_fp (a:N * N) : bool := (fst a =? 32808)%N.
(* A HashSet<T> of the translated agent code (integrity.rs: HashSet<TransactionId>) is a list of N under SET semantics:
   contains(x) = set_mem, remove(x) deletes every occurrence (and returns set_mem), insert(x) adds x only when it is absent
   (and returns negb set_mem). Proofs/CodeAgreeIntegrity.v: these are Model.mem / del / ins, membership after insert / remove
   is what a set gives, and no duplicates arise. *)
Definition set_mem (x:N) (l:list N) : bool := existsb (N.eqb x) l.
Definition set_remove (x:N) (l:list N) : list N := filter (fun y => negb (y =? x)%N) l.
Definition set_insert (x:N) (l:list N) : list N := if set_mem x l then l else x :: l.
