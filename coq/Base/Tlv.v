From Coq Require Import List NArith Lia Bool Arith.
Import ListNotations.
Open Scope N_scope.
Arguments N.add : simpl never. Arguments N.sub : simpl never. Arguments N.mul : simpl never.
Arguments N.div : simpl never. Arguments N.modulo : simpl never.
Arguments N.eqb : simpl never. Arguments N.ltb : simpl never. Arguments N.leb : simpl never.

Definition bytes := list N.
Definition byte_ok (b:N) := b <? 256.
Definition bytes_ok (l:bytes) := forallb byte_ok l.

Definition be16 (n:N) : bytes := [n / 256; n mod 256].
Definition rd16 (a b:N) : N := a * 256 + b.
Lemma rd16_be16 n : n < 65536 -> rd16 (n / 256) (n mod 256) = n.
Proof. intros _. unfold rd16. rewrite N.mul_comm. symmetry. apply N.div_mod. lia. Qed.

Definition len (l:bytes) : N := N.of_nat (length l).
Definition pad (n:N) : N := (4 - n mod 4) mod 4.
Definition zeros (n:N) : bytes := repeat 0 (N.to_nat n).
Definition take (n:N) (l:bytes) := firstn (N.to_nat n) l.
Definition drop (n:N) (l:bytes) := skipn (N.to_nat n) l.

Inductive res (A:Type) := Ok (a:A) | Err | Panic.
Arguments Ok {A}. Arguments Err {A}. Arguments Panic {A}.

Definition tlv := (N * bytes)%type.
Definition enc_tlv (a:tlv) : bytes := be16 (fst a) ++ be16 (len (snd a)) ++ snd a ++ zeros (pad (len (snd a))).
Definition enc_tlvs (l:list tlv) : bytes := flat_map enc_tlv l.

(* mirrors RawAttributesIter: pos advances by 4+len+pad, error if it passes the end *)
Fixpoint dec_tlvs (fuel:nat) (b:bytes) : res (list tlv) :=
  match fuel with
  | O => match b with [] => Ok [] | _ => Panic end
  | S f =>
    match b with
    | [] => Ok []
    | t1 :: t2 :: l1 :: l2 :: rest =>
        let n := rd16 l1 l2 in
        if len rest <? n then Err
        else let adv := n + pad n in
             if len rest <? adv then Err
             else match dec_tlvs f (drop adv rest) with
                  | Ok r => Ok ((rd16 t1 t2, take n rest) :: r)
                  | e => e
                  end
    | _ => Err
    end
  end.

Definition tlv_ok (a:tlv) := (fst a <? 65536) && (len (snd a) <? 65536).

Lemma len_app a b : len (a ++ b) = len a + len b.
Proof. unfold len. rewrite app_length. lia. Qed.
Lemma len_zeros n : len (zeros n) = n.
Proof. unfold len, zeros. rewrite repeat_length. lia. Qed.
Lemma take_app_exact a b : take (len a) (a ++ b) = a.
Proof. unfold take, len. rewrite Nat2N.id. rewrite firstn_app, Nat.sub_diag, firstn_all. cbn. apply app_nil_r. Qed.
Lemma drop_app_exact a b : drop (len a) (a ++ b) = b.
Proof. unfold drop, len. rewrite Nat2N.id. rewrite skipn_app, Nat.sub_diag, skipn_all. reflexivity. Qed.

Lemma dec_enc_tlvs : forall l fuel,
  forallb tlv_ok l = true -> (length (enc_tlvs l) <= fuel)%nat ->
  dec_tlvs fuel (enc_tlvs l) = Ok l.
Proof.
  induction l as [|[t v] l IH]; intros fuel Hok Hf.
  - destruct fuel; reflexivity.
  - cbn [forallb] in Hok. apply andb_prop in Hok as [Ha Hl].
    unfold tlv_ok in Ha; cbn [fst snd] in Ha. apply andb_prop in Ha as [Ht Hv].
    apply N.ltb_lt in Ht, Hv.
    cbn [enc_tlvs flat_map]. unfold enc_tlv at 1. cbn [fst snd].
    destruct fuel as [|f]; [cbn in Hf; lia|].
    unfold be16. cbn [app dec_tlvs].
    rewrite !rd16_be16 by assumption.
    set (rest := (v ++ zeros (pad (len v))) ++ flat_map enc_tlv l).
    assert (Hrest : len rest = len v + pad (len v) + len (flat_map enc_tlv l))
      by (unfold rest; rewrite !len_app, len_zeros; lia).
    assert ((len rest <? len v) = false) as -> by (apply N.ltb_ge; lia).
    assert ((len rest <? len v + pad (len v)) = false) as -> by (apply N.ltb_ge; lia).
    assert (Hd : drop (len v + pad (len v)) rest = flat_map enc_tlv l).
    { unfold rest.
      replace (len v + pad (len v)) with (len (v ++ zeros (pad (len v)))) by (rewrite len_app, len_zeros; reflexivity).
      apply drop_app_exact. }
    rewrite Hd. fold (enc_tlvs l).
    rewrite IH; [|assumption|].
    + f_equal. f_equal. f_equal. unfold rest. rewrite <- app_assoc. apply take_app_exact.
    + unfold enc_tlvs in Hf. cbn [flat_map] in Hf. rewrite app_length in Hf.
      assert (4 <= length (enc_tlv (t, v)))%nat by (unfold enc_tlv, be16; cbn [fst snd app length]; lia).
      unfold enc_tlvs. lia.
Qed.

(* no panic when fuel covers the input *)
Lemma dec_tlvs_no_panic : forall fuel b, (length b <= fuel)%nat -> dec_tlvs fuel b <> Panic.
Proof.
  induction fuel as [|f IH]; intros b Hb.
  - destruct b; [discriminate|cbn in Hb; lia].
  - destruct b as [|t1 [|t2 [|l1 [|l2 rest]]]]; cbn [dec_tlvs]; try discriminate.
    destruct (len rest <? rd16 l1 l2); [discriminate|].
    destruct (len rest <? rd16 l1 l2 + pad (rd16 l1 l2)); [discriminate|].
    specialize (IH (drop (rd16 l1 l2 + pad (rd16 l1 l2)) rest)).
    destruct (dec_tlvs f (drop (rd16 l1 l2 + pad (rd16 l1 l2)) rest)); try discriminate.
    apply IH. unfold drop. rewrite skipn_length. cbn in Hb. lia.
Qed.
Print Assumptions dec_enc_tlvs.
