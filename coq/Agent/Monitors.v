(* The agent properties as monitors over an OBSERVED history of the implementation: what was called, what it returned,
   which events it produced and what the hook snapshot showed. Written from the property texts (C05, C06, C11, C12, C17),
   not from the code; the only model definitions used are the RFC schedule `slot` and the event vocabulary. *)
From Coq Require Import List NArith Lia Bool.
Import ListNotations.
From Rustun Require Import Agent.Rto Agent.Model.
Open Scope N_scope.

Inductive oret := OOk | OMaxOut | ODiscarded | OIgnored | OStunCheck | OInternal | OPanic | OOther.
Inductive oev :=
| EOut (id:N) (first:bool) (same:bool) (p:option msg)  (* same: byte-identical to the first transmission (retransmissions);
                                                          p: a first transmission read back by the harness (None = malformed) *)
| ETmo (id lft:N)
| ERetry' (id:N)
| EFail (id:N) (r:reason)
| ERecv (c:mclass) (id:N).
Record obs := { ob_ret : oret; ob_events : list oev;
                ob_T : list N;                 (* outstanding ids in the snapshot *)
                ob_H : list (N*N*N);           (* pending timeouts: id, armed_at, duration *)
                ob_K : list N;                 (* marked ids *)
                ob_same : bool }.              (* T, H, mechanism part of the snapshot, RTT estimator state and last-request instant equal to the previous call's *)
Inductive mop := MSend (now id r method:N) (app:list attr) | MInd (method:N) (app:list attr) | MRecv (now:N) (decodable:bool) (m:msg) | MTmo (now:N).

Record sent := { s_id : N; s_t0 : N; s_r : N; s_ntx : N }.
(* ms_marked: requests one of whose responses was rejected for failing authentication (the marker appeared in the snapshot
   at that rejection) and that have not had a final outcome since; maintained by the monitor, not read back later *)
Record mstate := { ms_sent : list sent; ms_fin : list N; ms_K : list N; ms_marked : list N }.
Definition mstate0 := {| ms_sent := []; ms_fin := []; ms_K := []; ms_marked := [] |}.
Record mcfg := { mc_reliable : bool; mc_rm : N; mc_rc : N; mc_limit : N }.

Definition memN (x:N) (l:list N) : bool := existsb (N.eqb x) l.
Definition live (s:mstate) : list N := filter (fun i => negb (memN i (ms_fin s))) (map s_id (ms_sent s)).
Definition final_id (e:oev) : option N :=
  match e with
  | ERetry' i | EFail i _ => Some i
  | ERecv c i => match c with CSuccess | CError => Some i | _ => None end
  | _ => None
  end.
Fixpoint finals (l:list oev) : list N :=
  match l with [] => [] | e :: r => match final_id e with Some i => i :: finals r | None => finals r end end.
Fixpoint nodupb (l:list N) : bool := match l with [] => true | x :: r => negb (memN x r) && nodupb r end.
Definition subsetb (a b:list N) : bool := forallb (fun x => memN x b) a.

(* C05: at most one final outcome per request, only for requests still awaiting one; nothing for a finished request *)
Definition mon_C05 (s s_after:mstate) (o:obs) : bool :=
  let f := finals (ob_events o) in
  let lv := live s in
  nodupb f && subsetb f lv &&
  forallb (fun e => match e with
                    | EOut i false _ _ => memN i lv && negb (memN i f)
                    | ETmo i _ => memN i (live s_after)
                    | _ => true end) (ob_events o).

(* C12: refusal exactly at the limit, a refused request changes nothing; the count never exceeds the limit *)
Definition mon_C12 (c:mcfg) (s:mstate) (op:mop) (o:obs) : bool :=
  let n := N.of_nat (length (live s)) in
  (n <=? mc_limit c) &&
  match op with
  | MSend _ _ _ _ _ =>
      match ob_ret o with
      | OMaxOut => (n =? mc_limit c) && (match ob_events o with [] => true | _ => false end) && ob_same o
      | OOk => n <? mc_limit c
      | OPanic => false               (* a request below the limit is accepted (or fails for a stated reason): it never panics *)
      | _ => n <? mc_limit c          (* other failures (small buffer) must not be reported at the limit *)
      end
  | _ => true
  end.

(* C17: a rejected buffer changes nothing (except the documented marker on unreliable transport) *)
Definition mon_C17 (c:mcfg) (s:mstate) (op:mop) (o:obs) : bool :=
  match op with
  | MRecv _ _ _ =>
      match ob_ret o with
      | OOk => true
      | _ => (match ob_events o with [] => true | _ => false end) && ob_same o &&
             (if mc_reliable c then subsetb (ob_K o) (ms_K s) && subsetb (ms_K s) (ob_K o)
              else subsetb (ms_K s) (ob_K o) && (N.of_nat (length (ob_K o)) <=? N.of_nat (length (ms_K s)) + 1)
                   && subsetb (ob_K o) (ms_K s ++ live s))
      end
  | _ => true
  end.

(* C11: after a send or a timer call a notification is issued exactly when something is outstanding; it names an
   outstanding request with the earliest pending expiry and the time left until it (zero if overdue) *)
Definition expiry (e:N*N*N) : N := snd (fst e) + snd e.
Definition h_ident (e:N*N*N) : N := fst (fst e).
Definition mon_C11 (s_after:mstate) (op:mop) (o:obs) : bool :=
  let now_notify := match op, ob_ret o with MSend now _ _ _ _, OOk => Some now | MTmo now, _ => Some now | _, _ => None end in
  match now_notify with
  | None => forallb (fun e => match e with ETmo _ _ => false | _ => true end) (ob_events o)
  | Some now =>
      let lv := live s_after in
      let tm := filter (fun e => match e with ETmo _ _ => true | _ => false end) (ob_events o) in
      match lv, tm with
      | [], [] => true
      | _ :: _, [ETmo i lft] =>
          memN i lv &&
          match find (fun e => h_ident e =? i) (ob_H o) with
          | None => false
          | Some e => forallb (fun x => expiry e <=? expiry x) (ob_H o) && (lft =? expiry e - now)
          end
          (* one pending entry per outstanding request *)
          && subsetb lv (map h_ident (ob_H o)) && subsetb (map h_ident (ob_H o)) lv && nodupb (map h_ident (ob_H o))
      | _, _ => false
      end
  end.

(* C06: RFC 8489 schedule. ntx = transmissions so far; the (k+1)-th transmission happens at or after t0 + slot k; at most
   Rc transmissions (one on reliable transport), all identical; a time-out (or protection-violated at the deadline) is
   reported at the first timer call at or after t0 + deadline and never earlier *)
Definition rc_of (c:mcfg) : N := if mc_reliable c then 1 else mc_rc c.
Definition rm_of (c:mcfg) : N := if mc_reliable c then 1 else mc_rm c.
Definition find_sent (i:N) (s:mstate) : option sent := find (fun x => s_id x =? i) (ms_sent s).
Definition mon_C06 (c:mcfg) (s:mstate) (op:mop) (o:obs) : bool :=
  match op with
  | MTmo now =>
      forallb (fun e =>
        match e with
        | EOut i false same _ =>
            match find_sent i s with
            | Some x => same && (s_ntx x <? rc_of c) && (s_t0 x + slot (s_r x) (rm_of c) (rc_of c) (s_ntx x) <=? now)
            | None => false
            end
        | EFail i r =>
            match r, find_sent i s with
            | DoNotRetry, _ => false
            | _, Some x => s_t0 x + slot (s_r x) (rm_of c) (rc_of c) (rc_of c) <=? now
            | _, None => false
            end
        | _ => true
        end) (ob_events o)
      && (* everything whose deadline has passed is failed in this very call *)
      forallb (fun i =>
        match find_sent i s with
        | Some x => if s_t0 x + slot (s_r x) (rm_of c) (rc_of c) (rc_of c) <=? now
                    then existsb (fun e => match e with EFail j _ => j =? i | _ => false end) (ob_events o)
                    else negb (existsb (fun e => match e with EFail j _ => j =? i | _ => false end) (ob_events o))
        | None => true
        end) (live s)
  | _ => forallb (fun e => match e with EOut _ false _ _ => false | EFail _ TimedOut => false | _ => true end) (ob_events o)
  end.

Definition bump (i:N) (l:list sent) : list sent :=
  map (fun x => if s_id x =? i then {| s_id := s_id x; s_t0 := s_t0 x; s_r := s_r x; s_ntx := s_ntx x + 1 |} else x) l.
Definition next_state (s:mstate) (op:mop) (o:obs) : mstate :=
  let sent1 := match op, ob_ret o with
               | MSend now id r _ _, OOk => {| s_id := id; s_t0 := now; s_r := r; s_ntx := 1 |} :: ms_sent s
               | _, _ => ms_sent s
               end in
  let sent2 := fold_left (fun l e => match e with EOut i false _ _ => bump i l | _ => l end) (ob_events o) sent1 in
  let newly := match op with MRecv _ _ _ => filter (fun i => negb (memN i (ms_K s))) (ob_K o) | _ => [] end in
  let fin := finals (ob_events o) in
  {| ms_sent := sent2; ms_fin := fin ++ ms_fin s; ms_K := ob_K o;
     ms_marked := filter (fun i => negb (memN i fin)) (newly ++ ms_marked s) |}.


(* ================================================================== content monitors (C07, C08, C10, C13) *)
Record ccfg := { cc_mech : N;          (* 0 none, 1 ST (learn), 2 ST MI, 3 ST SHA, 4 LT *)
                 cc_fp : bool; cc_reliable : bool;
                 cc_rto : N; cc_gran : N }.   (* configured RTO and clock granularity, nanoseconds *)

Definition first_out (o:obs) : option (option msg) :=
  match find (fun e => match e with EOut _ true _ _ => true | _ => false end) (ob_events o) with
  | Some (EOut _ _ _ p) => Some p | _ => None end.
Definition delivered (o:obs) : option (mclass * N) :=
  match find (fun e => match e with ERecv _ _ => true | _ => false end) (ob_events o) with
  | Some (ERecv c i) => Some (c, i) | _ => None end.
Definition last_attr (l:list attr) : option attr := last (map Some l) None.
Definition find_attr (f:attr -> bool) (l:list attr) : option attr := find f l.
Definition is_integ (a:attr) := a_is_mi a || a_is_sha a.
Definition count_ty (ty:N) (l:list attr) : N := N.of_nat (length (filter (fun a => wire_type a =? ty) l)).

(* ---- C10 (client part): with fingerprints on, everything sent ends in a valid FINGERPRINT; nothing whose FINGERPRINT
   is missing or wrong is delivered or completes a transaction *)
Definition mon_C10 (c:ccfg) (op:mop) (o:obs) : bool :=
  if negb (cc_fp c) then true else
  (match first_out o with
   | Some (Some p) => match last_attr (m_attrs p) with Some (AFP true) => true | _ => false end
   | Some None => false
   | None => true end)
  &&
  match op with
  | MRecv _ decodable m =>
      let fp_ok := decodable && match find a_is_fp (rfc_filter (m_attrs m)) with Some (AFP true) => true | _ => false end in
      if fp_ok then true
      else (match ob_ret o with OOk => false | _ => true end) && (match ob_events o with [] => true | _ => false end)
  | _ => true
  end.

(* ---- C13: every first transmission is well formed *)
Definition cred_types (mech:N) : list N :=
  if mech =? 0 then [] else if mech =? 4 then [6; 30; 20; 21; 29; 32770; 8; 28] else [6; 8; 28].
(* the application's attributes, one per type in first-insertion order, later values replacing earlier ones *)
Definition app_expected (mech:N) (fp:bool) (app:list attr) : list attr :=
  filter (fun a => negb (memN (wire_type a) (cred_types mech)) && negb (fp && (wire_type a =? 32808)) && negb (is_integ a) && negb (a_is_fp a))
         (flatten (of_list app)).
Fixpoint is_prefix (a b:list attr) (eqb:attr -> attr -> bool) : bool :=
  match a, b with [] , _ => true | x :: a', y :: b' => eqb x y && is_prefix a' b' eqb | _, _ => false end.
Definition keyd_same (a b:keyd) : bool :=
  match a, b with KCorrupt, KCorrupt => true | _, _ => keyd_eqb a b end.
Definition attr_eqb (a b:attr) : bool :=
  match a, b with
  | App t g, App u h => (t =? u) && (g =? h)
  | UserName u, UserName v => u =? v
  | UserHash u r, UserHash v q => (u =? v) && (r =? q)
  | Realm r, Realm q => r =? q
  | Nonce n c, Nonce m d => (n =? m) && (c =? d)
  | PwdAlgs l, PwdAlgs k => algs_eqb l k
  | PwdAlg x, PwdAlg y => alg_eqb x y
  | ErrorCode x, ErrorCode y => x =? y
  | AMI k, AMI j | ASHA k, ASHA j => keyd_same k j
  | AFP x, AFP y => Bool.eqb x y
  | _, _ => false
  end.
(* integrity / fingerprint attributes are the final attributes, in the order MI, SHA256, FINGERPRINT, each at most once *)
Fixpoint tail_ok (l:list attr) : bool :=
  match l with
  | [] => true
  | a :: r =>
      if a_is_mi a then forallb (fun x => a_is_sha x || a_is_fp x) r && tail_ok r
      else if a_is_sha a then forallb a_is_fp r && tail_ok r
      else if a_is_fp a then match r with [] => true | _ => false end
      else tail_ok r
  end.
Fixpoint types_nodup (l:list attr) : bool :=
  match l with [] => true | a :: r => negb (existsb (fun x => wire_type x =? wire_type a) r) && types_nodup r end.

Definition mon_C13 (c:ccfg) (op:mop) (o:obs) : bool :=
  let chk (is_req:bool) (method:N) (app:list attr) :=
    match first_out o with
    | None => true
    | Some None => false
    | Some (Some p) =>
        class_eqb (m_class p) (if is_req then CRequest else CIndication) && (m_method p =? method)
        && types_nodup (m_attrs p) && tail_ok (m_attrs p)
        && is_prefix (app_expected (cc_mech c) (cc_fp c) app)
                     (filter (fun a => negb (is_integ a || a_is_fp a)) (m_attrs p)) attr_eqb
        (* whatever integrity the mechanism adds verifies under the configured credentials; FINGERPRINT is right *)
        && forallb (fun a => match a with
                             | AMI k | ASHA k => if cc_mech c =? 0 then true
                                                 else match k with KST 0 => negb (cc_mech c =? 4) | KLT _ 0 _ => cc_mech c =? 4 | _ => false end
                             | AFP g => g
                             | _ => true end) (m_attrs p)
    end in
  match op with
  | MSend _ _ _ method app => chk true method app
  | MInd method app => chk false method app
  | _ => forallb (fun e => match e with EOut _ true _ _ => false | EOut _ false same _ => same | _ => true end) (ob_events o)
  end.

(* ---- C07: short-term credentials *)
Record st_mon := { sm_agreed : option integ }.
Definition valid_st (o:option attr) : bool := match o with Some (AMI (KST 0)) | Some (ASHA (KST 0)) => true | _ => false end.
Definition mon_C07 (c:ccfg) (s:st_mon) (kbefore:list N) (op:mop) (o:obs) : st_mon * bool :=
  if negb ((1 <=? cc_mech c) && (cc_mech c <=? 3)) then (s, true) else
  match op with
  | MRecv _ _ m =>
      let P := rfc_filter (m_attrs m) in
      let mi := find a_is_mi P in let sha := find a_is_sha P in
      match delivered o with
      | Some (cl, _) =>
          let resp := negb (class_eqb cl CIndication) in
          let both := (match mi with Some _ => true | None => false end) && (match sha with Some _ => true | None => false end) in
          let ok := match sm_agreed s with
                    | Some IMI => valid_st mi
                    | Some ISHA => valid_st sha
                    | None => valid_st mi || valid_st sha
                    end && negb (resp && both) in
          let s' := if resp then match sm_agreed s with
                                 | None => {| sm_agreed := Some (if valid_st mi then IMI else ISHA) |}
                                 | _ => s end else s in
          (s', ok)
      | None =>
          (* a response that fails authentication ends the transaction at once on reliable transport only *)
          (s, forallb (fun e => match e with EFail _ ProtectionViolated => cc_reliable c | EFail _ _ => false | ERetry' _ => false | _ => true end) (ob_events o))
      end
  | MSend _ _ _ _ _ | MInd _ _ =>
      (s, match first_out o with
          | Some (Some p) =>
              (count_ty 6 (m_attrs p) =? 1) && existsb (fun a => attr_eqb a (UserName 0)) (m_attrs p) &&
              match sm_agreed s with
              | Some IMI => existsb (fun a => attr_eqb a (AMI (KST 0))) (m_attrs p) && negb (existsb a_is_sha (m_attrs p))
              | Some ISHA => existsb (fun a => attr_eqb a (ASHA (KST 0))) (m_attrs p) && negb (existsb a_is_mi (m_attrs p))
              | None => existsb (fun a => attr_eqb a (AMI (KST 0))) (m_attrs p) && existsb (fun a => attr_eqb a (ASHA (KST 0))) (m_attrs p)
              end
          | Some None => false
          | None => true end)
  | MTmo _ =>
      (* the final failure is protection-violated exactly for the requests one of whose responses failed authentication *)
      (s, forallb (fun e => match e with
                            | EFail i TimedOut => negb (memN i kbefore)
                            | EFail i ProtectionViolated => memN i kbefore
                            | _ => true end) (ob_events o))
  end.

(* ---- C08: long-term credentials; an RFC 8489 9.2.4 server *)
Record lt_mon := { lm_challenged : bool;                 (* a 401 has been processed (Retry told) *)
                   lm_realm : N; lm_nonce : N * N; lm_algs : option (list alg); lm_anon : bool;
                   lm_last : N }.                          (* 0 nothing, 1 last retry was a 401, 2 a 438, 3 authenticated *)
Definition lt_mon0 := {| lm_challenged := false; lm_realm := 0; lm_nonce := (0,0); lm_algs := None; lm_anon := false; lm_last := 0 |}.
Definition cookie_bit_algs (c:N) : bool := (c =? 2) || (c =? 4).
Definition cookie_bit_anon (c:N) : bool := (c =? 3) || (c =? 4).
Definition get_realm (l:list attr) := match find (fun a => match a with Realm _ => true | _ => false end) l with Some (Realm r) => Some r | _ => None end.
Definition get_nonce (l:list attr) := match find (fun a => match a with Nonce _ _ => true | _ => false end) l with Some (Nonce n c) => Some (n,c) | _ => None end.
Definition get_algs (l:list attr) := match find (fun a => match a with PwdAlgs _ => true | _ => false end) l with Some (PwdAlgs x) => Some x | _ => None end.
Definition get_alg (l:list attr) := match find (fun a => match a with PwdAlg _ => true | _ => false end) l with Some (PwdAlg x) => Some x | _ => None end.
Definition get_code (l:list attr) := match find (fun a => match a with ErrorCode _ => true | _ => false end) l with Some (ErrorCode x) => Some x | _ => None end.

(* RFC 8489 9.2.4 acceptance of a request by the server that issued (realm, nonce, algs) and whose security features
   (user-name anonymity) are those announced by the nonce cookie of its 401 challenge; 0 = accepted,
   1 = no integrity attribute (-> 401 again), 2 = PASSWORD-ALGORITHM(S) missing or not matching, 3 = other *)
Definition server_verdict (s:lt_mon) (req:list attr) : N :=
  let user_ok := if lm_anon s
                 then existsb (fun a => attr_eqb a (UserHash 0 (lm_realm s))) req && negb (existsb (fun a => wire_type a =? 6) req)
                 else existsb (fun a => attr_eqb a (UserName 0)) req && negb (existsb (fun a => wire_type a =? 30) req) in
  let rn_ok := (match get_realm req with Some r => r =? lm_realm s | None => false end)
               && (match get_nonce req with Some n => (fst n =? fst (lm_nonce s)) && (snd n =? snd (lm_nonce s)) | None => false end) in
  (* identity, realm and nonce are judged first so that the known classes below never mask another defect *)
  if negb (user_ok && rn_ok) then 3 else
  match find is_integ req with
  | None => 1
  | Some ia =>
      match lm_algs s with
      | None =>
          (* no list was offered: MD5 key, neither algorithm attribute expected *)
          match get_algs req, get_alg req with
          | None, None => if a_is_mi ia && keyd_eqb (mac_key ia) (KLT (lm_realm s) 0 MD5) then 0 else 3
          | _, _ => 2
          end
      | Some l =>
          match get_algs req, get_alg req with
          | Some l', Some a => if algs_eqb l l' && existsb (alg_eqb a) l
                               then (if a_is_sha ia && keyd_eqb (mac_key ia) (KLT (lm_realm s) 0 a) then 0 else 3)
                               else 2
          | _, _ => 2
          end
      end
  end.

Definition lt_cred_free (l:list attr) : bool :=
  forallb (fun a => negb (memN (wire_type a) [6; 30; 20; 21; 29; 32770; 8; 28])) l.

(* verdict code: 0 fine; 1 = request after a 401 carries no integrity (finding D6); 2 = request after a 438 lacks the
   algorithm attributes (finding D7); 9 = any other violation *)
Definition mon_C08 (c:ccfg) (s:lt_mon) (op:mop) (o:obs) : lt_mon * N :=
  if negb (cc_mech c =? 4) then (s, 0) else
  match op with
  | MSend _ _ _ _ _ =>
      (s, match first_out o with
          | None => 0
          | Some None => 9
          | Some (Some p) =>
              if negb (lm_challenged s) then (if lt_cred_free (m_attrs p) then 0 else 9)
              else match server_verdict s (m_attrs p) with
                   | 0 => 0
                   | 1 => if lm_last s =? 1 then 1 else 9
                   | 2 => if lm_last s =? 2 then 2 else 9
                   | _ => 9
                   end
          end)
  | MInd _ _ => (s, match ob_ret o with OIgnored => (match ob_events o with [] => 0 | _ => 9 end) | _ => 9 end)
  | MRecv _ _ m =>
      let P := rfc_filter (m_attrs m) in
      let retry := existsb (fun e => match e with ERetry' _ => true | _ => false end) (ob_events o) in
      let s' :=
        if retry then
          match get_code P with
          | Some 401 => match get_realm P, get_nonce P with
                        | Some r, Some n => {| lm_challenged := true; lm_realm := r; lm_nonce := n; lm_algs := get_algs P; lm_anon := cookie_bit_anon (snd n); lm_last := 1 |}
                        | _, _ => s end
          | Some 438 => match get_nonce P with
                        | Some n => {| lm_challenged := lm_challenged s; lm_realm := lm_realm s; lm_nonce := n; lm_algs := lm_algs s; lm_anon := lm_anon s; lm_last := 2 |}
                        | None => s end
          | _ => s
          end
        else match delivered o with
             | Some _ => {| lm_challenged := lm_challenged s; lm_realm := lm_realm s; lm_nonce := lm_nonce s; lm_algs := lm_algs s; lm_anon := lm_anon s; lm_last := 3 |}
             | None => s end in
      let ok :=
        (* a retry is only told for a 401 with realm and nonce, or a 438 with a nonce once challenged *)
        (if retry then match get_code P with
                       | Some 401 => (match get_realm P, get_nonce P with Some _, Some _ => true | _, _ => false end)
                       | Some 438 => lm_challenged s && (match get_nonce P with Some _ => true | None => false end)
                       | _ => false end else true)
        &&
        (* responses are delivered only if they verify under the derived key with the agreed integrity kind; indications never *)
        match delivered o with
        | Some (CIndication, _) => false
        | Some (_, _) =>
            lm_challenged s &&
            let a := match lm_algs s with None => MD5 | Some l => match choose_alg l None with Some x => x | None => MD5 end end in
            match lm_algs s with
            | None => match find a_is_mi P with Some ia => keyd_eqb (mac_key ia) (KLT (lm_realm s) 0 a) | None => false end
            | Some _ => match find a_is_sha P with Some ia => keyd_eqb (mac_key ia) (KLT (lm_realm s) 0 a) | None => false end
            end
        | None => true
        end in
      (s', if ok then 0 else 9)
  | MTmo _ => (s, 0)
  end.

(* ---- C15: RFC 6298 estimator (alpha = 1/8, beta = 1/4, K = 4, granularity G, no rounding up to a second), Karn's rule,
   staleness after more than ten minutes between consecutive requests. Fixed point: 1 unit = 2^-16 ns, so the rounding
   of this reference (at most 2^-16 ns per update) is far below the property's tolerance 1e-5 * RTO + 1 us. *)
Definition fx (ns:N) : N := ns * 65536.
Record rtt_mon := { rm_est : option (N * N);     (* srtt, rttvar; None = no sample since the start / the last reset *)
                    rm_last : option N;          (* instant of the latest request *)
                    rm_poisoned : bool }.        (* a sample arrived while SRTT was exactly zero: outside the property *)
Definition rtt_mon0 := {| rm_est := None; rm_last := None; rm_poisoned := false |}.
Definition absdiff (a b:N) : N := if a <? b then b - a else a - b.
Definition rfc6298_update (est:option (N*N)) (r:N) : option (N*N) :=
  match est with
  | None => Some (r, r / 2)
  | Some (srtt, rttvar) => Some ((7 * srtt + r) / 8, (3 * rttvar + absdiff srtt r) / 4)
  end.
Definition rfc6298_rto (c:ccfg) (est:option (N*N)) : N :=
  match est with
  | None => fx (cc_rto c)
  | Some (srtt, rttvar) => srtt + N.max (fx (cc_gran c)) (4 * rttvar)
  end.
Definition within_tolerance (observed expected:N) : bool :=
  absdiff observed expected <=? expected / 100000 + fx 1000.
Definition within_tolerance_scaled (k observed expected:N) : bool :=
  absdiff observed (k * expected) <=? k * (expected / 100000 + fx 1000).
Definition mon_C15 (mc:mcfg) (c:ccfg) (core:mstate) (s:rtt_mon) (op:mop) (o:obs) : rtt_mon * bool :=
  if cc_reliable c then (s, true) else
  match op with
  | MSend now id r _ _ =>
      match ob_ret o with
      | OOk =>
          let est := match rm_last s with
                     | Some l => if 600000000000 <? now - l then None else rm_est s
                     | None => rm_est s end in
          (* what is judged is the interval the request was actually ARMED with (the duration of its pending timer in
             the snapshot after the call), and the estimator value the hook reports as well *)
          let armed := match find (fun e => h_ident e =? id) (ob_H o) with Some e => snd e | None => r end in
          ({| rm_est := est; rm_last := Some now; rm_poisoned := rm_poisoned s |},
           (* with Rc = 1 there is no retransmission: the only timer is the final wait of Rm * RTO *)
           (* the armed timer of an Rc = 1 request is Rm times the interval: the property's tolerance on the interval scales with it *)
           rm_poisoned s || (within_tolerance (fx r) (rfc6298_rto c est)
                             && within_tolerance_scaled (if mc_rc mc =? 1 then mc_rm mc else 1) (fx armed) (rfc6298_rto c est)))
      | _ => (s, true)
      end
  | MRecv now _ _ =>
      (* every transaction completed by this response without having been retransmitted contributes its response time *)
      let s' := fold_left (fun st i =>
                  match find_sent i core with
                  | Some x => if s_ntx x =? 1
                              then (* a response time of zero IS a sample (first sample 0: SRTT = 0, RTTVAR = 0, RTO = G). What is outside
                                      the property is a FURTHER sample once SRTT is exactly zero: the implementation encodes "no sample
                                      yet" as SRTT = 0 and would treat it as a first sample again; judging stops there *)
                                   (match rm_est st with
                                    | Some (0, _) => {| rm_est := rm_est st; rm_last := rm_last st; rm_poisoned := true |}
                                    | _ => {| rm_est := rfc6298_update (rm_est st) (fx (now - s_t0 x)); rm_last := rm_last st; rm_poisoned := rm_poisoned st |}
                                    end)
                              else st
                  | None => st end) (finals (ob_events o)) s in
      (s', true)
  | _ => (s, true)
  end.

(* ---- C06, "a request first sent at t0 with retransmission timeout RTO ... with the defaults this is 0, 500, 1500, ...":
   while no response time has been measured (since the start, or since the estimator went stale after more than ten minutes
   without a request) the timeout in effect IS the configured RTO, exactly: the request is armed with it (with Rm times it
   when Rc = 1: the only timer is then the final wait). mon_C06 judges the schedule relative to the timeout in effect;
   this clause pins the timeout in effect where the property names it. `s` is the C15 monitor state before the call. *)
Definition mon_C06_initial (mc:mcfg) (c:ccfg) (s:rtt_mon) (op:mop) (o:obs) : bool :=
  (* "first sent at t0" / "over a reliable transport it is transmitted once": an accepted request IS transmitted in that call *)
  (match op, ob_ret o with
   | MSend _ _ _ _ _, OOk => match first_out o with Some _ => true | None => false end
   | _, _ => true end) &&
  if cc_reliable c then true else
  match op, ob_ret o with
  | MSend now id r _ _, OOk =>
      let est := match rm_last s with
                 | Some l => if 600000000000 <? now - l then None else rm_est s
                 | None => rm_est s end in
      match est with
      | None =>
          let armed := match find (fun e => h_ident e =? id) (ob_H o) with Some e => snd e | None => r end in
          rm_poisoned s || ((r =? cc_rto c) && (armed =? (if mc_rc mc =? 1 then mc_rm mc else 1) * cc_rto c))
      | Some _ => true
      end
  | _, _ => true
  end.

(* ---- C08, "after the server's 401 challenge the application is told to retry ... a 438 reply switches to the new nonce":
   the IF direction (mon_C08 judges the ONLY-IF: a retry is told for nothing else). A PLAIN challenge — a decodable error
   response to an outstanding request whose protected attributes carry, first of their kind, ERROR-CODE 401 with REALM and
   NONCE (or 438 with a NONCE once the client has been challenged), no integrity attribute anywhere (so there is nothing to
   verify), PASSWORD-ALGORITHMS exactly when the nonce cookie announces them and then with a supported algorithm, and the
   valid FINGERPRINT a fingerprint-checking client insists on — must produce the retry notification for that request.
   `core` / `s`: schedule and long-term monitor states BEFORE the call. *)
Definition plain_challenge (fp:bool) (challenged:bool) (outstanding:bool) (dec:bool) (m:msg) : bool :=
  let P := rfc_filter (m_attrs m) in
  dec && outstanding
  && (match m_class m with CError => true | _ => false end)
  && negb (existsb is_integ P)
  && (if fp then match find a_is_fp P with Some (AFP true) => true | _ => false end else true)
  && (match get_nonce P with
      | Some n => let bit := (snd n =? 2) || (snd n =? 4) in
                  match get_algs P with
                  | None => negb bit
                  | Some l => match choose_alg l None with Some _ => true | None => false end
                  end
      | None => false end)
  && (match get_code P with
      | Some 401 => match get_realm P with Some _ => true | None => false end
      | Some 438 => challenged
      | _ => false end).
Definition mon_C08_retry (c:ccfg) (core:mstate) (s:lt_mon) (op:mop) (o:obs) : bool :=
  if negb (cc_mech c =? 4) then true else
  match op with
  | MRecv _ dec m =>
      if plain_challenge (cc_fp c) (lm_challenged s) (memN (m_id m) (live core)) dec m
      then existsb (fun e => match e with ERetry' i => i =? m_id m | _ => false end) (ob_events o)
      else true
  | _ => true
  end.

(* ---- C07, the IF direction of "a response whose integrity value is wrong or absent ends the transaction with a
   protection-violated failure on reliable transport; on unreliable transport it is ignored, retransmissions continue, and
   ... the final failure is reported as protection violated" (mon_C07 judges what MAY happen; this clause what MUST):
   a decodable response for an outstanding request (with the valid FINGERPRINT a fingerprint-checking client insists on)
   whose protected attributes do not carry both integrity kinds (that case is rejected outright) and whose integrity
   attribute of the kind in force — the agreed one; MESSAGE-INTEGRITY, else MESSAGE-INTEGRITY-SHA256, while none is agreed
   — is absent or keyed with anything but the configured password, must
     - on reliable transport: fail that request with ProtectionViolated in this very call;
     - on unreliable transport: produce no event and leave the request marked (so that mon_C07's timer clause turns its
       eventual time-out into ProtectionViolated).
   `core` / `s`: schedule and short-term monitor states BEFORE the call. *)
Definition mon_C07_reject (c:ccfg) (core:mstate) (s:st_mon) (op:mop) (o:obs) : bool :=
  if negb ((1 <=? cc_mech c) && (cc_mech c <=? 3)) then true else
  match op with
  | MRecv _ dec m =>
      let P := rfc_filter (m_attrs m) in
      let mi := find a_is_mi P in let sha := find a_is_sha P in
      let both := (match mi with Some _ => true | None => false end) && (match sha with Some _ => true | None => false end) in
      let pick := match sm_agreed s with
                  | Some IMI => mi | Some ISHA => sha
                  | None => match mi with Some _ => mi | None => sha end end in
      if dec && memN (m_id m) (live core)
         && (match m_class m with CSuccess | CError => true | _ => false end)
         && (if cc_fp c then match find a_is_fp P with Some (AFP true) => true | _ => false end else true)
         && negb both && negb (valid_st pick)
      then if cc_reliable c
           then existsb (fun e => match e with EFail i ProtectionViolated => i =? m_id m | _ => false end) (ob_events o)
           else (match ob_events o with [] => true | _ => false end) && memN (m_id m) (ob_K o)
      else true
  | _ => true
  end.

(* ---- C17, "when the client rejects a received buffer (undecodable bytes, ...)": bytes that are not a STUN message (broken
   cookie, a length field beyond the buffer or not a multiple of four) ARE rejected, and for them there is no exception: no
   event, the snapshot unchanged, and the marker set unchanged too (the documented marker is for a MESSAGE that fails
   authentication). mon_C17 judges every rejection; this clause adds that such a buffer must be one. *)
Definition mon_C17_undecodable (s:mstate) (op:mop) (o:obs) : bool :=
  match op with
  | MRecv _ false _ =>
      (match ob_ret o with OOk => false | _ => true end)
      && (match ob_events o with [] => true | _ => false end) && ob_same o
      && subsetb (ob_K o) (ms_K s) && subsetb (ms_K s) (ob_K o)
  | _ => true
  end.

(* verdicts: (property number, ok, class code) *)
Record mall := { ma_core : mstate; ma_st : st_mon; ma_lt : lt_mon; ma_rtt : rtt_mon }.
Definition mall0 (c:ccfg) : mall :=
  {| ma_core := mstate0;
     ma_st := {| sm_agreed := if cc_mech c =? 2 then Some IMI else if cc_mech c =? 3 then Some ISHA else None |};
     ma_lt := lt_mon0; ma_rtt := rtt_mon0 |}.
Definition monitor_step (c:mcfg) (cc:ccfg) (s:mall) (op:mop) (o:obs) : mall * list (N * bool * N) :=
  let core := ma_core s in
  let core' := next_state core op o in
  let '(st', v07) := mon_C07 cc (ma_st s) (ms_marked core) op o in
  let '(lt', v08) := mon_C08 cc (ma_lt s) op o in
  let '(rt', v15) := mon_C15 c cc core (ma_rtt s) op o in
  ({| ma_core := core'; ma_st := st'; ma_lt := lt'; ma_rtt := rt' |},
   [(5, mon_C05 core core' o, 0); (6, mon_C06 c core op o, 0); (11, mon_C11 core' op o, 0); (12, mon_C12 c core op o, 0);
    (17, mon_C17 c core op o, 0); (3, match ob_ret o with OPanic => false | _ => true end, 0);
    (7, v07, 0); (8, v08 =? 0, v08); (10, mon_C10 cc op o, 0); (13, mon_C13 cc op o, 0); (15, v15, 0)]).

(* C08, last clause: "the password never appears on the wire". The harness searches every emitted packet for the bytes of
   the configured password (fact pwleak); the verdict is the negation. (At the abstract level no attribute of a prepared
   request carries a password token other than inside a key descriptor: AgentMech.) *)
Definition mon_C08_secret (leak:bool) : bool := negb leak.

(* C13, "each verifying under the configured credentials", for the long-term mechanism: the integrity attribute of a request
   must be keyed with the key the SERVER of the latest accepted challenge derives — MD5 or the negotiated algorithm of
   (configured user, that realm, configured password) — and be of the kind that challenge calls for. `s` is the long-term
   monitor state BEFORE the call (realm / algorithms of the latest challenge the client was told to retry for). A request
   without integrity is not judged here (that is the known finding D6, judged under C08). Kept separate from mon_C13 so
   that monitor_step and the theorems about it are unchanged; run by the driver next to it. *)
Definition lt_expected_alg (s:lt_mon) : alg :=
  match lm_algs s with None => MD5 | Some l => match choose_alg l None with Some a => a | None => MD5 end end.
Definition mon_C13_ltkey (c:ccfg) (s:lt_mon) (op:mop) (o:obs) : bool :=
  if negb (cc_mech c =? 4) || negb (lm_challenged s) then true else
  match op with
  | MSend _ _ _ _ _ =>
      match first_out o with
      | Some (Some p) =>
          forallb (fun a => match a with
                            | AMI k => (match lm_algs s with None => true | Some _ => false end) && keyd_eqb k (KLT (lm_realm s) 0 (lt_expected_alg s))
                            | ASHA k => (match lm_algs s with None => false | Some _ => true end) && keyd_eqb k (KLT (lm_realm s) 0 (lt_expected_alg s))
                            | _ => true end) (m_attrs p)
      | _ => true
      end
  | _ => true
  end.

(* C13, "then the credential attributes the mechanism requires", for the long-term mechanism: once challenged, every request
   carries the identity the latest accepted challenge asked for (USERNAME, or USERHASH under anonymity), that challenge's
   REALM and the NONCE of the latest challenge / stale-nonce reply the client ACCEPTED (was told to retry for): values
   taken from a reply the client discarded must never show up. This is the identity / realm / nonce part of
   server_verdict (C08), judged under C13 as well; run by the driver next to mon_C13. *)
Definition mon_C13_ltcred (c:ccfg) (s:lt_mon) (op:mop) (o:obs) : bool :=
  if negb (cc_mech c =? 4) || negb (lm_challenged s) then true else
  match op with
  | MSend _ _ _ _ _ =>
      match first_out o with
      | Some (Some p) =>
          let req := m_attrs p in
          (if lm_anon s
           then existsb (fun a => attr_eqb a (UserHash 0 (lm_realm s))) req && negb (existsb (fun a => wire_type a =? 6) req)
           else existsb (fun a => attr_eqb a (UserName 0)) req && negb (existsb (fun a => wire_type a =? 30) req))
          && (match get_realm req with Some r => r =? lm_realm s | None => false end)
          && (match get_nonce req with Some n => (fst n =? fst (lm_nonce s)) && (snd n =? snd (lm_nonce s)) | None => false end)
      | _ => true
      end
  | _ => true
  end.
