(* The agent properties as monitors over an OBSERVED history of the implementation: what was called, what it returned,
   which events it produced and what the hook snapshot showed. Written from the property texts (C05, C06, C11, C12, C17),
   not from the code; the only model definitions used are the RFC schedule `slot` and the event vocabulary. *)
From Coq Require Import List NArith Lia Bool.
Import ListNotations.
From Rustun Require Import Agent.Rto Agent.Model.
Open Scope N_scope.

Inductive oret := OOk | OMaxOut | ODiscarded | OIgnored | OStunCheck | OInternal | OPanic | OOther.
Inductive oev :=
| EOut (id:N) (first:bool) (same:bool)      (* same: byte-identical to the first transmission (retransmissions) *)
| ETmo (id lft:N)
| ERetry' (id:N)
| EFail (id:N) (r:reason)
| ERecv (c:mclass) (id:N).
Record obs := { ob_ret : oret; ob_events : list oev;
                ob_T : list N;                 (* outstanding ids in the snapshot *)
                ob_H : list (N*N*N);           (* pending timeouts: id, armed_at, duration *)
                ob_K : list N;                 (* marked ids *)
                ob_same : bool }.              (* T, H and mechanism part of the snapshot equal to the previous call's *)
Inductive mop := MSend (now id r:N) | MInd | MRecv (now:N) | MTmo (now:N).

Record sent := { s_id : N; s_t0 : N; s_r : N; s_ntx : N }.
Record mstate := { ms_sent : list sent; ms_fin : list N; ms_K : list N }.
Definition mstate0 := {| ms_sent := []; ms_fin := []; ms_K := [] |}.
Record mcfg := { mc_reliable : bool; mc_rm : N; mc_rc : N; mc_limit : N }.

Definition memN (x:N) (l:list N) : bool := existsb (N.eqb x) l.
Definition live (s:mstate) : list N := filter (fun i => negb (memN i (ms_fin s))) (map s_id (ms_sent s)).
Definition final_id (e:oev) : option N :=
  match e with
  | ERetry' i | EFail i _ => Some i
  | ERecv c i => match c with CSuccess | CError => Some i | _ => None end
  | _ => None
  end.
Fixpoint finals (l:list oev) : list N :=
  match l with [] => [] | e :: r => match final_id e with Some i => i :: finals r | None => finals r end end.
Fixpoint nodupb (l:list N) : bool := match l with [] => true | x :: r => negb (memN x r) && nodupb r end.
Definition subsetb (a b:list N) : bool := forallb (fun x => memN x b) a.
Definition other_id (e:oev) : option N :=
  match e with EOut i false _ => Some i | ETmo i _ => Some i | _ => None end.

(* C05: at most one final outcome per request, only for requests still awaiting one; nothing for a finished request *)
Definition mon_C05 (s s_after:mstate) (o:obs) : bool :=
  let f := finals (ob_events o) in
  let lv := live s in
  nodupb f && subsetb f lv &&
  forallb (fun e => match e with
                    | EOut i false _ => memN i lv && negb (memN i f)
                    | ETmo i _ => memN i (live s_after)
                    | _ => true end) (ob_events o).

(* C12: refusal exactly at the limit, a refused request changes nothing; the count never exceeds the limit *)
Definition mon_C12 (c:mcfg) (s:mstate) (op:mop) (o:obs) : bool :=
  let n := N.of_nat (length (live s)) in
  (n <=? mc_limit c) &&
  match op with
  | MSend _ _ _ =>
      match ob_ret o with
      | OMaxOut => (n =? mc_limit c) && (match ob_events o with [] => true | _ => false end) && ob_same o
      | OOk => n <? mc_limit c
      | _ => n <? mc_limit c          (* other failures (small buffer) must not be reported at the limit *)
      end
  | _ => true
  end.

(* C17: a rejected buffer changes nothing (except the documented marker on unreliable transport) *)
Definition mon_C17 (c:mcfg) (s:mstate) (op:mop) (o:obs) : bool :=
  match op with
  | MRecv _ =>
      match ob_ret o with
      | OOk => true
      | _ => (match ob_events o with [] => true | _ => false end) && ob_same o &&
             (if mc_reliable c then subsetb (ob_K o) (ms_K s) && subsetb (ms_K s) (ob_K o)
              else subsetb (ms_K s) (ob_K o) && (N.of_nat (length (ob_K o)) <=? N.of_nat (length (ms_K s)) + 1)
                   && subsetb (ob_K o) (ms_K s ++ live s))
      end
  | _ => true
  end.

(* C11: after a send or a timer call a notification is issued exactly when something is outstanding; it names an
   outstanding request with the earliest pending expiry and the time left until it (zero if overdue) *)
Definition expiry (e:N*N*N) : N := snd (fst e) + snd e.
Definition h_ident (e:N*N*N) : N := fst (fst e).
Definition mon_C11 (s_after:mstate) (op:mop) (o:obs) : bool :=
  let now_notify := match op, ob_ret o with MSend now _ _, OOk => Some now | MTmo now, _ => Some now | _, _ => None end in
  match now_notify with
  | None => forallb (fun e => match e with ETmo _ _ => false | _ => true end) (ob_events o)
  | Some now =>
      let lv := live s_after in
      let tm := filter (fun e => match e with ETmo _ _ => true | _ => false end) (ob_events o) in
      match lv, tm with
      | [], [] => true
      | _ :: _, [ETmo i lft] =>
          memN i lv &&
          match find (fun e => h_ident e =? i) (ob_H o) with
          | None => false
          | Some e => forallb (fun x => expiry e <=? expiry x) (ob_H o) && (lft =? expiry e - now)
          end
          (* one pending entry per outstanding request *)
          && subsetb lv (map h_ident (ob_H o)) && subsetb (map h_ident (ob_H o)) lv && nodupb (map h_ident (ob_H o))
      | _, _ => false
      end
  end.

(* C06: RFC 8489 schedule. ntx = transmissions so far; the (k+1)-th transmission happens at or after t0 + slot k; at most
   Rc transmissions (one on reliable transport), all identical; a time-out (or protection-violated at the deadline) is
   reported at the first timer call at or after t0 + deadline and never earlier *)
Definition rc_of (c:mcfg) : N := if mc_reliable c then 1 else mc_rc c.
Definition rm_of (c:mcfg) : N := if mc_reliable c then 1 else mc_rm c.
Definition find_sent (i:N) (s:mstate) : option sent := find (fun x => s_id x =? i) (ms_sent s).
Definition mon_C06 (c:mcfg) (s:mstate) (op:mop) (o:obs) : bool :=
  match op with
  | MTmo now =>
      forallb (fun e =>
        match e with
        | EOut i false same =>
            match find_sent i s with
            | Some x => same && (s_ntx x <? rc_of c) && (s_t0 x + slot (s_r x) (rm_of c) (rc_of c) (s_ntx x) <=? now)
            | None => false
            end
        | EFail i r =>
            match r, find_sent i s with
            | DoNotRetry, _ => false
            | _, Some x => s_t0 x + slot (s_r x) (rm_of c) (rc_of c) (rc_of c) <=? now
            | _, None => false
            end
        | _ => true
        end) (ob_events o)
      && (* everything whose deadline has passed is failed in this very call *)
      forallb (fun i =>
        match find_sent i s with
        | Some x => if s_t0 x + slot (s_r x) (rm_of c) (rc_of c) (rc_of c) <=? now
                    then existsb (fun e => match e with EFail j _ => j =? i | _ => false end) (ob_events o)
                    else negb (existsb (fun e => match e with EFail j _ => j =? i | _ => false end) (ob_events o))
        | None => true
        end) (live s)
  | _ => forallb (fun e => match e with EOut _ false _ => false | EFail _ TimedOut => false | _ => true end) (ob_events o)
  end.

Definition bump (i:N) (l:list sent) : list sent :=
  map (fun x => if s_id x =? i then {| s_id := s_id x; s_t0 := s_t0 x; s_r := s_r x; s_ntx := s_ntx x + 1 |} else x) l.
Definition next_state (s:mstate) (op:mop) (o:obs) : mstate :=
  let sent1 := match op, ob_ret o with
               | MSend now id r, OOk => {| s_id := id; s_t0 := now; s_r := r; s_ntx := 1 |} :: ms_sent s
               | _, _ => ms_sent s
               end in
  let sent2 := fold_left (fun l e => match e with EOut i false _ => bump i l | _ => l end) (ob_events o) sent1 in
  {| ms_sent := sent2; ms_fin := finals (ob_events o) ++ ms_fin s; ms_K := ob_K o |}.

(* verdicts: C05, C06, C11, C12, C17, no-panic *)
Definition monitor_step (c:mcfg) (s:mstate) (op:mop) (o:obs) : mstate * list (N * bool) :=
  let s' := next_state s op o in
  (s', [(5, mon_C05 s s' o); (6, mon_C06 c s op o); (11, mon_C11 s' op o); (12, mon_C12 c s op o); (17, mon_C17 c s op o);
        (3, match ob_ret o with OPanic => false | _ => true end)]).
