(* Exact model of the f32 arithmetic used by stun-agent/src/rtt.rs through `Duration::mul_f32` (Rust 1.95:
   `Duration::from_secs_f32(rhs * self.as_secs_f32())`), for the values that occur there: positive, finite, normal.

   A positive binary32 value is a pair (m, e) denoting m * 2^e with 2^23 <= m < 2^24 (zero is (0, 0)); every operation
   computes the exact rational result and rounds it to nearest, ties to even (IEEE 754 default, what the hardware does for
   +, *, / and for the integer -> f32 conversions). Subnormals, infinities and NaN cannot arise: durations are below
   2^64 s and products are by the constants 0.125, 0.25, 0.75, 0.875, 4.0. *)
From Coq Require Import List NArith ZArith Bool.
Import ListNotations.
Open Scope N_scope.

Definition f32 := (N * Z)%type.
Definition fzero : f32 := (0, 0%Z).

Definition pow2 (k:N) : N := 2 ^ k.
(* number of bits of n (0 for 0) *)
Definition nbits (n:N) : N := match n with 0 => 0 | _ => N.log2 n + 1 end.

(* round n / d * 2^e (d > 0) to binary32: find the exponent x with 2^23 <= n / (d * 2^x') < 2^24, divide, round half to even *)
Definition round_div (num den:N) : N :=              (* round-half-even of num / den to an integer *)
  let q := num / den in
  let r := num mod den in
  if 2 * r <? den then q
  else if den <? 2 * r then q + 1
  else if N.even q then q else q + 1.
Definition rnd (n d:N) (e:Z) : f32 :=
  if n =? 0 then fzero
  else
    (* first guess of the shift from the bit lengths, then at most one correction *)
    let s := (Z.of_N (nbits n) - Z.of_N (nbits d) - 24)%Z in      (* quotient n / (d * 2^s) has 24 or 25 bits *)
    let quot (s:Z) : N := if (0 <=? s)%Z then n / (d * pow2 (Z.to_N s)) else (n * pow2 (Z.to_N (- s))) / d in
    let s := if pow2 24 <=? quot s then (s + 1)%Z else s in
    let s := if quot s <? pow2 23 then (s - 1)%Z else s in
    let m := if (0 <=? s)%Z then round_div n (d * pow2 (Z.to_N s)) else round_div (n * pow2 (Z.to_N (- s))) d in
    if m =? pow2 24 then (pow2 23, (e + s + 1)%Z) else (m, (e + s)%Z).

Definition of_nat_f32 (n:N) : f32 := rnd n 1 0%Z.                    (* u64 / u32 as f32 *)
Definition fmul (a b:f32) : f32 := rnd (fst a * fst b) 1 (snd a + snd b)%Z.
Definition fdiv (a b:f32) : f32 := rnd (fst a) (fst b) (snd a - snd b)%Z.
Definition fadd (a b:f32) : f32 :=
  let emin := Z.min (snd a) (snd b) in
  rnd (fst a * pow2 (Z.to_N (snd a - emin)) + fst b * pow2 (Z.to_N (snd b - emin))) 1 emin.

(* the constants of rtt.rs: ALPHA = 0.125, BETA = 0.25, 1.0 - ALPHA = 0.875, 1.0 - BETA = 0.75 (both subtractions are exact),
   K as f32 = 4.0 *)
Definition c_0125 : f32 := (pow2 23, (-26)%Z).
Definition c_025 : f32 := (pow2 23, (-25)%Z).
Definition c_075 : f32 := (3 * pow2 22, (-24)%Z).
Definition c_0875 : f32 := (7 * pow2 21, (-24)%Z).
Definition c_4 : f32 := (pow2 23, (-21)%Z).

Definition NANOS : N := 1000000000.
(* Duration::as_secs_f32: (secs as f32) + (nanos as f32) / (NANOS_PER_SEC as f32) *)
Definition as_secs_f32 (ns:N) : f32 := fadd (of_nat_f32 (ns / NANOS)) (fdiv (of_nat_f32 (ns mod NANOS)) (of_nat_f32 NANOS)).

(* Duration::try_from_secs_f32 (core::time, macro try_from_secs with mantissa_bits = 23, offset = 41): with
   exp = the unbiased exponent of the leading bit = e + 23,
     exp < -31          -> 0
     exp < 0            -> nanoseconds = round-half-even(value * 10^9)
     exp < 23           -> whole seconds + round-half-even(fraction * 10^9)
     exp < 64           -> whole seconds, no fraction
   (exp >= 64 is an error: unreachable for durations) *)
Definition from_secs_f32 (x:f32) : N :=
  let '(m, e) := x in
  if m =? 0 then 0
  else
    let exp := (e + 23)%Z in
    if (exp <? -31)%Z then 0
    else if (exp <? 0)%Z then round_div (m * NANOS) (pow2 (Z.to_N (- e)))
    else if (exp <? 23)%Z then
      let secs := m / pow2 (Z.to_N (- e)) in
      let frac := m mod pow2 (Z.to_N (- e)) in
      secs * NANOS + round_div (frac * NANOS) (pow2 (Z.to_N (- e)))
    else m * pow2 (Z.to_N e) * NANOS.

(* Duration::mul_f32 on nanosecond counts *)
Definition mul_f32 (ns:N) (c:f32) : N := from_secs_f32 (fmul c (as_secs_f32 ns)).

(* ---- RttCalcuator (rtt.rs): state in nanoseconds *)
Record rtt_calc := { rc_rto : N; rc_srtt : N; rc_rttvar : N; rc_gran : N; rc_conf : N }.
Definition rtt_new (rto gran:N) : rtt_calc := {| rc_rto := rto; rc_srtt := 0; rc_rttvar := 0; rc_gran := gran; rc_conf := rto |}.
Definition rtt_reset (s:rtt_calc) : rtt_calc :=
  {| rc_rto := rc_conf s; rc_srtt := 0; rc_rttvar := 0; rc_gran := rc_gran s; rc_conf := rc_conf s |}.
Definition absdiffN (a b:N) : N := if a <? b then b - a else a - b.
Definition rtt_update (s:rtt_calc) (r:N) : rtt_calc :=
  if rc_srtt s =? 0 then
    let rttvar := r / 2 in
    {| rc_rto := r + N.max (rc_gran s) (rttvar * 4); rc_srtt := r; rc_rttvar := rttvar; rc_gran := rc_gran s; rc_conf := rc_conf s |}
  else
    let rttvar := mul_f32 (rc_rttvar s) c_075 + mul_f32 (absdiffN (rc_srtt s) r) c_025 in
    let srtt := mul_f32 (rc_srtt s) c_0875 + mul_f32 r c_0125 in
    {| rc_rto := srtt + N.max (rc_gran s) (mul_f32 rttvar c_4); rc_srtt := srtt; rc_rttvar := rttvar; rc_gran := rc_gran s; rc_conf := rc_conf s |}.
