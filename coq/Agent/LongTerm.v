From Coq Require Import List NArith Lia Bool.
Import ListNotations.

(* Long-term credential mechanism (lt_cred_mech.rs), request side, over abstract attribute values.
   Strings are tokens (N); a key is the tuple it is derived from; a MAC verifies iff it was made with the verifier's key. *)
Inductive alg := MD5 | SHA256 | Other (n:N).
Definition alg_eqb (a b:alg) : bool := match a, b with MD5, MD5 | SHA256, SHA256 => true | Other x, Other y => N.eqb x y | _, _ => false end.
Lemma alg_eqb_refl a : alg_eqb a a = true. Proof. destruct a; cbn; auto using N.eqb_refl. Qed.
Definition key := (N * N * N * alg)%type.                 (* user, realm, password, algorithm *)
Inductive integ := MI | SHA.
Inductive attr :=
| UserName (u:N) | UserHash (u realm:N) | Realm (r:N) | Nonce (n:N)
| PwdAlgs (l:list alg) | PwdAlg (a:alg) | Integrity (i:integ) (k:key) | App (kind:N).

(* StunAttributes (message.rs): ordinary attributes replace-in-place or push; integrity slots go last *)
Definition same_kind (a b:attr) : bool :=
  match a, b with
  | UserName _, UserName _ | UserHash _ _, UserHash _ _ | Realm _, Realm _ | Nonce _, Nonce _
  | PwdAlgs _, PwdAlgs _ | PwdAlg _, PwdAlg _ => true
  | App x, App y => N.eqb x y
  | _, _ => false end.
Record attrs := { ord : list attr; mi : option attr; sha : option attr }.
Fixpoint replace_or_push (a:attr) (l:list attr) : list attr :=
  match l with [] => [a] | x :: r => if same_kind x a then a :: r else x :: replace_or_push a r end.
Definition add (a:attr) (s:attrs) : attrs :=
  match a with
  | Integrity MI _ => {| ord := ord s; mi := Some a; sha := sha s |}
  | Integrity SHA _ => {| ord := ord s; mi := mi s; sha := Some a |}
  | _ => {| ord := replace_or_push a (ord s); mi := mi s; sha := sha s |}
  end.
Definition is_cred (a:attr) : bool := match a with App _ => false | _ => true end.
Definition strip (s:attrs) : attrs := {| ord := filter (fun a => negb (is_cred a)) (ord s); mi := None; sha := None |}.
Definition flatten (s:attrs) : list attr := ord s ++ match mi s with Some a => [a] | None => [] end ++ match sha s with Some a => [a] | None => [] end.

(* cached challenge parameters (LongTermCredentialAttributes) *)
Record params := { p_realm : N; p_nonce : N; p_algs : option (list alg); p_alg : option alg; p_key : key; p_anon : bool; p_integ : integ }.
Inductive state := First | Retry401 | Retry438 | Subsequent.
Record client := { user : N; pass : N; st : state; pr : option params }.

Definition add_user (c:client) (p:params) (s:attrs) := add (if p_anon p then UserHash (user c) (p_realm p) else UserName (user c)) s.
Definition add_opt (o:option attr) (s:attrs) := match o with Some a => add a s | None => s end.
Definition prepare (c:client) (app:attrs) : option attrs :=
  match st c, pr c with
  | First, _ => Some (strip app)
  | Retry401, Some p =>     (* lt_cred_mech.rs:156-191: no integrity *)
      Some (add_opt (option_map PwdAlg (p_alg p)) (add_opt (option_map PwdAlgs (p_algs p)) (add (Nonce (p_nonce p)) (add (Realm (p_realm p)) (add_user c p (strip app))))))
  | Retry438, Some p =>     (* lt_cred_mech.rs:193-223: no algorithms *)
      Some (add (Integrity (p_integ p) (p_key p)) (add (Nonce (p_nonce p)) (add (Realm (p_realm p)) (add_user c p (strip app)))))
  | Subsequent, Some p =>
      Some (add (Integrity (p_integ p) (p_key p)) (add_opt (option_map PwdAlg (p_alg p)) (add_opt (option_map PwdAlgs (p_algs p))
              (add (Nonce (p_nonce p)) (add (Realm (p_realm p)) (add_user c p (strip app)))))))
  | _, None => None
  end.

(* what create_long_term_auth_attrs guarantees about cached parameters *)
Definition chosen (p:params) : alg := match p_alg p with Some a => a | None => MD5 end.
Definition ParamsOK (c:client) (p:params) : Prop :=
  p_key p = (user c, p_realm p, pass c, chosen p)
  /\ (p_integ p = SHA <-> p_algs p <> None)
  /\ (forall a, p_alg p = Some a -> exists l, p_algs p = Some l /\ In a l /\ (a = MD5 \/ a = SHA256))
  /\ (p_algs p <> None -> p_alg p <> None).

(* RFC 8489 9.2.4, server side: realm, current nonce, the algorithm list it sent (None = none), whether the nonce
   cookie carries the "password algorithms" bit, and the user database entry *)
Record server := { s_realm : N; s_nonce : N; s_algs : option (list alg); s_bit : bool; s_user : N; s_pass : N }.
Definition find {A} (f:attr -> option A) (l:list attr) : option A :=
  fold_right (fun a acc => match f a with Some x => Some x | None => acc end) None l.
Definition get_integ l := find (fun a => match a with Integrity i k => Some (i,k) | _ => None end) l.
Definition get_user l := find (fun a => match a with UserName u => Some (u, false) | UserHash u _ => Some (u, true) | _ => None end) l.
Definition get_realm l := find (fun a => match a with Realm r => Some r | _ => None end) l.
Definition get_nonce l := find (fun a => match a with Nonce r => Some r | _ => None end) l.
Definition get_algs l := find (fun a => match a with PwdAlgs r => Some r | _ => None end) l.
Definition get_alg l := find (fun a => match a with PwdAlg r => Some r | _ => None end) l.
Fixpoint algs_eqb (a b:list alg) : bool := match a, b with [], [] => true | x::a', y::b' => alg_eqb x y && algs_eqb a' b' | _, _ => false end.
Definition key_eqb (a b:key) : bool :=
  let '(u1,r1,p1,a1) := a in let '(u2,r2,p2,a2) := b in N.eqb u1 u2 && N.eqb r1 r2 && N.eqb p1 p2 && alg_eqb a1 a2.

Definition accepts (s:server) (req:list attr) : bool :=
  match get_integ req, get_user req with
  | Some (_, k), Some (u, _) =>
      match get_realm req, get_nonce req with
      | Some _, Some n =>
          let alg_ok :=
            if s_bit s then
              match get_algs req, get_alg req with
              | None, None => Some MD5
              | Some l, Some a => match s_algs s with
                                  | Some sl => if algs_eqb l sl && existsb (alg_eqb a) l then Some a else None
                                  | None => None end
              | _, _ => None
              end
            else Some MD5 in
          match alg_ok with
          | Some a => N.eqb n (s_nonce s) && N.eqb u (s_user s) && key_eqb k (s_user s, s_realm s, s_pass s, a)
          | None => false
          end
      | _, _ => false
      end
  | _, _ => false
  end.

(* D6 and D7 as theorems about the faithful model *)
Definition ex_server := {| s_realm := 1; s_nonce := 2; s_algs := Some [MD5; SHA256]; s_bit := true; s_user := 7; s_pass := 9 |}.
Definition ex_params := {| p_realm := 1; p_nonce := 2; p_algs := Some [MD5; SHA256]; p_alg := Some SHA256; p_key := (7%N, 1%N, 9%N, SHA256); p_anon := false; p_integ := SHA |}.
Definition empty := {| ord := []; mi := None; sha := None |}.
Example C08_retry401_refuted :
  option_map (fun a => accepts ex_server (flatten a)) (prepare {| user := 7; pass := 9; st := Retry401; pr := Some ex_params |} empty) = Some false.
Proof. vm_compute. reflexivity. Qed.
Example C08_retry438_refuted :
  option_map (fun a => accepts ex_server (flatten a)) (prepare {| user := 7; pass := 9; st := Retry438; pr := Some ex_params |} empty) = Some false.
Proof. vm_compute. reflexivity. Qed.
Example C08_subsequent_example :
  option_map (fun a => accepts ex_server (flatten a)) (prepare {| user := 7; pass := 9; st := Subsequent; pr := Some ex_params |} empty) = Some true.
Proof. vm_compute. reflexivity. Qed.

(* ---------- the general statement: requests formed in SubsequentRequest state are accepted ---------- *)
Lemma push_fresh a : forall l, (forall x, In x l -> same_kind x a = false) -> replace_or_push a l = l ++ [a].
Proof.
  induction l as [|x l IH]; intros H; cbn [replace_or_push app]; [reflexivity|].
  rewrite (H x (or_introl eq_refl)). f_equal. apply IH. intros y Hy. apply H. right. exact Hy.
Qed.
Lemma find_app {A} (f:attr -> option A) l1 l2 : (forall x, In x l1 -> f x = None) -> find f (l1 ++ l2) = find f l2.
Proof.
  induction l1 as [|x l1 IH]; intros H; cbn [app find fold_right]; [reflexivity|].
  rewrite (H x (or_introl eq_refl)). apply IH. intros y Hy. apply H. right. exact Hy.
Qed.
Lemma strip_apps ap : forall x, In x (ord (strip ap)) -> exists k, x = App k.
Proof. intros x Hin. cbn [strip ord] in Hin. apply filter_In in Hin as [_ Hb]. destruct x; cbn in Hb; try discriminate. eauto. Qed.

Definition creds_subsequent (c:client) (p:params) : list attr :=
  [if p_anon p then UserHash (user c) (p_realm p) else UserName (user c); Realm (p_realm p); Nonce (p_nonce p)]
  ++ match p_algs p with Some l => [PwdAlgs l] | None => [] end
  ++ match p_alg p with Some a => [PwdAlg a] | None => [] end.

Lemma rop_apps : forall A l a, (forall x, In x A -> exists k, x = App k) -> is_cred a = true ->
  replace_or_push a (A ++ l) = A ++ replace_or_push a l.
Proof.
  induction A as [|x A IH]; intros l a HA Ha; cbn [app replace_or_push]; [reflexivity|].
  destruct (HA x (or_introl eq_refl)) as [k ->]. assert (same_kind (App k) a = false) as -> by (destruct a; cbn in *; try reflexivity; discriminate).
  f_equal. apply IH; [intros y Hy; apply HA; right; exact Hy|exact Ha].
Qed.

Definition is_integ (a:attr) : bool := match a with Integrity _ _ => true | _ => false end.
Lemma add_cred a s : is_integ a = false -> add a s = {| ord := replace_or_push a (ord s); mi := mi s; sha := sha s |}.
Proof. destruct a; cbn; intros H; try reflexivity; discriminate. Qed.

(* C13-style layout: application attributes (credential kinds stripped), then the credential attributes, then integrity *)
Lemma prepare_subsequent_layout c p ap : st c = Subsequent -> pr c = Some p ->
  option_map flatten (prepare c ap) = Some (ord (strip ap) ++ creds_subsequent c p ++ [Integrity (p_integ p) (p_key p)]).
Proof.
  intros Hs Hp. unfold prepare. rewrite Hs, Hp. cbn [option_map]. f_equal.
  pose proof (strip_apps ap) as HA.
  assert (Hstrip : strip ap = {| ord := ord (strip ap) ++ []; mi := None; sha := None |}) by (rewrite app_nil_r; reflexivity).
  rewrite Hstrip. clear Hstrip. set (A := ord (strip ap)) in *. clearbody A.
  unfold add_user, creds_subsequent.
  Ltac fin HA := cbn [ord mi sha]; rewrite rop_apps by (first [exact HA | reflexivity]); cbn [replace_or_push same_kind].
  destruct (p_anon p).
  - rewrite (add_cred (UserHash _ _)) by reflexivity; fin HA.
    rewrite (add_cred (Realm _)) by reflexivity; fin HA. rewrite (add_cred (Nonce _)) by reflexivity; fin HA.
    destruct (p_algs p) as [l|]; destruct (p_alg p) as [a|]; cbn [option_map add_opt];
    try (rewrite (add_cred (PwdAlgs _)) by reflexivity; fin HA); try (rewrite (add_cred (PwdAlg _)) by reflexivity; fin HA);
    destruct (p_integ p); unfold add, flatten; cbn [ord mi sha app]; rewrite <- ?app_assoc; reflexivity.
  - rewrite (add_cred (UserName _)) by reflexivity; fin HA.
    rewrite (add_cred (Realm _)) by reflexivity; fin HA. rewrite (add_cred (Nonce _)) by reflexivity; fin HA.
    destruct (p_algs p) as [l|]; destruct (p_alg p) as [a|]; cbn [option_map add_opt];
    try (rewrite (add_cred (PwdAlgs _)) by reflexivity; fin HA); try (rewrite (add_cred (PwdAlg _)) by reflexivity; fin HA);
    destruct (p_integ p); unfold add, flatten; cbn [ord mi sha app]; rewrite <- ?app_assoc; reflexivity.
Qed.

Lemma algs_eqb_refl l : algs_eqb l l = true.
Proof. induction l as [|a l IH]; cbn; [reflexivity|]. rewrite alg_eqb_refl, IH. reflexivity. Qed.
Lemma existsb_alg a l : In a l -> existsb (alg_eqb a) l = true.
Proof. intros H. apply existsb_exists. exists a. split; [exact H|apply alg_eqb_refl]. Qed.
Lemma key_eqb_refl k : key_eqb k k = true.
Proof. destruct k as [[[u r] p] a]. cbn. rewrite !N.eqb_refl, alg_eqb_refl. reflexivity. Qed.

(* the server that issued the cached challenge *)
Definition matches (s:server) (c:client) (p:params) : Prop :=
  s_realm s = p_realm p /\ s_nonce s = p_nonce p /\ s_algs s = p_algs p /\ s_user s = user c /\ s_pass s = pass c
  /\ (s_bit s = true <-> p_algs p <> None).

Theorem C08_subsequent_accepted c p ap s :
  st c = Subsequent -> pr c = Some p -> ParamsOK c p -> matches s c p ->
  option_map (fun a => accepts s (flatten a)) (prepare c ap) = Some true.
Proof.
  intros Hs Hp (Hkey & Hint & Halg & Halgs) (Mr & Mn & Ma & Mu & Mp & Mb).
  pose proof (prepare_subsequent_layout c p ap Hs Hp) as L.
  destruct (prepare c ap) as [a|]; [|discriminate]. cbn [option_map] in *.
  assert (L' : flatten a = ord (strip ap) ++ creds_subsequent c p ++ [Integrity (p_integ p) (p_key p)]) by congruence. clear L. f_equal.
  pose proof (strip_apps ap) as HA. set (A := ord (strip ap)) in *. clearbody A.
  unfold accepts. rewrite L'.
  assert (Hskip : forall {T} (f:attr -> option T) rest, (forall k, f (App k) = None) -> find f (A ++ rest) = find f rest).
  { intros T f rest Hf. apply find_app. intros x Hx. destruct (HA x Hx) as [k ->]. apply Hf. }
  unfold get_integ, get_user, get_realm, get_nonce, get_algs, get_alg.
  rewrite !Hskip by reflexivity. unfold creds_subsequent. rewrite Hkey.
  destruct (p_algs p) as [l|] eqn:El.
  - (* an algorithm list was offered: the cookie bit is set, an algorithm from the list was chosen *)
    assert (Hb : s_bit s = true) by (apply Mb; discriminate). rewrite Hb.
    destruct (p_alg p) as [al|] eqn:Ea; [|exfalso; apply Halgs; [discriminate|reflexivity]].
    destruct (Halg al eq_refl) as (l' & El' & Hin & _). inversion El'; subst l'.
    unfold chosen. rewrite Ea. rewrite Ma.
    destruct (p_anon p); cbn [find fold_right app]; rewrite algs_eqb_refl, (existsb_alg al l Hin); cbn [andb];
      rewrite Mn, Mu, Mr, Mp, !N.eqb_refl, key_eqb_refl; reflexivity.
  - assert (Hb : s_bit s = false) by (destruct (s_bit s); [exfalso; apply Mb; reflexivity|reflexivity]). rewrite Hb.
    assert (Ea : p_alg p = None) by (destruct (p_alg p) as [al|] eqn:E; [destruct (Halg al eq_refl) as (l' & El' & _); discriminate|reflexivity]).
    unfold chosen. rewrite Ea.
    destruct (p_anon p); cbn [find fold_right app]; rewrite Mn, Mu, Mr, Mp, !N.eqb_refl, key_eqb_refl; reflexivity.
Qed.
Print Assumptions C08_subsequent_accepted.
