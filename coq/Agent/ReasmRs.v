(* StunPacketDecoder::decode with the Rust slice / subtraction panics explicit, the caller's loop with one logged
   outcome per decode() call, and the unchunked specification of that log. *)
From Coq Require Import List NArith Lia Bool Arith.
Import ListNotations.
From Rustun Require Import Base.Tlv Agent.Reasm Agent.ReasmDrive.
Open Scope N_scope.

(* lib.rs:225-315: `size - first`, `MESSAGE_HEADER_SIZE - first` (checked subtraction in debug builds) and the
   slices buffer[first..size], buffer[first..first+remaining], buffer[..20] panic exactly when this guard is false *)
Definition slices_ok (d:dec) : bool :=
  match expd d with
  | Some size => (len (acc d) <=? size) && (size <=? bufsz d)
  | None => (len (acc d) <=? 20) && (20 <=? bufsz d)
  end.

Inductive rs_outcome := Fine (o:outcome) | PanicO.
Definition feed_rs (d:dec) (data:bytes) : rs_outcome := if slices_ok d then Fine (feed d data) else PanicO.

(* StunPacketDecoder::new: buffers shorter than a header are refused *)
Definition new_rs (B:N) : option dec := if B <? 20 then None else Some (fresh B).

Inductive call :=
| CDecoded (p:bytes) (consumed:N) | CMore (missing:option N) | CInvalid (consumed:N) | CSmall (consumed:N) | CPanic | CNewRefused.

(* one chunk handed to the caller's loop: after a packet the remainder goes to a new decoder *)
Fixpoint chunk_log (fuel:nat) (B:N) (d:dec) (chunk:bytes) : list call * option dec :=
  match fuel with
  | O => ([], Some d)
  | S f =>
      match feed_rs d chunk with
      | PanicO => ([CPanic], None)
      | Fine (Decoded p consumed) =>
          match new_rs B with
          | None => ([CDecoded p consumed; CNewRefused], None)
          | Some d0 =>
              let rest := drop consumed chunk in
              match rest with
              | [] => ([CDecoded p consumed], Some d0)
              | _ => let '(cs, od) := chunk_log f B d0 rest in (CDecoded p consumed :: cs, od)
              end
          end
      | Fine (More d' m) => ([CMore m], Some d')
      | Fine (EInvalid c) => ([CInvalid c], None)
      | Fine (ESmall c) => ([CSmall c], None)
      end
  end.

Fixpoint drive_log (B:N) (od:option dec) (chunks:list bytes) : list (list call) :=
  match chunks with
  | [] => []
  | c :: r =>
      match od with
      | None => []
      | Some d => let '(cs, od') := chunk_log (S (length c)) B d c in cs :: drive_log B od' r
      end
  end.

Definition run_log (B:N) (chunks:list bytes) : list (list call) :=
  match new_rs B with None => [[CNewRefused]] | Some d => drive_log B (Some d) chunks end.

(* ---- specification: the same log read off the unchunked stream ---- *)
(* `buffered` = bytes of the current, still incomplete packet received in earlier chunks *)
Fixpoint spec_chunk (fuel:nat) (B:N) (buffered chunk:bytes) : list call * option bytes :=
  match fuel with
  | O => ([], Some buffered)
  | S f =>
      match parse B (buffered ++ chunk) with
      | Packet p rest =>
          let consumed := len p - len buffered in
          match rest with
          | [] => ([CDecoded p consumed], Some [])
          | _ => let '(cs, ob) := spec_chunk f B [] rest in (CDecoded p consumed :: cs, ob)
          end
      | Incomplete m => ([CMore m], Some (buffered ++ chunk))
      | Invalid => ([CInvalid (20 - len buffered)], None)
      | Small => ([CSmall (20 - len buffered)], None)
      end
  end.

Fixpoint spec_log (B:N) (ob:option bytes) (chunks:list bytes) : list (list call) :=
  match chunks with
  | [] => []
  | c :: r =>
      match ob with
      | None => []
      | Some b => let '(cs, ob') := spec_chunk (S (length c)) B b c in cs :: spec_log B ob' r
      end
  end.

(* what the property text says, as a monitor over the observed per-call log: B >= 20 *)
Fixpoint call_eqb (a b:call) : bool :=
  let beq := fix beq (x y:bytes) := match x, y with [] , [] => true | p::x', q::y' => (p =? q) && beq x' y' | _, _ => false end in
  match a, b with
  | CDecoded p c, CDecoded q e => beq p q && (c =? e)
  | CMore None, CMore None => true
  | CMore (Some m), CMore (Some n) => m =? n
  | CInvalid c, CInvalid e => c =? e
  | CSmall c, CSmall e => c =? e
  | CPanic, CPanic => true
  | CNewRefused, CNewRefused => true
  | _, _ => false
  end.
Fixpoint calls_eqb (a b:list call) : bool :=
  match a, b with [], [] => true | x::a', y::b' => call_eqb x y && calls_eqb a' b' | _, _ => false end.
Fixpoint log_eqb (a b:list (list call)) : bool :=
  match a, b with [], [] => true | x::a', y::b' => calls_eqb x y && log_eqb a' b' | _, _ => false end.

Definition monitor_C16 (B:N) (chunks:list bytes) (observed:list (list call)) : bool :=
  if B <? 20 then true else log_eqb observed (spec_log B (Some []) chunks).
