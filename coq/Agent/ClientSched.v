From Coq Require Import List NArith Lia Bool Arith Permutation.
Import ListNotations.
From Rustun Require Import Agent.Rto Agent.Client Agent.ClientTrace.
Open Scope N_scope.

(* Lifting the RtoManager schedule theorem (Rto.v) to the client core (Client.v):
   every heap entry is the pending slot of its transaction, so a timer call at or after the
   deadline fails the transaction, no earlier call does, and after a timer call nothing due is left. *)

Lemma slot_mono_aux r rm rc : 1 <= rc -> forall (n:nat) a, a + N.of_nat n <= rc -> slot r rm rc a <= slot r rm rc (a + N.of_nat n).
Proof.
  intros Hrc. induction n as [|n IH]; intros a Ha.
  - replace (a + N.of_nat 0) with a by lia. lia.
  - replace (a + N.of_nat (S n)) with ((a + N.of_nat n) + 1) by lia.
    rewrite (slot_succ r rm rc Hrc (a + N.of_nat n)) by lia. specialize (IH a ltac:(lia)). lia.
Qed.
Lemma slot_mono r rm rc a b : 1 <= rc -> a <= b -> b <= rc -> slot r rm rc a <= slot r rm rc b.
Proof.
  intros Hrc Hab Hb. replace b with (a + N.of_nat (N.to_nat (b - a))) by lia. apply slot_mono_aux; [exact Hrc|lia].
Qed.

Section Sched.
Variable t0of : txid -> N.            (* ghost: the instant each request was first sent *)

Definition entry_ok (c:client) (e:hent) : Prop :=
  exists x k, lookup (h_id e) (T c) = Some x /\ latest (tm x) = Some (fst (fst e)) /\ last_rto (tm x) = snd (fst e)
              /\ Minv (c_r c) (c_rm_ c) (c_rc_ c) (t0of (h_id e)) k (tm x).
Definition SInv (c:client) : Prop := 1 <= c_rc_ c /\ forall e, In e (H c) -> entry_ok c e.

Lemma entry_expiry c e : entry_ok c e -> exists k, 1 <= k <= c_rc_ c /\ h_exp e = t0of (h_id e) + slot (c_r c) (c_rm_ c) (c_rc_ c) k.
Proof.
  intros (x & k & _ & Hl & Hr & (_ & Hk & l & Hl' & Hsum)). exists k. split; [exact Hk|].
  unfold h_exp. rewrite Hl in Hl'. inversion Hl'; subst l. rewrite <- Hr in *. exact Hsum.
Qed.

Lemma lookup_update_neq id j v t : id <> j -> lookup id (update_t j v t) = lookup id t.
Proof.
  intros Hne. induction t as [|[k x] r IH]; cbn; [reflexivity|].
  destruct (N.eqb_spec k j); cbn.
  - subst. destruct (N.eqb_spec j id); [congruence|reflexivity].
  - destruct (N.eqb_spec k id); [reflexivity|exact IH].
Qed.
Lemma lookup_update_eq id v t : lookup id t <> None -> lookup id (update_t id v t) = Some v.
Proof.
  induction t as [|[k x] r IH]; cbn; [congruence|]. destruct (N.eqb_spec k id); cbn.
  - subst. rewrite N.eqb_refl. reflexivity.
  - intros H. destruct (N.eqb_spec k id); [contradiction|apply IH, H].
Qed.
Lemma lookup_remove_neq id j t : id <> j -> lookup id (remove_t j t) = lookup id t.
Proof.
  intros Hne. unfold remove_t. induction t as [|[k x] r IH]; cbn; [reflexivity|].
  destruct (N.eqb_spec k j); cbn.
  - subst. destruct (N.eqb_spec j id); [congruence|exact IH].
  - destruct (N.eqb_spec k id); [reflexivity|exact IH].
Qed.

(* one due entry, processed by tmo_one *)
Lemma tmo_one_sched r rm rc now t h ev id x k :
  1 <= rc -> lookup id t = Some x -> Minv r rm rc (t0of id) k (tm x) -> t0of id + slot r rm rc k <= now ->
  let '(t', h', ev') := tmo_one now (t, h, ev) id in
  (t0of id + slot r rm rc rc <= now /\ ev' = ev ++ [Failed id] /\ t' = remove_t id t /\ h' = h)
  \/ (now < t0of id + slot r rm rc rc /\ exists d k' m', k < k' <= rc /\ now < t0of id + slot r rm rc k' /\ now + d = t0of id + slot r rm rc k'
        /\ ev' = ev ++ [Out id (pkt x)] /\ h' = (now, d, id) :: h
        /\ t' = update_t id {| inst := None; pkt := pkt x; tm := m' |} t /\ Minv r rm rc (t0of id) k' m' /\ latest m' = Some now /\ last_rto m' = d).
Proof.
  intros Hrc Hl Hm Hexp. unfold tmo_one. rewrite Hl.
  destruct (next_rto_expired r rm rc Hrc (t0of id) k (tm x) now Hm Hexp) as [(k' & d & m' & Hn & Hk' & Hsum & Hlt & _ & Hm' & Hlat)|(m' & Hn & Hend)].
  - rewrite Hn. right. split.
    + pose proof (slot_mono r rm rc k' rc Hrc ltac:(lia) ltac:(lia)). lia.
    + exists d, k', m'. destruct Hm' as (Hc & Hk2 & l & Hl2 & Hs2). rewrite Hlat in Hl2. inversion Hl2; subst l.
      refine (conj Hk' (conj Hlt (conj Hsum (conj eq_refl (conj eq_refl (conj eq_refl (conj _ (conj Hlat _)))))))).
      * exact (conj Hc (conj Hk2 (ex_intro _ now (conj Hlat Hs2)))).
      * lia.
  - rewrite Hn. left. repeat split; try reflexivity. exact Hend.
Qed.
End Sched.

Section Lift.
Variable t0of : txid -> N.
Variables (r rm rc now : N).
Hypothesis Hrc : 1 <= rc.
Notation dl id := (t0of id + slot r rm rc rc).

Definition tx_ok (t:list (txid*txn)) (e:hent) : Prop :=
  exists x k, lookup (h_id e) t = Some x /\ latest (tm x) = Some (fst (fst e)) /\ last_rto (tm x) = snd (fst e)
              /\ Minv r rm rc (t0of (h_id e)) k (tm x).
Definition due_ok (t:list (txid*txn)) (id:txid) : Prop :=
  exists x k, lookup id t = Some x /\ Minv r rm rc (t0of id) k (tm x) /\ t0of id + slot r rm rc k <= now.

Definition FS (t:list (txid*txn)) (h:list hent) (pending:list txid) : Prop :=
  NoDup (ids_h h ++ pending)
  /\ (forall id, In id pending -> due_ok t id)
  /\ (forall e, In e h -> now < h_exp e /\ tx_ok t e).

Lemma tx_ok_other t t' e : (forall j, j = h_id e -> lookup j t' = lookup j t) -> tx_ok t e -> tx_ok t' e.
Proof. intros Hsame (x & k & Hl & H1 & H2 & H3). exists x, k. rewrite (Hsame _ eq_refl). auto. Qed.

Lemma tmo_one_FS t h ev id pending :
  FS t h (id :: pending) ->
  let '(t', h', ev') := tmo_one now (t, h, ev) id in
  FS t' h' pending
  /\ ((dl id <= now /\ ev' = ev ++ [Failed id] /\ lookup id t' = None) \/ (now < dl id /\ exists p, ev' = ev ++ [Out id p]))
  /\ (forall j, j <> id -> lookup j t' = lookup j t).
Proof.
  intros (Hnd & Hdue & Hh).
  destruct (Hdue id (or_introl eq_refl)) as (x & k & Hl & Hm & Hexp).
  pose proof (tmo_one_sched t0of r rm rc now t h ev id x k Hrc Hl Hm Hexp) as Hs.
  assert (Hnd' : NoDup (ids_h h ++ pending) /\ ~ In id (ids_h h) /\ ~ In id pending).
  { apply NoDup_remove in Hnd as [A B]. split; [exact A|]. split; intros Hin; apply B; apply in_or_app; auto. }
  destruct Hnd' as (Hnd1 & Hnih & Hnip).
  destruct (tmo_one now (t, h, ev) id) as [[t' h'] ev'].
  destruct Hs as [(Hend & Hev & Ht & Hhh)|(Hlt & d & k' & m' & Hk' & Hnow & Hsum & Hev & Hhh & Ht & Hm' & Hlat & Hlr)]; subst t' h' ev'.
  - assert (Hother : forall j, j <> id -> lookup j (remove_t id t) = lookup j t) by (intros j Hj; apply lookup_remove_neq; exact Hj).
    split; [|split; [|exact Hother]].
    + refine (conj Hnd1 (conj _ _)).
      * intros j Hj. destruct (Hdue j (or_intror Hj)) as (y & ky & A & B & C). exists y, ky. rewrite Hother by (intros ->; contradiction). auto.
      * intros e He. destruct (Hh e He) as [A B]. split; [exact A|]. apply (tx_ok_other t); [|exact B].
        intros j ->. apply Hother. intros Heq. apply Hnih. rewrite <- Heq. apply in_map. exact He.
    + left. refine (conj Hend (conj eq_refl _)).
      unfold remove_t. clear. induction t as [|[kk v] tl IH]; cbn; [reflexivity|]. destruct (N.eqb_spec kk id); cbn; [exact IH|].
      destruct (N.eqb_spec kk id); [contradiction|exact IH].
  - set (x' := {| inst := None; pkt := pkt x; tm := m' |}).
    assert (Hother : forall j, j <> id -> lookup j (update_t id x' t) = lookup j t) by (intros j Hj; apply lookup_update_neq; exact Hj).
    split; [|split; [|exact Hother]].
    + refine (conj _ (conj _ _)).
      * cbn [ids_h map h_id snd app]. constructor; [|exact Hnd1]. intros Hin. apply in_app_or in Hin as [?|?]; contradiction.
      * intros j Hj. destruct (Hdue j (or_intror Hj)) as (y & ky & A & B & C). exists y, ky. rewrite Hother by (intros ->; contradiction). auto.
      * intros e [<-|He].
        -- split; [unfold h_exp; cbn [fst snd]; lia|]. exists x', k'. cbn [h_id snd fst]. 
           rewrite lookup_update_eq by congruence. cbn [tm x']. auto.
        -- destruct (Hh e He) as [A B]. split; [exact A|]. apply (tx_ok_other t); [|exact B].
           intros j ->. apply Hother. intros Heq. apply Hnih. rewrite <- Heq. apply in_map. exact He.
    + right. split; [exact Hlt|]. exists (pkt x). reflexivity.
Qed.

Lemma tmo_fold_FS : forall pending t h ev,
  FS t h pending ->
  let '(t', h', ev') := fold_left (tmo_one now) pending (t, h, ev) in
  FS t' h' []
  /\ (forall id, In id pending -> (dl id <= now -> In (Failed id) ev' /\ lookup id t' = None))
  /\ (forall id, In (Failed id) ev' -> In (Failed id) ev \/ (In id pending /\ dl id <= now)).
Proof.
  induction pending as [|id pending IH]; intros t h ev Hfs; cbn [fold_left].
  - refine (conj Hfs (conj _ _)); [intros id []|intros id Hin; left; exact Hin].
  - pose proof (tmo_one_FS t h ev id pending Hfs) as H1.
    assert (Hnip : ~ In id pending).
    { destruct Hfs as (Hnd & _). apply NoDup_remove in Hnd as [_ B]. intros Hin; apply B; apply in_or_app; right; exact Hin. }
    destruct (tmo_one now (t, h, ev) id) as [[t1 h1] ev1]. destruct H1 as (Hfs1 & Hcase & Hother).
    specialize (IH t1 h1 ev1 Hfs1).
    (* later steps never touch id *)
    assert (Hkeep : forall pend t2 h2 ev2, ~ In id pend -> FS t2 h2 pend ->
              lookup id (fst (fst (fold_left (tmo_one now) pend (t2, h2, ev2)))) = lookup id t2
              /\ (forall e, In e ev2 -> In e (snd (fold_left (tmo_one now) pend (t2, h2, ev2))))).
    { clear IH Hcase Hother Hfs Hfs1 Hnip. induction pend as [|j pend IHp]; intros t2 h2 ev2 Hni Hf; cbn [fold_left]; [split; auto|].
      pose proof (tmo_one_FS t2 h2 ev2 j pend Hf) as H1. destruct (tmo_one now (t2, h2, ev2) j) as [[t3 h3] ev3].
      destruct H1 as (Hf3 & Hc & Ho). specialize (IHp t3 h3 ev3 ltac:(intros Hin; apply Hni; right; exact Hin) Hf3).
      destruct IHp as [A B]. split.
      - etransitivity; [exact A|]. apply Ho. intros ->. apply Hni. left. reflexivity.
      - intros e He. apply B. destruct Hc as [(_ & -> & _)|(_ & p & ->)]; apply in_or_app; left; exact He. }
    specialize (Hkeep pending t1 h1 ev1 Hnip Hfs1).
    revert IH Hkeep. destruct (fold_left (tmo_one now) pending (t1, h1, ev1)) as [[t' h'] ev']. cbn [fst snd]. intros IH Hkeep. destruct IH as (Hfs' & Hfail & Hconv). destruct Hkeep as [Hk1 Hk2].
    refine (conj Hfs' (conj _ _)).
    + intros j [<-|Hj] Hd.
      * destruct Hcase as [(_ & Hev & Hnone)|(Hlt & _)]; [|lia]. split; [apply Hk2; rewrite Hev; apply in_or_app; right; left; reflexivity|congruence].
      * apply Hfail; assumption.
    + intros j Hin. destruct (Hconv j Hin) as [Hin1|[Hp Hd]]; [|right; split; [right; exact Hp|exact Hd]].
      destruct Hcase as [(Hd & -> & _)|(_ & p & ->)]; apply in_app_or in Hin1 as [?|[Heq|[]]]; auto; try discriminate.
      inversion Heq; subst. right. split; [left; reflexivity|exact Hd].
Qed.
End Lift.

Section Final.
Variable t0of : txid -> N.

Theorem tmo_deadline c now :
  Inv c -> SInv t0of c ->
  let '(c', _, ev) := step c (Tmo now) in
  SInv t0of c'
  /\ (forall e, In e (H c') -> now < h_exp e)                                             (* C11: nothing due is left *)
  /\ (forall e, In e (H c) -> t0of (h_id e) + slot (c_r c) (c_rm_ c) (c_rc_ c) (c_rc_ c) <= now ->
        In (Failed (h_id e)) ev /\ lookup (h_id e) (T c') = None)                          (* C06/C11: fails at the first call at or after the deadline *)
  /\ (forall id, In (Failed id) ev -> t0of id + slot (c_r c) (c_rm_ c) (c_rc_ c) (c_rc_ c) <= now).   (* C06: never earlier *)
Proof.
  intros (Ht & Hh & Heq) (Hrc & Hent). cbn [step].
  set (due := filter (fun e => h_exp e <=? now) (H c)).
  set (keep := filter (fun e => negb (h_exp e <=? now)) (H c)).
  assert (Hperm : Permutation (ids_h (H c)) (ids_h keep ++ map h_id due)).
  { unfold ids_h. rewrite <- map_app. apply Permutation_map. apply filter_split_perm. }
  assert (Hfs : FS t0of (c_r c) (c_rm_ c) (c_rc_ c) now (T c) keep (map h_id due)).
  { refine (conj _ (conj _ _)).
    - eapply Permutation_NoDup; [exact Hperm|exact Hh].
    - intros id Hin. apply in_map_iff in Hin as (e & <- & He). apply filter_In in He as [He Hd]. apply N.leb_le in Hd.
      destruct (Hent e He) as (x & k & Hl & Hla & Hlr & Hm). exists x, k. refine (conj Hl (conj Hm _)).
      destruct Hm as (_ & _ & l & Hl' & Hsum). rewrite Hla in Hl'. inversion Hl'; subst l. unfold h_exp in Hd. rewrite <- Hlr in Hd. lia.
    - intros e He. apply filter_In in He as [He Hd]. apply negb_true_iff, N.leb_gt in Hd. split; [exact Hd|].
      destruct (Hent e He) as (x & k & A). exists x, k. exact A. }
  pose proof (tmo_fold_FS t0of (c_r c) (c_rm_ c) (c_rc_ c) now Hrc (map h_id due) (T c) keep [] Hfs) as Hf.
  destruct (fold_left (tmo_one now) (map h_id due) (T c, keep, [])) as [[t' h'] ev].
  destruct Hf as ((_ & _ & Hh') & Hfail & Hconv).
  refine (conj _ (conj _ (conj _ _))); cbn [H T c_r c_rm_ c_rc_].
  - split; [exact Hrc|]. intros e He. destruct (Hh' e He) as [_ (x & k & A)]. exists x, k. exact A.
  - intros e He. apply (Hh' e He).
  - intros e He Hd.
    assert (Hdue : In (h_id e) (map h_id due)).
    { apply in_map. apply filter_In. split; [exact He|]. apply N.leb_le.
      destruct (entry_expiry t0of c e (Hent e He)) as (k & Hk & ->).
      pose proof (slot_mono (c_r c) (c_rm_ c) (c_rc_ c) k (c_rc_ c) Hrc ltac:(lia) ltac:(lia)). lia. }
    destruct (Hfail _ Hdue Hd) as [A B]. split; [apply in_or_app; left; exact A|exact B].
  - intros id Hin. apply in_app_or in Hin as [Hin|Hin].
    + destruct (Hconv id Hin) as [[]|[_ Hd]]. exact Hd.
    + apply notif_ids in Hin as [Hnf _]. discriminate.
Qed.
End Final.
Print Assumptions tmo_deadline.

Section Preserve.
Variable t0of : txid -> N.

Lemma sinv_resp c id now : Inv c -> SInv t0of c -> SInv t0of (fst (fst (step c (Resp id now)))).
Proof.
  intros (Ht & Hh & Heq) (Hrc & Hent). cbn [step]. destruct (lookup id (T c)) eqn:Hl; cbn [fst]; [|split; assumption].
  split; [exact Hrc|]. cbn [H T c_r c_rm_ c_rc_]. intros e He. unfold remove_h in He. apply filter_In in He as [He Hne].
  apply negb_true_iff, N.eqb_neq in Hne. destruct (Hent e He) as (x & k & A & B). unfold entry_ok. cbn [T c_r c_rm_ c_rc_].
  exists x, k. split; [|exact B]. rewrite lookup_remove_neq by exact Hne. exact A.
Qed.

Lemma sinv_send c now id p : Inv c -> SInv t0of c -> ~ In id (ids_t (T c)) -> t0of id = now ->
  SInv t0of (fst (fst (step c (Send now id p)))).
Proof.
  intros (Ht & Hh & Heq) (Hrc & Hent) Hfresh Ht0. cbn [step].
  destruct (limit c <=? _); cbn [fst]; [split; assumption|].
  pose proof (next_rto_first (c_r c) (c_rm_ c) (c_rc_ c) Hrc now (new_mgr c) eq_refl) as Hfirst.
  assert (Hcalc : mcalc (new_mgr c) = calc_at (c_r c) (c_rm_ c) (c_rc_ c) 0).
  { unfold new_mgr, calc_at; cbn [mcalc]. f_equal. lia. }
  destruct (Hfirst Hcalc) as (m' & Hn & Hm). rewrite Hn. cbn [fst].
  split; [exact Hrc|]. cbn [H T c_r c_rm_ c_rc_]. intros e [<-|He]; unfold entry_ok; cbn [T c_r c_rm_ c_rc_].
  - exists {| inst := Some now; pkt := p; tm := m' |}, 1. cbn [h_id snd fst lookup tm]. rewrite N.eqb_refl.
    destruct Hm as (Hc & Hk & l & Hl & Hsum).
    assert (l = now) as ->.
    { (* next_rto on a fresh manager sets latest := now *) unfold next_rto in Hn. cbn [new_mgr latest] in Hn.
      destruct (calc_next _) as [[t cc]|]; inversion Hn; subst. cbn in Hl. inversion Hl. reflexivity. }
    rewrite Ht0. refine (conj eq_refl (conj Hl (conj _ (conj Hc (conj Hk (ex_intro _ now (conj Hl Hsum))))))). lia.
  - destruct (Hent e He) as (x & k & A & B). exists x, k. split; [|exact B]. cbn [lookup].
    destruct (N.eqb_spec id (h_id e)) as [E|_]; [|exact A].
    exfalso. apply Hfresh. apply Heq. rewrite E. apply in_map. exact He.
Qed.
End Preserve.
Print Assumptions sinv_send.
