(* Executable model of the sans-IO STUN client (stun-agent: client.rs, st_cred_mech.rs, lt_cred_mech.rs, integrity.rs,
   fingerprint.rs, message.rs, events.rs) over ABSTRACT messages: attribute values are tokens, a MAC is described by
   the key it was produced with, a FINGERPRINT by whether its CRC is right. The byte level (what "verifies" means, which
   attributes the decoder returns) is the codec model's business; the harness crafts real packets from the same abstract
   descriptions. Timers reuse Rto.v (RtoCalculator / RtoManager). Written to follow the Rust branch for branch. *)
From Coq Require Import List NArith Lia Bool.
Import ListNotations.
From Rustun Require Import Agent.Rto Codec.Filter.
Open Scope N_scope.

(* ------------------------------------------------------------------ abstract attributes *)
Inductive alg := MD5 | SHA256 | OtherAlg (n:N).
Definition alg_eqb (a b:alg) : bool :=
  match a, b with MD5, MD5 | SHA256, SHA256 => true | OtherAlg x, OtherAlg y => x =? y | _, _ => false end.
Fixpoint algs_eqb (a b:list alg) : bool :=
  match a, b with [], [] => true | x::a', y::b' => alg_eqb x y && algs_eqb a' b' | _, _ => false end.

(* how a MAC value was produced: corrupted bytes; short-term key of password token pw; long-term key of
   (configured user, realm token, password token, algorithm). Password token 0 is the configured password. *)
Inductive keyd := KCorrupt | KST (pw:N) | KLT (realm pw:N) (a:alg).
Definition keyd_eqb (a b:keyd) : bool :=
  match a, b with
  | KST p, KST q => p =? q
  | KLT r p x, KLT s q y => (r =? s) && (p =? q) && alg_eqb x y
  | _, _ => false            (* corrupted bytes verify under no key *)
  end.

Inductive attr :=
| App (ty tag:N)                 (* ordinary / application attribute of wire type ty *)
| UserName (u:N)                 (* token 0 = the configured user name *)
| UserHash (u r:N)
| Realm (r:N)
| Nonce (n:N) (cookie:N)         (* cookie flavour: 0 plain, 1 cookie no bits, 2 password-algorithms bit, 3 anonymity bit,
                                    4 both bits, 5 cookie prefix with undecodable feature characters *)
| PwdAlgs (l:list alg)
| PwdAlg (a:alg)
| ErrorCode (c:N)
| AMI (k:keyd) | ASHA (k:keyd) | AFP (good:bool).

Definition wire_type (a:attr) : N :=
  match a with
  | App ty _ => ty | UserName _ => 6 | UserHash _ _ => 30 | Realm _ => 20 | Nonce _ _ => 21
  | PwdAlgs _ => 32770 | PwdAlg _ => 29 | ErrorCode _ => 9 | AMI _ => 8 | ASHA _ => 28 | AFP _ => 32808
  end.
Definition akind_of (a:attr) : kind := match a with AMI _ => Filter.MI | ASHA _ => Filter.SHA | AFP _ => Filter.FP | _ => Ord end.
Definition a_is_mi (a:attr) := match a with AMI _ => true | _ => false end.
Definition a_is_sha (a:attr) := match a with ASHA _ => true | _ => false end.
Definition a_is_fp (a:attr) := match a with AFP _ => true | _ => false end.

(* what MessageDecoder (default context) returns of the wire attributes, and what protected_iter (lib.rs:341-368) yields
   of a decoded list: both are the RFC 8489 ordering filter; C09 proves it equals the admission rule *)
Fixpoint filter_by (bs:list bool) (l:list attr) : list attr :=
  match bs, l with b :: bs', a :: l' => if b then a :: filter_by bs' l' else filter_by bs' l' | _, _ => [] end.
Definition rfc_filter (l:list attr) : list attr :=
  filter_by (run ignore_attribute {| f_mi := false; f_sha := false; f_fp := false |} (map akind_of l)) l.

(* ------------------------------------------------------------------ StunAttributes (message.rs) *)
Record attrs := { ord : list attr; sl_mi : option attr; sl_sha : option attr; sl_fp : option attr }.
Fixpoint replace_or_push (a:attr) (l:list attr) : list attr :=
  match l with [] => [a] | x :: r => if wire_type x =? wire_type a then a :: r else x :: replace_or_push a r end.
Definition add_attr (a:attr) (s:attrs) : attrs :=
  match a with
  | AMI _ => {| ord := ord s; sl_mi := Some a; sl_sha := sl_sha s; sl_fp := sl_fp s |}
  | ASHA _ => {| ord := ord s; sl_mi := sl_mi s; sl_sha := Some a; sl_fp := sl_fp s |}
  | AFP _ => {| ord := ord s; sl_mi := sl_mi s; sl_sha := sl_sha s; sl_fp := Some a |}
  | _ => {| ord := replace_or_push a (ord s); sl_mi := sl_mi s; sl_sha := sl_sha s; sl_fp := sl_fp s |}
  end.
Definition empty_attrs : attrs := {| ord := []; sl_mi := None; sl_sha := None; sl_fp := None |}.
Definition of_list (l:list attr) : attrs := fold_left (fun s a => add_attr a s) l empty_attrs.
(* remove::<T>(): the first ordinary attribute of that type, or the slot *)
Fixpoint remove_first (ty:N) (l:list attr) : list attr :=
  match l with [] => [] | x :: r => if wire_type x =? ty then r else x :: remove_first ty r end.
Definition remove (ty:N) (s:attrs) : attrs :=
  if ty =? 8 then {| ord := ord s; sl_mi := None; sl_sha := sl_sha s; sl_fp := sl_fp s |}
  else if ty =? 28 then {| ord := ord s; sl_mi := sl_mi s; sl_sha := None; sl_fp := sl_fp s |}
  else if ty =? 32808 then {| ord := ord s; sl_mi := sl_mi s; sl_sha := sl_sha s; sl_fp := None |}
  else {| ord := remove_first ty (ord s); sl_mi := sl_mi s; sl_sha := sl_sha s; sl_fp := sl_fp s |}.
Definition opt_list {A} (o:option A) : list A := match o with Some a => [a] | None => [] end.
Definition flatten (s:attrs) : list attr := ord s ++ opt_list (sl_mi s) ++ opt_list (sl_sha s) ++ opt_list (sl_fp s).

(* ------------------------------------------------------------------ messages, events *)
Definition txid := N.
Inductive mclass := CRequest | CIndication | CSuccess | CError.
Definition class_eqb (a b:mclass) : bool :=
  match a, b with CRequest, CRequest | CIndication, CIndication | CSuccess, CSuccess | CError, CError => true | _, _ => false end.
Record msg := { m_class : mclass; m_method : N; m_id : txid; m_attrs : list attr }.

Inductive reason := TimedOut | ProtectionViolated | DoNotRetry.
Inductive event :=
| Out (id:txid) (first:bool) (p:msg)        (* OutputPacket; first = false: a retransmission (the stored packet) *)
| Notif (id:txid) (left:N)                  (* RestransmissionTimeOut *)
| Retry (id:txid)
| Failed (id:txid) (r:reason)
| Received (m:msg).                         (* StunMessageReceived: the decoded message *)
Inductive reply := ROk (id:option txid) | RMaxOut | RDiscarded | RIgnored | RStunCheck | RInternal.

(* ------------------------------------------------------------------ credential mechanisms *)
Inductive integ := IMI | ISHA.
Definition integ_eqb (a b:integ) := match a, b with IMI, IMI | ISHA, ISHA => true | _, _ => false end.

(* integrity.rs: TransportIntegrity *)
Inductive ierr := EDiscarded | ENotRetryable | EViolated | ERetry.
Definition mem (x:txid) (l:list txid) : bool := existsb (N.eqb x) l.
Definition del (x:txid) (l:list txid) : list txid := filter (fun y => negb (y =? x)) l.
Definition ins (x:txid) (l:list txid) : list txid := if mem x l then l else x :: l.

Definition discard_message (reliable:bool) (markers:list txid) (m:msg) : ierr * list txid :=
  if class_eqb (m_class m) CIndication then (EDiscarded, markers)
  else if reliable then (EViolated, markers)
  else (EDiscarded, ins (m_id m) markers).

Definition mac_key (a:attr) : keyd := match a with AMI k | ASHA k => k | _ => KCorrupt end.
(* compute_message_integrity: Ok = None *)
Definition compute_mi (reliable:bool) (markers:list txid) (key:keyd) (integrity:option attr) (m:msg)
  : option ierr * list txid :=
  match integrity with
  | Some a =>
      if keyd_eqb (mac_key a) key
      then (None, if class_eqb (m_class m) CIndication then markers else del (m_id m) markers)
      else let '(e, mk) := discard_message reliable markers m in (Some e, mk)
  | None => let '(e, mk) := discard_message reliable markers m in (Some e, mk)
  end.

(* ---- short term (st_cred_mech.rs) *)
Record st_mech := { st_agreed : option integ }.

(* the scan of process_message: last AMI / last ASHA of protected_iter; for responses, stop with Discarded as soon as both
   have been seen *)
Fixpoint st_scan (resp:bool) (l:list attr) (mi sha:option attr) : option (option attr * option attr) :=
  match l with
  | [] => Some (mi, sha)
  | a :: r =>
      let mi' := if a_is_mi a then Some a else mi in
      let sha' := if a_is_sha a then Some a else sha in
      if resp && (match mi' with Some _ => true | None => false end) && (match sha' with Some _ => true | None => false end)
      then None else st_scan resp r mi' sha'
  end.

Definition st_recv (reliable:bool) (markers:list txid) (s:st_mech) (m:msg) : option ierr * list txid * st_mech :=
  if class_eqb (m_class m) CRequest then (Some EDiscarded, markers, s)
  else
    let resp := negb (class_eqb (m_class m) CIndication) in
    match st_scan resp (rfc_filter (m_attrs m)) None None with
    | None => (Some EDiscarded, markers, s)
    | Some (mi, sha) =>
        match st_agreed s with
        | Some v =>
            let pick := match v with IMI => mi | ISHA => sha end in
            let '(e, mk) := compute_mi reliable markers (KST 0) pick m in (e, mk, s)
        | None =>
            let pick := match mi with Some _ => mi | None => sha end in
            let '(e, mk) := compute_mi reliable markers (KST 0) pick m in
            match e with
            | Some _ => (e, mk, s)
            | None =>
                if resp then
                  match pick with
                  | Some a => (None, mk, {| st_agreed := Some (if a_is_mi a then IMI else ISHA) |})
                  | None => (None, mk, s)
                  end
                else (None, mk, s)
            end
        end
    end.

Definition st_prepare (s:st_mech) (a:attrs) : attrs :=
  let a := remove 28 (remove 8 (remove 6 a)) in
  let a := add_attr (UserName 0) a in
  match st_agreed s with
  | Some IMI => add_attr (AMI (KST 0)) a
  | Some ISHA => add_attr (ASHA (KST 0)) a
  | None => add_attr (ASHA (KST 0)) (add_attr (AMI (KST 0)) a)
  end.

(* ---- long term (lt_cred_mech.rs) *)
Record lt_params := { p_realm : N; p_nonce : N * N; p_algs : option (list alg); p_alg : option alg;
                      p_key : keyd; p_anon : bool; p_integ : integ }.
Inductive lt_state := First | Retry401 | Retry438 | Subsequent.
Record lt_mech := { lt_st : lt_state; lt_pr : option lt_params }.

Definition strip_lt (a:attrs) : attrs :=
  remove 28 (remove 8 (remove 32770 (remove 29 (remove 21 (remove 20 (remove 30 (remove 6 a))))))).
Definition add_user (p:lt_params) (a:attrs) : attrs :=
  add_attr (if p_anon p then UserHash 0 (p_realm p) else UserName 0) a.
Definition add_opt (o:option attr) (a:attrs) : attrs := match o with Some x => add_attr x a | None => a end.
Definition add_integ (p:lt_params) (a:attrs) : attrs :=
  match p_integ p with IMI => add_attr (AMI (p_key p)) a | ISHA => add_attr (ASHA (p_key p)) a end.
Definition add_rn (p:lt_params) (a:attrs) : attrs :=
  add_attr (Nonce (fst (p_nonce p)) (snd (p_nonce p))) (add_attr (Realm (p_realm p)) (add_user p a)).
Definition add_algs (p:lt_params) (a:attrs) : attrs :=
  add_opt (option_map PwdAlg (p_alg p)) (add_opt (option_map PwdAlgs (p_algs p)) a).

(* None = InternalError("No authentication parameters found") *)
Definition lt_prepare (s:lt_mech) (a:attrs) : option attrs :=
  match lt_st s, lt_pr s with
  | First, _ => Some (strip_lt a)
  | Retry401, Some p => Some (add_algs p (add_rn p (strip_lt a)))                (* no integrity attribute: finding D6 *)
  | Retry438, Some p => Some (add_integ p (add_rn p (strip_lt a)))               (* no algorithm attributes: finding D7 *)
  | Subsequent, Some p => Some (add_integ p (add_algs p (add_rn p (strip_lt a))))
  | _, None => None
  end.

Definition authenticate (reliable:bool) (markers:list txid) (key:keyd) (i:integ) (m:msg) (mi sha:option attr) :=
  compute_mi reliable markers key (match i with IMI => mi | ISHA => sha end) m.

(* what the error-response scan collects *)
Record harvest := { h_code : option N; h_nonce : option (N*N); h_realm : option N; h_alg : option alg;
                    h_algs : option (list alg); h_mi : option attr; h_sha : option attr; h_bit_algs : bool; h_bit_anon : bool }.
Definition harvest0 := {| h_code := None; h_nonce := None; h_realm := None; h_alg := None; h_algs := None;
                          h_mi := None; h_sha := None; h_bit_algs := false; h_bit_anon := false |}.
(* prefer ASHA-256 (stop at it), otherwise the last MD5; `acc` starts from the value found so far, which is None at
   the only call site (a second PASSWORD-ALGORITHMS is skipped) *)
Fixpoint choose_alg (l:list alg) (acc:option alg) : option alg :=
  match l with
  | [] => acc
  | MD5 :: r => choose_alg r (Some MD5)
  | SHA256 :: _ => Some SHA256
  | OtherAlg _ :: r => choose_alg r acc
  end.
(* Some h = keep scanning; None = NotRetryable *)
Definition harvest1 (h:harvest) (a:attr) : option harvest :=
  match a with
  | ErrorCode c => Some (match h_code h with None => {| h_code := Some c; h_nonce := h_nonce h; h_realm := h_realm h; h_alg := h_alg h; h_algs := h_algs h; h_mi := h_mi h; h_sha := h_sha h; h_bit_algs := h_bit_algs h; h_bit_anon := h_bit_anon h |} | Some _ => h end)
  | Realm r => Some (match h_realm h with None => {| h_code := h_code h; h_nonce := h_nonce h; h_realm := Some r; h_alg := h_alg h; h_algs := h_algs h; h_mi := h_mi h; h_sha := h_sha h; h_bit_algs := h_bit_algs h; h_bit_anon := h_bit_anon h |} | Some _ => h end)
  | Nonce n c =>
      match h_nonce h with
      | Some _ => Some h
      | None =>
          let decodable := (1 <=? c) && (c <=? 4) in        (* is_nonce_cookie && security_features() is Ok *)
          let anon := if decodable then (c =? 3) || (c =? 4) else h_bit_anon h in
          let algs := if decodable then (c =? 2) || (c =? 4) else h_bit_algs h in
          Some {| h_code := h_code h; h_nonce := Some (n, c); h_realm := h_realm h; h_alg := h_alg h; h_algs := h_algs h; h_mi := h_mi h; h_sha := h_sha h; h_bit_algs := algs; h_bit_anon := anon |}
      end
  | PwdAlgs l =>
      match h_algs h with
      | Some _ => Some h
      | None =>
          match choose_alg l (h_alg h) with
          | None => None
          | Some a => Some {| h_code := h_code h; h_nonce := h_nonce h; h_realm := h_realm h; h_alg := Some a; h_algs := Some l; h_mi := h_mi h; h_sha := h_sha h; h_bit_algs := h_bit_algs h; h_bit_anon := h_bit_anon h |}
          end
      end
  | AMI _ => Some {| h_code := h_code h; h_nonce := h_nonce h; h_realm := h_realm h; h_alg := h_alg h; h_algs := h_algs h; h_mi := Some a; h_sha := h_sha h; h_bit_algs := h_bit_algs h; h_bit_anon := h_bit_anon h |}
  | ASHA _ => Some {| h_code := h_code h; h_nonce := h_nonce h; h_realm := h_realm h; h_alg := h_alg h; h_algs := h_algs h; h_mi := h_mi h; h_sha := Some a; h_bit_algs := h_bit_algs h; h_bit_anon := h_bit_anon h |}
  | _ => Some h
  end.
Fixpoint harvest_all (h:harvest) (l:list attr) : option harvest :=
  match l with [] => Some h | a :: r => match harvest1 h a with Some h' => harvest_all h' r | None => None end end.

(* create_long_term_auth_attrs; None = Discarded (realm or nonce missing) *)
Definition make_params (h:harvest) : option lt_params :=
  match h_realm h, h_nonce h with
  | Some r, Some n =>
      let a := match h_alg h with Some a => a | None => MD5 end in
      Some {| p_realm := r; p_nonce := n; p_algs := h_algs h; p_alg := h_alg h; p_key := KLT r 0 a;
              p_anon := h_bit_anon h; p_integ := match h_algs h with Some _ => ISHA | None => IMI end |}
  | _, _ => None
  end.

Definition set_nonce (p:lt_params) (n:N*N) : lt_params :=
  {| p_realm := p_realm p; p_nonce := n; p_algs := p_algs p; p_alg := p_alg p; p_key := p_key p; p_anon := p_anon p; p_integ := p_integ p |}.
Definition has (o:option attr) : bool := match o with Some _ => true | None => false end.

Definition lt_error (reliable:bool) (markers:list txid) (s:lt_mech) (m:msg) : option ierr * list txid * lt_mech :=
  match harvest_all harvest0 (rfc_filter (m_attrs m)) with
  | None => (Some ENotRetryable, markers, s)
  | Some h =>
      if h_bit_algs h && (match h_algs h with None => true | Some _ => false end) then (Some ENotRetryable, markers, s)
      else match h_code h with
      | None => (Some EDiscarded, markers, s)
      | Some code =>
          if code =? 401 then
            match make_params h with
            | None => (Some EDiscarded, markers, s)
            | Some p =>
                if has (h_mi h) || has (h_sha h) then
                  match authenticate reliable markers (p_key p) (p_integ p) m (h_mi h) (h_sha h) with
                  | (Some e, mk) => (Some e, mk, s)
                  | (None, mk) => (Some ERetry, mk, {| lt_st := Retry401; lt_pr := Some p |})
                  end
                else (Some ERetry, markers, {| lt_st := Retry401; lt_pr := Some p |})
            end
          else if code =? 438 then
            match h_nonce h with
            | None => (Some EDiscarded, markers, s)
            | Some n =>
                match lt_pr s with
                | None => (Some EDiscarded, markers, s)
                | Some p =>
                    if has (h_mi h) || has (h_sha h) then
                      match authenticate reliable markers (p_key p) (p_integ p) m (h_mi h) (h_sha h) with
                      | (Some e, mk) => (Some e, mk, s)
                      | (None, mk) => (Some ERetry, mk, {| lt_st := Retry438; lt_pr := Some (set_nonce p n) |})
                      end
                    else (Some ERetry, markers, {| lt_st := Retry438; lt_pr := Some (set_nonce p n) |})
                end
            end
          else
            match lt_pr s with
            | None => (Some EDiscarded, markers, s)
            | Some p =>
                let '(e, mk) := authenticate reliable markers (p_key p) (p_integ p) m (h_mi h) (h_sha h) in (e, mk, s)
            end
      end
  end.

(* success response: an integrity attribute of the non-agreed kind anywhere in the protected list -> Discarded *)
Fixpoint succ_scan (i:integ) (l:list attr) (mi sha:option attr) : option (option attr * option attr) :=
  match l with
  | [] => Some (mi, sha)
  | a :: r =>
      if a_is_mi a then match i with IMI => succ_scan i r (Some a) sha | ISHA => None end
      else if a_is_sha a then match i with ISHA => succ_scan i r mi (Some a) | IMI => None end
      else succ_scan i r mi sha
  end.
Definition lt_success (reliable:bool) (markers:list txid) (s:lt_mech) (m:msg) : option ierr * list txid * lt_mech :=
  match lt_pr s with
  | None => (Some EDiscarded, markers, s)
  | Some p =>
      match succ_scan (p_integ p) (rfc_filter (m_attrs m)) None None with
      | None => (Some EDiscarded, markers, s)
      | Some (mi, sha) =>
          let '(e, mk) := authenticate reliable markers (p_key p) (p_integ p) m mi sha in (e, mk, s)
      end
  end.

Definition lt_recv (reliable:bool) (markers:list txid) (s:lt_mech) (m:msg) : option ierr * list txid * lt_mech :=
  let r := match m_class m with
           | CRequest | CIndication => (Some EDiscarded, markers, s)
           | CError => lt_error reliable markers s m
           | CSuccess => lt_success reliable markers s m
           end in
  match r with
  | (None, mk, s') => (None, mk, {| lt_st := Subsequent; lt_pr := lt_pr s' |})
  | _ => r
  end.

Inductive mech := MNone | MST (s:st_mech) | MLT (s:lt_mech).

(* ------------------------------------------------------------------ the client *)
Record txn := { inst : option N; pkt : msg; tm : mgr }.
Notation hent := (N * N * txid)%type (only parsing).            (* armed_at, duration, id *)
Definition h_id (e:hent) : txid := snd e.
Definition h_exp (e:hent) : N := fst (fst e) + snd (fst e).

Record config := { reliable : bool; cf_rm : N; cf_rc : N; limit : N; use_fp : bool }.
Record client := { cfg : config; mech_ : mech; markers : list txid; T : list (txid * txn); H : list hent }.

Inductive op :=
| Send (now:N) (id:txid) (r:N) (method:N) (app:list attr) (room:bool)
      (* id: the transaction id the implementation drew; r: the RTO (or reliable timeout) in force, read from the hook;
         room: whether the caller's buffer is large enough to encode the message *)
| Indication (id:txid) (method:N) (app:list attr) (room:bool)
| Recv (now:N) (decodable:bool) (m:msg)       (* m: the crafted message, attributes in wire order *)
| Tmo (now:N).

Fixpoint lookup (id:txid) (l:list (txid*txn)) : option txn :=
  match l with [] => None | (k,v)::r => if k =? id then Some v else lookup id r end.
Definition remove_t (id:txid) (l:list (txid*txn)) := filter (fun kv => negb (fst kv =? id)) l.
Definition remove_h (id:txid) (l:list hent) := filter (fun e => negb (h_id e =? id)) l.
Fixpoint update_t (id:txid) (v:txn) (l:list (txid*txn)) :=
  match l with [] => [] | (k,x)::r => if k =? id then (k,v)::r else (k,x)::update_t id v r end.

Fixpoint min_entry (l:list hent) : option hent :=
  match l with
  | [] => None
  | e :: r => match min_entry r with None => Some e | Some m => if h_exp e <=? h_exp m then Some e else Some m end
  end.
Definition notif (h:list hent) (now:N) : list event :=
  match min_entry h with None => [] | Some e => [Notif (h_id e) (h_exp e - now)] end.

Definition new_mgr (c:client) (r:N) : mgr :=
  if reliable (cfg c)
  then {| latest := None; last_rto := 0; mcalc := {| c_rtt := r; c_rm := 1; c_rc := 1; c_last := 1 |} |}
  else {| latest := None; last_rto := 0; mcalc := {| c_rtt := r; c_rm := 1; c_rc := cf_rc (cfg c); c_last := cf_rm (cfg c) |} |}.

Definition with_mech (c:client) (m:mech) (mk:list txid) : client :=
  {| cfg := cfg c; mech_ := m; markers := mk; T := T c; H := H c |}.
Definition with_TH (c:client) (t:list (txid*txn)) (h:list hent) : client :=
  {| cfg := cfg c; mech_ := mech_ c; markers := markers c; T := t; H := h |}.

(* prepare_stun_message; None = the mechanism refused (InternalError / Ignored) *)
Definition prepare (c:client) (is_request:bool) (app:list attr) : option attrs + reply :=
  let a := of_list app in
  let r := match mech_ c with
           | MNone => inl (Some a)
           | MST s => inl (Some (st_prepare s a))
           | MLT s => if is_request then (match lt_prepare s a with Some x => inl (Some x) | None => inr RInternal end)
                      else inr RIgnored
           end in
  match r with
  | inl (Some a) => inl (Some (if use_fp (cfg c) then add_attr (AFP true) a else a))
  | other => other
  end.

(* process one due id in on_timeout *)
Definition tmo_one (now:N) (acc: list (txid*txn) * list hent * list txid * list event) (id:txid) :=
  let '(t, h, mk, ev) := acc in
  match lookup id t with
  | None => acc
  | Some x =>
     match next_rto (tm x) now with
     | (Some d, m') => (update_t id {| inst := None; pkt := pkt x; tm := m' |} t, (now, d, id) :: h, mk, ev ++ [Out id false (pkt x)])
     | (None, _) => (remove_t id t, h, del id mk, ev ++ [Failed id (if mem id mk then ProtectionViolated else TimedOut)])
     end
  end.

Definition is_response (m:msg) : bool := match m_class m with CSuccess | CError => true | _ => false end.

Definition step (c:client) (o:op) : client * reply * list event :=
  match o with
  | Send now id r method app room =>
      if limit (cfg c) <=? N.of_nat (length (T c)) then (c, RMaxOut, [])
      else match prepare c true app with
           | inr e => (c, e, [])
           | inl None => (c, RInternal, [])
           | inl (Some a) =>
               if negb room then (c, RInternal, [])
               else
                 let p := {| m_class := CRequest; m_method := method; m_id := id; m_attrs := flatten a |} in
                 match next_rto (new_mgr c r) now with
                 | (Some d, m1) =>
                     let h' := (now, d, id) :: H c in
                     (with_TH c ((id, {| inst := Some now; pkt := p; tm := m1 |}) :: T c) h',
                      ROk (Some id), Out id true p :: notif h' now)
                 | (None, _) => (c, RInternal, [])
                 end
           end
  | Indication id method app room =>
      match prepare c false app with
      | inr e => (c, e, [])
      | inl None => (c, RInternal, [])
      | inl (Some a) =>
          if negb room then (c, RInternal, [])
          else (c, ROk (Some id), [Out id true {| m_class := CIndication; m_method := method; m_id := id; m_attrs := flatten a |}])
      end
  | Recv now decodable w =>
      if negb decodable then (c, RInternal, [])
      else
        let m := {| m_class := m_class w; m_method := m_method w; m_id := m_id w; m_attrs := rfc_filter (m_attrs w) |} in
        if class_eqb (m_class m) CRequest then (c, RDiscarded, [])
        else if is_response m && (match lookup (m_id m) (T c) with None => true | Some _ => false end) then (c, RDiscarded, [])
        else
          (* FINGERPRINT: msg.get::<Fingerprint>() is the first one of the decoded message *)
          let fp := find a_is_fp (m_attrs m) in
          if use_fp (cfg c) && (match fp with None => true | Some _ => false end) then (c, RStunCheck, [])
          else if use_fp (cfg c) && (match fp with Some (AFP true) => false | _ => true end) then (c, RDiscarded, [])
          else
            let '(e, mk, mech') :=
              match mech_ c with
              | MNone => (None, markers c, MNone)
              | MST s => let '(e, mk, s') := st_recv (reliable (cfg c)) (markers c) s m in (e, mk, MST s')
              | MLT s => let '(e, mk, s') := lt_recv (reliable (cfg c)) (markers c) s m in (e, mk, MLT s')
              end in
            match e with
            | Some EDiscarded => (with_mech c mech' mk, RDiscarded, [])
            | _ =>
                let ev := match e with
                          | Some EViolated => Failed (m_id m) ProtectionViolated
                          | Some ERetry => Retry (m_id m)
                          | Some ENotRetryable => Failed (m_id m) DoNotRetry
                          | _ => Received m
                          end in
                let c1 := with_mech c mech' mk in
                if class_eqb (m_class m) CIndication then (c1, ROk None, [ev])
                else (with_TH c1 (remove_t (m_id m) (T c1)) (remove_h (m_id m) (H c1)), ROk None, [ev])
            end
  | Tmo now =>
      let due := filter (fun e => h_exp e <=? now) (H c) in
      let keep := filter (fun e => negb (h_exp e <=? now)) (H c) in
      let '(t', h', mk', ev) := fold_left (tmo_one now) (map h_id due) (T c, keep, markers c, []) in
      ({| cfg := cfg c; mech_ := mech_ c; markers := mk'; T := t'; H := h' |}, ROk None, ev ++ notif h' now)
  end.

Definition init (cf:config) (m:mech) : client := {| cfg := cf; mech_ := m; markers := []; T := []; H := [] |}.
