From Coq Require Import List NArith Lia Bool Arith.
Import ListNotations.
From Rustun Require Import Base.Tlv.
Open Scope N_scope.

(* ---- header ---- *)
Definition hdr_ok (h:bytes) : bool :=
  match h with
  | b0 :: _ :: _ :: _ :: c0 :: c1 :: c2 :: c3 :: _ => (b0 <? 64) && (c0 =? 33) && (c1 =? 18) && (c2 =? 164) && (c3 =? 66)
  | _ => false
  end.
Definition msg_len (h:bytes) : N := match h with _ :: _ :: l1 :: l2 :: _ => rd16 l1 l2 | _ => 0 end.

(* ---- model of StunPacketDecoder::decode (lib.rs:225-315) ---- *)
Record dec := { bufsz : N; acc : bytes; expd : option N }.
Inductive outcome :=
| Decoded (p:bytes) (consumed:N)
| More (d:dec) (missing:option N)
| EInvalid (consumed:N)
| ESmall (consumed:N).

Definition feed (d:dec) (data:bytes) : outcome :=
  match expd d with
  | Some size =>
      let remaining := size - len (acc d) in
      if remaining <=? len data then Decoded (acc d ++ take remaining data) remaining
      else More {| bufsz := bufsz d; acc := acc d ++ data; expd := Some size |} (Some (remaining - len data))
  | None =>
      if 20 <=? len (acc d) + len data then
        let remaining := 20 - len (acc d) in
        let hdr := acc d ++ take remaining data in
        if negb (hdr_ok hdr) then EInvalid remaining
        else let ml := msg_len hdr in
             if bufsz d <? ml + 20 then ESmall remaining
             else if ml + remaining <=? len data
                  then Decoded (hdr ++ take ml (drop remaining data)) (remaining + ml)
                  else More {| bufsz := bufsz d; acc := hdr ++ drop remaining data; expd := Some (ml + 20) |}
                            (Some (ml + 20 - (len (acc d) + len data)))
      else More {| bufsz := bufsz d; acc := acc d ++ data; expd := None |} None
  end.

(* ---- spec: what the unchunked stream starts with ---- *)
Inductive item := Packet (p:bytes) (rest:bytes) | Incomplete (missing:option N) | Invalid | Small.
Definition parse (B:N) (s:bytes) : item :=
  if len s <? 20 then Incomplete None
  else let hdr := take 20 s in
       if negb (hdr_ok hdr) then Invalid
       else let size := msg_len hdr + 20 in
            if B <? size then Small
            else if len s <? size then Incomplete (Some (size - len s))
            else Packet (take size s) (drop size s).

Definition DInv (d:dec) : Prop :=
  match expd d with
  | None => len (acc d) < 20
  | Some size => 20 <= len (acc d) < size /\ size <= bufsz d /\ hdr_ok (take 20 (acc d)) = true /\ size = msg_len (take 20 (acc d)) + 20
  end.

(* list helpers over N-indexed take/drop *)
Lemma len_take n l : n <= len l -> len (take n l) = n.
Proof. unfold len, take. intros H. rewrite firstn_length. lia. Qed.
Lemma take_app_le n a b : n <= len a -> take n (a ++ b) = take n a.
Proof. unfold take, len. intros H. rewrite firstn_app. replace (N.to_nat n - length a)%nat with 0%nat by lia. cbn. apply app_nil_r. Qed.
Lemma take_app_ge n a b : len a <= n -> take n (a ++ b) = a ++ take (n - len a) b.
Proof. unfold take, len. intros H. rewrite firstn_app. rewrite firstn_all2 by lia. f_equal. f_equal. lia. Qed.
Lemma drop_app_ge n a b : len a <= n -> drop n (a ++ b) = drop (n - len a) b.
Proof. unfold drop, len. intros H. rewrite skipn_app. rewrite skipn_all2 by lia. cbn. f_equal. lia. Qed.
Lemma take_all n l : len l <= n -> take n l = l.
Proof. unfold take, len. intros H. apply firstn_all2. lia. Qed.
Lemma take_take n m l : n <= m -> take n (take m l) = take n l.
Proof. unfold take. intros H. rewrite firstn_firstn. f_equal. lia. Qed.
Lemma take_drop_app n l : take n l ++ drop n l = l.
Proof. unfold take, drop. apply firstn_skipn. Qed.
Lemma take_drop_split n m l : take (n + m) l = take n l ++ take m (drop n l).
Proof.
  unfold take, drop. rewrite N2Nat.inj_add. revert l. induction (N.to_nat n) as [|k IH]; intros l; cbn; [reflexivity|].
  destruct l; cbn; [now rewrite firstn_nil|]. f_equal. apply IH.
Qed.

Theorem feed_spec d data :
  DInv d ->
  match parse (bufsz d) (acc d ++ data) with
  | Incomplete miss => exists d', feed d data = More d' miss /\ acc d' = acc d ++ data /\ bufsz d' = bufsz d /\ DInv d'
  | Packet p rest => feed d data = Decoded p (len p - len (acc d)) /\ len (acc d) < len p /\ drop (len p - len (acc d)) data = rest
  | Invalid => feed d data = EInvalid (20 - len (acc d))
  | Small => feed d data = ESmall (20 - len (acc d))
  end.
Proof.
  intros Hinv. unfold DInv in Hinv. unfold parse, feed. rewrite len_app.
  destruct (expd d) as [size|] eqn:He.
  - (* size known *)
    destruct Hinv as ([Ha1 Ha2] & Hb & Hok & Hsz).
    assert ((len (acc d) + len data <? 20) = false) as -> by (apply N.ltb_ge; lia).
    assert (Ht : take 20 (acc d ++ data) = take 20 (acc d)) by (apply take_app_le; lia).
    rewrite Ht, Hok. cbn [negb]. rewrite <- Hsz.
    assert ((bufsz d <? size) = false) as -> by (apply N.ltb_ge; lia).
    destruct (N.ltb_spec (len (acc d) + len data) size) as [Hlt|Hge].
    + assert ((size - len (acc d) <=? len data) = false) as -> by (apply N.leb_gt; lia).
      eexists. split; [f_equal; f_equal; lia|]. cbn [acc bufsz expd]. split; [reflexivity|split; [reflexivity|]].
      unfold DInv; cbn [expd acc bufsz]. rewrite len_app. rewrite !take_app_le by lia.
      repeat split; try lia; assumption.
    + assert ((size - len (acc d) <=? len data) = true) as -> by (apply N.leb_le; lia).
      rewrite take_app_ge by lia.
      assert (Hlp : len (acc d ++ take (size - len (acc d)) data) = size) by (rewrite len_app, len_take; lia).
      rewrite Hlp. split; [reflexivity|]. split; [lia|].
      rewrite drop_app_ge by lia. reflexivity.
  - (* header not complete yet *)
    destruct (N.ltb_spec (len (acc d) + len data) 20) as [Hs|Hs].
    + assert ((20 <=? len (acc d) + len data) = false) as -> by (apply N.leb_gt; lia).
      eexists. split; [reflexivity|]. cbn [acc bufsz expd]. split; [reflexivity|split; [reflexivity|]].
      unfold DInv; cbn [expd acc]. rewrite len_app. lia.
    + assert ((20 <=? len (acc d) + len data) = true) as -> by (apply N.leb_le; lia).
      rewrite take_app_ge by lia.
      set (hdr := acc d ++ take (20 - len (acc d)) data).
      assert (Hlh : len hdr = 20) by (unfold hdr; rewrite len_app, len_take; lia).
      destruct (hdr_ok hdr) eqn:Hok; cbn [negb]; [|reflexivity].
      destruct (bufsz d <? msg_len hdr + 20) eqn:Hb; [reflexivity|]. apply N.ltb_ge in Hb.
      destruct (N.ltb_spec (len (acc d) + len data) (msg_len hdr + 20)) as [Hlt|Hge].
      * assert ((msg_len hdr + (20 - len (acc d)) <=? len data) = false) as -> by (apply N.leb_gt; lia).
        eexists. split; [f_equal; f_equal; lia|]. cbn [acc bufsz expd].
        assert (Happ : hdr ++ drop (20 - len (acc d)) data = acc d ++ data)
          by (unfold hdr; rewrite <- app_assoc; f_equal; apply take_drop_app).
        split; [exact Happ|split; [reflexivity|]].
        unfold DInv; cbn [expd acc bufsz]. rewrite Happ, len_app.
        assert (Ht : take 20 (acc d ++ data) = hdr) by (unfold hdr; apply take_app_ge; lia).
        rewrite Ht. repeat split; try lia; assumption.
      * assert ((msg_len hdr + (20 - len (acc d)) <=? len data) = true) as -> by (apply N.leb_le; lia).
        assert (Hp : take (msg_len hdr + 20) (acc d ++ data) = hdr ++ take (msg_len hdr) (drop (20 - len (acc d)) data)).
        { rewrite take_app_ge by lia.
          replace (msg_len hdr + 20 - len (acc d)) with ((20 - len (acc d)) + msg_len hdr) by lia.
          rewrite take_drop_split. rewrite app_assoc. reflexivity. }
        rewrite Hp.
        assert (Hlp : len (hdr ++ take (msg_len hdr) (drop (20 - len (acc d)) data)) = msg_len hdr + 20).
        { rewrite len_app, Hlh, len_take; [lia|]. clear Hp. unfold drop. unfold len in *. rewrite skipn_length. lia. }
        rewrite Hlp. split; [f_equal; lia|]. split; [lia|].
        rewrite drop_app_ge by lia. reflexivity.
Qed.
Print Assumptions feed_spec.
