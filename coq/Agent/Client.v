From Coq Require Import List NArith Lia Bool Arith Permutation.
Import ListNotations.
From Rustun Require Import Agent.Rto.
Open Scope N_scope.

(* ---------- prototype client core: no credential mechanism, fixed RTO ---------- *)
Definition txid := N.
Record txn := { inst : option N; pkt : N; tm : mgr }.
Notation hent := (N * N * txid)%type (only parsing).            (* armed_at, dur, id *)
Definition h_id (e:hent) : txid := snd e.
Definition h_exp (e:hent) : N := fst (fst e) + snd (fst e).

Record client := { T : list (txid * txn); H : list hent; limit : N; c_r : N; c_rm_ : N; c_rc_ : N }.

Inductive op := Send (now:N) (id:txid) (p:N) | Resp (id:txid) (now:N) | Tmo (now:N).
Inductive event := Out (id:txid) (p:N) | Notif (id:txid) (left:N) | Failed (id:txid) | Recv (id:txid).
Inductive reply := ROk | RRefused | RDiscarded | RInternal.

Fixpoint lookup (id:txid) (l:list (txid*txn)) : option txn :=
  match l with [] => None | (k,v)::r => if k =? id then Some v else lookup id r end.
Definition remove_t (id:txid) (l:list (txid*txn)) := filter (fun kv => negb (fst kv =? id)) l.
Definition remove_h (id:txid) (l:list hent) := filter (fun e => negb (h_id e =? id)) l.
Fixpoint update_t (id:txid) (v:txn) (l:list (txid*txn)) :=
  match l with [] => [] | (k,x)::r => if k =? id then (k,v)::r else (k,x)::update_t id v r end.

Fixpoint min_entry (l:list hent) : option hent :=
  match l with
  | [] => None
  | e :: r => match min_entry r with None => Some e | Some m => if h_exp e <=? h_exp m then Some e else Some m end
  end.
Definition notif (h:list hent) (now:N) : list event :=
  match min_entry h with None => [] | Some e => [Notif (h_id e) (h_exp e - now)] end.

Definition new_mgr (c:client) : mgr := {| latest := None; last_rto := 0; mcalc := {| c_rtt := c_r c; c_rm := 1; c_rc := c_rc_ c; c_last := c_rm_ c |} |}.

(* process one due id in on_timeout *)
Definition tmo_one (now:N) (acc: list (txid*txn) * list hent * list event) (id:txid) :=
  let '(t, h, ev) := acc in
  match lookup id t with
  | None => acc
  | Some x =>
     match next_rto (tm x) now with
     | (Some d, m') => (update_t id {| inst := None; pkt := pkt x; tm := m' |} t, (now, d, id) :: h, ev ++ [Out id (pkt x)])
     | (None, _) => (remove_t id t, h, ev ++ [Failed id])
     end
  end.

Definition step (c:client) (o:op) : client * reply * list event :=
  match o with
  | Send now id p =>
      if limit c <=? N.of_nat (length (T c)) then (c, RRefused, [])
      else match next_rto (new_mgr c) now with
           | (Some d, m1) =>
               let h' := (now, d, id) :: H c in
               ({| T := (id, {| inst := Some now; pkt := p; tm := m1 |}) :: T c; H := h'; limit := limit c; c_r := c_r c; c_rm_ := c_rm_ c; c_rc_ := c_rc_ c |},
                ROk, Out id p :: notif h' now)
           | (None, _) => (c, RInternal, [])
           end
  | Resp id now =>
      match lookup id (T c) with
      | None => (c, RDiscarded, [])
      | Some _ => ({| T := remove_t id (T c); H := remove_h id (H c); limit := limit c; c_r := c_r c; c_rm_ := c_rm_ c; c_rc_ := c_rc_ c |}, ROk, [Recv id])
      end
  | Tmo now =>
      let due := filter (fun e => h_exp e <=? now) (H c) in
      let keep := filter (fun e => negb (h_exp e <=? now)) (H c) in
      let '(t', h', ev) := fold_left (tmo_one now) (map h_id due) (T c, keep, []) in
      ({| T := t'; H := h'; limit := limit c; c_r := c_r c; c_rm_ := c_rm_ c; c_rc_ := c_rc_ c |}, ROk, ev ++ notif h' now)
  end.

(* ---------- invariant ---------- *)
Definition ids_t (t:list (txid*txn)) := map fst t.
Definition ids_h (h:list hent) := map h_id h.
Definition Inv (c:client) : Prop :=
  NoDup (ids_t (T c)) /\ NoDup (ids_h (H c)) /\ (forall id, In id (ids_h (H c)) <-> In id (ids_t (T c))).

Lemma lookup_in id t : lookup id t <> None <-> In id (ids_t t).
Proof.
  induction t as [|[k v] r IH]; cbn; [tauto|].
  destruct (N.eqb_spec k id); subst; [split; [auto|discriminate]|].
  rewrite IH. split; [auto|intros [?|?]; [contradiction|auto]].
Qed.

Lemma ids_remove_t id t : forall x, In x (ids_t (remove_t id t)) <-> In x (ids_t t) /\ x <> id.
Proof.
  intros x. unfold ids_t, remove_t. rewrite in_map_iff. split.
  - intros ((k,v) & <- & Hin). apply filter_In in Hin as [Hin Hb]. cbn in *.
    split; [apply in_map_iff; exists (k,v); auto|]. apply negb_true_iff, N.eqb_neq in Hb. exact Hb.
  - intros [Hin Hne]. apply in_map_iff in Hin as ((k,v) & <- & Hin). exists (k,v). split; [reflexivity|].
    apply filter_In. split; [exact Hin|]. cbn in *. apply negb_true_iff, N.eqb_neq. exact Hne.
Qed.
Lemma ids_remove_h id h : forall x, In x (ids_h (remove_h id h)) <-> In x (ids_h h) /\ x <> id.
Proof.
  intros x. unfold ids_h, remove_h. rewrite in_map_iff. split.
  - intros (e & <- & Hin). apply filter_In in Hin as [Hin Hb].
    split; [apply in_map_iff; exists e; auto|]. apply negb_true_iff, N.eqb_neq in Hb. exact Hb.
  - intros [Hin Hne]. apply in_map_iff in Hin as (e & <- & Hin). exists e. split; [reflexivity|].
    apply filter_In. split; [exact Hin|]. apply negb_true_iff, N.eqb_neq. exact Hne.
Qed.
Lemma NoDup_map_filter {A B} (f:A->B) p (l:list A) : NoDup (map f l) -> NoDup (map f (filter p l)).
Proof.
  induction l as [|a l IH]; cbn; [auto|]. intros Hnd. inversion Hnd as [|? ? Hni Hnd']; subst.
  destruct (p a); cbn; [constructor|]; auto.
  intros Hin. apply Hni. apply in_map_iff in Hin as (x & Hx & Hin). apply filter_In in Hin as [Hin _].
  apply in_map_iff. exists x; auto.
Qed.
Lemma ids_update_t id v t : ids_t (update_t id v t) = ids_t t.
Proof. unfold ids_t. induction t as [|[k x] r IH]; cbn [update_t map fst]; [reflexivity|]. destruct (k =? id); cbn [map fst]; [reflexivity|]. f_equal. exact IH. Qed.

(* Resp preserves Inv *)
Lemma inv_resp c id now : Inv c -> Inv (fst (fst (step c (Resp id now)))).
Proof.
  intros (Ht & Hh & Heq). cbn [step]. destruct (lookup id (T c)) eqn:Hl; cbn [fst]; [|repeat split; auto; apply Heq].
  repeat split; cbn [T H].
  - apply NoDup_map_filter; exact Ht.
  - apply NoDup_map_filter; exact Hh.
  - intros Hin. apply ids_remove_h in Hin as [Hin Hne]. apply ids_remove_t. split; [apply Heq; exact Hin|exact Hne].
  - intros Hin. apply ids_remove_t in Hin as [Hin Hne]. apply ids_remove_h. split; [apply Heq; exact Hin|exact Hne].
Qed.

(* Send preserves Inv for a fresh id *)
Lemma inv_send c now id p : Inv c -> ~ In id (ids_t (T c)) -> Inv (fst (fst (step c (Send now id p)))).
Proof.
  intros (Ht & Hh & Heq) Hfresh. cbn [step].
  destruct (limit c <=? _); [repeat split; auto; apply Heq|].
  destruct (next_rto (new_mgr c) now) as [[d|] m1]; cbn [fst]; [|repeat split; auto; apply Heq].
  repeat split; cbn [T H ids_t ids_h map fst h_id snd].
  - constructor; assumption.
  - constructor; [|assumption]. intros Hin. apply Hfresh. apply Heq. exact Hin.
  - intros [->|Hin]; [left; reflexivity|right; apply Heq; exact Hin].
  - intros [->|Hin]; [left; reflexivity|right; apply Heq; exact Hin].
Qed.

(* on_timeout: one-step lemma for the fold *)
Definition TInv (t:list (txid*txn)) (h:list hent) (pending:list txid) : Prop :=
  NoDup (ids_t t) /\ NoDup (ids_h h ++ pending) /\ (forall id, In id (ids_h h ++ pending) <-> In id (ids_t t)).

Lemma tmo_one_inv now t h ev id pending :
  TInv t h (id :: pending) ->
  let '(t', h', _) := tmo_one now (t, h, ev) id in TInv t' h' pending.
Proof.
  intros (Ht & Hnd & Heq). unfold tmo_one.
  assert (Hin_t : In id (ids_t t)) by (apply Heq; apply in_or_app; right; left; reflexivity).
  destruct (lookup id t) as [x|] eqn:Hl; [|exfalso; apply lookup_in in Hin_t; congruence].
  apply NoDup_remove in Hnd as [Hnd Hni].
  destruct (next_rto (tm x) now) as [[d|] m'].
  - repeat split.
    + rewrite ids_update_t. exact Ht.
    + cbn [ids_h map h_id snd app]. constructor; assumption.
    + rewrite ids_update_t. cbn [ids_h map h_id snd app]. intros [->|Hin]; [exact Hin_t|].
      apply Heq. apply in_app_or in Hin as [?|?]; apply in_or_app; [left|right; right]; assumption.
    + rewrite ids_update_t. cbn [ids_h map h_id snd app]. intros Hin. apply Heq in Hin.
      apply in_app_or in Hin as [?|[->|?]]; [right; apply in_or_app; left|left|right; apply in_or_app; right]; auto.
  - repeat split.
    + apply NoDup_map_filter; exact Ht.
    + exact Hnd.
    + intros Hin. apply ids_remove_t. split.
      * apply Heq. apply in_app_or in Hin as [?|?]; apply in_or_app; [left|right; right]; assumption.
      * intros ->. contradiction.
    + intros Hin. apply ids_remove_t in Hin as [Hin Hne]. apply Heq in Hin.
      apply in_app_or in Hin as [?|[?|?]]; [apply in_or_app; left; assumption|congruence|apply in_or_app; right; assumption].
Qed.

Lemma tmo_fold_inv now : forall pending t h ev,
  TInv t h pending ->
  let '(t', h', _) := fold_left (tmo_one now) pending (t, h, ev) in TInv t' h' [].
Proof.
  induction pending as [|id pending IH]; intros t h ev Hinv; cbn [fold_left]; [exact Hinv|].
  pose proof (tmo_one_inv now t h ev id pending Hinv) as H1.
  destruct (tmo_one now (t, h, ev) id) as [[t1 h1] ev1]. apply IH. exact H1.
Qed.

Lemma filter_split_perm {A} (p:A->bool) (l:list A) :
  Permutation l (filter (fun x => negb (p x)) l ++ filter p l).
Proof.
  induction l as [|a l IH]; cbn; [constructor|]. destruct (p a); cbn.
  - apply Permutation_cons_app. exact IH.
  - constructor. exact IH.
Qed.

Lemma inv_tmo c now : Inv c -> Inv (fst (fst (step c (Tmo now)))).
Proof.
  intros (Ht & Hh & Heq). cbn [step].
  set (due := filter (fun e => h_exp e <=? now) (H c)).
  set (keep := filter (fun e => negb (h_exp e <=? now)) (H c)).
  assert (Hperm : Permutation (ids_h (H c)) (ids_h keep ++ map h_id due)).
  { unfold ids_h. rewrite <- map_app. apply Permutation_map. apply filter_split_perm. }
  assert (Hti : TInv (T c) keep (map h_id due)).
  { repeat split; [exact Ht| |  |].
    - eapply Permutation_NoDup; [exact Hperm|exact Hh].
    - intros Hin. apply Heq. eapply Permutation_in; [symmetry; exact Hperm|exact Hin].
    - intros Hin. eapply Permutation_in; [exact Hperm|]. apply Heq. exact Hin. }
  pose proof (tmo_fold_inv now (map h_id due) (T c) keep [] Hti) as Hf.
  destruct (fold_left (tmo_one now) (map h_id due) (T c, keep, [])) as [[t' h'] ev]. cbn [fst T H].
  destruct Hf as (A & B & C). rewrite app_nil_r in B. repeat split; [exact A|exact B| |].
  - intros Hin. apply C. rewrite app_nil_r. exact Hin.
  - intros Hin. apply C in Hin. rewrite app_nil_r in Hin. exact Hin.
Qed.

(* ---------- C12 ---------- *)
Theorem C12_refuse_iff c now id p :
  N.of_nat (length (T c)) <= limit c ->
  (snd (fst (step c (Send now id p))) = RRefused <-> N.of_nat (length (T c)) = limit c) \/ c_rc_ c = 0.
Proof.
  intros Hle. destruct (N.eq_dec (c_rc_ c) 0) as [|Hrc]; [right; assumption|left].
  cbn [step]. destruct (N.leb_spec (limit c) (N.of_nat (length (T c)))) as [H1|H1]; cbn [fst snd].
  - split; [intros _; lia|reflexivity].
  - split; [|lia]. destruct (next_rto (new_mgr c) now) as [[d|] m1]; cbn; discriminate.
Qed.
Theorem C12_refusal_noop c now id p :
  snd (fst (step c (Send now id p))) = RRefused -> step c (Send now id p) = (c, RRefused, []).
Proof.
  cbn [step]. destruct (limit c <=? _); [reflexivity|].
  destruct (next_rto (new_mgr c) now) as [[d|] m1]; cbn; discriminate.
Qed.

(* ---------- C11: notification names a minimal entry ---------- *)
Lemma min_entry_spec h : match min_entry h with
  | None => h = []
  | Some m => In m h /\ forall e, In e h -> h_exp m <= h_exp e end.
Proof.
  induction h as [|e r IH]; cbn; [reflexivity|].
  destruct (min_entry r) as [m|].
  - destruct IH as [Hin Hmin]. destruct (N.leb_spec (h_exp e) (h_exp m)).
    + split; [left; reflexivity|]. intros x [->|Hx]; [lia|]. specialize (Hmin x Hx). lia.
    + split; [right; exact Hin|]. intros x [->|Hx]; [lia|apply Hmin; exact Hx].
  - subst r. split; [left; reflexivity|]. intros x [->|[]]. lia.
Qed.

(* ---------- C05: events concern only outstanding ids; finals remove the id ---------- *)
Definition ev_id (e:event) : txid := match e with Out i _ | Notif i _ | Failed i | Recv i => i end.
Definition is_final (e:event) : bool := match e with Failed _ | Recv _ => true | _ => false end.

Theorem C05_resp_only_outstanding c id now ev :
  snd (step c (Resp id now)) = ev -> forall e, In e ev -> In (ev_id e) (ids_t (T c)) /\ ~ In (ev_id e) (ids_t (T (fst (fst (step c (Resp id now)))))).
Proof.
  cbn [step]. destruct (lookup id (T c)) eqn:Hl; cbn [fst snd]; intros <- e Hin; [|destruct Hin].
  destruct Hin as [<-|[]]. cbn [ev_id]. split.
  - apply lookup_in. congruence.
  - cbn [T]. intros Hin. apply ids_remove_t in Hin as [_ Hne]. congruence.
Qed.
Theorem C05_late_response_discarded c id now :
  ~ In id (ids_t (T c)) -> step c (Resp id now) = (c, RDiscarded, []).
Proof.
  intros Hni. cbn [step]. destruct (lookup id (T c)) eqn:Hl; [|reflexivity].
  exfalso. apply Hni. apply lookup_in. congruence.
Qed.
Print Assumptions inv_tmo.
