From Coq Require Import List NArith Lia Bool Arith.
Import ListNotations.
From Rustun Require Import Base.Tlv Agent.Reasm.
Open Scope N_scope.

Inductive ev := EPacket (p:bytes) | EErr (small:bool).
Definition fresh (B:N) : dec := {| bufsz := B; acc := []; expd := None |}.

(* what a caller does with one chunk: after a packet, the rest of the chunk goes to a fresh decoder *)
Fixpoint feed_chunk (fuel:nat) (B:N) (d:dec) (chunk:bytes) : list ev * option dec :=
  match fuel with
  | O => ([], Some d)
  | S f =>
      match feed d chunk with
      | Decoded p consumed => let '(evs, od) := feed_chunk f B (fresh B) (drop consumed chunk) in (EPacket p :: evs, od)
      | More d' _ => ([], Some d')
      | EInvalid _ => ([EErr false], None)
      | ESmall _ => ([EErr true], None)
      end
  end.
Fixpoint drive (B:N) (d:dec) (chunks:list bytes) : list ev :=
  match chunks with
  | [] => []
  | c :: r => let '(evs, od) := feed_chunk (S (length c)) B d c in
              evs ++ match od with Some d' => drive B d' r | None => [] end
  end.

(* the unchunked reading of a stream *)
Fixpoint split (fuel:nat) (B:N) (s:bytes) : list ev * option bytes :=
  match fuel with
  | O => ([], Some s)
  | S f => match parse B s with
           | Packet p rest => let '(evs, l) := split f B rest in (EPacket p :: evs, l)
           | Incomplete _ => ([], Some s)
           | Invalid => ([EErr false], None)
           | Small => ([EErr true], None)
           end
  end.

Lemma split_S f B s : split (S f) B s =
  match parse B s with
  | Packet p rest => let '(evs, l) := split f B rest in (EPacket p :: evs, l)
  | Incomplete _ => ([], Some s)
  | Invalid => ([EErr false], None)
  | Small => ([EErr true], None)
  end.
Proof. reflexivity. Qed.

Lemma len_drop n l : len (drop n l) = len l - n.
Proof. unfold len, drop. rewrite skipn_length. lia. Qed.
Lemma len_nil_iff (l:bytes) : len l = 0 -> l = [].
Proof. unfold len. destruct l; cbn; [reflexivity|lia]. Qed.

Lemma parse_packet_len B s p rest : parse B s = Packet p rest -> 20 <= len p /\ len p <= len s /\ len rest = len s - len p /\ s = p ++ rest.
Proof.
  unfold parse. destruct (len s <? 20) eqn:E1; [discriminate|]. apply N.ltb_ge in E1.
  destruct (negb (hdr_ok (take 20 s))); [discriminate|].
  destruct (B <? msg_len (take 20 s) + 20); [discriminate|].
  destruct (len s <? msg_len (take 20 s) + 20) eqn:E2; [discriminate|]. apply N.ltb_ge in E2.
  intros H. inversion H; subst. rewrite len_take by lia. rewrite len_drop. repeat split; try lia.
  symmetry. apply take_drop_app.
Qed.

(* split does not depend on fuel once it exceeds the length *)
Lemma split_fuel : forall f1 f2 B s, (length s < f1)%nat -> (length s < f2)%nat -> split f1 B s = split f2 B s.
Proof.
  induction f1 as [|f1 IH]; intros f2 B s H1 H2; [lia|]. destruct f2 as [|f2]; [lia|]. cbn [split].
  destruct (parse B s) as [p rest| | |] eqn:Hp; try reflexivity.
  apply parse_packet_len in Hp as (Hp1 & Hp2 & Hp3 & _).
  assert (length rest < length s)%nat by (unfold len in *; lia).
  rewrite (IH f2 B rest) by lia. reflexivity.
Qed.

(* parse only looks at the packet it finds; more bytes after it change nothing *)
Lemma parse_app_packet B s t p rest : parse B s = Packet p rest -> parse B (s ++ t) = Packet p (rest ++ t).
Proof.
  unfold parse. rewrite len_app.
  destruct (len s <? 20) eqn:E1; [discriminate|]. apply N.ltb_ge in E1.
  assert ((len s + len t <? 20) = false) as -> by (apply N.ltb_ge; lia).
  rewrite (take_app_le 20 s t) by lia.
  destruct (negb (hdr_ok (take 20 s))); [discriminate|].
  destruct (B <? msg_len (take 20 s) + 20); [discriminate|].
  destruct (len s <? msg_len (take 20 s) + 20) eqn:E2; [discriminate|]. apply N.ltb_ge in E2.
  assert ((len s + len t <? msg_len (take 20 s) + 20) = false) as -> by (apply N.ltb_ge; lia).
  intros H. inversion H; subst. f_equal.
  - apply take_app_le. lia.
  - unfold drop. rewrite skipn_app. f_equal. unfold len in E2.
    replace (N.to_nat (msg_len (take 20 s) + 20) - length s)%nat with 0%nat by lia. reflexivity.
Qed.
Lemma parse_app_error B s t : (parse B s = Invalid -> parse B (s ++ t) = Invalid) /\ (parse B s = Small -> parse B (s ++ t) = Small).
Proof.
  unfold parse. rewrite len_app.
  destruct (len s <? 20) eqn:E1; [split; discriminate|]. apply N.ltb_ge in E1.
  assert ((len s + len t <? 20) = false) as -> by (apply N.ltb_ge; lia).
  rewrite (take_app_le 20 s t) by lia.
  destruct (negb (hdr_ok (take 20 s))); [split; [reflexivity|discriminate]|].
  destruct (B <? msg_len (take 20 s) + 20); [split; [discriminate|reflexivity]|].
  destruct (len s <? msg_len (take 20 s) + 20); split; discriminate.
Qed.

(* stream composition: what was left over is re-read together with what follows *)
Lemma split_app : forall f B s t evs l, (length s < f)%nat ->
  split f B s = (evs, l) ->
  split (S (length (s ++ t))) B (s ++ t) =
    match l with
    | Some lo => let '(evs', l') := split (S (length (lo ++ t))) B (lo ++ t) in (evs ++ evs', l')
    | None => (evs, None)
    end.
Proof.
  induction f as [|f IH]; intros B s t evs l Hf Hs; [lia|]. cbn [split] in Hs.
  destruct (parse B s) as [p rest|m| |] eqn:Hp.
  - destruct (split f B rest) as [evs0 l0] eqn:Hr. inversion Hs; subst evs l.
    pose proof (parse_packet_len _ _ _ _ Hp) as (Hp1 & Hp2 & Hp3 & Hsp).
    assert (Hlr : (length rest < length s)%nat) by (unfold len in *; lia).
    rewrite split_S. rewrite (parse_app_packet B s t p rest Hp).
    assert (Hfr : (length rest < f)%nat) by lia.
    specialize (IH B rest t evs0 l0 Hfr Hr).
    rewrite (split_fuel (length (s ++ t)) (S (length (rest ++ t))) B (rest ++ t)) by (rewrite !app_length; lia).
    rewrite IH. destruct l0 as [lo|]; [|reflexivity].
    destruct (split (S (length (lo ++ t))) B (lo ++ t)) as [evs' l']. reflexivity.
  - inversion Hs; subst evs l. cbn [app]. destruct (split (S (length (s ++ t))) B (s ++ t)); reflexivity.
  - inversion Hs; subst evs l. rewrite split_S. rewrite (proj1 (parse_app_error B s t) Hp). reflexivity.
  - inversion Hs; subst evs l. rewrite split_S. rewrite (proj2 (parse_app_error B s t) Hp). reflexivity.
Qed.

Lemma DInv_fresh B : DInv (fresh B).
Proof. unfold DInv, fresh; cbn. unfold len; cbn. lia. Qed.

(* one chunk: the caller's loop reads exactly what split reads from buffered ++ chunk *)
Lemma feed_chunk_spec : forall fuel B d chunk, DInv d -> bufsz d = B -> (length chunk < fuel)%nat ->
  let '(evs, od) := feed_chunk fuel B d chunk in
  split (S (length (acc d ++ chunk))) B (acc d ++ chunk) = (evs, option_map acc od)
  /\ (forall d', od = Some d' -> DInv d' /\ bufsz d' = B).
Proof.
  induction fuel as [|fuel IH]; intros B d chunk Hinv HB Hf; [lia|].
  cbn [feed_chunk]. rewrite split_S. pose proof (feed_spec d chunk Hinv) as Hfs. rewrite HB in Hfs.
  destruct (parse B (acc d ++ chunk)) as [p rest|m| |] eqn:Hp.
  - destruct Hfs as (Hfeed & Hlt & Hrest). rewrite Hfeed.
    pose proof (parse_packet_len _ _ _ _ Hp) as (Hp1 & Hp2 & Hp3 & _). rewrite len_app in Hp2.
    assert (Hlen : (length (drop (len p - len (acc d)) chunk) < fuel)%nat).
    { unfold drop. rewrite skipn_length. unfold len in *. lia. }
    specialize (IH B (fresh B) (drop (len p - len (acc d)) chunk) (DInv_fresh B) eq_refl Hlen).
    destruct (feed_chunk fuel B (fresh B) (drop (len p - len (acc d)) chunk)) as [evs od].
    cbn [fresh acc app] in IH. rewrite Hrest in IH. destruct IH as [IH1 IH2].
    rewrite (split_fuel (length (acc d ++ chunk)) (S (length rest)) B rest).
    + rewrite IH1. split; [reflexivity|exact IH2].
    + unfold len in *. rewrite ?app_length in *. lia.
    + lia.
  - destruct Hfs as (d' & Hfeed & Hacc & Hb & Hinv'). rewrite Hfeed. cbn [option_map]. rewrite Hacc.
    split; [reflexivity|]. intros d'' Heq. inversion Heq; subst d''. split; [exact Hinv'|congruence].
  - rewrite Hfs. split; [reflexivity|discriminate].
  - rewrite Hfs. split; [reflexivity|discriminate].
Qed.

Theorem drive_spec : forall chunks B d, DInv d -> bufsz d = B ->
  drive B d chunks = fst (split (S (length (acc d ++ concat chunks))) B (acc d ++ concat chunks)).
Proof.
  induction chunks as [|c r IH]; intros B d Hinv HB.
  - cbn [drive concat]. rewrite app_nil_r. cbn [split].
    (* nothing buffered is ever a complete item: by DInv the buffered bytes are an incomplete prefix *)
    pose proof (feed_spec d [] Hinv) as Hfs. rewrite app_nil_r, HB in Hfs.
    destruct (parse B (acc d)) as [p rest|m| |] eqn:Hp; try reflexivity.
    + destruct Hfs as (_ & Hlt & _). apply parse_packet_len in Hp as (_ & Hle & _). lia.
    + unfold DInv in Hinv. unfold parse in Hp. destruct (expd d) as [sz|].
      * destruct Hinv as ([Ha _] & _ & Hok & _). assert ((len (acc d) <? 20) = false) as E by (apply N.ltb_ge; lia).
        rewrite E, Hok in Hp. cbn [negb] in Hp. destruct (B <? _); [discriminate|]. destruct (len (acc d) <? _); discriminate.
      * assert ((len (acc d) <? 20) = true) as E by (apply N.ltb_lt; lia). rewrite E in Hp. discriminate.
    + unfold DInv in Hinv. unfold parse in Hp. destruct (expd d) as [sz|].
      * destruct Hinv as ([Ha Ha2] & Hb & Hok & Hsz). assert ((len (acc d) <? 20) = false) as E by (apply N.ltb_ge; lia).
        rewrite E, Hok in Hp. cbn [negb] in Hp. rewrite <- Hsz in Hp.
        assert ((B <? sz) = false) as E2 by (apply N.ltb_ge; lia). rewrite E2 in Hp. destruct (len (acc d) <? sz); discriminate.
      * assert ((len (acc d) <? 20) = true) as E by (apply N.ltb_lt; lia). rewrite E in Hp. discriminate.
  - cbn [drive concat].
    pose proof (feed_chunk_spec (S (length c)) B d c Hinv HB ltac:(lia)) as Hc.
    destruct (feed_chunk (S (length c)) B d c) as [evs od]. destruct Hc as [Hsplit Hd].
    rewrite app_assoc.
    rewrite (split_app (S (length (acc d ++ c))) B (acc d ++ c) (concat r) evs (option_map acc od) ltac:(lia) Hsplit).
    destruct od as [d'|]; cbn [option_map].
    + destruct (Hd d' eq_refl) as [Hinv' HB']. rewrite (IH B d' Hinv' HB').
      destruct (split (S (length (acc d' ++ concat r))) B (acc d' ++ concat r)) as [evs' l']. reflexivity.
    + cbn [fst]. rewrite app_nil_r. reflexivity.
Qed.

(* C16: whatever the chunking, the caller sees the packets (and the first error) of the concatenated stream *)
Corollary C16_chunking_irrelevant B chunks1 chunks2 :
  concat chunks1 = concat chunks2 -> drive B (fresh B) chunks1 = drive B (fresh B) chunks2.
Proof.
  intros H. rewrite !drive_spec by (try apply DInv_fresh; reflexivity). cbn [fresh acc app]. rewrite H. reflexivity.
Qed.
Print Assumptions C16_chunking_irrelevant.
