(* The abstraction between bytes and the abstract messages of Agent/Model.v, as a Gallina function.

   The agent correspondence suite runs the model on ABSTRACT messages (string tokens, key descriptors) while the
   implementation sees bytes; the translation is done by the Rust harness (craft / abstract_packet in harness/src/bin/agent.rs),
   which is trusted glue. This file states the same translation over the byte-level models of this development (TLV walk,
   HMAC-SHA1 / HMAC-SHA256 / MD5 / SHA-256 / CRC-32 in Gallina, the key derivations of Codec/Keys.v) so that the glue is
   CHECKED on every run (suite `absglue`): for packets the client sent and for packets the harness crafted, the harness'
   abstract reading must equal `abs_packet` of the very bytes.  It also gives the byte-level meaning of the nonce-cookie
   flavours of the model (`nonce_features`, a model of nonce_cookie.rs incl. the base64 step) — see Proofs/AbsGlueProofs.v. *)
From Coq Require Import List NArith Bool String Ascii.
Import ListNotations.
From Rustun Require Import Base.Tlv Crypto.Crc Crypto.Sha256 Crypto.Sha1Md5 Codec.InputText Codec.Wire Codec.AttrValue
                           Codec.Keys Agent.Model.
Open Scope N_scope.

Definition s2b (s:string) : bytes := map N_of_ascii (list_ascii_of_string s).

(* string constants, evaluated here so that the extracted code contains byte lists (no Coq string type) *)
Definition k_badfeat_n : bytes := Eval vm_compute in s2b "**=*n".
Definition k_dot_org : bytes := Eval vm_compute in s2b ".org".
Definition k_b64_alphabet : bytes := Eval vm_compute in s2b "ABCDEFGHIJKLMNOPQRSTUVWXYZabcdefghijklmnopqrstuvwxyz0123456789+/".
Definition k_abc : bytes := Eval vm_compute in s2b "abc".
Definition k_irrelevant : bytes := Eval vm_compute in s2b "irrelevant".
Definition k_n : bytes := Eval vm_compute in s2b "n".
Definition k_nonce : bytes := Eval vm_compute in s2b "nonce".
Definition k_obMatJos2 : bytes := Eval vm_compute in s2b "obMatJos2".
Definition k_pass : bytes := Eval vm_compute in s2b "pass".
Definition k_realm : bytes := Eval vm_compute in s2b "realm".
Definition k_sw : bytes := Eval vm_compute in s2b "sw".
Definition k_user : bytes := Eval vm_compute in s2b "user".

(* ------------------------------------------------------------------------------------------ decimal numbers *)
Fixpoint dec_digits (fuel:nat) (n:N) (acc:bytes) : bytes :=
  match fuel with
  | O => acc
  | S f => let acc' := (48 + n mod 10) :: acc in if n / 10 =? 0 then acc' else dec_digits f (n / 10) acc'
  end.
Definition dec (n:N) : bytes := dec_digits 40 n [].
Fixpoint parse_dec_go (l:bytes) (acc:N) : option N :=
  match l with
  | [] => Some acc
  | c :: r => if (48 <=? c) && (c <=? 57) then parse_dec_go r (acc * 10 + (c - 48)) else None
  end.
(* canonical decimal only (what the vocabulary produces); anything else reads as the out-of-vocabulary token 9999 *)
Definition num_opt (l:bytes) : option N :=
  match l with
  | [] => None
  | _ => match parse_dec_go l 0 with Some n => if av_bytes_eqb (dec n) l then Some n else None | None => None end
  end.
Definition num (l:bytes) : N := match num_opt l with Some n => n | None => 9999 end.

Fixpoint strip_prefix (p s:bytes) : option bytes :=
  match p, s with
  | [], _ => Some s
  | x :: p', y :: s' => if x =? y then strip_prefix p' s' else None
  | _, [] => None
  end.
Definition strip_suffix (p s:bytes) : option bytes :=
  match strip_prefix (rev p) (rev s) with Some r => Some (rev r) | None => None end.
Definition num_after (p s:bytes) : N := match strip_prefix p s with Some r => num r | None => 9999 end.

(* ------------------------------------------------------------------------------------------ the vocabulary *)
Definition user_str (u:N) : bytes := k_user ++ dec u.
Definition pass_str (p:N) : bytes := [32] ++ k_pass ++ dec p ++ [32].    (* " pass<p> ": the surrounding spaces are part of the password *)
Definition realm_str (r:N) : bytes := k_realm ++ dec r ++ k_dot_org.

(* base64, standard alphabet (RFC 4648 section 4) *)
Definition b64_alphabet : bytes := k_b64_alphabet.
Definition b64_char (i:N) : N := nth (N.to_nat i) b64_alphabet 0.
Definition b64_enc3 (b0 b1 b2:N) : bytes :=
  let n := (b0 * 256 + b1) * 256 + b2 in
  [b64_char (n / 262144); b64_char ((n / 4096) mod 64); b64_char ((n / 64) mod 64); b64_char (n mod 64)].
Fixpoint index_of (c:N) (l:bytes) (i:N) : option N :=
  match l with [] => None | x :: r => if x =? c then Some i else index_of c r (i + 1) end.
Definition b64_val (c:N) : option N := index_of c b64_alphabet 0.

(* nonce_cookie.rs: is_nonce_cookie = starts with "obMatJos2" and at least 13 bytes; security_features = the four
   characters after the header (str::get(9..13): None unless both ends are character boundaries), base64-decoded by
   BASE64_STANDARD into exactly 3 bytes (four alphabet characters, no '='), read as the top 24 bits of a u32:
   bit 31 = password algorithms, bit 30 = user-name anonymity.
   Result: None = not a cookie; Some None = a cookie whose features cannot be read; Some (Some (algs, anon)).
   (In valid UTF-8 a continuation byte cannot follow an ASCII byte, so when the four bytes are alphabet characters both
   ends are boundaries; when one of them is not ASCII the base64 step fails anyway.) *)
Definition nonce_cookie_header : bytes := k_obMatJos2.
Definition nonce_features (s:bytes) : option (option (bool * bool)) :=
  match strip_prefix nonce_cookie_header s with
  | Some (c0 :: c1 :: c2 :: c3 :: _) =>
      match b64_val c0, b64_val c1, b64_val c2, b64_val c3 with
      | Some v0, Some _, Some _, Some _ => Some (Some (32 <=? v0, 16 <=? v0 mod 32))
      | _, _, _, _ => Some None
      end
  | _ => None
  end.

(* the nonce flavours of Model.attr.Nonce: 0 plain, 1 cookie without bits, 2 password-algorithms bit, 3 anonymity bit, 4 both,
   5 cookie prefix with undecodable feature characters, 6 feature characters ending inside a two-byte character *)
Definition nonce_str (n c:N) : bytes :=
  if c =? 0 then k_nonce ++ dec n
  else if c =? 1 then nonce_cookie_header ++ b64_enc3 0 0 0 ++ k_n ++ dec n
  else if c =? 2 then nonce_cookie_header ++ b64_enc3 128 0 0 ++ k_n ++ dec n
  else if c =? 3 then nonce_cookie_header ++ b64_enc3 64 0 0 ++ k_n ++ dec n
  else if c =? 4 then nonce_cookie_header ++ b64_enc3 192 0 0 ++ k_n ++ dec n
  else if c =? 5 then nonce_cookie_header ++ k_badfeat_n ++ dec n
  else nonce_cookie_header ++ k_abc ++ [195; 128; 194; 128] ++ k_n ++ dec n.
Fixpoint parse_nonce_go (fuel:nat) (c:N) (s:bytes) : N * N :=
  match fuel with
  | O => (9999, 9)
  | S f =>
      let probe := nonce_str 0 c in
      let prefix := firstn (List.length probe - 1) probe in
      match strip_prefix prefix s with
      | Some rest =>
          match num_opt rest with
          | Some n => if av_bytes_eqb (nonce_str n c) s then (n, c) else parse_nonce_go f (c + 1) s
          | None => parse_nonce_go f (c + 1) s
          end
      | None => parse_nonce_go f (c + 1) s
      end
  end.
Definition parse_nonce (s:bytes) : N * N := parse_nonce_go 7 0 s.

(* ------------------------------------------------------------------------------------------ keys *)
Definition alg_id (a:alg) : N := match a with MD5 => 1 | SHA256 => 2 | OtherAlg n => n end.
Definition alg_of (n:N) : alg := if n =? 1 then MD5 else if n =? 2 then SHA256 else OtherAlg n.
Definition vget (r:vres bytes) : bytes := match r with VOk b => b | _ => [] end.
Definition key_bytes (k:keyd) : bytes :=
  match k with
  | KCorrupt => k_irrelevant
  | KST p => vget (st_key (pass_str p))
  | KLT r p a => vget (lt_key (user_str 0) (realm_str r) (pass_str p) (match a with SHA256 => 2 | _ => 1 end))
  end.
Definition user_hash (u r:N) : bytes := sha256 (user_str u ++ [58] ++ realm_str r).
Definition key_cands (realms:list N) : list keyd :=
  [KST 0; KST 1; KST 9] ++ flat_map (fun r => flat_map (fun p => [KLT r p MD5; KLT r p SHA256]) [0; 1]) realms.

(* ------------------------------------------------------------------------------------------ reading a packet *)
(* the TLV walk of the harness: (type, offset of the value, length); None when the attribute area is malformed *)
Fixpoint walk (fuel:nat) (b:bytes) (p total:N) : option (list (N * N * N)) :=
  match fuel with
  | O => None
  | S f =>
      if total <=? p then Some []
      else if total <? p + 4 then None
      else
        let h := take 4 (drop p b) in
        match h with
        | [t1; t2; l1; l2] =>
            let l := rd16 l1 l2 in
            if total <? p + 4 + l + pad l then None
            else match walk f b (p + 4 + l + pad l) total with
                 | Some r => Some ((rd16 t1 t2, p + 4, l) :: r)
                 | None => None
                 end
        | _ => None
        end
  end.

Definition be_u32 (v:bytes) : N := fold_left (fun acc x => acc * 256 + x) v 0.
Definition zero_pad4 (v:bytes) : bytes := firstn 4 (firstn 4 v ++ [0; 0; 0; 0]).
Fixpoint chunks4 (fuel:nat) (v:bytes) : list bytes :=
  match fuel with
  | O => []
  | S f => match v with [] => [] | _ => firstn 4 v :: chunks4 f (skipn 4 v) end
  end.

Definition abs_attr (realms:list N) (b:bytes) (aty off l:N) : attr :=
  let v := take l (drop off b) in
  (* the text a MAC / CRC placed at this attribute covers: everything before the attribute, with the header length
     counting up to the end of this attribute *)
  let text (vlen:N) := set_len (take (off - 4) b) (off - 4 - 20 + 4 + vlen + pad vlen) in
  if aty =? 6 then UserName (num_after (k_user) v)
  else if aty =? 30 then
    match find (fun ur => av_bytes_eqb (user_hash (fst ur) (snd ur)) v)
               (rev (flat_map (fun r => [(0, r); (5, r)]) realms)) with
    | Some (u, r) => UserHash u r
    | None => UserHash 9999 9999
    end
  else if aty =? 20 then
    Realm (match strip_prefix (k_realm) v with
           | Some r => match strip_suffix (k_dot_org) r with Some d => num d | None => 9999 end
           | None => 9999 end)
  else if aty =? 21 then let '(n, c) := parse_nonce v in Nonce n c
  else if aty =? 32770 then PwdAlgs (map (fun c => alg_of (be_u32 (firstn 2 c))) (chunks4 (List.length v) v))
  else if aty =? 29 then PwdAlg (alg_of (be_u32 (firstn 2 v)))
  else if aty =? 9 then ErrorCode (nth 2 v 0 * 100 + nth 3 v 0)
  else if aty =? 8 then
    AMI (match find (fun k => (l =? 20) && av_bytes_eqb (hmac_sha1 (key_bytes k) (text 20)) v) (key_cands realms) with
         | Some k => k | None => KCorrupt end)
  else if aty =? 28 then
    ASHA (match find (fun k => (l =? 32) && av_bytes_eqb (hmac_sha256 (key_bytes k) (text 32)) v) (key_cands realms) with
          | Some k => k | None => KCorrupt end)
  else if aty =? 32808 then AFP ((l =? 4) && av_bytes_eqb (be32 (N.lxor (crc32 (text 4)) 0x5354554e)) v)
  else if aty =? 32802 then App aty (num_after (k_sw) v)
  else if aty =? 36 then App aty (if l =? 4 then be_u32 v else 4294967295)
  else App aty (be_u32 (zero_pad4 v)).

(* class (0 request, 1 indication, 2 success, 3 error), method, attributes *)
Definition abs_packet (realms:list N) (b:bytes) : option (N * N * list attr) :=
  match b with
  | b0 :: b1 :: l1 :: l2 :: c0 :: c1 :: c2 :: c3 :: _ =>
      let total := 20 + rd16 l1 l2 in
      if negb (len b =? total) || negb (b0 <? 64) || negb (av_bytes_eqb [c0; c1; c2; c3] cookie_bytes) then None
      else
        match walk (List.length b) b 20 total with
        | None => None
        | Some t =>
            let ty := rd16 b0 b1 in
            let class := ((ty / 256) mod 2) * 2 + (ty / 16) mod 2 in
            let method := ty mod 16 + ((ty / 32) mod 8) * 16 + ((ty / 512) mod 32) * 128 in
            Some (class, method, map (fun x => let '(aty, off, l) := x in abs_attr realms b aty off l) t)
        end
  | _ => None
  end.
