From Coq Require Import List NArith Lia Bool Arith Permutation.
Import ListNotations.
From Rustun Require Import Agent.Rto Agent.Client.
Open Scope N_scope.

Definition finals (ev:list event) : list txid := map ev_id (filter is_final ev).
Lemma finals_app a b : finals (a ++ b) = finals a ++ finals b.
Proof. unfold finals. rewrite filter_app, map_app. reflexivity. Qed.

Lemma NoDup_snoc {A} (l:list A) x : NoDup l -> ~ In x l -> NoDup (l ++ [x]).
Proof.
  intros Hnd Hni. apply NoDup_rev in Hnd. rewrite <- (rev_involutive (l ++ [x])). apply NoDup_rev.
  rewrite rev_app_distr. cbn. constructor; [|exact Hnd]. intros Hin. apply Hni. apply in_rev. exact Hin.
Qed.

Lemma NoDup_app_iff_disjoint {A} (a b:list A) : NoDup a -> NoDup b -> (forall x, In x a -> In x b -> False) -> NoDup (a ++ b).
Proof.
  induction a as [|x a IH]; cbn; intros Ha Hb Hd; [exact Hb|].
  inversion Ha as [|? ? Hni Ha']; subst. constructor.
  - intros Hin. apply in_app_or in Hin as [Hin|Hin]; [contradiction|]. apply (Hd x); [left; reflexivity|exact Hin].
  - apply IH; auto. intros y Hy1 Hy2. apply (Hd y); [right; exact Hy1|exact Hy2].
Qed.

(* event invariant carried through the on_timeout fold *)
Definition EInv (t0 t:list (txid*txn)) (pending:list txid) (ev:list event) : Prop :=
  (forall e, In e ev -> is_final e = true -> In (ev_id e) (ids_t t0) /\ ~ In (ev_id e) (ids_t t) /\ ~ In (ev_id e) pending)
  /\ (forall e, In e ev -> is_final e = false -> In (ev_id e) (ids_t t) /\ ~ In (ev_id e) pending)
  /\ NoDup (finals ev)
  /\ (forall x, In x (ids_t t) -> In x (ids_t t0)).

Lemma lookup_some_in id t x : lookup id t = Some x -> In id (ids_t t).
Proof. intros Hl. apply lookup_in. congruence. Qed.

Lemma tmo_one_einv now t0 t h ev id pending :
  TInv t h (id :: pending) -> EInv t0 t (id :: pending) ev ->
  let '(t', h', ev') := tmo_one now (t, h, ev) id in EInv t0 t' pending ev'.
Proof.
  intros (Ht & Hnd & Heq) (Hfin & Hnon & Hndf & Hsub). unfold tmo_one.
  assert (Hin_t : In id (ids_t t)) by (apply Heq; apply in_or_app; right; left; reflexivity).
  destruct (lookup id t) as [x|] eqn:Hl; [|exfalso; apply lookup_in in Hin_t; congruence].
  apply NoDup_remove in Hnd as [Hnd Hni].
  assert (Hnp : ~ In id pending) by (intros Hp; apply Hni; apply in_or_app; right; exact Hp).
  destruct (next_rto (tm x) now) as [[d|] m'].
  - (* re-armed *)
    refine (conj _ (conj _ (conj _ _))).
    + intros e Hin Hf. apply in_app_or in Hin as [Hin|[<-|[]]]; [|discriminate].
      destruct (Hfin e Hin Hf) as (A & B & C). rewrite ids_update_t. repeat split; auto. intros Hp; apply C; right; exact Hp.
    + intros e Hin Hf. rewrite ids_update_t. apply in_app_or in Hin as [Hin|[<-|[]]].
      * destruct (Hnon e Hin Hf) as (A & C). split; auto. intros Hp; apply C; right; exact Hp.
      * cbn [ev_id]. split; assumption.
    + rewrite finals_app. cbn. rewrite app_nil_r. exact Hndf.
    + intros y Hy. rewrite ids_update_t in Hy. apply Hsub; exact Hy.
  - (* failed *)
    refine (conj _ (conj _ (conj _ _))).
    + intros e Hin Hf. apply in_app_or in Hin as [Hin|[<-|[]]].
      * destruct (Hfin e Hin Hf) as (A & B & C). repeat split; auto.
        -- intros Hr. apply ids_remove_t in Hr as [Hr _]. contradiction.
        -- intros Hp; apply C; right; exact Hp.
      * cbn [ev_id]. repeat split; [apply Hsub; exact Hin_t| |exact Hnp].
        intros Hr. apply ids_remove_t in Hr as [_ Hr]. congruence.
    + intros e Hin Hf. apply in_app_or in Hin as [Hin|[<-|[]]]; [|discriminate].
      destruct (Hnon e Hin Hf) as (A & C). split.
      * apply ids_remove_t. split; [exact A|]. intros Heq'. apply C. left. symmetry. exact Heq'.
      * intros Hp; apply C; right; exact Hp.
    + rewrite finals_app. cbn. apply NoDup_snoc; [exact Hndf|].
      intros Hinf. unfold finals in Hinf. apply in_map_iff in Hinf as (e & He & Hine). apply filter_In in Hine as [Hine Hf].
      destruct (Hfin e Hine Hf) as (_ & _ & C). apply C. left. symmetry. exact He.
    + intros y Hy. apply ids_remove_t in Hy as [Hy _]. apply Hsub; exact Hy.
Qed.

Lemma tmo_fold_einv now t0 : forall pending t h ev,
  TInv t h pending -> EInv t0 t pending ev ->
  let '(t', h', ev') := fold_left (tmo_one now) pending (t, h, ev) in TInv t' h' [] /\ EInv t0 t' [] ev'.
Proof.
  induction pending as [|id pending IH]; intros t h ev Hti Hei; cbn [fold_left]; [split; assumption|].
  pose proof (tmo_one_inv now t h ev id pending Hti) as H1.
  pose proof (tmo_one_einv now t0 t h ev id pending Hti Hei) as H2.
  destruct (tmo_one now (t, h, ev) id) as [[t1 h1] ev1]. apply IH; assumption.
Qed.

Lemma notif_ids h now : forall e, In e (notif h now) -> is_final e = false /\ In (ev_id e) (ids_h h).
Proof.
  intros e. unfold notif. pose proof (min_entry_spec h) as Hm. destruct (min_entry h) as [m|]; [|intros []].
  intros [<-|[]]. split; [reflexivity|]. cbn [ev_id]. apply in_map. apply Hm.
Qed.
Lemma finals_notif h now : finals (notif h now) = [].
Proof. unfold notif. destruct (min_entry h); reflexivity. Qed.

(* what one step may emit *)
Definition fresh_for (c:client) (o:op) : Prop := match o with Send _ id _ => ~ In id (ids_t (T c)) | _ => True end.
Definition sent_id (o:op) (x:txid) : Prop := match o with Send _ id _ => x = id | _ => False end.

Theorem step_events_spec c o :
  Inv c -> fresh_for c o ->
  let '(c', _, ev) := step c o in
  Inv c'
  /\ (forall e, In e ev -> is_final e = true -> In (ev_id e) (ids_t (T c)) /\ ~ In (ev_id e) (ids_t (T c')))
  /\ (forall e, In e ev -> is_final e = false -> In (ev_id e) (ids_t (T c')))
  /\ NoDup (finals ev)
  /\ (forall x, In x (ids_t (T c')) -> In x (ids_t (T c)) \/ sent_id o x).
Proof.
  intros Hinv Hfresh. destruct o as [now id p|id now|now].
  - (* Send *)
    pose proof (inv_send c now id p Hinv Hfresh) as Hi. cbn [step] in *.
    destruct (limit c <=? _); cbn [fst] in *.
    { refine (conj Hi (conj _ (conj _ (conj _ _)))); [intros e []|intros e []|constructor|intros x Hx; left; exact Hx]. }
    destruct (next_rto (new_mgr c) now) as [[d|] m1]; cbn [fst] in *.
    2:{ refine (conj Hi (conj _ (conj _ (conj _ _)))); [intros e []|intros e []|constructor|intros x Hx; left; exact Hx]. }
    refine (conj Hi (conj _ (conj _ (conj _ _)))).
    + intros e [<-|Hin] Hf; [discriminate|]. apply notif_ids in Hin as [Hnf _]. congruence.
    + intros e [<-|Hin] _; cbn [T ids_t map fst ev_id]; [left; reflexivity|].
      apply notif_ids in Hin as [_ Hin]. destruct Hi as (_ & _ & Heq). apply Heq in Hin. exact Hin.
    + change (Out id p :: notif ((now, d, id) :: H c) now) with ([Out id p] ++ notif ((now, d, id) :: H c) now).
      rewrite finals_app, finals_notif. cbn. constructor.
    + cbn [T ids_t map fst]. intros x [<-|Hx]; [right; reflexivity|left; exact Hx].
  - (* Resp *)
    pose proof (inv_resp c id now Hinv) as Hi. cbn [step] in *.
    destruct (lookup id (T c)) eqn:Hl; cbn [fst] in *.
    2:{ refine (conj Hi (conj _ (conj _ (conj _ _)))); [intros e []|intros e []|constructor|intros x Hx; left; exact Hx]. }
    refine (conj Hi (conj _ (conj _ (conj _ _)))).
    + intros e [<-|[]] _. cbn [ev_id T]. split; [eapply lookup_some_in; exact Hl|].
      intros Hin. apply ids_remove_t in Hin as [_ Hne]. congruence.
    + intros e [<-|[]]; discriminate.
    + cbn. constructor; [intros []|constructor].
    + cbn [T]. intros x Hx. apply ids_remove_t in Hx as [Hx _]. left; exact Hx.
  - (* Tmo *)
    destruct Hinv as (Ht & Hh & Heq). cbn [step].
    set (due := filter (fun e => h_exp e <=? now) (H c)).
    set (keep := filter (fun e => negb (h_exp e <=? now)) (H c)).
    assert (Hperm : Permutation (ids_h (H c)) (ids_h keep ++ map h_id due)).
    { unfold ids_h. rewrite <- map_app. apply Permutation_map. apply filter_split_perm. }
    assert (Hti : TInv (T c) keep (map h_id due)).
    { refine (conj Ht (conj _ _)).
      - eapply Permutation_NoDup; [exact Hperm|exact Hh].
      - intros x; split; intros Hin.
        + apply Heq. eapply Permutation_in; [symmetry; exact Hperm|exact Hin].
        + eapply Permutation_in; [exact Hperm|]. apply Heq. exact Hin. }
    assert (Hei : EInv (T c) (T c) (map h_id due) []).
    { refine (conj _ (conj _ (conj _ _))); [intros e []|intros e []|constructor|auto]. }
    pose proof (tmo_fold_einv now (T c) (map h_id due) (T c) keep [] Hti Hei) as Hf.
    destruct (fold_left (tmo_one now) (map h_id due) (T c, keep, [])) as [[t' h'] ev].
    destruct Hf as ((A & B & C) & (Hfin & Hnon & Hndf & Hsub)). rewrite app_nil_r in B.
    assert (Hinv' : Inv {| T := t'; H := h'; limit := limit c; c_r := c_r c; c_rm_ := c_rm_ c; c_rc_ := c_rc_ c |}).
    { refine (conj A (conj B _)). cbn [T H]. intros x; split; intros Hin.
      - apply C. rewrite app_nil_r. exact Hin.
      - apply C in Hin. rewrite app_nil_r in Hin. exact Hin. }
    refine (conj Hinv' (conj _ (conj _ (conj _ _)))); cbn [T].
    + intros e Hin Hf. apply in_app_or in Hin as [Hin|Hin].
      * destruct (Hfin e Hin Hf) as (X & Y & _). split; assumption.
      * apply notif_ids in Hin as [Hnf _]. congruence.
    + intros e Hin Hf. apply in_app_or in Hin as [Hin|Hin].
      * apply (Hnon e Hin Hf).
      * apply notif_ids in Hin as [_ Hin]. destruct Hinv' as (_ & _ & Heq'). apply Heq' in Hin. exact Hin.
    + rewrite finals_app, finals_notif, app_nil_r. exact Hndf.
    + intros x Hx. left. apply Hsub. exact Hx.
Qed.

(* ---------- traces ---------- *)
Fixpoint run (c:client) (ops:list op) : client * list event :=
  match ops with
  | [] => (c, [])
  | o :: r => let '(c1, _, ev) := step c o in let '(c2, evs) := run c1 r in (c2, ev ++ evs)
  end.

(* ids handed to Send are never reused: not outstanding and not used before *)
Fixpoint fresh_trace (used:list txid) (ops:list op) : Prop :=
  match ops with
  | [] => True
  | Send _ id _ :: r => ~ In id used /\ fresh_trace (id :: used) r
  | _ :: r => fresh_trace used r
  end.

Definition sent_in (ops:list op) (x:txid) : Prop := exists now p, In (Send now x p) ops.

Lemma fresh_sent_not_used : forall ops used x, fresh_trace used ops -> sent_in ops x -> ~ In x used.
Proof.
  induction ops as [|o r IH]; intros used x Hfr (now & p & Hin); [destruct Hin|].
  destruct Hin as [->|Hin].
  - cbn in Hfr. apply Hfr.
  - destruct o as [n i q| |]; cbn in Hfr.
    + destruct Hfr as [_ Hfr]. intros Hu. eapply (IH (i :: used) x Hfr); [exists now, p; exact Hin|right; exact Hu].
    + eapply IH; [exact Hfr|exists now, p; exact Hin].
    + eapply IH; [exact Hfr|exists now, p; exact Hin].
Qed.

Lemma run_spec : forall ops c used,
  Inv c -> (forall x, In x (ids_t (T c)) -> In x used) -> fresh_trace used ops ->
  let '(c', evs) := run c ops in
  NoDup (finals evs)
  /\ (forall x, In x (finals evs) -> In x (ids_t (T c)) \/ sent_in ops x).
Proof.
  induction ops as [|o r IH]; intros c used Hinv Hused Hfr; cbn [run].
  - split; [constructor|intros x []].
  - assert (Hff : fresh_for c o).
    { destruct o; cbn in *; auto. intros Hin. apply (proj1 Hfr). apply Hused. exact Hin. }
    pose proof (step_events_spec c o Hinv Hff) as Hs.
    destruct (step c o) as [[c1 rep] ev]. destruct Hs as (Hinv1 & Hfin & Hnon & Hnd & Hsub).
    set (used1 := match o with Send _ id _ => id :: used | _ => used end).
    assert (Hincl : forall x, In x used -> In x used1) by (intros x Hx; unfold used1; destruct o; cbn; auto).
    assert (Hused1 : forall x, In x (ids_t (T c1)) -> In x used1).
    { intros x Hx. destruct (Hsub x Hx) as [Hx'|Hs]; [apply Hincl, Hused, Hx'|].
      unfold used1; destruct o; cbn in *; try contradiction. left. symmetry. exact Hs. }
    assert (Hfr1 : fresh_trace used1 r) by (unfold used1; destruct o; cbn in Hfr; tauto).
    pose proof (IH c1 used1 Hinv1 Hused1 Hfr1) as Hr.
    destruct (run c1 r) as [c2 evs]. destruct Hr as (Hnd2 & Hwhere).
    assert (Hfin_id : forall x, In x (finals ev) -> In x (ids_t (T c)) /\ ~ In x (ids_t (T c1))).
    { intros x Hx. unfold finals in Hx. apply in_map_iff in Hx as (e & <- & He). apply filter_In in He as [He Hf]. apply Hfin; assumption. }
    split.
    + rewrite finals_app. apply NoDup_app_iff_disjoint; [exact Hnd|exact Hnd2|].
      intros x Hx1 Hx2. destruct (Hfin_id x Hx1) as [Hin Hnot].
      destruct (Hwhere x Hx2) as [Hin1|Hsent]; [contradiction|].
      apply (fresh_sent_not_used r used1 x Hfr1 Hsent). apply Hincl, Hused, Hin.
    + intros x Hx. rewrite finals_app in Hx. apply in_app_or in Hx as [Hx|Hx].
      * left. apply Hfin_id. exact Hx.
      * destruct (Hwhere x Hx) as [Hin1|(now & p & Hs)].
        -- destruct (Hsub x Hin1) as [?|Hs]; [left; assumption|].
           right. destruct o; cbn in Hs; try contradiction. subst x. eexists _, _. left. reflexivity.
        -- right. exists now, p. right. exact Hs.
Qed.

(* C05: along any run from a state satisfying the invariant, with never-reused ids, each transaction
   gets at most one final event *)
Theorem C05_at_most_one_final ops c :
  Inv c -> fresh_trace (ids_t (T c)) ops -> NoDup (finals (snd (run c ops))).
Proof.
  intros Hinv Hfr. pose proof (run_spec ops c (ids_t (T c)) Hinv (fun x H => H) Hfr) as Hr.
  destruct (run c ops) as [c' evs]. apply Hr.
Qed.
Print Assumptions C05_at_most_one_final.
