From Coq Require Import List NArith Lia Bool.
Import ListNotations.
Open Scope N_scope.
Arguments N.add : simpl never. Arguments N.sub : simpl never. Arguments N.mul : simpl never.
Arguments N.pow : simpl never. Arguments N.eqb : simpl never. Arguments N.ltb : simpl never. Arguments N.leb : simpl never.

Record calc := { c_rtt : N; c_rm : N; c_rc : N; c_last : N }.

Definition calc_next (c:calc) : option (N * calc) :=
  if c_rc c =? 0 then None else
  let rto := if c_rc c =? 1 then c_rtt c * c_last c else c_rtt c * c_rm c in
  Some (rto, {| c_rtt := c_rtt c; c_rm := 2 * c_rm c; c_rc := c_rc c - 1; c_last := c_last c |}).

Record mgr := { latest : option N; last_rto : N; mcalc : calc }.

Fixpoint skip (fuel:nat) (c:calc) (nt now:N) : option N * calc :=
  match fuel with
  | O => (None, c)
  | S f => match calc_next c with
           | None => (None, c)
           | Some (t, c') => let nt' := nt + t in
                             if now <? nt' then (Some nt', c') else skip f c' nt' now
           end
  end.

Definition next_rto (m:mgr) (now:N) : option N * mgr :=
  match latest m with
  | Some l =>
      let nt := l + last_rto m in
      if nt <=? now then
        match skip (S (N.to_nat (c_rc (mcalc m)))) (mcalc m) nt now with
        | (Some nt', c') => (Some (nt' - now), {| latest := Some now; last_rto := nt' - now; mcalc := c' |})
        | (None, c') => (None, {| latest := None; last_rto := last_rto m; mcalc := c' |})
        end
      else (Some (nt - now), {| latest := Some now; last_rto := nt - now; mcalc := mcalc m |})
  | None =>
      match calc_next (mcalc m) with
      | Some (t, c') => (Some t, {| latest := Some now; last_rto := t; mcalc := c' |})
      | None => (None, m)
      end
  end.

(* Spec *)
Section Spec.
Variables (r rm rc : N).
Hypothesis Hrc : 1 <= rc.

Definition slot (k:N) : N := if k <? rc then r * (2^k - 1) else r * (2^(rc-1) - 1 + rm).
Definition interval (k:N) : N := if rc - k =? 1 then r * rm else r * 2^k.

Lemma slot_succ k : k < rc -> slot (k+1) = slot k + interval k.
Proof.
  intros Hk. unfold slot, interval.
  assert (Hlt: (k <? rc) = true) by (apply N.ltb_lt; lia). rewrite Hlt.
  destruct (N.ltb_spec (k+1) rc) as [H1|H1].
  - assert ((rc - k =? 1) = false) as -> by (apply N.eqb_neq; lia).
    rewrite N.pow_add_r. change (2^1) with 2.
    assert (1 <= 2^k) by (apply N.lt_pred_le; apply N.neq_0_lt_0; apply N.pow_nonzero; lia). nia.
  - assert ((rc - k =? 1) = true) as -> by (apply N.eqb_eq; lia).
    replace (rc - 1) with k by lia.
    assert (1 <= 2^k) by (apply N.lt_pred_le; apply N.neq_0_lt_0; apply N.pow_nonzero; lia). nia.
Qed.

Definition calc_at (k:N) : calc := {| c_rtt := r; c_rm := 2^k; c_rc := rc - k; c_last := rm |}.

Lemma calc_next_at k : k < rc -> calc_next (calc_at k) = Some (interval k, calc_at (k+1)).
Proof.
  intros Hk. unfold calc_next, calc_at, interval; cbn [c_rc c_rtt c_rm c_last].
  assert ((rc - k =? 0) = false) as -> by (apply N.eqb_neq; lia).
  f_equal. f_equal. f_equal.
  - rewrite N.pow_add_r. change (2^1) with 2. lia.
  - lia.
Qed.

Lemma calc_next_end : calc_next (calc_at rc) = None.
Proof. unfold calc_next, calc_at; cbn [c_rc]. rewrite N.sub_diag. reflexivity. Qed.

(* skipping: from k with accumulated absolute time t0+slot k *)
Lemma skip_spec : forall fuel k t0 now,
  k <= rc -> (N.to_nat (rc - k) < fuel)%nat -> t0 + slot k <= now ->
  (exists k', k < k' <= rc /\ now < t0 + slot k' /\ (forall j, k <= j < k' -> t0 + slot j <= now)
       /\ skip fuel (calc_at k) (t0 + slot k) now = (Some (t0 + slot k'), calc_at k'))
  \/ (t0 + slot rc <= now /\ skip fuel (calc_at k) (t0 + slot k) now = (None, calc_at rc)).
Proof.
  induction fuel as [|f IH]; intros k t0 now Hk Hf Hexp; [lia|].
  cbn [skip].
  destruct (N.eq_dec k rc) as [->|Hne].
  - right. rewrite calc_next_end. split; [exact Hexp|reflexivity].
  - assert (Hlt : k < rc) by lia.
    rewrite (calc_next_at k Hlt).
    replace (t0 + slot k + interval k) with (t0 + slot (k+1)) by (rewrite (slot_succ k Hlt); lia).
    destruct (N.ltb_spec now (t0 + slot (k+1))) as [Hn|Hn].
    + left. exists (k+1). repeat split; try lia.
      intros j Hj. assert (j = k) by lia. subst j. exact Hexp.
    + destruct (IH (k+1) t0 now) as [(k' & Hk' & Hnow & Hall & Hs)|(Hend & Hs)]; try lia.
      * left. exists k'. repeat split; try lia.
        -- intros j Hj. destruct (N.eq_dec j k) as [->|]; [exact Hexp|apply Hall; lia].
        -- exact Hs.
      * right. split; [exact Hend|exact Hs].
Qed.

Definition Minv (t0 k:N) (m:mgr) : Prop :=
  mcalc m = calc_at k /\ 1 <= k <= rc /\ exists l, latest m = Some l /\ l + last_rto m = t0 + slot k.

Theorem next_rto_expired t0 k m now :
  Minv t0 k m -> t0 + slot k <= now ->
  (exists k' d m', next_rto m now = (Some d, m') /\ k < k' <= rc /\ now + d = t0 + slot k' /\ now < t0 + slot k'
        /\ (forall j, k <= j < k' -> t0 + slot j <= now) /\ Minv t0 k' m' /\ latest m' = Some now)
  \/ (exists m', next_rto m now = (None, m') /\ t0 + slot rc <= now).
Proof.
  intros (Hc & Hk & l & Hl & Hsum) Hexp.
  unfold next_rto. rewrite Hl, Hsum.
  assert ((t0 + slot k <=? now) = true) as -> by (apply N.leb_le; exact Hexp).
  rewrite Hc. cbn [calc_at c_rc].
  destruct (skip_spec (S (N.to_nat (rc - k))) k t0 now) as [(k' & Hk' & Hnow & Hall & Hs)|(Hend & Hs)]; try lia.
  - left. rewrite Hs. exists k', (t0 + slot k' - now). eexists. split; [reflexivity|].
    repeat split; try lia; try exact Hall.
    cbn [mcalc latest last_rto]. exists now. split; [reflexivity|lia].
  - right. rewrite Hs. eexists. split; [reflexivity|exact Hend].
Qed.

Theorem next_rto_first t0 m :
  latest m = None -> mcalc m = calc_at 0 ->
  exists m', next_rto m t0 = (Some (slot 1), m') /\ Minv t0 1 m'.
Proof.
  intros Hl Hc. unfold next_rto. rewrite Hl, Hc.
  assert (H0: 0 < rc) by lia. rewrite (calc_next_at 0 H0).
  assert (slot 1 = interval 0) as Hs by (change 1 with (0+1); rewrite (slot_succ 0 H0); unfold slot at 1; replace (0 <? rc) with true by (symmetry; apply N.ltb_lt; lia); change (2^0) with 1; lia).
  rewrite <- Hs. eexists. split; [reflexivity|].
  unfold Minv; cbn [mcalc latest last_rto]. repeat split; try lia. exists t0. split; [reflexivity|lia].
Qed.
End Spec.

(* non-vacuity: defaults 500,16,7 *)
Example default_slots : map (slot 500 16 7) [0;1;2;3;4;5;6;7] = [0;500;1500;3500;7500;15500;31500;39500].
Proof. vm_compute. reflexivity. Qed.
Print Assumptions next_rto_expired.
