(* The RTT estimator of the client, exactly: which calls feed it (client.rs set_timeout / transaction_finished) and the
   arithmetic of rtt.rs including the f32 rounding of Duration::mul_f32 (Agent/F32.v). The client model (Agent/Model.v) takes
   the initial retransmission interval of every request as an input; this file computes it, so that the implementation's
   estimator state (hook snapshot: rto, srtt, rttvar, instant of the last request) is compared EXACTLY on every operation
   of the agent suite, and the interval the implementation used for a new request is the one computed here.
   The specification side (RFC 6298 in exact fixed point, with the property's tolerance) stays in Monitors.mon_C15. *)
From Coq Require Import List NArith ZArith Bool.
Import ListNotations.
From Rustun Require Import Agent.F32 Agent.Rto Agent.Model.
Open Scope N_scope.

Record est := { e_calc : rtt_calc; e_last : option N }.
Definition est0 (rto gran:N) : est := {| e_calc := rtt_new rto gran; e_last := None |}.

(* client.rs set_timeout (unreliable transport): more than 600 s since the previous request -> reset; remember this instant *)
Definition est_send (s:est) (now:N) : est :=
  let c := match e_last s with
           | Some l => if 600000000000 <? now - l then rtt_reset (e_calc s) else e_calc s
           | None => e_calc s end in
  {| e_calc := c; e_last := Some now |}.

Definition final_of (e:event) : option txid :=
  match e with
  | Received m => match m_class m with CSuccess | CError => Some (m_id m) | _ => None end   (* an indication finishes nothing *)
  | Retry id => Some id
  | Failed id _ => Some id
  | _ => None
  end.
Fixpoint find_txn (id:txid) (t:list (txid * txn)) : option txn :=
  match t with [] => None | (i, x) :: r => if i =? id then Some x else find_txn id r end.

(* one operation: `c` is the client BEFORE the step, r / evs what the step returned.
   send_request that got as far as set_timeout (reply Ok): est_send.
   on_buffer_recv: transaction_finished feeds `now - sent_at` of a transaction that reaches a final outcome through a
   response while its send instant is still recorded (inst = Some t0: it has not been retransmitted). *)
Definition est_step (s:est) (c:client) (o:op) (r:reply) (evs:list event) : est :=
  match o with
  | Send now _ _ _ app room =>
      match r with
      | ROk _ => est_send s now
      | RInternal =>
          (* set_timeout refreshes the estimator (staleness, last request) BEFORE it finds that the schedule is empty (Rc = 0):
             a send that got past the limit check, the mechanism and the encoder and then failed there has done est_send *)
          if negb (limit (cfg c) <=? N.of_nat (length (T c))) && room
             && (match prepare c true app with inl (Some _) => true | _ => false end)
          then est_send s now else s
      | _ => s
      end
  | Recv now _ _ =>
      fold_left (fun st e =>
        match final_of e with
        | Some id =>
            match find_txn id (T c) with
            | Some x => match inst x with
                        | Some t0 => {| e_calc := rtt_update (e_calc st) (now - t0); e_last := e_last st |}
                        | None => st end
            | None => st
            end
        | None => st
        end) evs s
  | _ => s
  end.

(* the interval a request sent now would start with *)
Definition est_rto_for_send (s:est) (now:N) : N := rc_rto (e_calc (est_send s now)).
