From Coq Require Import List NArith Lia Bool Arith.
Import ListNotations.

(* A reference-counted heap: the sharing logic of the Arc<Vec<T>>-backed value types
   (PasswordAlgorithms, UnknownAttributes, ...).  var = a Rust binding, handle = an allocation. *)
Definition var := nat. Definition handle := nat.
Record cell := { cnt : nat; val : list N }.
Definition env_t := list (var * handle).
Record st := { env : env_t; heap : handle -> option cell; next : handle }.

Inductive op := HNew (x:var) | HClone (x y:var) (* let y = x.clone() *) | HAdd (x:var) (v:N) | HRead (x:var).
Inductive out := HNone | HVal (l:list N) | HPanic.

Fixpoint lookup {A} (x:nat) (e:list (nat * A)) : option A :=
  match e with [] => None | (k,v) :: r => if Nat.eqb k x then Some v else lookup x r end.
Definition remove_key {A} (x:nat) (e:list (nat * A)) := filter (fun kv => negb (Nat.eqb (fst kv) x)) e.
Definition set_key {A} (x:nat) (v:A) (e:list (nat * A)) := (x, v) :: remove_key x e.
Definition upd {A} (f:nat -> option A) (k:nat) (a:option A) : nat -> option A := fun i => if Nat.eqb i k then a else f i.

(* cow = true : Arc::make_mut (copy when shared);  cow = false : Arc::get_mut(..).unwrap() (panic when shared) *)
Definition step (cow:bool) (s:st) (o:op) : st * out :=
  match o with
  | HNew x => ({| env := set_key x (next s) (env s); heap := upd (heap s) (next s) (Some {| cnt := 1; val := [] |}); next := S (next s) |}, HNone)
  | HClone x y =>
      match lookup x (env s) with
      | Some h => match heap s h with
                  | Some c => ({| env := set_key y h (env s); heap := upd (heap s) h (Some {| cnt := S (cnt c); val := val c |}); next := next s |}, HNone)
                  | None => (s, HPanic) end
      | None => (s, HPanic)
      end
  | HAdd x v =>
      match lookup x (env s) with
      | Some h => match heap s h with
                  | Some c =>
                      if Nat.eqb (cnt c) 1 then ({| env := env s; heap := upd (heap s) h (Some {| cnt := 1; val := val c ++ [v] |}); next := next s |}, HNone)
                      else if cow then
                        ({| env := set_key x (next s) (env s);
                            heap := upd (upd (heap s) h (Some {| cnt := pred (cnt c); val := val c |})) (next s) (Some {| cnt := 1; val := val c ++ [v] |});
                            next := S (next s) |}, HNone)
                      else (s, HPanic)
                  | None => (s, HPanic) end
      | None => (s, HPanic)
      end
  | HRead x =>
      match lookup x (env s) with
      | Some h => match heap s h with Some c => (s, HVal (val c)) | None => (s, HPanic) end
      | None => (s, HPanic)
      end
  end.

(* value semantics: every binding owns its list *)
Definition pst := list (var * list N).
Definition pstep (p:pst) (o:op) : pst * out :=
  match o with
  | HNew x => (set_key x [] p, HNone)
  | HClone x y => match lookup x p with Some l => (set_key y l p, HNone) | None => (p, HPanic) end
  | HAdd x v => match lookup x p with Some l => (set_key x (l ++ [v]) p, HNone) | None => (p, HPanic) end
  | HRead x => match lookup x p with Some l => (p, HVal l) | None => (p, HPanic) end
  end.
Definition ok_op (p:pst) (o:op) : Prop :=
  match o with
  | HNew x => lookup x p = None
  | HClone x y => lookup x p <> None /\ lookup y p = None
  | HAdd x _ | HRead x => lookup x p <> None
  end.

(* ---- generic assoc-list facts ---- *)
Lemma lookup_remove_eq {A} x (e:list (nat*A)) : lookup x (remove_key x e) = None.
Proof. induction e as [|[k v] r IH]; cbn; [reflexivity|]. destruct (Nat.eqb_spec k x); cbn; [exact IH|]. destruct (Nat.eqb_spec k x); [contradiction|exact IH]. Qed.
Lemma lookup_remove_neq {A} x y (e:list (nat*A)) : x <> y -> lookup y (remove_key x e) = lookup y e.
Proof.
  intros Hne. induction e as [|[k v] r IH]; cbn; [reflexivity|].
  destruct (Nat.eqb_spec k x); cbn.
  - subst. destruct (Nat.eqb_spec x y); [contradiction|exact IH].
  - destruct (Nat.eqb_spec k y); [reflexivity|exact IH].
Qed.
Lemma lookup_set {A} x y (v:A) e : lookup y (set_key x v e) = if Nat.eqb x y then Some v else lookup y e.
Proof. unfold set_key. cbn. destruct (Nat.eqb_spec x y); [reflexivity|]. apply lookup_remove_neq; assumption. Qed.

Definition refs (h:handle) (e:env_t) : nat := length (filter (fun kv => Nat.eqb (snd kv) h) e).
Definition keys {A} (e:list (nat*A)) := map fst e.

Lemma refs_cons h k v r : refs h ((k,v) :: r) = ((if Nat.eqb v h then 1 else 0) + refs h r)%nat.
Proof. unfold refs. cbn [filter snd]. destruct (Nat.eqb v h); reflexivity. Qed.
Lemma remove_cons {A} x k (v:A) r : remove_key x ((k,v) :: r) = if Nat.eqb k x then remove_key x r else (k,v) :: remove_key x r.
Proof. unfold remove_key. cbn [filter fst]. destruct (Nat.eqb k x); reflexivity. Qed.

Lemma refs_remove_le h x e : (refs h (remove_key x e) <= refs h e)%nat.
Proof.
  induction e as [|[k v] r IH]; [cbn; lia|]. rewrite remove_cons, refs_cons.
  destruct (Nat.eqb k x); [|rewrite refs_cons]; destruct (Nat.eqb v h); lia.
Qed.
Lemma keys_remove_notin {A} x (e:list (nat*A)) : ~ In x (keys (remove_key x e)).
Proof. unfold keys, remove_key. intros Hin. apply in_map_iff in Hin as ((k,v) & Hk & Hin). apply filter_In in Hin as [_ Hb]. cbn in *. subst. rewrite Nat.eqb_refl in Hb. discriminate. Qed.
Lemma NoDup_keys_remove {A} x (e:list (nat*A)) : NoDup (keys e) -> NoDup (keys (remove_key x e)).
Proof.
  unfold keys. induction e as [|[k v] r IH]; intros Hnd; [constructor|]. cbn [map fst] in Hnd. inversion Hnd as [|? ? Hni Hnd']; subst.
  rewrite remove_cons. destruct (Nat.eqb k x); [auto|]. cbn [map fst]. constructor; [|auto].
  intros Hin. apply Hni. unfold remove_key in Hin. apply in_map_iff in Hin as (kv & Hk & Hin). apply filter_In in Hin as [Hin _]. apply in_map_iff. exists kv; auto.
Qed.
Lemma remove_notin {A} x (e:list (nat*A)) : ~ In x (keys e) -> remove_key x e = e.
Proof.
  unfold keys. induction e as [|[k v] r IH]; intros Hni; [reflexivity|]. rewrite remove_cons. cbn [map fst] in Hni.
  destruct (Nat.eqb_spec k x); [exfalso; apply Hni; left; assumption|]. f_equal. apply IH. intros Hin; apply Hni; right; exact Hin.
Qed.
Lemma refs_remove_lookup h x e : NoDup (keys e) -> lookup x e = Some h -> S (refs h (remove_key x e)) = refs h e.
Proof.
  unfold keys. induction e as [|[k v] r IH]; intros Hnd Hl; [discriminate|]. cbn [map fst] in Hnd. inversion Hnd as [|? ? Hni Hnd']; subst.
  cbn [lookup] in Hl. rewrite remove_cons, refs_cons. destruct (Nat.eqb_spec k x).
  - inversion Hl; subst. rewrite Nat.eqb_refl. rewrite remove_notin by exact Hni. reflexivity.
  - rewrite refs_cons. rewrite <- (IH Hnd' Hl). destruct (Nat.eqb v h); lia.
Qed.
Lemma lookup_none_remove {A} x (e:list (nat*A)) : lookup x e = None -> remove_key x e = e.
Proof.
  induction e as [|[k v] r IH]; intros Hl; [reflexivity|]. cbn [lookup] in Hl. rewrite remove_cons.
  destruct (Nat.eqb k x); [discriminate|]. f_equal. apply IH, Hl.
Qed.

(* ---- refinement ---- *)
Record Rel (s:st) (p:pst) : Prop := {
  r_keys : NoDup (keys (env s));
  r_val : forall x, match lookup x p with
                    | Some l => exists h c, lookup x (env s) = Some h /\ heap s h = Some c /\ val c = l
                    | None => lookup x (env s) = None end;
  r_cnt : forall h c, heap s h = Some c -> (refs h (env s) <= cnt c)%nat /\ (h < next s)%nat;
  r_fresh : forall h, (next s <= h)%nat -> heap s h = None /\ refs h (env s) = 0%nat
}.

Lemma refs_zero_lookup h x e : refs h e = 0%nat -> lookup x e <> Some h.
Proof.
  induction e as [|[k v] r IH]; intros H0 Hl; [discriminate|]. rewrite refs_cons in H0. cbn [lookup] in Hl.
  destruct (Nat.eqb_spec v h); [lia|]. destruct (Nat.eqb k x); [inversion Hl; contradiction|]. apply (IH H0 Hl).
Qed.
Lemma refs_set h x h' e : refs h (set_key x h' e) = ((if Nat.eqb h' h then 1 else 0) + refs h (remove_key x e))%nat.
Proof. unfold set_key. apply refs_cons. Qed.

Theorem step_refines s p o :
  Rel s p -> ok_op p o ->
  let '(s', r) := step true s o in let '(p', r') := pstep p o in
  r = r' /\ r <> HPanic /\ Rel s' p'.
Proof.
  intros HR Hok. destruct HR as [Hk Hv Hc Hf]. destruct o as [x|x y|x v|x]; cbn [step pstep ok_op] in *.
  - (* HNew *)
    split; [reflexivity|split; [discriminate|]]. constructor; cbn [env heap next].
    + unfold set_key; cbn. constructor; [apply keys_remove_notin|apply NoDup_keys_remove, Hk].
    + intros z. rewrite !lookup_set. destruct (Nat.eqb_spec x z).
      * exists (next s), {| cnt := 1; val := [] |}. unfold upd. rewrite Nat.eqb_refl. auto.
      * specialize (Hv z). destruct (lookup z p) as [l|]; [|exact Hv].
        destruct Hv as (h & c & H1 & H2 & H3). exists h, c. repeat split; auto. unfold upd.
        destruct (Nat.eqb_spec h (next s)); [|exact H2]. subst. destruct (Hc _ _ H2) as [_ Hlt]. lia.
    + intros h c. unfold upd. destruct (Nat.eqb_spec h (next s)).
      * intros Hc'. inversion Hc'; subst; cbn [cnt]. rewrite refs_set. rewrite Nat.eqb_refl.
        pose proof (refs_remove_le (next s) x (env s)). destruct (Hf (next s) (le_n _)) as [_ H0]. lia.
      * intros Hh. destruct (Hc _ _ Hh) as [H1 H2]. rewrite refs_set. destruct (Nat.eqb_spec (next s) h); [congruence|].
        pose proof (refs_remove_le h x (env s)). lia.
    + intros h Hle. unfold upd. destruct (Nat.eqb_spec h (next s)); [lia|]. destruct (Hf h ltac:(lia)) as [H1 H2]. split; [exact H1|].
      rewrite refs_set. destruct (Nat.eqb_spec (next s) h); [lia|]. pose proof (refs_remove_le h x (env s)). lia.
  - (* HClone *)
    destruct Hok as [Hx Hy]. pose proof (Hv x) as Hvx. destruct (lookup x p) as [l|] eqn:Hlx; [|contradiction].
    destruct Hvx as (h & c & H1 & H2 & H3). rewrite H1, H2.
    split; [reflexivity|split; [discriminate|]]. constructor; cbn [env heap next].
    + unfold set_key; cbn. constructor; [apply keys_remove_notin|apply NoDup_keys_remove, Hk].
    + intros z. rewrite !lookup_set. destruct (Nat.eqb_spec y z).
      * exists h, {| cnt := S (cnt c); val := val c |}. unfold upd. rewrite Nat.eqb_refl. auto.
      * specialize (Hv z). destruct (lookup z p) as [l'|]; [|exact Hv].
        destruct Hv as (h' & c' & G1 & G2 & G3). unfold upd. destruct (Nat.eqb_spec h' h).
        -- subst h'. exists h, {| cnt := S (cnt c); val := val c |}. rewrite Nat.eqb_refl. repeat split; auto. cbn. congruence.
        -- exists h', c'. destruct (Nat.eqb_spec h' h); [contradiction|]. auto.
    + assert (Hyenv : lookup y (env s) = None) by (specialize (Hv y); rewrite Hy in Hv; exact Hv).
      assert (Hrm : forall h0, refs h0 (remove_key y (env s)) = refs h0 (env s)) by (intros h0; rewrite lookup_none_remove by exact Hyenv; reflexivity).
      intros h0 c0. unfold upd. destruct (Nat.eqb_spec h0 h).
      * subst h0. intros Hc'. inversion Hc'; subst; cbn [cnt]. rewrite refs_set, Hrm. rewrite Nat.eqb_refl.
        destruct (Hc _ _ H2). lia.
      * intros Hh. destruct (Hc _ _ Hh). rewrite refs_set, Hrm. destruct (Nat.eqb_spec h h0); [congruence|]. lia.
    + intros h0 Hle. destruct (Hc _ _ H2) as [_ Hlt]. unfold upd. destruct (Nat.eqb_spec h0 h); [lia|].
      destruct (Hf h0 Hle) as [G1 G2]. split; [exact G1|]. rewrite refs_set. destruct (Nat.eqb_spec h h0); [lia|].
      pose proof (refs_remove_le h0 y (env s)). lia.
  - (* HAdd *)
    pose proof (Hv x) as Hvx. destruct (lookup x p) as [l|] eqn:Hlx; [|contradiction].
    destruct Hvx as (h & c & H1 & H2 & H3). rewrite H1, H2. destruct (Hc _ _ H2) as [Hrefs Hlt].
    destruct (Nat.eqb_spec (cnt c) 1) as [Hone|Hshared].
    + (* unique: in place; nobody else points at h *)
      split; [reflexivity|split; [discriminate|]]. constructor; cbn [env heap next]; [exact Hk| | |].
      * intros z. rewrite lookup_set. destruct (Nat.eqb_spec x z).
        -- subst z. exists h, {| cnt := 1; val := val c ++ [v] |}. unfold upd. rewrite Nat.eqb_refl. subst l. auto.
        -- pose proof (Hv z) as Hvz. destruct (lookup z p) as [l'|]; [|exact Hvz].
           destruct Hvz as (h' & c' & G1 & G2 & G3). exists h', c'. repeat split; auto. unfold upd.
           destruct (Nat.eqb_spec h' h); [|exact G2]. subst h'. exfalso.
           (* two bindings on h would need refs >= 2 > cnt = 1 *)
           pose proof (refs_remove_lookup h x (env s) Hk H1) as E.
           assert (lookup z (remove_key x (env s)) = Some h) as Hz by (rewrite lookup_remove_neq; assumption).
           assert (refs h (remove_key x (env s)) <> 0)%nat by (intros H0; apply (refs_zero_lookup _ _ _ H0 Hz)). lia.
      * intros h0 c0. unfold upd. destruct (Nat.eqb_spec h0 h).
        -- subst. intros Hc'. inversion Hc'; subst; cbn [cnt]. lia.
        -- intros Hh. apply (Hc _ _ Hh).
      * intros h0 Hle. unfold upd. destruct (Nat.eqb_spec h0 h); [lia|]. apply (Hf h0 Hle).
    + (* shared: copy-on-write *)
      split; [reflexivity|split; [discriminate|]]. constructor; cbn [env heap next].
      * unfold set_key; cbn. constructor; [apply keys_remove_notin|apply NoDup_keys_remove, Hk].
      * intros z. rewrite !lookup_set. destruct (Nat.eqb_spec x z).
        -- exists (next s), {| cnt := 1; val := val c ++ [v] |}. unfold upd. rewrite Nat.eqb_refl. subst l. auto.
        -- pose proof (Hv z) as Hvz. destruct (lookup z p) as [l'|]; [|exact Hvz].
           destruct Hvz as (h' & c' & G1 & G2 & G3). destruct (Hc _ _ G2) as [_ Hlt'].
           unfold upd. destruct (Nat.eqb_spec h' (next s)); [lia|]. destruct (Nat.eqb_spec h' h).
           ++ subst h'. exists h, {| cnt := pred (cnt c); val := val c |}. split; [exact G1|]. split.
              ** destruct (Nat.eqb_spec h (next s)); [lia|]. rewrite Nat.eqb_refl. reflexivity.
              ** cbn [val]. congruence.
           ++ exists h', c'. split; [exact G1|]. split; [|exact G3].
              destruct (Nat.eqb_spec h' (next s)); [lia|]. destruct (Nat.eqb_spec h' h); [contradiction|exact G2].
      * pose proof (refs_remove_lookup h x (env s) Hk H1) as E.
        intros h0 c0. unfold upd. destruct (Nat.eqb_spec h0 (next s)).
        -- subst. intros Hc'. inversion Hc'; subst; cbn [cnt]. rewrite refs_set. rewrite Nat.eqb_refl.
           pose proof (refs_remove_le (next s) x (env s)). destruct (Hf (next s) (le_n _)) as [_ H0]. lia.
        -- destruct (Nat.eqb_spec h0 h).
           ++ subst. intros Hc'. inversion Hc'; subst; cbn [cnt]. rewrite refs_set. destruct (Nat.eqb_spec (next s) h); [lia|]. lia.
           ++ intros Hh. destruct (Hc _ _ Hh). rewrite refs_set. destruct (Nat.eqb_spec (next s) h0); [lia|].
              pose proof (refs_remove_le h0 x (env s)). lia.
      * intros h0 Hle. unfold upd. destruct (Nat.eqb_spec h0 (next s)); [lia|]. destruct (Nat.eqb_spec h0 h); [lia|].
        destruct (Hf h0 ltac:(lia)) as [G1 G2]. split; [exact G1|]. rewrite refs_set. destruct (Nat.eqb_spec (next s) h0); [lia|].
        pose proof (refs_remove_le h0 x (env s)). lia.
  - (* HRead *)
    pose proof (Hv x) as Hvx. destruct (lookup x p) as [l|] eqn:Hlx; [|contradiction].
    destruct Hvx as (h & c & H1 & H2 & H3). rewrite H1, H2. subst l.
    split; [reflexivity|split; [discriminate|]]. constructor; assumption.
Qed.

(* the pinned commit's PasswordAlgorithms::add (get_mut().unwrap()) panics on: new a; b = a.clone(); a.add(7) *)
Definition heap0 : st := {| env := []; heap := fun _ => None; next := 0 |}.
Definition run (cow:bool) (ops:list op) : list out := snd (fold_left (fun '(s, acc) o => let '(s', r) := step cow s o in (s', acc ++ [r])) ops (heap0, [])).
Example C19_get_mut_refuted : In HPanic (run false [HNew 0; HClone 0 1; HAdd 0 7%N]).
Proof. vm_compute. auto. Qed.
Example C19_make_mut_ok : run true [HNew 0; HAdd 0 1%N; HClone 0 1; HAdd 0 7%N; HAdd 1 9%N; HRead 0; HRead 1]
  = [HNone; HNone; HNone; HNone; HNone; HVal [1;7]%N; HVal [1;9]%N].
Proof. vm_compute. reflexivity. Qed.
Print Assumptions step_refines.
