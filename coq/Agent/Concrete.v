(* The packets of the abstract agent model AT BYTE LEVEL (definitions only; proofs in Proofs/ConcreteProofs.v).

   `craft_packet class method txid attrs` renders an abstract packet of Agent/Model.v (tokens, key descriptors, `AFP good`)
   to bytes in the vocabulary of Agent/AbsGlue.v, the way the implementation's encoder renders the same message: the
   attributes go one after the other through `EncodeMsg.enc_step2` (the step of the MessageEncoder::encode model: the TLV
   with a zero placeholder, the header length rewritten, then HMAC-SHA1 / HMAC-SHA256 / CRC-32 xor 0x5354554e of the bytes so
   far patched in).  A corrupted value (`AMI KCorrupt`, `ASHA KCorrupt`, `AFP false`, which only the fake server of the
   harness produces) is the correct value under the key "irrelevant" / the correct CRC with one bit flipped afterwards,
   exactly as `craft` in harness/src/bin/agent.rs does it (later MACs cover the flipped byte).  Without corrupted
   attributes `craft_packet` IS `EncodeMsg.encode_msg` into a buffer of exactly the needed size (ConcreteProofs.craft_is_encode_msg).

   Suite `absglue` compares, on every run: for every sampled packet the CLIENT emitted, `craft_packet` of the harness'
   abstract reading with the real bytes the implementation produced; for every packet the harness crafted, `craft_packet`
   of the intended tokens with the harness' bytes. *)
From Coq Require Import List NArith Bool.
Import ListNotations.
From Rustun Require Import Base.Tlv Crypto.Crc Crypto.Sha256 Crypto.Sha1Md5 Codec.EncodeInto Codec.InputText Codec.EncodeMsg Codec.Filter Codec.DecodeLoop
                           Codec.Wire Codec.AttrValue Codec.Keys Agent.Model Agent.AbsGlue.
Open Scope N_scope.

Definition k_err : bytes := [101; 114; 114].   (* "err" *)

(* ------------------------------------------------------------------------------------------ attribute values *)
Definition algs_value (l:list alg) : bytes := flat_map (fun a => be16 (alg_id a) ++ [0; 0]) l.

(* application attributes as the harness builds them: SOFTWARE "sw<n>", PRIORITY u32, USE-CANDIDATE empty, any other type
   the first (tag mod 5) bytes of the big-endian tag *)
Definition app_value (ty tag:N) : bytes :=
  if ty =? 32802 then k_sw ++ dec tag
  else if ty =? 36 then be32 tag
  else if ty =? 37 then []
  else take (tag mod 5) (be32 tag).

Definition error_value (c:N) : bytes := [0; 0; (c / 100) mod 256; c mod 100] ++ k_err.

(* the encoder attribute, and the bit flipped afterwards (offset inside the value, mask) for a corrupted value *)
Definition craft_attr (a:attr) : eattr * option (N * N) :=
  match a with
  | App ty tag => (EPlain ty (app_value ty tag), None)
  | UserName u => (EPlain 6 (user_str u), None)
  | UserHash u r => (EPlain 30 (user_hash u r), None)
  | Realm r => (EPlain 20 (realm_str r), None)
  | Nonce n c => (EPlain 21 (nonce_str n c), None)
  | PwdAlgs l => (EPlain 32770 (algs_value l), None)
  | PwdAlg x => (EPlain 29 (algs_value [x]), None)
  | ErrorCode c => (EPlain 9 (error_value c), None)
  | AMI k => (EMi (key_bytes k), match k with KCorrupt => Some (19, 1) | _ => None end)
  | ASHA k => (ESha (key_bytes k), match k with KCorrupt => Some (31, 128) | _ => None end)
  | AFP g => (EFp, if g then None else Some (2, 16))
  end.
Definition craft_e (a:attr) : eattr := fst (craft_attr a).
Definition craft_flip (a:attr) : option (N * N) := snd (craft_attr a).
Definition is_corrupt (a:attr) : bool := match craft_flip a with Some _ => true | None => false end.

Definition xor_at (pos mask:N) (buf:bytes) : bytes :=
  match drop pos buf with x :: _ => write_at pos [N.lxor x mask] buf | [] => buf end.

(* one attribute: the encoder step, then the flip *)
Definition craft_step (st:res (bytes * N)) (a:attr) : res (bytes * N) :=
  match st with
  | Ok (_, L) =>
      match enc_step2 st (craft_e a) with
      | Ok (buf', L') =>
          match craft_flip a with
          | Some (o, m) => Ok (xor_at (L + 24 + o) m buf', L')
          | None => Ok (buf', L')
          end
      | e => e
      end
  | e => e
  end.

Definition craft_needed (attrs:list attr) : N := needed (map craft_e attrs).

Definition craft_fold (typ:N) (txid:bytes) (attrs:list attr) : res (bytes * N) :=
  fold_left craft_step attrs (Ok (write_at 0 (EncodeInto.header typ 0 txid) (zeros (craft_needed attrs)), 0)).

(* class: 0 request, 1 indication, 2 success, 3 error (as in AbsGlue.abs_packet); txid: the 12 transaction-id bytes *)
Definition craft_packet (class method:N) (txid:bytes) (attrs:list attr) : res bytes :=
  match craft_fold (msg_type_of method class) txid attrs with
  | Ok (out, L) => Ok (take (L + 20) out)
  | Err => Err
  | Panic => Panic
  end.

(* the same through the encoder model as it stands (equal to craft_packet when nothing is corrupted) *)
Definition encode_packet (class method:N) (txid:bytes) (attrs:list attr) : res bytes :=
  match encode_msg (zeros (craft_needed attrs)) (msg_type_of method class) txid (map craft_e attrs) with
  | Ok (out, n) => Ok (take n out)
  | Err => Err
  | Panic => Panic
  end.

(* ------------------------------------------------------------------------------------------ the final TLVs in closed form *)
(* the wire TLVs after `done`: each value computed over header (with the length up to the end of the attribute) ++ the TLVs
   before it — the text of RFC 8489 14.5 / 14.6 / 14.7 *)
Definition flip_value (f:option (N * N)) (v:bytes) : bytes :=
  match f with Some (o, m) => xor_at o m v | None => v end.
Definition final_value (typ:N) (txid:bytes) (done:list tlv) (a:attr) : bytes :=
  let e := craft_e a in
  let L' := attr_bytes (done ++ [e_tlv e]) in
  let v := match post_value e (EncodeInto.header typ L' txid ++ enc_tlvs done) with Some v => v | None => e_placeholder e end in
  flip_value (craft_flip a) v.
Fixpoint final_tlvs (typ:N) (txid:bytes) (done:list tlv) (l:list attr) : list tlv :=
  match l with
  | [] => done
  | a :: r => final_tlvs typ txid (done ++ [(e_type (craft_e a), final_value typ txid done a)]) r
  end.
Definition packet_bytes (typ:N) (txid:bytes) (attrs:list attr) : bytes :=
  let T := final_tlvs typ txid [] attrs in
  EncodeInto.header typ (attr_bytes T) txid ++ enc_tlvs T.

(* ------------------------------------------------------------------------------------------ well-formedness *)
(* tokens inside the vocabulary: numbers the decimal rendering reads back (the harness uses u32), algorithm numbers that
   are not an alias of MD5 / SHA-256, nonce flavours 0..6, keys among the candidates the reader tries *)
Definition tok_ok (n:N) : bool := n <? 4294967296.
Definition alg_ok (a:alg) : bool := match a with OtherAlg n => negb (n =? 1) && negb (n =? 2) && (n <? 65536) | _ => true end.
Fixpoint keyd_in (k:keyd) (l:list keyd) : bool :=
  match l with [] => false | x :: r => keyd_eqb x k || keyd_in k r end.
Definition pair_in (u r:N) (l:list (N * N)) : bool := existsb (fun p => (fst p =? u) && (snd p =? r)) l.
Definition hash_cands (realms:list N) : list (N * N) := rev (flat_map (fun r => [(0, r); (5, r)]) realms).

(* the kinds the reader has a special case for cannot be application types *)
Definition special_type (ty:N) : bool :=
  existsb (N.eqb ty) [6; 30; 20; 21; 32770; 29; 9; 8; 28; 32808].
Definition attr_ok (realms:list N) (a:attr) : bool :=
  match a with
  | App ty tag =>
      (ty <? 65536) && negb (special_type ty) &&
      (if ty =? 32802 then tok_ok tag
       else if ty =? 36 then tok_ok tag
       else tok_ok tag && (be_u32 (zero_pad4 (app_value ty tag)) =? tag))
  | UserName u => tok_ok u
  | UserHash u r => pair_in u r (hash_cands realms)
  | Realm r => tok_ok r
  | Nonce n c => tok_ok n && (c <=? 6)
  | PwdAlgs l => forallb alg_ok l
  | PwdAlg x => alg_ok x
  | ErrorCode c => c <? 25600
  | AMI k => keyd_in k (key_cands realms)
  | ASHA k => keyd_in k (key_cands realms)
  | AFP g => g
  end.
Definition attrs_ok (realms:list N) (l:list attr) : bool := forallb (attr_ok realms) l.

(* sizes within the 16-bit length field, types within the 16-bit type field *)
Definition size_ok (attrs:list attr) : bool :=
  (attr_bytes (map (fun a => e_tlv (craft_e a)) attrs) <=? 65535)
  && forallb (fun a => len (e_placeholder (craft_e a)) <=? 65535) attrs
  && forallb (fun a => e_type (craft_e a) <? 65536) attrs.

(* ------------------------------------------------------------------------------------------ no collision, as a boolean *)
(* the candidates the reader tries BEFORE k *)
Fixpoint earlier (k:keyd) (l:list keyd) : list keyd :=
  match l with [] => [] | x :: r => if keyd_eqb x k then [] else x :: earlier k r end.
Fixpoint earlier_pair (u r:N) (l:list (N * N)) : list (N * N) :=
  match l with [] => [] | x :: t => if (fst x =? u) && (snd x =? r) then [] else x :: earlier_pair u r t end.

(* for the attribute `a` placed after the final TLVs `done`: no EARLIER candidate key gives the same HMAC over the text of
   that attribute; no EARLIER candidate (user, realm) pair gives the same USERHASH *)
Definition no_collision_attr (realms:list N) (typ:N) (txid:bytes) (done:list tlv) (a:attr) : bool :=
  match a with
  | AMI k =>
      let text := EncodeInto.header typ (attr_bytes done + 24) txid ++ enc_tlvs done in
      forallb (fun k' => negb (av_bytes_eqb (hmac_sha1 (key_bytes k') text) (hmac_sha1 (key_bytes k) text)))
              (earlier k (key_cands realms))
  | ASHA k =>
      let text := EncodeInto.header typ (attr_bytes done + 36) txid ++ enc_tlvs done in
      forallb (fun k' => negb (av_bytes_eqb (hmac_sha256 (key_bytes k') text) (hmac_sha256 (key_bytes k) text)))
              (earlier k (key_cands realms))
  | UserHash u r =>
      forallb (fun p => negb (av_bytes_eqb (user_hash (fst p) (snd p)) (user_hash u r))) (earlier_pair u r (hash_cands realms))
  | _ => true
  end.
Fixpoint no_collision_from (realms:list N) (typ:N) (txid:bytes) (done:list tlv) (l:list attr) : bool :=
  match l with
  | [] => true
  | a :: r => no_collision_attr realms typ txid done a
              && no_collision_from realms typ txid (done ++ [(e_type (craft_e a), final_value typ txid done a)]) r
  end.
Definition no_collision (realms:list N) (class method:N) (txid:bytes) (attrs:list attr) : bool :=
  no_collision_from realms (msg_type_of method class) txid [] attrs.

(* ------------------------------------------------------------------------------------------ decoding side *)
(* `App ty _` stands for an attribute type without special treatment: not one of the three integrity / fingerprint types
   (AgentMech.attr_wf as a boolean) *)
Definition plain_apps (l:list attr) : bool :=
  forallb (fun a => match a with App ty _ => negb (ty =? 8) && negb (ty =? 28) && negb (ty =? 32808) | _ => true end) l.
(* every integrity attribute of the packet was produced with key k *)
Definition keys_are (k:keyd) (l:list attr) : bool :=
  forallb (fun a => match a with AMI k' | ASHA k' => keyd_eqb k' k | _ => true end) l.
Definition validating (k:bytes) : wctx :=
  {| w_key := Some k; w_opts := {| DecodeLoop.o_validate := true; DecodeLoop.o_unknown := false; DecodeLoop.o_not_ignore := false |} |}.
(* the typed decoders accept every attribute value of the buffer (for the full instance: WireFull.dec_ok_full) *)
Definition typed_accept (dec_ok:bool -> bytes -> N -> bytes -> option bool) (ud:bool) (hdr:bytes) (T:list tlv) : bool :=
  forallb (fun x => match dec_ok ud hdr (fst x) (snd x) with Some true => true | _ => false end) T.
Fixpoint positions (p:N) (n:nat) : list N := match n with O => [] | S j => p :: positions (p + 1) j end.
