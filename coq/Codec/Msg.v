From Coq Require Import List NArith Lia Bool Arith.
Import ListNotations.
From Rustun Require Import Base.Tlv.
Open Scope N_scope.
Arguments N.lxor : simpl never. Arguments N.land : simpl never. Arguments N.shiftr : simpl never. Arguments N.shiftl : simpl never.
Arguments N.pow : simpl never.

(* ---------- fixed-width big-endian ---------- *)
Definition be32 (n:N) : bytes := [n / 16777216; (n / 65536) mod 256; (n / 256) mod 256; n mod 256].
Definition rd32 (a b c d:N) : N := ((a * 256 + b) * 256 + c) * 256 + d.
Lemma rd32_be32 n : n < 4294967296 ->
  rd32 (n / 16777216) ((n / 65536) mod 256) ((n / 256) mod 256) (n mod 256) = n.
Proof.
  intros H. unfold rd32.
  pose proof (N.div_mod n 256 ltac:(lia)) as E0.
  pose proof (N.div_mod (n/256) 256 ltac:(lia)) as E1.
  pose proof (N.div_mod (n/256/256) 256 ltac:(lia)) as E2.
  rewrite N.div_div in E1, E2 by lia. rewrite N.div_div in E2 by lia.
  change (256*256) with 65536 in *. change (65536*256) with 16777216 in *.
  lia.
Qed.
Lemma be16_bytes_ok n : n < 65536 -> bytes_ok (be16 n) = true.
Proof.
  intros H. unfold bytes_ok, be16, byte_ok. cbn [forallb].
  assert (n / 256 < 256) by (apply N.div_lt_upper_bound; lia).
  assert (n mod 256 < 256) by (apply N.mod_lt; lia).
  rewrite !andb_true_iff. repeat split; try apply N.ltb_lt; assumption.
Qed.

(* ---------- attribute values (a representative subset of the 38 kinds) ---------- *)
Section WithUtf8.
Variable utf8_ok : bytes -> bool.           (* std::str::from_utf8(..).is_ok(); the real model lives in Utf8.v *)

Inductive attr :=
| Software (s:bytes)
| Priority (v:N)
| UseCandidate
| MappedAddress (v4:bool) (port:N) (ip:N)          (* ip as a 32- or 128-bit number *)
| XorMappedAddress (v4:bool) (port:N) (ip:N)
| ErrorCode (code:N) (reason:bytes)
| Unknown (t:N) (data:option bytes).

Definition T_SOFTWARE := 0x8022. Definition T_PRIORITY := 0x0024. Definition T_USE_CANDIDATE := 0x0025.
Definition T_MAPPED := 0x0001. Definition T_XOR_MAPPED := 0x0020. Definition T_ERROR_CODE := 0x0009.
Definition type_of (a:attr) : N :=
  match a with Software _ => T_SOFTWARE | Priority _ => T_PRIORITY | UseCandidate => T_USE_CANDIDATE
  | MappedAddress _ _ _ => T_MAPPED | XorMappedAddress _ _ _ => T_XOR_MAPPED | ErrorCode _ _ => T_ERROR_CODE
  | Unknown t _ => t end.

Definition cookie : N := 0x2112A442.
Fixpoint be_n (k:nat) (n:N) : bytes := match k with O => [] | S j => be_n j (n / 256) ++ [n mod 256] end.
Fixpoint rd_n (acc:N) (l:bytes) : N := match l with [] => acc | b :: r => rd_n (acc * 256 + b) r end.

Lemma rd_n_app acc a b : rd_n acc (a ++ b) = rd_n (rd_n acc a) b.
Proof. revert acc; induction a as [|x a IH]; intros acc; cbn [app rd_n]; [reflexivity|apply IH]. Qed.

Lemma rd_be_n : forall k n acc, n < 256^(N.of_nat k) -> rd_n acc (be_n k n) = acc * 256^(N.of_nat k) + n.
Proof.
  induction k as [|k IH]; intros n acc Hn.
  - cbn. change (256^0) with 1 in *. lia.
  - cbn [be_n]. rewrite rd_n_app. cbn [rd_n].
    replace (N.of_nat (S k)) with (N.of_nat k + 1) in * by lia. rewrite N.pow_add_r in *. change (256^1) with 256 in *.
    set (P := 256 ^ N.of_nat k) in *.
    rewrite IH by (apply N.div_lt_upper_bound; lia).
    pose proof (N.div_mod n 256 ltac:(lia)). nia.
Qed.

Definition xor_addr (txid:N) (v4:bool) (port ip:N) : N * N :=
  (N.lxor port (cookie / 65536), if v4 then N.lxor ip cookie else N.lxor ip (cookie * 2^96 + txid)).
Lemma xor_addr_invol txid v4 port ip : let '(p,i) := xor_addr txid v4 port ip in xor_addr txid v4 p i = (port, ip).
Proof. unfold xor_addr. destruct v4; rewrite !N.lxor_assoc, !N.lxor_nilpotent, !N.lxor_0_r; reflexivity. Qed.

Definition enc_addr (v4:bool) (port ip:N) : bytes :=
  [0; if v4 then 1 else 2] ++ be16 port ++ be_n (if v4 then 4 else 16) ip.
Definition dec_addr (v:bytes) : res (bool * N * N) :=
  match v with
  | _ :: fam :: p1 :: p2 :: rest =>
      if fam =? 1 then if len rest <? 4 then Err else Ok (true, rd16 p1 p2, rd_n 0 (take 4 rest))
      else if fam =? 2 then if len rest <? 16 then Err else Ok (false, rd16 p1 p2, rd_n 0 (take 16 rest))
      else Err
  | _ => Err
  end.

Definition enc_value (txid:N) (a:attr) : res bytes :=
  match a with
  | Software s => if 509 <? len s then Err else Ok s
  | Priority v => Ok (be32 v)
  | UseCandidate => Ok []
  | MappedAddress v4 p ip => Ok (enc_addr v4 p ip)
  | XorMappedAddress v4 p ip => let '(p', ip') := xor_addr txid v4 p ip in Ok (enc_addr v4 p' ip')
  | ErrorCode code reason => if 509 <? len reason then Err else Ok ([0; 0; code / 100; code mod 100] ++ reason)
  | Unknown _ _ => Err
  end.

Inductive kind := KSoftware | KPriority | KUseCandidate | KMapped | KXorMapped | KErrorCode.
Definition registry (t:N) : option kind :=
  if t =? T_SOFTWARE then Some KSoftware else if t =? T_PRIORITY then Some KPriority
  else if t =? T_USE_CANDIDATE then Some KUseCandidate else if t =? T_MAPPED then Some KMapped
  else if t =? T_XOR_MAPPED then Some KXorMapped else if t =? T_ERROR_CODE then Some KErrorCode else None.
Definition kind_of (a:attr) : option kind :=
  match a with Software _ => Some KSoftware | Priority _ => Some KPriority | UseCandidate => Some KUseCandidate
  | MappedAddress _ _ _ => Some KMapped | XorMappedAddress _ _ _ => Some KXorMapped | ErrorCode _ _ => Some KErrorCode
  | Unknown _ _ => None end.

Definition dec_value (keep_unknown:bool) (txid:N) (t:N) (v:bytes) : res attr :=
  match registry t with
  | Some KSoftware => if 763 <? len v then Err else if utf8_ok v then Ok (Software v) else Err
  | Some KPriority => match v with a :: b :: c :: d :: _ => Ok (Priority (rd32 a b c d)) | _ => Err end
  | Some KUseCandidate => Ok UseCandidate
  | Some KMapped => match dec_addr v with Ok (v4, p, ip) => Ok (MappedAddress v4 p ip) | Err => Err | Panic => Panic end
  | Some KXorMapped =>
    match dec_addr v with Ok (v4, p, ip) => let '(p', ip') := xor_addr txid v4 p ip in Ok (XorMappedAddress v4 p' ip') | Err => Err | Panic => Panic end
  | Some KErrorCode =>
    match v with
    | _ :: _ :: c :: n :: reason =>
        let cls := N.land c 7 in
        if (cls <? 3) || (6 <? cls) then Err else if 99 <? n then Err
        else if utf8_ok reason then if 763 <? len reason then Err else Ok (ErrorCode (cls * 100 + n) reason) else Err
    | _ => Err
    end
  | None => Ok (Unknown t (if keep_unknown then Some v else None))
  end.

Lemma registry_type_of a : kind_of a <> None -> registry (type_of a) = kind_of a.
Proof. destruct a; intros H; try (vm_compute; reflexivity). cbn in H. congruence. Qed.

Definition wf_attr (a:attr) : bool :=
  match a with
  | Software s => (len s <=? 509) && utf8_ok s && bytes_ok s
  | Priority v => v <? 4294967296
  | UseCandidate => true
  | MappedAddress v4 p ip | XorMappedAddress v4 p ip => (p <? 65536) && (ip <? (if v4 then 256^4 else 256^16))
  | ErrorCode code reason => (300 <=? code) && (code <? 700) && (len reason <=? 509) && utf8_ok reason && bytes_ok reason
  | Unknown _ _ => false
  end.

Lemma take_exact l : take (len l) l = l.
Proof. unfold take, len. rewrite Nat2N.id. apply firstn_all. Qed.
Lemma len_be_n k n : len (be_n k n) = N.of_nat k.
Proof. unfold len. f_equal. revert n; induction k as [|k IH]; intros n; cbn [be_n length]; [reflexivity|]. rewrite app_length, IH. cbn. lia. Qed.

Lemma dec_enc_addr (v4:bool) (p ip:N) : p < 65536 -> ip < (if v4 then 256^4 else 256^16) ->
  dec_addr (enc_addr v4 p ip) = Ok (v4, p, ip).
Proof.
  intros Hp Hip. unfold enc_addr, be16. cbn [app dec_addr].
  destruct v4; cbn [N.eqb Pos.eqb].
  - rewrite len_be_n. cbn [N.ltb N.compare Pos.compare Pos.compare_cont N.of_nat Pos.of_succ_nat Pos.succ].
    replace (take 4 (be_n 4 ip)) with (be_n 4 ip) by (symmetry; rewrite <- (len_be_n 4 ip) at 1; apply take_exact).
    rewrite rd16_be16 by exact Hp. rewrite rd_be_n by exact Hip. cbn. reflexivity.
  - rewrite len_be_n. cbn [N.ltb N.compare Pos.compare Pos.compare_cont N.of_nat Pos.of_succ_nat Pos.succ].
    replace (take 16 (be_n 16 ip)) with (be_n 16 ip) by (symmetry; rewrite <- (len_be_n 16 ip) at 1; apply take_exact).
    rewrite rd16_be16 by exact Hp. rewrite rd_be_n by exact Hip. cbn. reflexivity.
Qed.

Lemma lxor_lt' a b n : a < 2^n -> b < 2^n -> N.lxor a b < 2^n.
Proof.
  intros Ha Hb. destruct (N.eq_dec n 0) as [->|Hn].
  { change (2^0) with 1 in *. assert (a = 0) by lia. assert (b = 0) by lia. subst. rewrite N.lxor_0_l. lia. }
  destruct (N.eq_dec (N.lxor a b) 0) as [->|Hne]; [apply N.neq_0_lt_0, N.pow_nonzero; lia|].
  apply N.log2_lt_pow2; [lia|]. eapply N.le_lt_trans; [apply N.log2_lxor|]. apply N.max_lub_lt.
  - destruct (N.eq_dec a 0) as [->|]; [cbn; lia|apply N.log2_lt_pow2; lia].
  - destruct (N.eq_dec b 0) as [->|]; [cbn; lia|apply N.log2_lt_pow2; lia].
Qed.

Theorem dec_enc_value ku txid a v : txid < 2^96 -> wf_attr a = true -> enc_value txid a = Ok v ->
  dec_value ku txid (type_of a) v = Ok a.
Proof.
  intros Htx Hwf He. destruct a as [s|x| |v4 p ip|v4 p ip|code reason|t d]; cbn [wf_attr enc_value] in *.
  - apply andb_prop in Hwf as [Hwf _]. apply andb_prop in Hwf as [Hl Hu]. apply N.leb_le in Hl.
    assert ((509 <? len s) = false) as E by (apply N.ltb_ge; lia). rewrite E in He. inversion He; subst v.
    unfold dec_value. rewrite (registry_type_of (Software s)) by discriminate. cbn [kind_of].
    assert ((763 <? len s) = false) as -> by (apply N.ltb_ge; lia). rewrite Hu. reflexivity.
  - inversion He; subst v. apply N.ltb_lt in Hwf. unfold dec_value. rewrite (registry_type_of (Priority x)) by discriminate. cbn [kind_of]. unfold be32. rewrite rd32_be32 by exact Hwf. reflexivity.
  - inversion He; subst v. reflexivity.
  - inversion He; subst v. apply andb_prop in Hwf as [Hp Hip]. apply N.ltb_lt in Hp, Hip.
    unfold dec_value. rewrite (registry_type_of (MappedAddress v4 p ip)) by discriminate. cbn [kind_of]. rewrite dec_enc_addr by assumption. reflexivity.
  - apply andb_prop in Hwf as [Hp Hip]. apply N.ltb_lt in Hp, Hip.
    pose proof (xor_addr_invol txid v4 p ip) as Hinv. destruct (xor_addr txid v4 p ip) as [p' ip'] eqn:Hx. inversion He; subst v.
    assert (Hp' : p' < 65536).
    { unfold xor_addr in Hx. inversion Hx. change 65536 with (2^16). apply lxor_lt'; [exact Hp|vm_compute; reflexivity]. }
    assert (Hip' : ip' < (if v4 then 256^4 else 256^16)).
    { unfold xor_addr in Hx. inversion Hx. destruct v4.
      - change (256^4) with (2^32) in *. apply lxor_lt'; [exact Hip|vm_compute; reflexivity].
      - change (256^16) with (2^128) in *. apply lxor_lt'; [exact Hip|].
        assert (cookie * 2^96 < 2^128) by (vm_compute; reflexivity).
        assert (cookie * 2 ^ 96 + txid < cookie * 2^96 + 2^96) by lia.
        eapply N.lt_le_trans; [eassumption|]. vm_compute. discriminate. }
    unfold dec_value. rewrite (registry_type_of (XorMappedAddress v4 p ip)) by discriminate. cbn [kind_of].
    rewrite dec_enc_addr by assumption. rewrite Hinv. reflexivity.
  - repeat (apply andb_prop in Hwf as [Hwf ?]). 
    match goal with H : (len reason <=? 509) = true |- _ => apply N.leb_le in H end.
    apply N.leb_le in Hwf. match goal with H : (code <? 700) = true |- _ => apply N.ltb_lt in H end.
    assert ((509 <? len reason) = false) as E by (apply N.ltb_ge; lia). rewrite E in He. inversion He; subst v.
    unfold dec_value. rewrite (registry_type_of (ErrorCode code reason)) by discriminate. cbn [kind_of app].
    assert (Hc : 3 <= code / 100 <= 6).
    { split; [apply N.div_le_lower_bound; lia|]. assert (code / 100 < 7) by (apply N.div_lt_upper_bound; lia). lia. }
    assert (Hland : N.land (code / 100) 7 = code / 100).
    { change 7 with (N.ones 3). rewrite N.land_ones. apply N.mod_small. change (2^3) with 8. lia. }
    rewrite Hland.
    assert (((code / 100 <? 3) || (6 <? code / 100)) = false) as ->.
    { apply orb_false_iff; split; [apply N.ltb_ge|apply N.ltb_ge]; lia. }
    assert (code mod 100 < 100) by (apply N.mod_lt; lia).
    assert ((99 <? code mod 100) = false) as -> by (apply N.ltb_ge; lia).
    match goal with H : utf8_ok reason = true |- _ => rewrite H end.
    assert ((763 <? len reason) = false) as -> by (apply N.ltb_ge; lia).
    f_equal. f_equal. rewrite N.mul_comm. symmetry. apply N.div_mod. lia.
  - discriminate.
Qed.
End WithUtf8.
Print Assumptions dec_enc_value.
