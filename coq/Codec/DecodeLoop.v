From Coq Require Import List NArith Lia Bool.
Import ListNotations.
From Rustun Require Import Codec.Filter.

(* The decode loop of MessageDecoder::decode (context.rs:238-283), generic in the typed decoders:
   whatever the 38 per-kind decoders and the verifier do, the relations between decoder options hold. *)
Section Loop.
Variables (attr tlv : Type).
Variable kind_of : tlv -> kind.                   (* Ord / MI / SHA / FP by the type code *)
Variable dec_value : bool -> tlv -> option attr.  (* typed decode or Unknown; the bool is with_unknown_data; None = error *)
Variable verify : attr -> bool.                   (* validate_attribute against the whole buffer and the context key *)

Record opts := { o_validate : bool; o_unknown : bool; o_not_ignore : bool }.

Fixpoint loop (o:opts) (f:flt) (l:list tlv) : option (list attr) :=
  match l with
  | [] => Some []
  | x :: r =>
      match dec_value (o_unknown o) x with          (* the typed decoder runs first, also for attributes that will be ignored *)
      | None => None
      | Some a =>
          let '(ign, f') := ignore_attribute f (kind_of x) in   (* always evaluated: it updates the flags *)
          if negb ign || o_not_ignore o then
            if o_validate o && negb (verify a) then None
            else match loop o f' r with Some rest => Some (a :: rest) | None => None end
          else loop o f' r
      end
  end.

Definition with_validate (o:opts) b := {| o_validate := b; o_unknown := o_unknown o; o_not_ignore := o_not_ignore o |}.
Definition with_not_ignore (o:opts) b := {| o_validate := o_validate o; o_unknown := o_unknown o; o_not_ignore := b |}.

(* C18: if decoding with validation succeeds, decoding without validation gives the same message *)
Theorem C18_validation_monotone : forall l o f r,
  loop (with_validate o true) f l = Some r -> loop (with_validate o false) f l = Some r.
Proof.
  induction l as [|x l IH]; intros o f r H; cbn [loop] in *; [exact H|].
  cbn [o_unknown with_validate o_not_ignore o_validate] in *.
  destruct (dec_value (o_unknown o) x) as [a|]; [|discriminate].
  destruct (ignore_attribute f (kind_of x)) as [ign f'].
  destruct (negb ign || o_not_ignore o).
  - cbn [andb] in *. destruct (negb (verify a)); [discriminate|].
    destruct (loop (with_validate o true) f' l) as [rest|] eqn:E; [|discriminate].
    rewrite (IH o f' rest E). exact H.
  - apply IH. exact H.
Qed.

(* which wire attributes the default options keep: exactly the ones the RFC rule allows *)
Fixpoint keep (bs:list bool) (l:list attr) : list attr :=
  match bs, l with b :: bs', a :: l' => if b then a :: keep bs' l' else keep bs' l' | _, _ => [] end.

Lemma loop_not_ignore_all : forall l o f r, o_validate o = false ->
  loop (with_not_ignore o true) f l = Some r -> length r = length l.
Proof.
  induction l as [|x l IH]; intros o f r Hv H; cbn [loop] in H.
  - inversion H. reflexivity.
  - cbn [with_not_ignore o_unknown o_not_ignore o_validate] in H. rewrite Hv in H.
    destruct (dec_value (o_unknown o) x) as [a|]; [|discriminate].
    destruct (ignore_attribute f (kind_of x)) as [ign f']. rewrite orb_true_r in H. cbn [andb] in H.
    destruct (loop (with_not_ignore o true) f' l) as [rest|] eqn:E; [|discriminate]. inversion H; subst. cbn. f_equal.
    apply (IH o f' rest Hv E).
Qed.

(* C18 + C09: without validation, decoding everything and decoding with the ordering rule succeed together,
   and the default result is the sub-list of all wire attributes selected by the admission rule *)
Theorem C18_not_ignore_superset : forall l o f, o_validate o = false ->
  match loop (with_not_ignore o true) f l with
  | Some all => loop (with_not_ignore o false) f l = Some (keep (run ignore_attribute f (map kind_of l)) all)
  | None => loop (with_not_ignore o false) f l = None
  end.
Proof.
  induction l as [|x l IH]; intros o f Hv; cbn [loop map run]; [reflexivity|].
  cbn [with_not_ignore o_unknown o_not_ignore o_validate]. rewrite Hv.
  destruct (dec_value (o_unknown o) x) as [a|]; [|reflexivity].
  destruct (ignore_attribute f (kind_of x)) as [ign f']. rewrite orb_true_r, orb_false_r. cbn [andb].
  specialize (IH o f' Hv).
  destruct (loop (with_not_ignore o true) f' l) as [rest|].
  - cbn [keep]. destruct (negb ign); rewrite IH; reflexivity.
  - destruct (negb ign); rewrite IH; reflexivity.
Qed.

(* C09: with the repaired filter, the kept positions are those of the property-text rule, from the start of the message *)
Corollary C09_decode_attrs l o all : o_validate o = false ->
  loop (with_not_ignore o true) {| f_mi := false; f_sha := false; f_fp := false |} l = Some all ->
  loop (with_not_ignore o false) {| f_mi := false; f_sha := false; f_fp := false |} l
  = Some (keep (allow {| s_mi := false; s_sha := false; s_fp := false |} (map kind_of l)) all).
Proof.
  intros Hv H. pose proof (C18_not_ignore_superset l o {| f_mi := false; f_sha := false; f_fp := false |} Hv) as G.
  rewrite H in G. rewrite G. rewrite C09_from_start. reflexivity.
Qed.
End Loop.
Print Assumptions C09_decode_attrs.
