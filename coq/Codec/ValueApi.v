(* Executable model of the VALUE-TYPE API of stun-rs (property C19): the public constructors, accessors, conversions and
   mutators of the message, attribute and key value types, written function by function from
   stun-rs/src/{message,types,algorithm,strings,raw,protocols}.rs and attributes/**.rs.

   Conventions (those of Codec/AttrValue.v): results are `vres`; every Rust site that can panic -- slice / index,
   `unwrap`, `expect`, `try_into().unwrap()`, checked arithmetic of a debug build -- is a separate step that yields
   `VPanic` exactly when the Rust operation would panic; that the guards in front of them make `VPanic` unreachable is a
   theorem (Proofs/ValueApiProofs.v), not a convention.  `VErr` = the function returns `Err(..)` / `None`;
   `VUnmodelled` = the PRECIS OpaqueString profile outside ASCII (needs the Unicode tables).
   Definitions only: this file is extracted and run against the implementation (suite `valueapi`, records `C V`). *)
From Coq Require Import List NArith Bool.
Import ListNotations.
From Rustun Require Import Base.Tlv Crypto.Sha256 Codec.AttrValue Codec.MsgType Codec.Message Codec.Keys.
Open Scope N_scope.
Arguments N.lxor : simpl never. Arguments N.land : simpl never. Arguments N.lor : simpl never.
Arguments N.shiftr : simpl never. Arguments N.shiftl : simpl never.

(* ------------------------------------------------------------------------------------------ std conversions *)
(* u8::try_from(x: u16) / x.try_into::<u8>() followed by unwrap() *)
Definition va_u8_unwrap (x:N) : vres N := if 255 <? x then VPanic else VOk x.
(* checked unsigned subtraction of a debug build (u16 / usize) *)
Definition va_sub (a b:N) : vres N := if a <? b then VPanic else VOk (a - b).
(* Result::unwrap / expect *)
Definition va_unwrap {A:Type} (r:vres A) : vres A := match r with VErr => VPanic | x => x end.
(* <[u8; n]>::try_from(&[u8]) (std): the conversion a caller performs before the From<[u8; n]> impls *)
Definition va_array_from_slice (n:N) (b:bytes) : vres bytes := if len b =? n then VOk b else VErr.

(* ------------------------------------------------------------------------------------------ message.rs *)
(* impl TryFrom<u16> for MessageMethod *)
Definition va_method_try_from (v:N) : vres N := if N.land v 0xF000 =? 0 then VOk v else VErr.
(* MessageMethod::is_valid: (0x00..=0xff).contains(&self.0) *)
Definition va_method_is_valid (m:N) : bool := m <=? 0xFF.
(* impl TryFrom<u8> for MessageClass; the class is its two-bit number (as_u16) *)
Definition va_class_try_from (v:N) : vres N := if v <=? 3 then VOk v else VErr.
(* MessageType::as_u16 *)
Definition va_msgtype_as_u16 (m c:N) : N := MsgType.as_u16 m c.
(* impl From<u16> for MessageType: three unwraps *)
Definition va_msgtype_from (value:N) : vres (N * N) :=
  let val := N.land value 0x3FFF in
  vlet class_u8 := va_u8_unwrap (N.lor (N.shiftr (N.land val 0x0100) 7) (N.shiftr (N.land val 0x0010) 4)) in
  vlet class := va_unwrap (va_class_try_from class_u8) in
  let method_u16 := N.lor (N.shiftr (N.land val 0x3E00) 2) (N.lor (N.shiftr (N.land val 0x00E0) 1) (N.land val 0x000F)) in
  vlet method := va_unwrap (va_method_try_from method_u16) in
  VOk (method, class).
(* impl From<&[u8; 2]> for MessageType: BigEndian::read_u16 *)
Definition va_msgtype_from_bytes (b:bytes) : vres (N * N) := vlet v := av_rd16 b in va_msgtype_from v.

(* ------------------------------------------------------------------------------------------ types.rs *)
(* impl TryFrom<u8> for AddressFamily: 1 = IPv4, 2 = IPv6 *)
Definition va_family_try_from (v:N) : vres N := if (v =? 1) || (v =? 2) then VOk v else VErr.

(* ErrorCode::new: (300..700).contains(&error_code) *)
Definition va_error_code_new (code:N) (reason:bytes) : vres (N * bytes) :=
  if (300 <=? code) && (code <? 700) then VOk (code, reason) else VErr.
(* ErrorCode::number: (self.error_code % 100).try_into().unwrap() *)
Definition va_ec_number (code:N) : vres N := va_u8_unwrap (code mod 100).
(* ErrorCode::class: ((self.error_code - self.number() as u16) / 100).try_into().unwrap() *)
Definition va_ec_class (code:N) : vres N :=
  vlet n := va_ec_number code in
  vlet d := va_sub code n in
  va_u8_unwrap (d / 100).
(* everything the accessors show of ErrorCode::new(code, reason): error_code(), class(), number(), reason() *)
Definition va_error_code_view (code:N) (reason:bytes) : vres (N * N * N * bytes) :=
  vlet e := va_error_code_new code reason in
  vlet c := va_ec_class (fst e) in
  vlet n := va_ec_number (fst e) in
  VOk (fst e, c, n, snd e).

(* Cookie: PartialEq<[u8; 4]> = BigEndian::read_u32; MAGIC_COOKIE.as_u32() *)
Definition va_magic_cookie : N := 0x2112A442.
Definition va_cookie_eq (b:bytes) : vres bool := vlet n := av_rd32 b in VOk (n =? va_magic_cookie).

(* TransactionId::from([u8; 12]).as_bytes(); Display: "transaction id (0x" + upper-case hex + ")" *)
Definition va_hex_digit (d:N) : N := if d <? 10 then 48 + d else 55 + d.
Definition va_hex_upper (b:bytes) : bytes := flat_map (fun x => [va_hex_digit (x / 16); va_hex_digit (x mod 16)]) b.
Definition va_txid_display_prefix : bytes :=     (* "transaction id (0x" *)
  [116;114;97;110;115;97;99;116;105;111;110;32;105;100;32;40;48;120].
Definition va_txid_display (b:bytes) : bytes := va_txid_display_prefix ++ va_hex_upper b ++ [41].

(* HMACKey::new_short_term / new_long_term: Codec/Keys.v (algorithm as its u16 number) *)
Definition va_key_short_term (password:bytes) : vres bytes := st_key password.
Definition va_key_long_term (user realm password:bytes) (alg:N) : vres bytes := lt_key user realm password alg.

(* ------------------------------------------------------------------------------------------ algorithm.rs *)
(* AlgorithmId: tag 0 Reserved, 1 MD5, 2 SHA256, 3 Unassigned(v) *)
Definition va_algid_from (v:N) : N * N :=
  if v =? 0 then (0, 0) else if v =? 1 then (1, 0) else if v =? 2 then (2, 0) else (3, v).
Definition va_algid_to (a:N * N) : N :=
  if fst a =? 0 then 0 else if fst a =? 1 then 1 else if fst a =? 2 then 2 else snd a.

(* ------------------------------------------------------------------------------------------ raw.rs *)
(* impl TryFrom<&[u8; 20]> for MessageHeader = MessageHeader::decode: msg_type (14 bits), msg_length, transaction id *)
Definition va_header_try_from (b:bytes) : vres (N * N * bytes) :=
  if len b <? 20 then VErr
  else
    vlet t := av_to b 2 in
    vlet ty := av_rd16 t in
    let bits := ty / 16384 in
    if 255 <? bits then VErr                                      (* (msg_type >> 14).try_into()? *)
    else if negb (bits =? 0) then VErr
    else
      vlet l := av_slice b 2 4 in
      vlet ml := av_rd16 l in
      vlet c := av_slice b 4 8 in
      if negb (len c =? 4) then VErr                              (* <&[u8; 4]>::try_from(..)? *)
      else if negb (av_bytes_eqb c av_cookie) then VErr
      else
        vlet x := av_slice b 8 20 in
        if negb (len x =? 12) then VErr                           (* <&[u8; 12]>::try_from(..)? *)
        else VOk (N.land ty 0x3FFF, ml, x).

(* ------------------------------------------------------------------------------------------ attributes.rs *)
(* AttributeType::from(u16): as_u16, is_comprehension_required, is_comprehension_optional *)
Definition va_attrtype (v:N) : N * bool * bool := (v, v <? 0x8000, negb (v <? 0x8000)).

(* ------------------------------------------------------------------------------------------ strings *)
(* Nonce::new / Realm::new: the quoted-string constructors of Codec/Message.v *)
Definition va_nonce_new (s:bytes) : vres bytes := ctor_quoted s.
Definition va_realm_new (s:bytes) : vres bytes := ctor_realm s.
(* string_attribute!: Software::new (509), Padding::new (64000): value.len() <= max *)
Definition va_text_new (max:N) (s:bytes) : vres bytes := if max <? len s then VErr else VOk s.
Definition va_software_new := va_text_new 509.
Definition va_padding_new := va_text_new 64000.
(* UserName::new: OpaqueString::prepare, then name.len() < 509 *)
Definition va_username_new (s:bytes) : vres bytes :=
  vlet name := av_precis s in if len name <? 509 then VOk name else VErr.
(* UserHash::new: SHA-256 of prepare(name) ":" prepare(realm); Vec -> [u8; 32] by try_into (mapped to Err) *)
Definition va_userhash_new (name realm:bytes) : vres bytes :=
  vlet n := av_precis name in
  vlet r := av_precis realm in
  let h := sha256 (n ++ [58] ++ r) in
  if negb (len h =? 32) then VErr                                  (* do_sha256: val_len == USER_HASH_LEN *)
  else va_array_from_slice 32 h.                                   (* vec.try_into().map_err(..)? *)

(* ------------------------------------------------------------------------------------------ nonce_cookie.rs *)
Definition va_cookie_header : bytes := [111; 98; 77; 97; 116; 74; 111; 115; 50].     (* "obMatJos2" *)
Fixpoint va_starts_with (p s:bytes) : bool :=
  match p, s with
  | [], _ => true
  | x :: p', y :: s' => (x =? y) && va_starts_with p' s'
  | _, [] => false
  end.
(* base64, standard alphabet, by arithmetic on the character code *)
Definition va_b64_val (c:N) : option N :=
  if (65 <=? c) && (c <=? 90) then Some (c - 65)
  else if (97 <=? c) && (c <=? 122) then Some (c - 71)
  else if (48 <=? c) && (c <=? 57) then Some (c + 4)
  else if c =? 43 then Some 62
  else if c =? 47 then Some 63
  else None.
Definition va_b64_char (i:N) : N :=
  if i <? 26 then 65 + i else if i <? 52 then 71 + i else if i <? 62 then i - 4 else if i =? 62 then 43 else 47.
(* BASE64_STANDARD.encode of three bytes *)
Definition va_b64_enc3 (b0 b1 b2:N) : bytes :=
  let n := (b0 * 256 + b1) * 256 + b2 in
  [va_b64_char (n / 262144); va_b64_char ((n / 4096) mod 64); va_b64_char ((n / 64) mod 64); va_b64_char (n mod 64)].
(* BASE64_STANDARD.encode(&x[..3]): only three-byte inputs occur *)
Definition va_b64_encode (l:bytes) : bytes := match l with [b0; b1; b2] => va_b64_enc3 b0 b1 b2 | _ => [] end.
(* BASE64_STANDARD.decode_slice(flags, &mut [0; 4]) followed by `size == 3`: Some (the three bytes) exactly for four
   alphabet characters; padded input decodes to fewer bytes, anything else is a decode error *)
Definition va_b64_dec3 (l:bytes) : option bytes :=
  match l with
  | [c0; c1; c2; c3] =>
      match va_b64_val c0, va_b64_val c1, va_b64_val c2, va_b64_val c3 with
      | Some v0, Some v1, Some v2, Some v3 =>
          let n := ((v0 * 64 + v1) * 64 + v2) * 64 + v3 in
          Some [n / 65536; (n / 256) mod 256; n mod 256]
      | _, _, _, _ => None
      end
  | _ => None
  end.

(* Nonce::is_nonce_cookie: starts_with(HEADER) && len >= HEADER.len() + 4 *)
Definition va_is_nonce_cookie (s:bytes) : bool := va_starts_with va_cookie_header s && (13 <=? len s).
(* str::get(i..j): None unless i <= j <= len and both ends are character boundaries *)
Definition va_str_get (s:bytes) (i j:N) : option bytes :=
  if (i <=? j) && (j <=? len s) && av_is_boundary s i && av_is_boundary s j then Some (take (j - i) (drop i s)) else None.
(* &s[i..j] on a str: panics where get returns None *)
Definition va_str_index (s:bytes) (i j:N) : vres bytes :=
  match va_str_get s i j with Some r => VOk r | None => VPanic end.

(* the flags of the 24 decoded bits read as the top of a u32: bit 31 password algorithms, bit 30 user-name anonymity *)
Definition va_features_of (d:bytes) : vres (bool * bool) :=
  vlet v := av_rd32 (d ++ [0]) in                                  (* bytes = [0; 4] filled with 3 bytes; read_u32(&bytes) *)
  VOk (N.testbit v 31, N.testbit v 30).
(* Nonce::security_features (after the repair of D4: str::get) *)
Definition va_security_features (s:bytes) : vres (bool * bool) :=
  if negb (va_is_nonce_cookie s) then VErr
  else match va_str_get s 9 13 with
       | None => VErr
       | Some flags => match va_b64_dec3 flags with Some d => va_features_of d | None => VErr end
       end.
(* the pinned commit (D4): &self.as_str()[9..13] *)
Definition va_security_features_d4 (s:bytes) : vres (bool * bool) :=
  if negb (va_is_nonce_cookie s) then VErr
  else vlet flags := va_str_index s 9 13 in
       match va_b64_dec3 flags with Some d => va_features_of d | None => VErr end.

(* Nonce::new_nonce_cookie(value, flags): &features.to_be_bytes()[..3] base64-encoded between header and value *)
Definition va_new_nonce_cookie (value:bytes) (algs anon:bool) : vres bytes :=
  let features := (if algs then 2147483648 else 0) + (if anon then 1073741824 else 0) in
  vlet b3 := av_to (av_be32 features) 3 in
  va_nonce_new (va_cookie_header ++ va_b64_encode b3 ++ value).
(* what the accessors show of a Nonce: as_str(), is_nonce_cookie(), security_features() *)
Definition va_nonce_view (r:vres bytes) : vres (bytes * bool * vres (bool * bool)) :=
  vlet q := r in VOk (q, va_is_nonce_cookie q, va_security_features q).

(* ------------------------------------------------------------------------------------------ fixed-size values *)
(* impl From<&[u8; 4]> for Fingerprint: DecodableFingerprint::decode(val).expect(..); the stored CRC *)
Definition va_fingerprint_from (b:bytes) : vres N :=
  vlet n := va_unwrap (av_dec_u32 b) in VOk (N.lxor n 0x5354554e).
(* From<[u8; N]> for MessageIntegrity (20) / MessageIntegritySha256 (32) / ReservationToken (8) / TransactionId (12):
   the array is stored as it is *)
Definition va_fixed_from (n:N) (b:bytes) : vres bytes := va_array_from_slice n b.

(* ------------------------------------------------------------------------------------------ integers *)
(* IcmpType = BoundedU8<0,127>::new, IcmpCode = BoundedU16<0,511>::new: None outside the range *)
Definition va_icmp_type_new (v:N) : vres N := if v <=? 127 then VOk v else VErr.
Definition va_icmp_code_new (v:N) : vres N := if v <=? 511 then VOk v else VErr.
(* ChangeRequest::new(Some(flags) | None).flags(): bits, from_bits_truncate (ChangePort = 2, ChangeIp = 4) *)
Definition va_change_request_new (f:option N) : N := match f with Some b => b | None => 0 end.
Definition va_change_request_flags (x:N) : N := N.land x 6.
(* EncoderContext::padding(): DEFAULT_PADDING_VALUE unless StunPadding::Custom(v) *)
Definition va_ctx_padding (p:option N) : N := match p with Some v => v | None => 0 end.
(* common::padding(value_size) = (4 - (value_size & 3)) & 3 *)
Definition va_padding (n:N) : vres N :=
  vlet d := va_sub 4 (N.land n 3) in VOk (N.land d 3).

(* protocols::UDP *)
Definition va_udp : N := 17.

(* ------------------------------------------------------------------------------------------ lists *)
(* UnknownAttributes::add: if !contains(value) { make_mut(..).push(value) };  From<&[u16]>: default() then add each *)
Definition va_ua_add (l:list N) (x:N) : list N := av_ua_add l x.
Definition va_ua_from (v:list N) : list N := fold_left va_ua_add v [].
(* PasswordAlgorithms::add: push; PasswordAlgorithm::new(Algorithm::new(id, params)): algorithm(), parameters() *)
Definition va_pa_add (l:list (N * option bytes)) (a:N * option bytes) : list (N * option bytes) := l ++ [a].
Definition va_pa_from (v:list (N * option bytes)) : list (N * option bytes) := fold_left va_pa_add v [].

(* ------------------------------------------------------------------------------------------ suite glue *)
(* one result per value of a numeric sweep (records `C V <fn> R lo n`): a tuple of numbers, or none for Err *)
Definition va_num_case (fn v:N) : vres (list N) :=
  if fn =? 0 then vlet r := va_msgtype_from v in VOk [fst r; snd r; va_msgtype_as_u16 (fst r) (snd r)]
  else if fn =? 1 then                                            (* MessageType::new(m, c).as_u16() and back: v = 4 m + c *)
    vlet m := va_method_try_from (v / 4) in
    vlet c := va_class_try_from (v mod 4) in
    let u := va_msgtype_as_u16 m c in
    vlet r := va_msgtype_from u in VOk [u; fst r; snd r]
  else if fn =? 2 then vlet m := va_method_try_from v in VOk [m; if va_method_is_valid m then 1 else 0]
  else if fn =? 3 then vlet c := va_class_try_from v in VOk [c; va_msgtype_as_u16 0 c]
  else if fn =? 4 then vlet f := va_family_try_from v in VOk [f]
  else if fn =? 5 then let a := va_algid_from v in VOk [fst a; va_algid_to a]
  else if fn =? 6 then vlet r := va_error_code_view v [] in let '(code, c, n, _) := r in VOk [code; c; n]
  else if fn =? 7 then vlet t := va_icmp_type_new v in VOk [t]
  else if fn =? 8 then vlet c := va_icmp_code_new v in VOk [c]
  else if fn =? 9 then let '(a, r, o) := va_attrtype v in VOk [a; if r then 1 else 0; if o then 1 else 0]
  else if fn =? 10 then                                           (* v < 8: Some(flags of bits 1, 2); else None *)
    VOk [va_change_request_flags (va_change_request_new (if v <? 8 then Some (N.land v 6) else None))]
  else if fn =? 11 then vlet p := va_padding v in VOk [p]
  else if fn =? 14 then VOk [v * 65537]                           (* LifeTime::new(v * 65537).as_u32() *)
  else if fn =? 15 then VOk [v mod 2]                             (* EvenPort::new(v & 1 == 1).reserve() *)
  else if fn =? 16 then VOk [v mod 128; v mod 512; v mod 256]     (* Icmp::new(type, code, [v as u8; 4]) accessors *)
  else if fn =? 17 then VOk [va_ctx_padding None]                  (* EncoderContext::default().padding() *)
  else if fn =? 18 then VOk [va_udp]                              (* RequestedTrasport::new(UDP).protocol().as_u8() *)
  else VOk [v].                                                   (* 12, 13: ChannelNumber::number, ResponsePort::as_u16 *)
