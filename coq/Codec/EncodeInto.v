From Coq Require Import List NArith ZArith Lia Bool Arith ZifyBool ZifyN.
Import ListNotations.
From Rustun Require Import Base.Tlv.
Open Scope N_scope.
Ltac Zify.zify_post_hook ::= Z.div_mod_to_equations.

(* MessageEncoder::encode (context.rs:427-523, with D5 repaired) over raw TLVs, with the caller's buffer explicit *)
Definition cookie_bytes : bytes := [33; 18; 164; 66].
Definition header (typ len_:N) (txid:bytes) : bytes := be16 typ ++ be16 len_ ++ cookie_bytes ++ txid.
Definition write_at (off:N) (data buf:bytes) : bytes := take off buf ++ data ++ drop (off + len data) buf.

Definition enc_step (st:res (bytes * N)) (a:tlv) : res (bytes * N) :=
  match st with
  | Ok (buf, L) =>
      let idx := L + 20 in
      let room := len buf - idx in
      let v := snd a in
      if room <? 4 then Err                               (* check_buffer_boundaries(attributes, 4) *)
      else if room - 4 <? len v then Err                  (* the value encoder's own room check *)
      else if 65535 <? len v then Err                     (* value_size.try_into::<u16>() *)
      else let p := pad (len v) in
           if room - 4 - len v <? p then Err              (* fill_padding_value *)
           else let L' := L + 4 + len v + p in
                if 65535 <? L' then Err                   (* u16::try_from(length) *)
                else Ok (write_at 2 (be16 L') (write_at idx (be16 (fst a) ++ be16 (len v) ++ v ++ zeros p) buf), L')
  | e => e
  end.
Definition encode_into (buf:bytes) (typ:N) (txid:bytes) (l:list tlv) : res (bytes * N) :=
  if len buf <? 20 then Err
  else match fold_left enc_step l (Ok (write_at 0 (header typ 0 txid) buf, 0)) with
       | Ok (out, L) => Ok (out, L + 20)
       | Err => Err | Panic => Panic
       end.

(* ---- list helpers ---- *)
Lemma len_take' n l : n <= len l -> len (take n l) = n.
Proof. unfold len, take. intros H. rewrite firstn_length. lia. Qed.
Lemma len_drop' n l : len (drop n l) = len l - n.
Proof. unfold len, drop. rewrite skipn_length. lia. Qed.
Lemma take_drop n l : take n l ++ drop n l = l.
Proof. unfold take, drop. apply firstn_skipn. Qed.
Lemma skipn_skipn' {A} : forall a b (l:list A), skipn a (skipn b l) = skipn (b + a) l.
Proof. intros a b; revert a. induction b as [|b IH]; intros a l; cbn; [reflexivity|]. destruct l; cbn; [destruct a; reflexivity|apply IH]. Qed.
Lemma drop_drop' n m l : drop n (drop m l) = drop (m + n) l.
Proof. unfold drop. rewrite skipn_skipn'. f_equal. lia. Qed.
Lemma drop_app_ge' n a b : len a <= n -> drop n (a ++ b) = drop (n - len a) b.
Proof. unfold drop, len. intros H. rewrite skipn_app. rewrite skipn_all2 by lia. cbn. f_equal. lia. Qed.
Lemma take_app_exact' a b : take (len a) (a ++ b) = a. Proof. apply take_app_exact. Qed.
Lemma len_write off d buf : off + len d <= len buf -> len (write_at off d buf) = len buf.
Proof. intros H. unfold write_at. rewrite !len_app, len_take', len_drop' by lia. lia. Qed.
Lemma write_at_app a d rest : len d <= len rest -> write_at (len a) d (a ++ rest) = a ++ d ++ drop (len d) rest.
Proof.
  intros H. unfold write_at. rewrite take_app_exact. f_equal. f_equal.
  rewrite drop_app_ge' by lia. f_equal. lia.
Qed.
Lemma len_be16 n : len (be16 n) = 2. Proof. reflexivity. Qed.
Lemma len_header typ L txid : length txid = 12%nat -> len (header typ L txid) = 20.
Proof. intros H. unfold header, cookie_bytes. rewrite !len_app, !len_be16. unfold len. cbn [length]. rewrite H. reflexivity. Qed.
Lemma write_len typ L L' txid X : write_at 2 (be16 L') (header typ L txid ++ X) = header typ L' txid ++ X.
Proof.
  unfold header. rewrite <- !app_assoc.
  change 2 with (len (be16 typ)). rewrite write_at_app by (rewrite !len_app, !len_be16; lia).
  do 2 (apply f_equal). change (len (be16 L')) with (len (be16 L)). apply drop_app_exact.
Qed.

Definition attr_bytes (l:list tlv) : N := len (enc_tlvs l).
Lemma len_enc_tlv a : len (enc_tlv a) = 4 + len (snd a) + pad (len (snd a)).
Proof. unfold enc_tlv. rewrite !len_app, !len_be16, len_zeros. lia. Qed.
Lemma enc_tlvs_snoc l a : enc_tlvs (l ++ [a]) = enc_tlvs l ++ enc_tlv a.
Proof. unfold enc_tlvs. rewrite flat_map_app. cbn. rewrite app_nil_r. reflexivity. Qed.

(* the running state after some attributes: header with their length, their TLVs, and the untouched rest of the buffer *)
Definition good (buf0:bytes) (typ:N) (txid:bytes) (done:list tlv) (st:res (bytes*N)) : Prop :=
  st = Ok (header typ (attr_bytes done) txid ++ enc_tlvs done ++ drop (20 + attr_bytes done) buf0, attr_bytes done)
  /\ 20 + attr_bytes done <= len buf0 /\ attr_bytes done <= 65535.

Lemma enc_step_good buf0 typ txid done a st :
  length txid = 12%nat -> good buf0 typ txid done st ->
  let fits := (20 + attr_bytes (done ++ [a]) <=? len buf0) && (attr_bytes (done ++ [a]) <=? 65535) && (len (snd a) <=? 65535) in
  if fits then good buf0 typ txid (done ++ [a]) (enc_step st a) else enc_step st a = Err.
Proof.
  intros Htx (Hst & Hfit & Hmax). subst st. unfold attr_bytes in *. rewrite enc_tlvs_snoc, len_app, len_enc_tlv.
  set (D := len (enc_tlvs done)) in *. set (v := snd a). set (p := pad (len v)).
  set (cur := header typ D txid ++ enc_tlvs done ++ drop (20 + D) buf0).
  assert (Hcur : len cur = len buf0).
  { unfold cur. rewrite !len_app, len_header, len_drop' by exact Htx. fold D. lia. }
  unfold enc_step. fold v. rewrite Hcur. fold p.
  destruct (N.ltb_spec (len buf0 - (D + 20)) 4) as [H1|H1].
  { replace ((20 + (D + (4 + len v + p)) <=? len buf0)) with false by (symmetry; apply N.leb_gt; lia). reflexivity. }
  destruct (N.ltb_spec (len buf0 - (D + 20) - 4) (len v)) as [H2|H2].
  { replace ((20 + (D + (4 + len v + p)) <=? len buf0)) with false by (symmetry; apply N.leb_gt; lia). reflexivity. }
  destruct (N.ltb_spec 65535 (len v)) as [H3|H3].
  { replace (len v <=? 65535) with false by (symmetry; apply N.leb_gt; lia). rewrite andb_false_r. reflexivity. }
  destruct (N.ltb_spec (len buf0 - (D + 20) - 4 - len v) p) as [H4|H4].
  { replace ((20 + (D + (4 + len v + p)) <=? len buf0)) with false by (symmetry; apply N.leb_gt; lia). reflexivity. }
  destruct (N.ltb_spec 65535 (D + 4 + len v + p)) as [H5|H5].
  { replace (D + (4 + len v + p) <=? 65535) with false by (symmetry; apply N.leb_gt; lia). rewrite andb_false_r. reflexivity. }
  replace ((20 + (D + (4 + len v + p)) <=? len buf0)) with true by (symmetry; apply N.leb_le; lia).
  replace (D + (4 + len v + p) <=? 65535) with true by (symmetry; apply N.leb_le; lia).
  replace (len v <=? 65535) with true by (symmetry; apply N.leb_le; lia). cbn [andb].
  unfold good, attr_bytes. rewrite enc_tlvs_snoc, len_app, len_enc_tlv. fold D v p.
  assert (G1 : 20 + (D + (4 + len v + p)) <= len buf0) by (clear - H1 H2 H4; lia).
  assert (G2 : D + (4 + len v + p) <= 65535) by (clear - H5; lia).
  refine (conj _ (conj G1 G2)). f_equal. f_equal; [|lia].
  (* the attribute is written right after what is already there, then the header length is rewritten *)
  set (tl := be16 (fst a) ++ be16 (len v) ++ v ++ zeros p).
  assert (Htl : len tl = 4 + len v + p) by (unfold tl; rewrite !len_app, !len_be16, len_zeros; lia).
  assert (Hw1 : write_at (D + 20) tl cur = header typ D txid ++ enc_tlvs done ++ tl ++ drop (20 + (D + (4 + len v + p))) buf0).
  { unfold cur. rewrite app_assoc.
    replace (D + 20) with (len (header typ D txid ++ enc_tlvs done)) by (rewrite len_app, len_header by exact Htx; fold D; lia).
    rewrite write_at_app by (rewrite len_drop', Htl; lia).
    rewrite <- app_assoc. f_equal. f_equal. f_equal. rewrite drop_drop', Htl. f_equal. lia. }
  rewrite Hw1, write_len. replace (D + 4 + len v + p) with (D + (4 + len v + p)) by lia.
  f_equal. rewrite <- app_assoc. reflexivity.
Qed.

Lemma fold_err l : fold_left enc_step l Err = Err.
Proof. induction l; cbn; auto. Qed.

Lemma fold_good : forall rest buf0 typ txid done st, length txid = 12%nat -> good buf0 typ txid done st ->
  (exists out, fold_left enc_step rest st = Ok out /\ good buf0 typ txid (done ++ rest) (Ok out)
               /\ forallb (fun a => len (snd a) <=? 65535) rest = true)
  \/ (fold_left enc_step rest st = Err /\
      ~ (20 + attr_bytes (done ++ rest) <= len buf0 /\ attr_bytes (done ++ rest) <= 65535 /\ forallb (fun a => len (snd a) <=? 65535) rest = true)).
Proof.
  induction rest as [|a rest IH]; intros buf0 typ txid done st Htx Hg; cbn [fold_left].
  - left. destruct Hg as (-> & A & B). eexists. split; [reflexivity|]. rewrite app_nil_r. unfold good. auto.
  - pose proof (enc_step_good buf0 typ txid done a st Htx Hg) as Hs. cbn zeta in Hs.
    destruct ((20 + attr_bytes (done ++ [a]) <=? len buf0) && (attr_bytes (done ++ [a]) <=? 65535) && (len (snd a) <=? 65535)) eqn:Hfits.
    + apply andb_prop in Hfits as [_ Hva].
      destruct (IH buf0 typ txid (done ++ [a]) (enc_step st a) Htx Hs) as [(out & Ho & Hgo & Hall)|(He & Hn)].
      * left. exists out. rewrite <- app_assoc in Hgo. cbn [forallb]. rewrite Hva, Hall. auto.
      * right. split; [exact He|]. rewrite <- app_assoc in Hn. cbn [forallb]. intros (A & B & C). apply Hn.
        apply andb_prop in C as [_ C]. auto.
    + right. rewrite Hs, fold_err. split; [reflexivity|]. intros (A & B & C). cbn [forallb] in C. apply andb_prop in C as [C1 C2].
      assert (Hmono : attr_bytes (done ++ [a]) <= attr_bytes (done ++ a :: rest)).
      { unfold attr_bytes. replace (done ++ a :: rest) with ((done ++ [a]) ++ rest) by (rewrite <- app_assoc; reflexivity).
        unfold enc_tlvs. rewrite (flat_map_app _ (done ++ [a]) rest), len_app. lia. }
      rewrite !andb_false_iff in Hfits. destruct Hfits as [[H|H]|H].
      * apply N.leb_gt in H. clear - H A Hmono. lia. * apply N.leb_gt in H. clear - H B Hmono. lia. * congruence.
Qed.

(* C14: success exactly when the message fits the buffer and the 16-bit length; written bytes independent of the
   buffer's extra room and previous contents; the rest of the buffer untouched *)
Theorem C14_encode_into buf typ txid l : length txid = 12%nat ->
  let fits := 20 + attr_bytes l <= len buf /\ attr_bytes l <= 65535 /\ forallb (fun a => len (snd a) <=? 65535) l = true in
  (fits -> encode_into buf typ txid l = Ok (header typ (attr_bytes l) txid ++ enc_tlvs l ++ drop (20 + attr_bytes l) buf, 20 + attr_bytes l))
  /\ (~ fits -> encode_into buf typ txid l = Err).
Proof.
  intros Htx fits. unfold encode_into.
  destruct (N.ltb_spec (len buf) 20) as [Hs|Hs].
  { split; [intros (A & _); lia|reflexivity]. }
  assert (Hg0 : good buf typ txid [] (Ok (write_at 0 (header typ 0 txid) buf, 0))).
  { unfold good, attr_bytes. cbn [enc_tlvs flat_map app]. change (len (@nil N)) with 0. assert (G1 : 20 + 0 <= len buf) by (clear - Hs; lia). assert (G2 : 0 <= 65535) by lia. refine (conj _ (conj G1 G2)).
    f_equal. f_equal. unfold write_at. change (take 0 buf) with (@nil N). cbn [app]. rewrite len_header by exact Htx. reflexivity. }
  destruct (fold_good l buf typ txid [] _ Htx Hg0) as [(out & Ho & (Hout & A & B) & Hall)|(He & Hn)]; cbn [app] in *.
  - rewrite Ho. inversion Hout; subst out. split; [intros _; f_equal; f_equal; clear; lia|].
    intros Hnf. exfalso. apply Hnf. exact (conj A (conj B Hall)).
  - rewrite He. split; [intros Hf; contradiction|reflexivity].
Qed.
Print Assumptions C14_encode_into.
