(* MessageEncoder::encode with the integrity / fingerprint tails: the value encoder writes zeros of the right size and
   post_encode patches HMAC-SHA1 / HMAC-SHA256 / CRC-32 xor 0x5354554e computed over buffer[..coded_index] whose header
   length already counts the attribute (context.rs:427-523, integrity_attr.rs, fingerprint.rs), on top of EncodeInto. *)
From Coq Require Import List NArith Lia Bool.
Import ListNotations.
From Rustun Require Import Base.Tlv Crypto.Crc Crypto.Sha256 Crypto.Sha1Md5 Codec.EncodeInto Codec.InputText.
Open Scope N_scope.

Inductive eattr := EPlain (ty:N) (v:bytes) | EMi (key:bytes) | ESha (key:bytes) | EFp.
Definition e_type (a:eattr) : N := match a with EPlain ty _ => ty | EMi _ => 8 | ESha _ => 28 | EFp => 32808 end.
Definition e_placeholder (a:eattr) : bytes :=
  match a with EPlain _ v => v | EMi _ => zeros 20 | ESha _ => zeros 32 | EFp => zeros 4 end.
Definition e_tlv (a:eattr) : tlv := (e_type a, e_placeholder a).

Definition post_value (a:eattr) (text:bytes) : option bytes :=
  match a with
  | EPlain _ _ => None
  | EMi k => Some (hmac_sha1 k text)
  | ESha k => Some (hmac_sha256 k text)
  | EFp => Some (be32 (fp_value text))
  end.

Definition enc_step2 (st:res (bytes * N)) (a:eattr) : res (bytes * N) :=
  match st with
  | Ok (_, L) =>
      match enc_step st (e_tlv a) with
      | Ok (buf', L') =>
          match post_value a (take (L + 20) buf') with
          | Some v => Ok (write_at (L + 24) v buf', L')
          | None => Ok (buf', L')
          end
      | e => e
      end
  | e => e
  end.
Definition encode_msg (buf:bytes) (typ:N) (txid:bytes) (l:list eattr) : res (bytes * N) :=
  if len buf <? 20 then Err
  else match fold_left enc_step2 l (Ok (write_at 0 (EncodeInto.header typ 0 txid) buf, 0)) with
       | Ok (out, L) => Ok (out, L + 20)
       | Err => Err | Panic => Panic
       end.

(* "bytes beyond the returned size are left untouched": the harness compares buffer[n..] after a successful encode with
   the same range of the pre-filled buffer (tail_same); nothing is required when encoding failed *)
Definition monitor_C14_tail (observed:option (option N)) (tail_same:bool) : bool :=
  match observed with Some (Some _) => tail_same | _ => true end.

(* "the bytes written and the size returned do not depend on the buffer's ... previous contents": the harness encodes the
   same message into a buffer with every byte inverted and says whether outcome, size and written bytes were the same *)
Definition monitor_C14_indep (same:bool) : bool := same.

(* MessageType::as_u16 (message.rs:58-64): M11..M7 C1 M6..M4 C0 M3..M0 *)
Definition msg_type_of (method class:N) : N :=
  N.lor (N.lor (N.lor (N.shiftl (N.land method 0xF80) 2) (N.shiftl (N.land method 0x70) 1)) (N.land method 0xF))
        (N.lor (N.shiftl (N.land class 2) 7) (N.shiftl (N.land class 1) 4)).

(* the property text of C14 as a monitor over the observed result: success exactly when the buffer is at least as long
   as the encoded message and the attributes fit the 16-bit length field (each value too), with that size; an error
   otherwise; never a panic. observed: Some (Some size) = Ok, Some None = error, None = panic *)
Definition needed (l:list eattr) : N := 20 + attr_bytes (map e_tlv l).
Definition monitor_C14 (buflen:N) (l:list eattr) (observed:option (option N)) : bool :=
  let fits := (needed l <=? buflen) && (attr_bytes (map e_tlv l) <=? 65535)
              && forallb (fun a => len (e_placeholder a) <=? 65535) l in
  match observed with
  | None => false
  | Some (Some n) => fits && (n =? needed l)
  | Some None => negb fits
  end.
