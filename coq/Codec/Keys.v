(* HMACKey::new_short_term / new_long_term (types.rs:214-285): the keys of RFC 8489 9.1.1 / 9.2.2.
   short-term key = OpaqueString(password); long-term key = MD5 or SHA-256 of  user ":" OpaqueString(realm) ":" OpaqueString(password).
   The OpaqueString profile is modelled on ASCII (AttrValue.av_precis): non-ASCII input is VUnmodelled. *)
From Coq Require Import List NArith Bool.
Import ListNotations.
From Rustun Require Import Base.Tlv Crypto.Sha256 Crypto.Sha1Md5 Codec.AttrValue.
Open Scope N_scope.

Definition st_key (password:bytes) : vres bytes := av_precis password.

(* alg: 1 = MD5, 2 = SHA-256, anything else: "Invalid algorithm" *)
Definition lt_key (user realm password:bytes) (alg:N) : vres bytes :=
  match av_precis realm with
  | VOk r =>
      match av_precis password with
      | VOk p =>
          let s := user ++ [58] ++ r ++ [58] ++ p in
          if alg =? 1 then VOk (md5 s) else if alg =? 2 then VOk (sha256 s) else VErr
      | VErr => VErr | VPanic => VPanic | VUnmodelled => VUnmodelled
      end
  | VErr => VErr | VPanic => VPanic | VUnmodelled => VUnmodelled
  end.

(* the stun-rs documentation example and RFC 5769 2.4 (user / realm / pass over ASCII) *)
Example lt_key_doc : lt_key [117;115;101;114] [114;101;97;108;109] [112;97;115;115] 1
  = VOk [0x84;0x93;0xFB;0xC5;0x3B;0xA5;0x82;0xFB;0x4C;0x04;0x4C;0x45;0x6B;0xDC;0x40;0xEB].
Proof. vm_compute. reflexivity. Qed.
