(* HMACKey::new_short_term / new_long_term (types.rs:214-285): the keys of RFC 8489 9.1.1 / 9.2.2.
   short-term key = OpaqueString(password); long-term key = MD5 or SHA-256 of  user ":" OpaqueString(realm) ":" OpaqueString(password).
   The OpaqueString profile is modelled on ASCII (AttrValue.av_precis): non-ASCII input is VUnmodelled. *)
From Coq Require Import List NArith Bool.
Import ListNotations.
From Rustun Require Import Base.Tlv Crypto.Sha256 Crypto.Sha1Md5 Codec.AttrValue.
Open Scope N_scope.

(* the OpaqueString profile (RFC 8265 4.2) on ASCII plus the non-ASCII space characters: the Additional Mapping Rule maps
   every non-ASCII space (Unicode category Zs: U+00A0, U+1680, U+2000..U+200A, U+202F, U+205F, U+3000) to U+0020; NFC
   leaves the result (ASCII) alone; then the ASCII rules of av_precis (non-empty, no control characters). Any other
   non-ASCII code point needs the Unicode tables: VUnmodelled. *)
Definition is_zs (cp:N) : bool :=
  (cp =? 0xA0) || (cp =? 0x1680) || ((0x2000 <=? cp) && (cp <=? 0x200A)) || (cp =? 0x202F) || (cp =? 0x205F) || (cp =? 0x3000).
Definition precis_sp (s:bytes) : vres bytes :=
  match av_utf8 s with
  | None => VErr                                            (* not reachable from Rust: a &str is valid UTF-8 *)
  | Some cps =>
      if forallb (fun c => (c <? 0x80) || is_zs c) cps
      then av_precis (map (fun c => if is_zs c then 0x20 else c) cps)
      else VUnmodelled
  end.

Definition st_key (password:bytes) : vres bytes := precis_sp password.

(* alg: 1 = MD5, 2 = SHA-256, anything else: "Invalid algorithm" *)
Definition lt_key (user realm password:bytes) (alg:N) : vres bytes :=
  match precis_sp realm with
  | VOk r =>
      match precis_sp password with
      | VOk p =>
          let s := user ++ [58] ++ r ++ [58] ++ p in
          if alg =? 1 then VOk (md5 s) else if alg =? 2 then VOk (sha256 s) else VErr
      | VErr => VErr | VPanic => VPanic | VUnmodelled => VUnmodelled
      end
  | VErr => VErr | VPanic => VPanic | VUnmodelled => VUnmodelled
  end.

(* the stun-rs documentation example and RFC 5769 2.4 (user / realm / pass over ASCII) *)
Example lt_key_doc : lt_key [117;115;101;114] [114;101;97;108;109] [112;97;115;115] 1
  = VOk [0x84;0x93;0xFB;0xC5;0x3B;0xA5;0x82;0xFB;0x4C;0x04;0x4C;0x45;0x6B;0xDC;0x40;0xEB].
Proof. vm_compute. reflexivity. Qed.

(* a password typed with a no-break space and an ideographic space is the same key as with plain spaces *)
Example st_key_spaces : st_key [112; 194; 160; 119; 227; 128; 128; 120] = VOk [112; 32; 119; 32; 120].
Proof. vm_compute. reflexivity. Qed.
