(* The byte-level decoder model instantiated with the typed attribute decoders of Codec/AttrValue.v *)
From Coq Require Import List NArith Bool.
Import ListNotations.
From Rustun Require Import Base.Tlv Codec.Filter Codec.DecodeLoop Codec.InputText Codec.Wire Codec.AttrValue.
Open Scope N_scope.

(* does the registered typed decoder (or Unknown) accept the value? VUnmodelled (non-ASCII USERNAME: PRECIS tables) is
   outside the model; VPanic never occurs for a TLV value (AttrValueProofs.dec_attr_no_panic, len v < 65536) *)
Definition dec_ok_full (ud:bool) (hdr:bytes) (ty:N) (v:bytes) : option bool :=
  match av_dec_attr ud hdr ty v with
  | VOk _ => Some true
  | VErr => Some false
  | VPanic => Some false
  | VUnmodelled => None
  end.

Definition decode_full := decode dec_ok_full.

(* the typed result: the decoded values of the returned positions *)
Definition typed_attrs (ud:bool) (b:bytes) (positions:list N) : list (N * vres aval) :=
  match dec_tlvs (length b) (take (msg_length b) (drop 20 b)) with
  | Ok tlvs => map (fun p => match nth_error tlvs (N.to_nat p) with
                             | Some (ty, v) => (ty, av_dec_attr ud (take 20 b) ty v)
                             | None => (0, VErr) end) positions
  | _ => []
  end.
