(* Typed messages: MessageEncoder::encode / MessageDecoder::decode at the level of attribute VALUES, composed from the
   typed attribute codecs (AttrValue), the buffer-level encoder with integrity / fingerprint tails (EncodeMsg) and the
   byte-level decoder (Wire). *)
From Coq Require Import List NArith Lia Bool.
Import ListNotations.
From Rustun Require Import Base.Tlv Codec.Filter Codec.DecodeLoop Codec.InputText Codec.EncodeInto Codec.EncodeMsg
                           Codec.Wire Codec.AttrValue Codec.WireFull.
Open Scope N_scope.

(* an attribute of a message to be encoded: a typed value, or one of the three "Encodable" tail attributes with its key *)
Inductive tattr := TVal (ty:N) (a:aval) | TMi (key:bytes) | TSha (key:bytes) | TFp.
Record tmsg := { t_method : N; t_class : N; t_txid : bytes; t_attrs : list tattr }.

Definition t_typ (m:tmsg) : N := msg_type_of (t_method m) (t_class m).
(* the header the value encoders see (only cookie and transaction id matter to them) *)
Definition t_hdr (m:tmsg) : bytes := EncodeInto.header (t_typ m) 0 (t_txid m).

(* value bytes of every attribute, encoded with ample room (65,535 bytes) *)
Fixpoint enc_values (hdr:bytes) (l:list tattr) : vres (list eattr) :=
  match l with
  | [] => VOk []
  | TVal ty a :: r =>
      match av_enc_attr hdr ty a 65535 with
      | VOk v => match enc_values hdr r with VOk t => VOk (EPlain ty v :: t) | e => e end
      | VErr => VErr | VPanic => VPanic | VUnmodelled => VUnmodelled
      end
  | TMi k :: r => match enc_values hdr r with VOk t => VOk (EMi k :: t) | e => e end
  | TSha k :: r => match enc_values hdr r with VOk t => VOk (ESha k :: t) | e => e end
  | TFp :: r => match enc_values hdr r with VOk t => VOk (EFp :: t) | e => e end
  end.

Inductive tres := TOk (out:bytes) (size:N) | TErr | TPanic | TUnmodelled.
Definition encode_typed (buf:bytes) (m:tmsg) : tres :=
  match enc_values (t_hdr m) (t_attrs m) with
  | VOk l => match encode_msg buf (t_typ m) (t_txid m) l with
             | Ok (out, n) => TOk out n
             | Err => TErr
             | Panic => TPanic
             end
  | VErr => TErr | VPanic => TPanic | VUnmodelled => TUnmodelled
  end.

(* decoding with the default context: size and the typed values of the returned attributes *)
Inductive dres := DOk (size:N) (attrs:list (N * vres aval)) | DErr | DPanic | DUnmodelled.
Definition decode_typed (b:bytes) : dres :=
  match decode dec_ok_full None b with
  | WOk s ps => DOk s (typed_attrs false b ps)
  | WErr => DErr | WPanic => DPanic | WUnmodelled => DUnmodelled
  end.

(* C01 as a monitor over what the implementation did with a message built from documented-limit values: encoding
   succeeded, decoding the produced bytes gave the same method, class, transaction id and attribute values in the same
   order (rt, established by the harness through the public accessors), and the encoder's returned size, the decoder's
   consumed size and 20 + the header length field are all equal and a multiple of four *)
Definition monitor_C01 (encoded rt:bool) (enc_size dec_size hdr_len:N) : bool :=
  encoded && rt && (enc_size =? dec_size) && (enc_size =? 20 + hdr_len) && (enc_size mod 4 =? 0).

(* ---- the quoted-string constructors (Realm::new, Nonce::new: strings.rs QuotedString::new + the 509-byte limit) *)
Definition ctor_quoted (s:bytes) : vres bytes :=
  match av_utf8 s with
  | None => VErr                          (* not reachable from Rust: a &str is valid UTF-8 *)
  | Some cps =>
      match av_formatted s cps with
      | VOk q => if 509 <? len q then VErr else VOk q
      | VErr => VErr | VPanic => VPanic | VUnmodelled => VUnmodelled
      end
  end.
(* the same constructor over the trimming as it was before the repair of D8 (witness C01_quoted_ctor_pinned_refuted only) *)
Definition ctor_quoted_pinned (s:bytes) : vres bytes :=
  match av_utf8 s with
  | None => VErr
  | Some cps =>
      match av_formatted_pinned s cps with
      | VOk q => if 509 <? len q then VErr else VOk q
      | VErr => VErr | VPanic => VPanic | VUnmodelled => VUnmodelled
      end
  end.
(* Realm::new first runs the OpaqueString profile (prepare) on its input (modelled on ASCII: VUnmodelled otherwise) *)
Definition ctor_realm (s:bytes) : vres bytes :=
  match av_precis s with
  | VOk s' => ctor_quoted s'
  | VErr => VErr | VPanic => VPanic | VUnmodelled => VUnmodelled
  end.
Definition ctor_of (ty:N) (s:bytes) : vres bytes := if ty =? 20 then ctor_realm s else ctor_quoted s.
(* does the stored value survive encode + decode? (the encoder writes the bytes as they are) *)
Definition quoted_roundtrips (q:bytes) : bool :=
  match av_dec_quoted_string q with VOk q' => av_bytes_eqb q' q | _ => false end.
(* class of a constructor output: 0 = fine, 1 = accepted but does not survive the round trip (defect D8; with the repaired
   trimming the class is empty: Proofs/QuotedCtorProofs.v ctor_class_zero — kept as a monitor class of the driver) *)
Definition ctor_class (ty:N) (s:bytes) : N :=
  match ctor_of ty s with VOk q => if quoted_roundtrips q then 0 else 1 | _ => 0 end.

(* the shape of a D8 output, recognisable on the stored value alone (used when the constructor is outside the model: a
   non-ASCII realm, whose PRECIS step is not modelled): the text ends with a backslash that is not the second half of a
   quoted-pair, i.e. with an odd number of backslashes — the grammar accepts no such text, only the trimming of the second
   character of a final quoted-pair produces it *)
Fixpoint trailing_backslashes (r:bytes) : N := match r with 92 :: t => 1 + trailing_backslashes t | _ => 0 end.
Definition dangling_backslash (q:bytes) : bool := N.odd (trailing_backslashes (rev q)).
