From Coq Require Import List Bool.
Import ListNotations.

Inductive kind := Ord | MI | SHA | FP.
Record flt := { f_mi : bool; f_sha : bool; f_fp : bool }.
Definition is_mi k := match k with MI => true | _ => false end.
Definition is_sha k := match k with SHA => true | _ => false end.
Definition is_fp k := match k with FP => true | _ => false end.

(* context.rs:179-210 with D1 repaired; returns (ignore?, new flags) *)
Definition ignore_attribute (f:flt) (k:kind) : bool * flt :=
  if negb (f_mi f) && is_mi k then
    if f_sha f || f_fp f then (true, f) else (false, {| f_mi := true; f_sha := f_sha f; f_fp := f_fp f |})
  else if negb (f_sha f) && is_sha k then
    if f_fp f then (true, f) else (false, {| f_mi := f_mi f; f_sha := true; f_fp := f_fp f |})
  else if negb (f_fp f) && is_fp k then (false, {| f_mi := f_mi f; f_sha := f_sha f; f_fp := true |})
  else (f_mi f || f_sha f || f_fp f, f).

(* as found in the pinned commit (D1) *)
Definition ignore_attribute_unrepaired (f:flt) (k:kind) : bool * flt :=
  if negb (f_mi f) && is_mi k then
    if f_sha f || f_fp f then (true, f) else (false, {| f_mi := true; f_sha := f_sha f; f_fp := f_fp f |})
  else if negb (f_sha f) && is_sha k then
    if f_fp f then (true, f) else (false, {| f_mi := f_mi f; f_sha := true; f_fp := f_fp f |})
  else if negb (f_fp f) && is_fp k then (false, {| f_mi := f_mi f; f_sha := true; f_fp := f_fp f |})
  else (f_mi f || f_sha f || f_fp f, f).

Fixpoint run (ig : flt -> kind -> bool * flt) (f:flt) (ks:list kind) : list bool :=
  match ks with [] => [] | k :: r => let '(i, f') := ig f k in negb i :: run ig f' r end.

(* spec from the property text: which kinds have appeared on the wire so far *)
Record seen := { s_mi : bool; s_sha : bool; s_fp : bool }.
Definition allow1 (s:seen) (k:kind) : bool :=
  match k with
  | Ord => negb (s_mi s || s_sha s || s_fp s)
  | MI  => negb (s_mi s || s_sha s || s_fp s)
  | SHA => negb (s_sha s || s_fp s)
  | FP  => negb (s_fp s)
  end.
Definition see (s:seen) (k:kind) : seen :=
  match k with
  | Ord => s
  | MI => {| s_mi := true; s_sha := s_sha s; s_fp := s_fp s |}
  | SHA => {| s_mi := s_mi s; s_sha := true; s_fp := s_fp s |}
  | FP => {| s_mi := s_mi s; s_sha := s_sha s; s_fp := true |}
  end.
Fixpoint allow (s:seen) (ks:list kind) : list bool :=
  match ks with [] => [] | k :: r => allow1 s k :: allow (see s k) r end.

(* simulation: flags = allowed kinds, seen = wire kinds *)
Definition R (f:flt) (s:seen) : Prop :=
  f_fp f = s_fp s
  /\ (f_mi f = true -> s_mi s = true) /\ (f_sha f = true -> s_sha s = true)
  /\ (s_sha s = true -> f_sha f = true \/ f_fp f = true)
  /\ (s_mi s = true -> f_mi f = true \/ f_sha f = true \/ f_fp f = true).

Lemma step_sim f s k : R f s ->
  negb (fst (ignore_attribute f k)) = allow1 s k /\ R (snd (ignore_attribute f k)) (see s k).
Proof.
  destruct f as [a b c], s as [x y z], k; unfold R; cbn; intros (H1 & H2 & H3 & H4 & H5); subst;
  destruct a, b, z, x, y; cbn in *; intuition (try discriminate; auto).
Qed.

Theorem C09_filter_eq_spec : forall ks f s, R f s -> run ignore_attribute f ks = allow s ks.
Proof.
  induction ks as [|k r IH]; intros f s HR; cbn [run allow]; [reflexivity|].
  destruct (step_sim f s k HR) as [Ha HR']. destruct (ignore_attribute f k) as [i f']. cbn [fst snd] in *.
  rewrite Ha. f_equal. apply IH. exact HR'.
Qed.
Corollary C09_from_start ks :
  run ignore_attribute {| f_mi := false; f_sha := false; f_fp := false |} ks = allow {| s_mi := false; s_sha := false; s_fp := false |} ks.
Proof. apply C09_filter_eq_spec. unfold R; cbn. intuition discriminate. Qed.

Example C09_fpfp_refuted :
  run ignore_attribute_unrepaired {| f_mi := false; f_sha := false; f_fp := false |} [FP; FP]
  <> allow {| s_mi := false; s_sha := false; s_fp := false |} [FP; FP].
Proof. vm_compute. discriminate. Qed.
Print Assumptions C09_filter_eq_spec.
