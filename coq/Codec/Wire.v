(* Message-level byte model of MessageDecoder::decode (context.rs:219-286) over raw TLVs: header checks (raw.rs),
   the RawAttributesIter walk, the typed decoders as a parameter `dec_ok` (whether the decoder of a registered type
   accepts a value; instantiated by the per-kind model), the RFC 8489 ordering filter, and REAL validation:
   get_input_text + HMAC-SHA1 / HMAC-SHA256 / CRC-32 computed in Gallina. The loop itself is Codec.DecodeLoop.loop,
   so the option theorems (C18) and the admission theorems (C09) apply to this model as they stand. *)
From Coq Require Import List NArith Lia Bool.
Import ListNotations.
From Rustun Require Import Base.Tlv Crypto.Crc Crypto.Sha256 Crypto.Sha1Md5 Codec.Filter Codec.DecodeLoop Codec.InputText.
Open Scope N_scope.

Definition T_MI : N := 8.
Definition T_SHA : N := 28.

(* MessageHeader::decode: at least 20 bytes, the two top bits zero, the magic cookie *)
Definition hdr_valid (b:bytes) : bool :=
  match b with
  | b0 :: _ :: _ :: _ :: c0 :: c1 :: c2 :: c3 :: r =>
      (b0 <? 64) && (c0 =? 33) && (c1 =? 18) && (c2 =? 164) && (c3 =? 66) && (12 <=? len r)
  | _ => false
  end.
Definition msg_length (b:bytes) : N := match b with _ :: _ :: l1 :: l2 :: _ => rd16 l1 l2 | _ => 0 end.

Fixpoint bytes_eqb (a b:bytes) : bool :=
  match a, b with [], [] => true | x :: a', y :: b' => (x =? y) && bytes_eqb a' b' | _, _ => false end.
Definition rd32 (v:bytes) : option N :=
  match v with a :: b :: c :: d :: _ => Some (((a * 256 + b) * 256 + c) * 256 + d) | _ => None end.

Definition kind_of_type (ty:N) : kind :=
  if ty =? T_MI then MI else if ty =? T_SHA then SHA else if ty =? T_FP then FP else Ord.

(* one wire attribute: position, type, value *)
Notation wtlv := (N * (N * bytes))%type (only parsing).
Definition w_pos (x:wtlv) : N := fst x.
Definition w_ty (x:wtlv) : N := fst (snd x).
Definition w_val (x:wtlv) : bytes := snd (snd x).
Fixpoint number (pos:N) (l:list tlv) : list wtlv :=
  match l with [] => [] | a :: r => (pos, a) :: number (pos + 1) r end.

(* validate_attribute for the three verifiable kinds (integrity_attr.rs, fingerprint.rs): the input text is the one of
   the FIRST attribute of the type in the buffer; no key -> not valid *)
Definition verify_attr (key:option bytes) (b:bytes) (x:wtlv) : bool :=
  if w_ty x =? T_MI then
    match key, input_text b T_MI with Some k, Ok t => bytes_eqb (hmac_sha1 k t) (w_val x) | _, _ => false end
  else if w_ty x =? T_SHA then
    match key, input_text b T_SHA with Some k, Ok t => bytes_eqb (hmac_sha256 k t) (w_val x) | _, _ => false end
  else if w_ty x =? T_FP then
    match rd32 (w_val x) with Some s => fp_validate b s | None => false end
  else true.

Inductive wres := WOk (size:N) (positions:list N) | WErr | WPanic | WUnmodelled.

Section Wire.
(* does the typed decoder registered for `ty` accept value `v` (Some true / Some false), is it outside the model
   (None)? Arguments: with_unknown_data, the 20 header bytes, type, value *)
Variable dec_ok : bool -> bytes -> N -> bytes -> option bool.

Record wctx := { w_key : option bytes; w_opts : opts }.
Definition default_wctx := {| w_key := None; w_opts := {| o_validate := false; o_unknown := false; o_not_ignore := false |} |}.

Definition decode (ctx:option wctx) (b:bytes) : wres :=
  let c := match ctx with Some c => c | None => default_wctx end in
  if negb (hdr_valid b) then WErr
  else let L := msg_length b in
       if len b <? 20 + L then WErr
       else match dec_tlvs (length b) (take L (drop 20 b)) with
            | Panic => WPanic
            | Err => WErr
            | Ok tlvs =>
                let hdr := take 20 b in
                if existsb (fun a => match dec_ok (o_unknown (w_opts c)) hdr (fst a) (snd a) with None => true | Some _ => false end) tlvs
                then WUnmodelled
                else
                  match loop wtlv wtlv (fun x => kind_of_type (w_ty x))
                             (fun ud x => match dec_ok ud hdr (w_ty x) (w_val x) with Some true => Some x | _ => None end)
                             (verify_attr (w_key c) (take (20 + L) b))
                             (w_opts c) {| f_mi := false; f_sha := false; f_fp := false |} (number 0 tlvs) with
                  | Some r => WOk (20 + L) (map w_pos r)
                  | None => WErr
                  end
            end.
End Wire.

(* the typed decoders of the three verifiable kinds (exact lengths 20 / 32, at least 4) and of unregistered types
   (always accepted: Unknown); every other registered type is outside this basic instance *)
Definition registered : list N :=
  [1; 3; 6; 8; 9; 10; 12; 13; 18; 19; 20; 21; 22; 23; 24; 25; 26; 28; 29; 30; 32; 34; 36; 37; 38; 39;
   32768; 32769; 32770; 32772; 32802; 32803; 32808; 32809; 32810; 32811; 32812; 32816].
Definition dec_ok_basic (ud:bool) (hdr:bytes) (ty:N) (v:bytes) : option bool :=
  if ty =? T_MI then Some (len v =? 20)
  else if ty =? T_SHA then Some (len v =? 32)
  else if ty =? T_FP then Some (4 <=? len v)
  else if existsb (N.eqb ty) registered then None
  else Some true.
