From Coq Require Import List NArith Lia Bool Arith.
Import ListNotations.
From Rustun Require Import Base.Tlv Crypto.Crc.
Open Scope N_scope.

(* get_input_text (raw.rs:237-268) and the FINGERPRINT post-encode / validate glue, over raw TLVs *)
Definition cookie_bytes : bytes := [33; 18; 164; 66].
Definition header (typ len_:N) (txid:bytes) : bytes := be16 typ ++ be16 len_ ++ cookie_bytes ++ txid.
Definition set_len (b:bytes) (l:N) : bytes := match b with t1 :: t2 :: _ :: _ :: r => t1 :: t2 :: be16 l ++ r | _ => b end.

(* walk the TLVs of `attrs` looking for type t; returns (offset of the attribute, offset just after it incl. padding) *)
Fixpoint find_attr (fuel:nat) (t:N) (pos:N) (attrs:bytes) : res (option (N * N)) :=
  match fuel with
  | O => match attrs with [] => Ok None | _ => Panic end
  | S f =>
    match attrs with
    | [] => Ok None
    | t1 :: t2 :: l1 :: l2 :: rest =>
        let n := rd16 l1 l2 in
        if len rest <? n then Err
        else let adv := n + pad n in
             if len rest <? adv then Err
             else if rd16 t1 t2 =? t then Ok (Some (pos, pos + 4 + adv))
                  else find_attr f t (pos + 4 + adv) (drop adv rest)
    | _ => Err
    end
  end.

Definition input_text (b:bytes) (t:N) : res bytes :=
  match b with
  | _ :: _ :: l1 :: l2 :: _ =>
      let mlen := rd16 l1 l2 in
      if len b <? 20 + mlen then Err
      else match find_attr (length b) t 0 (take mlen (drop 20 b)) with
           | Ok (Some (p, e)) => Ok (set_len (take (20 + p) b) e)
           | Ok None => Err
           | Err => Err
           | Panic => Panic
           end
  | _ => Err
  end.

Definition T_FP : N := 0x8028.
Definition fp_value (pre:bytes) : N := N.lxor (crc32 pre) 0x5354554e.
Definition be32 (n:N) : bytes := [n / 16777216; (n / 65536) mod 256; (n / 256) mod 256; n mod 256].

(* what MessageEncoder::encode produces for attributes `l` followed by FINGERPRINT:
   the header length already counts the FINGERPRINT attribute when the CRC is taken *)
Definition encode_with_fp (typ:N) (txid:bytes) (l:list tlv) : bytes :=
  let body := enc_tlvs l in
  let pre := header typ (len body + 8) txid ++ body in
  pre ++ be16 T_FP ++ be16 4 ++ be32 (fp_value pre).

Lemma take_all n l : len l <= n -> take n l = l.
Proof. unfold take, len. intros H. apply firstn_all2. lia. Qed.

Lemma len_enc_tlv a : len (enc_tlv a) = 4 + len (snd a) + pad (len (snd a)).
Proof. unfold enc_tlv, be16. rewrite !len_app, len_zeros. unfold len at 1 2. cbn [length]. lia. Qed.

Lemma find_attr_skip : forall l fuel t pos tail,
  forallb tlv_ok l = true -> (forall a, In a l -> fst a <> t) -> (length l <= fuel)%nat ->
  find_attr fuel t pos (enc_tlvs l ++ tail) = find_attr (fuel - length l) t (pos + len (enc_tlvs l)) tail.
Proof.
  induction l as [|[ty v] l IH]; intros fuel t pos tail Hok Hne Hf.
  - cbn [enc_tlvs flat_map app length]. rewrite Nat.sub_0_r. f_equal. unfold len; cbn; lia.
  - cbn [forallb] in Hok. apply andb_prop in Hok as [Ha Hl]. unfold tlv_ok in Ha; cbn [fst snd] in Ha.
    apply andb_prop in Ha as [Ht Hv]. apply N.ltb_lt in Ht, Hv.
    cbn [enc_tlvs flat_map]. unfold enc_tlv at 1. cbn [fst snd]. fold (enc_tlvs l).
    destruct fuel as [|f]; [cbn in Hf; lia|].
    unfold be16. cbn [app find_attr]. rewrite !rd16_be16 by assumption.
    set (rest := ((v ++ zeros (pad (len v))) ++ enc_tlvs l) ++ tail).
    assert (Hrest : len rest = len v + pad (len v) + len (enc_tlvs l) + len tail) by (unfold rest; rewrite !len_app, len_zeros; lia).
    assert ((len rest <? len v) = false) as -> by (apply N.ltb_ge; lia).
    assert ((len rest <? len v + pad (len v)) = false) as -> by (apply N.ltb_ge; lia).
    assert ((ty =? t) = false) as -> by (apply N.eqb_neq; apply (Hne (ty, v)); left; reflexivity).
    assert (Hd : drop (len v + pad (len v)) rest = enc_tlvs l ++ tail).
    { unfold rest. rewrite <- !app_assoc. rewrite app_assoc.
      replace (len v + pad (len v)) with (len (v ++ zeros (pad (len v)))) by (rewrite len_app, len_zeros; reflexivity).
      apply drop_app_exact. }
    rewrite Hd. rewrite IH; [| exact Hl | intros a Ha; apply Hne; right; exact Ha |].
    + f_equal. rewrite len_app, len_enc_tlv. cbn [snd]. lia.
    + cbn [length] in Hf. lia.
Qed.

Theorem input_text_of_encoded typ txid l :
  typ < 65536 -> length txid = 12%nat -> forallb tlv_ok l = true -> (forall a, In a l -> fst a <> T_FP) ->
  len (enc_tlvs l) + 8 < 65536 ->
  input_text (encode_with_fp typ txid l) T_FP = Ok (header typ (len (enc_tlvs l) + 8) txid ++ enc_tlvs l).
Proof.
  intros Htyp Htx Hok Hne Hlen. unfold encode_with_fp. set (body := enc_tlvs l). set (L := len body + 8).
  set (pre := header typ L txid ++ body). set (fpv := be32 (fp_value pre)).
  assert (Hh : len (header typ L txid) = 20).
  { unfold header, be16, cookie_bytes. rewrite !len_app. unfold len. cbn [length]. rewrite Htx. reflexivity. }
  unfold input_text. unfold pre at 1, header at 1, be16 at 1 2. cbn [app]. rewrite rd16_be16 by (unfold L, body; lia).
  set (whole := pre ++ be16 T_FP ++ be16 4 ++ fpv).
  assert (Hfl : len fpv = 4) by reflexivity.
  assert (Hpre : len pre = 20 + len body) by (unfold pre; rewrite len_app, Hh; reflexivity).
  assert (Hw : len whole = 20 + L).
  { unfold whole. rewrite !len_app, Hpre, Hfl. unfold be16, len. cbn [length]. unfold L, len. lia. }
  assert ((len whole <? 20 + L) = false) as -> by (apply N.ltb_ge; lia).
  assert (Hd : drop 20 whole = body ++ be16 T_FP ++ be16 4 ++ fpv).
  { unfold whole, pre. rewrite <- app_assoc. rewrite <- Hh. apply drop_app_exact. }
  rewrite Hd. rewrite take_all by (rewrite !len_app, Hfl; unfold be16, len; cbn [length]; unfold L, len; lia).
  assert (Hcount : (length l <= length body)%nat).
  { unfold body. clear. induction l as [|a l IH]; [cbn; lia|]. unfold enc_tlvs in *. cbn [flat_map]. rewrite app_length.
    assert (4 <= length (enc_tlv a))%nat by (unfold enc_tlv, be16; cbn [app length]; lia). cbn [length]. lia. }
  change (body ++ be16 T_FP ++ be16 4 ++ fpv) with (enc_tlvs l ++ be16 T_FP ++ be16 4 ++ fpv).
  rewrite find_attr_skip; [| exact Hok | exact Hne |].
  2:{ unfold whole, pre. rewrite !app_length. lia. }
  (* now at the FINGERPRINT TLV *)
  remember (length whole - length l)%nat as fuel eqn:Hfuel.
  destruct fuel as [|f].
  { exfalso. unfold whole, pre in Hfuel. rewrite !app_length in Hfuel. cbn [length be16] in Hfuel. lia. }
  unfold be16 at 1 2. cbn [app find_attr]. rewrite (rd16_be16 4) by lia. rewrite rd16_be16 by (vm_compute; reflexivity).
  change (len fpv <? 4) with false. change (pad 4) with 0. change (len fpv <? 4 + 0) with false.
  rewrite N.eqb_refl. cbn [fst snd]. fold body.
  f_equal.
  assert (Ht : take (20 + (0 + len body)) whole = pre).
  { unfold whole. replace (20 + (0 + len body)) with (len pre) by lia. apply take_app_exact. }
  rewrite Ht. unfold pre, header at 1, be16 at 1 2. cbn [app set_len].
  replace (0 + len body + 4 + (4 + 0)) with L by (unfold L; lia). reflexivity.
Qed.

(* the FINGERPRINT the encoder wrote validates: decode-side compare of the stored value with the CRC of the input text *)
Definition fp_validate (b:bytes) (stored:N) : bool :=
  match input_text b T_FP with Ok t => N.lxor stored 0x5354554e =? crc32 t | _ => false end.

Corollary C10_accepts_own typ txid l :
  typ < 65536 -> length txid = 12%nat -> forallb tlv_ok l = true -> (forall a, In a l -> fst a <> T_FP) -> len (enc_tlvs l) + 8 < 65536 ->
  fp_validate (encode_with_fp typ txid l) (fp_value (header typ (len (enc_tlvs l) + 8) txid ++ enc_tlvs l)) = true.
Proof.
  intros. unfold fp_validate. rewrite input_text_of_encoded by assumption. unfold fp_value.
  rewrite N.lxor_assoc, N.lxor_nilpotent, N.lxor_0_r. apply N.eqb_refl.
Qed.
Print Assumptions C10_accepts_own.
