(* C02, last sentence: "Padding bytes and reserved bits that the RFCs say a receiver must ignore do not change what is
   decoded."  This file says WHICH bits those are, from the RFC texts, as a mask over the bytes of an attribute value and of
   a whole message; `same_outside m v v'` = v and v' have the same length and differ at most in bits set in m.
   Proofs/IgnoredProofs.v proves that the decoder model does not depend on them; the `ignbits` records of the codecrt
   suite run the implementation on a message and on a perturbed copy and judge it with `monitor_C02ign`. *)
From Coq Require Import List NArith Bool.
Import ListNotations.
From Rustun Require Import Base.Tlv Codec.Filter Codec.DecodeLoop Codec.InputText Codec.Wire Codec.AttrValue Codec.WireFull
                           Codec.Message.
Open Scope N_scope.

(* a mask given by its first bytes, cut / zero-extended to the length of the value *)
Definition mask_prefix (p:bytes) (v:bytes) : bytes := firstn (length v) (p ++ repeat 0 (length v)).

(* PASSWORD-ALGORITHMS (RFC 8489 14.11): each entry is "padded out to a multiple of 4 bytes, with the same padding rules
   as for a normal attribute" (14: "padding bits MUST be set to zero on sending and MUST be ignored by the receiver").
   stun-rs skips the padding BEFORE every entry but the first (and none after the last); the mask marks exactly the bytes
   it skips; it follows the decoder's walk (`av_dec_algs`) and stops marking where the walk fails *)
Fixpoint algs_mask (fuel:nat) (rest:bytes) (size:N) : bytes :=
  match rest with
  | [] => []
  | _ =>
    match fuel with
    | O => zeros (len rest)
    | S f =>
      let p := pad size in
      if len rest <? p then zeros (len rest)
      else
        let sub := drop p rest in
        match av_dec_alg sub with
        | VOk (_, _, l) =>
            if len sub <? l then zeros (len rest)
            else repeat 255 (N.to_nat p) ++ zeros l ++ algs_mask f (drop l sub) l
        | _ => zeros (len rest)
        end
    end
  end.

Definition ign_mask (k:avk) (v:bytes) : bytes :=
  match k with
  (* RFC 8489 14.1 / 14.2 (and 8656 18.3, 18.5; 5780 7.3, 7.4; 8489 14.15): "The first 8 bits of the MAPPED-ADDRESS MUST be
     set to 0 and MUST be ignored by receivers." *)
  | AvkAddr | AvkXorAddr => mask_prefix [255] v
  (* RFC 8489 14.8: "The Reserved bits SHOULD be 0 and are for alignment on 32-bit boundaries. Receivers MUST ignore these
     bits."  21 bits: two bytes and the upper five bits of the third *)
  | AvkErr => mask_prefix [255; 255; 248] v
  (* RFC 8656 18.12 ADDRESS-ERROR-CODE: family (8), then "the 13 bits in the Reserved field MUST be set to 0 by the TURN
     server and MUST be ignored by the TURN client" *)
  | AvkAErr => mask_prefix [0; 255; 248] v
  (* RFC 8656 18.1 CHANNEL-NUMBER: RFFU 16 bits "MUST be set to 0 on transmission and MUST be ignored on reception" *)
  | AvkChan => mask_prefix [0; 0; 255; 255] v
  (* RFC 8656 18.6 EVEN-PORT: R bit, then RFFU 7 bits, same wording *)
  | AvkEven => mask_prefix [127] v
  (* RFC 8656 18.7 REQUESTED-TRANSPORT: protocol (8), RFFU 24 bits, same wording *)
  | AvkProto => mask_prefix [0; 255; 255; 255] v
  (* RFC 8656 18.8 / 18.11 REQUESTED- / ADDITIONAL-ADDRESS-FAMILY: family (8), Reserved 24 bits "MUST be set to 0 on
     transmission and MUST be ignored on reception" *)
  | AvkFam => mask_prefix [0; 255; 255; 255] v
  (* RFC 8656 18.13 ICMP: "Reserved: This field MUST be set to 0 when sent and MUST be ignored when received." 16 bits *)
  | AvkIcmp => mask_prefix [255; 255] v
  | AvkAlgs => algs_mask (length v) v 0
  | _ => zeros (len v)
  end.

Definition value_mask (ty:N) (v:bytes) : bytes :=
  match av_registry ty with Some k => ign_mask k v | None => zeros (len v) end.

(* two byte strings equal outside the mask: same length as the mask, and every pair of bytes agrees once the masked bits
   are forced to one *)
Fixpoint same_outside (m v v':bytes) : bool :=
  match m, v, v' with
  | [], [], [] => true
  | mi :: m', x :: r, y :: r' => (N.lor x mi =? N.lor y mi) && same_outside m' r r'
  | _, _, _ => false
  end.

(* the attribute area (RFC 8489 14: "padding bits ... MUST be ignored by the receiver"): type and length are never
   ignorable, the value by `value_mask`, the 0-3 padding bytes entirely; follows the walk of `dec_tlvs` *)
Fixpoint tlvs_mask (fuel:nat) (b:bytes) : bytes :=
  match fuel with
  | O => zeros (len b)
  | S f =>
    match b with
    | t1 :: t2 :: l1 :: l2 :: rest =>
        let n := rd16 l1 l2 in
        if len rest <? n + pad n then zeros (len b)
        else [0; 0; 0; 0] ++ value_mask (rd16 t1 t2) (take n rest) ++ repeat 255 (N.to_nat (pad n))
             ++ tlvs_mask f (drop (n + pad n) rest)
    | _ => zeros (len b)
    end
  end.

(* a whole message: nothing in the 20-byte header, the attribute area as above, nothing after it *)
Definition msg_mask (b:bytes) : bytes :=
  let L := msg_length b in
  zeros 20 ++ tlvs_mask (length b) (take L (drop 20 b)) ++ zeros (len b - 20 - L).

(* how many bits of b' differ from b (what the perturbation actually exercised; reported in the evidence) *)
Fixpoint popcount8 (fuel:nat) (x:N) : N :=
  match fuel with O => 0 | S f => (x mod 2) + popcount8 f (x / 2) end.
Fixpoint diff_bits (v v':bytes) : N :=
  match v, v' with x :: r, y :: r' => popcount8 8 (N.lxor x y) + diff_bits r r' | _, _ => 0 end.

(* the monitor: the harness decoded b and a perturbed b' with the implementation (default context) and says whether the
   two results were the same (same success, size, attribute types and rendered values).
   verdict 0 = not judged (b' is not a legal perturbation of b: the record exercises nothing), 1 = ok, 2 = violation *)
Definition monitor_C02ign (b b':bytes) (impl_same:bool) : N :=
  if same_outside (msg_mask b) b b' then (if impl_same then 1 else 2) else 0.
