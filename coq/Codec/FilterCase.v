(* The `filter` correspondence suite (C09, C18) at the level of attribute kinds: the decode loop of
   MessageDecoder::decode instantiated with wire attributes that carry their kind, their wire position and
   whether their MAC / CRC bytes are the ones the RFC prescribes for their own position. *)
From Coq Require Import List NArith Bool.
Import ListNotations.
From Rustun Require Import Codec.Filter Codec.DecodeLoop.
Open Scope N_scope.

Record fattr := { fa_kind : kind; fa_good : bool; fa_pos : N; fa_first : bool }.

Definition kind_eqb (a b : kind) : bool :=
  match a, b with Ord, Ord | MI, MI | SHA, SHA | FP, FP => true | _, _ => false end.

(* annotate kinds/good bits with positions and "first attribute of this type on the wire" (get_input_text hashes
   the text in front of the FIRST attribute of the type, raw.rs:237-268, so a later duplicate never verifies) *)
Fixpoint annotate (pos : N) (seen : list kind) (l : list (kind * bool)) : list fattr :=
  match l with
  | [] => []
  | (k, g) :: r =>
      {| fa_kind := k; fa_good := g; fa_pos := pos; fa_first := negb (existsb (kind_eqb k) seen) |}
      :: annotate (pos + 1) (k :: seen) r
  end.

Definition fverify (a : fattr) : bool :=
  match fa_kind a with Ord => true | _ => fa_good a && fa_first a end.

Definition f0 : flt := {| f_mi := false; f_sha := false; f_fp := false |}.
Definition s0 : seen := {| s_mi := false; s_sha := false; s_fp := false |}.
Definition default_opts : opts := {| o_validate := false; o_unknown := false; o_not_ignore := false |}.

(* ctx = None is a decoder built without a context *)
Definition filter_case (ctx : option opts) (l : list (kind * bool)) : option (list N) :=
  let o := match ctx with Some o => o | None => default_opts end in
  match loop fattr fattr fa_kind (fun _ x => Some x) fverify o f0 (annotate 0 [] l) with
  | Some r => Some (map fa_pos r)
  | None => None
  end.

(* ---- the property text as a monitor over an observed result (what the implementation returned) ---- *)

Fixpoint positions (pos : N) (bs : list bool) : list N :=
  match bs with [] => [] | b :: r => if b then pos :: positions (pos + 1) r else positions (pos + 1) r end.

Fixpoint all_allowed_good (adm : list bool) (l : list (kind * bool)) : bool :=
  match adm, l with
  | a :: adm', (k, g) :: l' =>
      (if a then match k with Ord => true | _ => g end else true) && all_allowed_good adm' l'
  | _, _ => true
  end.

Fixpoint list_N_eqb (a b : list N) : bool :=
  match a, b with
  | [], [] => true
  | x :: a', y :: b' => (x =? y) && list_N_eqb a' b'
  | _, _ => false
  end.

(* C09: unless the caller opts out, the decoded message contains exactly the allowed wire attributes; attributes
   that are not allowed are not validated: with validation on, decoding succeeds iff every ALLOWED integrity /
   fingerprint attribute is correct *)
Definition monitor_C09 (ctx : option opts) (l : list (kind * bool)) (observed : option (list N)) : bool :=
  let o := match ctx with Some o => o | None => default_opts end in
  if o_not_ignore o then true
  else
    let adm := allow s0 (map fst l) in
    let expect := positions 0 adm in
    if o_validate o && negb (all_allowed_good adm l)
    then match observed with None => true | Some _ => false end
    else match observed with Some r => list_N_eqb r expect | None => false end.

(* C18 at this level: with the ordering rule disabled and validation off every wire attribute is returned in order *)
Definition monitor_C18_all (ctx : option opts) (l : list (kind * bool)) (observed : option (list N)) : bool :=
  let o := match ctx with Some o => o | None => default_opts end in
  if o_not_ignore o && negb (o_validate o)
  then match observed with Some r => list_N_eqb r (positions 0 (map (fun _ => true) l)) | None => false end
  else true.
