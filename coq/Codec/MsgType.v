From Coq Require Import List NArith ZArith Lia Bool ZifyBool ZifyN.
Ltac Zify.zify_post_hook ::= Z.div_mod_to_equations.
Import ListNotations.
Open Scope N_scope.

(* model of MessageType::as_u16 / From<u16> (message.rs:58-83) *)
Definition as_u16 (m c:N) : N :=
  N.lor (N.shiftl (N.land m 0x1F80) 2)
 (N.lor (N.shiftl (N.land m 0x0070) 1)
 (N.lor (N.land m 0x000F)
 (N.lor (N.shiftl (N.land c 2) 7) (N.shiftl (N.land c 1) 4)))).
Definition of_u16 (v:N) : N * N :=
  let val := N.land v 0x3FFF in
  (N.lor (N.shiftr (N.land val 0x3E00) 2) (N.lor (N.shiftr (N.land val 0x00E0) 1) (N.land val 0x000F)),
   N.lor (N.shiftr (N.land val 0x0100) 7) (N.shiftr (N.land val 0x0010) 4)).

(* spec written from RFC 8489 fig. 3: bits, MSB first: 0 0 M11 M10 M9 M8 M7 C1 M6 M5 M4 C0 M3 M2 M1 M0 *)
Definition bit (n i:N) : bool := N.testbit n i.
Definition rfc_bits (m c:N) : list bool :=
  [false; false; bit m 11; bit m 10; bit m 9; bit m 8; bit m 7; bit c 1; bit m 6; bit m 5; bit m 4; bit c 0; bit m 3; bit m 2; bit m 1; bit m 0].
Definition of_bits (l:list bool) : N := fold_left (fun (a:N) (b:bool) => 2 * a + (if b then 1 else 0)) l 0.

(* exhaustive check over all k-bit numbers without any large nat numeral *)
Fixpoint forall_bits (k:nat) (f:N -> bool) : bool :=
  match k with O => f 0 | S j => forall_bits j (fun m => f (2*m)) && forall_bits j (fun m => f (2*m+1)) end.
Lemma forall_bits_spec : forall k f, forall_bits k f = true -> forall m, m < 2^(N.of_nat k) -> f m = true.
Proof.
  induction k as [|k IH]; intros f H m Hm.
  - cbn [forall_bits] in H. change (2^N.of_nat 0) with 1 in Hm. assert (m = 0) by lia. subst. exact H.
  - cbn [forall_bits] in H. apply andb_prop in H as [H0 H1].
    replace (N.of_nat (S k)) with (N.of_nat k + 1) in Hm by lia. rewrite N.pow_add_r in Hm. change (2^1) with 2 in Hm.
    pose proof (N.div_mod m 2 ltac:(lia)) as E. assert (Hq : m / 2 < 2^(N.of_nat k)) by (apply N.div_lt_upper_bound; lia).
    assert (Hr : m mod 2 = 0 \/ m mod 2 = 1) by (pose proof (N.mod_lt m 2 ltac:(lia)); lia).
    destruct Hr as [Hr|Hr]; rewrite Hr in E.
    + specialize (IH _ H0 (m/2) Hq). cbn beta in IH. replace (2 * (m/2)) with m in IH by lia. exact IH.
    + specialize (IH _ H1 (m/2) Hq). cbn beta in IH. replace (2 * (m/2) + 1) with m in IH by lia. exact IH.
Qed.

Definition check (m c:N) : bool :=
  (as_u16 m c =? of_bits (rfc_bits m c)) && (let '(m', c') := of_u16 (as_u16 m c) in (m' =? m) && (c' =? c)).
Lemma all_ok_true : forall_bits 12 (fun m => forall_bits 2 (fun c => check m c)) = true. Proof. vm_compute. reflexivity. Qed.

Theorem C02_msg_type m c : m < 4096 -> c < 4 -> as_u16 m c = of_bits (rfc_bits m c) /\ of_u16 (as_u16 m c) = (m, c).
Proof.
  intros Hm Hc.
  pose proof (forall_bits_spec 12 (fun m => forall_bits 2 (fun c => check m c)) all_ok_true m Hm) as H1.
  pose proof (forall_bits_spec 2 (fun c => check m c) H1 c Hc) as H2. unfold check in H2.
  apply andb_prop in H2 as [A B]. apply N.eqb_eq in A.
  destruct (of_u16 (as_u16 m c)) as [m' c']. apply andb_prop in B as [B1 B2]. apply N.eqb_eq in B1, B2. subst. auto.
Qed.
Print Assumptions C02_msg_type.
