(* Monitors over the OBSERVED results of decoding one buffer under the 17 decoder configurations
   (no context; {no key, key} x validation x unknown_data x not_ignore), from the texts of C03 and C18. *)
From Coq Require Import List NArith Lia Bool.
Import ListNotations.
From Rustun Require Import Base.Tlv Codec.Filter Codec.DecodeLoop Codec.InputText Codec.Wire.
Open Scope N_scope.

Inductive ores := OOkR (size:N) (positions:list N) | OErrR | OBad.    (* OBad: panic or an unmappable result *)
Record obs17 := { o_none : ores; o_cfg : bool -> bool -> bool -> bool -> ores }.   (* key, validate, unknown, not_ignore *)

Fixpoint posl_eqb (a b:list N) : bool :=
  match a, b with [], [] => true | x :: a', y :: b' => (x =? y) && posl_eqb a' b' | _, _ => false end.
Definition ores_eqb (a b:ores) : bool :=
  match a, b with
  | OOkR s p, OOkR t q => (s =? t) && posl_eqb p q
  | OErrR, OErrR => true
  | _, _ => false
  end.
Fixpoint subseq (a b:list N) : bool :=      (* a is a subsequence of b *)
  match a, b with
  | [], _ => true
  | _ :: _, [] => false
  | x :: a', y :: b' => if x =? y then subseq a' b' else subseq a b'
  end.
Fixpoint iota (k:nat) (from:N) : list N := match k with O => [] | S k' => from :: iota k' (from + 1) end.
Definition bools := [false; true].
Definition all4 (f:bool -> bool -> bool -> bool -> bool) : bool :=
  forallb (fun k => forallb (fun v => forallb (fun u => forallb (fun n => f k v u n) bools) bools) bools) bools.

(* C18 *)
(* strict = the lists are wire positions: with the ordering rule disabled they must be 0, 1, 2, ... (every wire attribute
   returned). The same relations are required of the DECODED VALUES: monitor_C18val runs on observations in which every
   position is combined with a digest of the decoded attribute value (position * 2^32 + digest), so that "the same message"
   means the same attributes with the same values, not only the same positions. *)
Definition monitor_C18_gen (strict:bool) (o:obs17) : bool :=
  (* a decoder built without a context behaves like one built with the default context *)
  ores_eqb (o_none o) (o_cfg o false false false false) &&
  all4 (fun k v u n =>
    let r := o_cfg o k v u n in
    (* validation only filters: success with validation implies the same result without *)
    (if v then match r with OOkR _ _ => ores_eqb r (o_cfg o k false u n) | _ => true end else true) &&
    (* keeping unknown-attribute data changes nothing else *)
    ores_eqb r (o_cfg o k v (negb u) n) &&
    (* without validation a key is irrelevant *)
    (if v then true else ores_eqb r (o_cfg o (negb k) v u n)) &&
    (* the ordering rule only filters: with it disabled every wire attribute is returned, in order, and the default
       result is a subsequence; without validation both succeed together *)
    (if n then match r with
               | OOkR s all => (negb strict || posl_eqb all (iota (length all) 0)) &&
                               (if v then match o_cfg o k v u false with OOkR s' sub => (s =? s') && subseq sub all | _ => true end
                                else match o_cfg o k v u false with OOkR s' sub => (s =? s') && subseq sub all | _ => false end)
               | OErrR => if v then true else ores_eqb (o_cfg o k v u false) OErrR
               | OBad => false end
     else true)).
Definition monitor_C18 (o:obs17) : bool := monitor_C18_gen true o.
Definition monitor_C18val (o:obs17) : bool := monitor_C18_gen false o.

(* C03 (decoder part): a message or an error, never a panic; on success the size is 20 + the header length field and
   does not exceed the input *)
Definition monitor_C03dec (b:bytes) (o:obs17) : bool :=
  let ok r := match r with
              | OOkR s _ => (s =? 20 + msg_length b) && (s <=? len b)
              | OErrR => true
              | OBad => false end in
  ok (o_none o) && all4 (fun k v u n => ok (o_cfg o k v u n)).

(* C04 / C10 acceptance: the implementation's verdict on the FIRST integrity / fingerprint attribute of the buffer
   (MessageIntegrity::validate / Fingerprint::validate on get_input_text) equals the RFC computation in Gallina *)
Definition first_of (ty:N) (b:bytes) : option (N * (N * bytes)) :=
  match dec_tlvs (length b) (take (msg_length b) (drop 20 b)) with
  | Ok tlvs => find (fun x => fst (snd x) =? ty) (number 0 tlvs)
  | _ => None
  end.
(* None: the implementation could not be asked (no such attribute / not decodable) *)
Definition rfc_verdict (ty:N) (key:bytes) (b:bytes) : option bool :=
  if negb (hdr_valid b) || (len b <? 20 + msg_length b) then None
  else match first_of ty b with
       | Some x => Some (verify_attr (Some key) (take (20 + msg_length b) b) x)
       | None => None
       end.
