(* Executable model of the typed attribute value decoders and encoders of stun-rs
   (stun-rs/src/attributes/**, common.rs, strings.rs, types.rs, algorithm.rs, protocols.rs; all features on).

   One model function per Rust function, written branch for branch:
   - every `check_buffer_boundaries(..)?`, `from_utf8(..)?`, range test ... that makes the Rust return `Err` is a
     `VErr` branch here (error kinds and texts are not modelled: one `VErr`);
   - every slice / index / `BigEndian::read_*` / `unwrap` / checked-arithmetic site is a separate model step
     (`av_from`, `av_to`, `av_slice`, `av_at`, `av_rd16`, ...) that yields `VPanic` exactly when the Rust
     operation would panic (debug build: overflow checks on).  That the guards in front of them make `VPanic`
     unreachable is a theorem (Proofs/AttrValueProofs.v), not a convention;
   - `VUnmodelled`: the PRECIS OpaqueString profile outside ASCII (USERNAME decode).

   Values: `aval` has one constructor per value family.  `av_dec_attr ud hdr ty v` is what the registry handler
   (or the Unknown fallback of MessageDecoder::decode) returns for the raw value `v` of an attribute of type `ty`
   in a message whose first bytes are `hdr`; `av_enc_attr hdr ty a room` is the byte string the value encoder
   writes into a value buffer of `room` bytes. *)
From Coq Require Import List NArith Bool.
Import ListNotations.
From Rustun Require Import Base.Tlv.
Open Scope N_scope.
Arguments N.lxor : simpl never. Arguments N.land : simpl never. Arguments N.lor : simpl never.
Arguments N.shiftr : simpl never. Arguments N.shiftl : simpl never. Arguments N.pow : simpl never.
Arguments N.add : simpl never. Arguments N.sub : simpl never. Arguments N.mul : simpl never.
Arguments N.div : simpl never. Arguments N.modulo : simpl never.
Arguments N.eqb : simpl never. Arguments N.ltb : simpl never. Arguments N.leb : simpl never.

(* ------------------------------------------------------------------------------------------------ results *)
Inductive vres (A:Type) := VOk (a:A) | VErr | VPanic | VUnmodelled.
Arguments VOk {A}. Arguments VErr {A}. Arguments VPanic {A}. Arguments VUnmodelled {A}.

Definition av_bind {A B:Type} (r:vres A) (f:A -> vres B) : vres B :=
  match r with VOk a => f a | VErr => VErr | VPanic => VPanic | VUnmodelled => VUnmodelled end.
Notation "'vlet' x ':=' r 'in' k" := (av_bind r (fun x => k)) (at level 200, x name, r at level 100, k at level 200).

(* ---------------------------------------------------------------------------------- Rust slice primitives *)
(* &b[i..] *)
Definition av_from (b:bytes) (i:N) : vres bytes := if len b <? i then VPanic else VOk (drop i b).
(* &b[..j] *)
Definition av_to (b:bytes) (j:N) : vres bytes := if len b <? j then VPanic else VOk (take j b).
(* &b[i..j] *)
Definition av_slice (b:bytes) (i j:N) : vres bytes :=
  if j <? i then VPanic else if len b <? j then VPanic else VOk (take (j - i) (drop i b)).
(* b[i] *)
Definition av_at (b:bytes) (i:N) : vres N := match drop i b with x :: _ => VOk x | [] => VPanic end.
(* BigEndian::read_u16(buf) = u16::from_be_bytes(buf[..2]) *)
Definition av_rd16 (b:bytes) : vres N := match b with x :: y :: _ => VOk (rd16 x y) | _ => VPanic end.
(* big-endian number of a byte list *)
Fixpoint av_rd_n (acc:N) (l:bytes) : N := match l with [] => acc | b :: r => av_rd_n (acc * 256 + b) r end.
(* BigEndian::read_u32(buf) / read_u64(buf): buf[..4] / buf[..8] *)
Definition av_rd32 (b:bytes) : vres N := if len b <? 4 then VPanic else VOk (av_rd_n 0 (take 4 b)).
Definition av_rd64 (b:bytes) : vres N := if len b <? 8 then VPanic else VOk (av_rd_n 0 (take 8 b)).
(* k-byte big-endian encoding (least significant byte last) *)
Fixpoint av_be_n (k:nat) (n:N) : bytes := match k with O => [] | S j => av_be_n j (n / 256) ++ [n mod 256] end.
Definition av_be16 (n:N) : bytes := av_be_n 2 n.
Definition av_be32 (n:N) : bytes := av_be_n 4 n.
Definition av_be64 (n:N) : bytes := av_be_n 8 n.

Fixpoint av_bytes_eqb (a b:bytes) : bool :=
  match a, b with
  | [], [] => true
  | x :: a', y :: b' => (x =? y) && av_bytes_eqb a' b'
  | _, _ => false
  end.

(* ------------------------------------------------------------------------------------------------- values *)
Inductive aval :=
| AvAddr (v6:bool) (port:N) (ip:bytes)          (* SocketAddr: 4 or 16 address octets; plain and XOR kinds alike *)
| AvU16 (n:N) | AvU32 (n:N) | AvU64 (n:N)
| AvEmpty
| AvText (s:bytes)                               (* SOFTWARE, PADDING: the UTF-8 bytes of the String *)
| AvQuoted (s:bytes)                             (* REALM, NONCE: the UTF-8 bytes of the QuotedString *)
| AvUser (s:bytes)                               (* USERNAME *)
| AvErr (code:N) (reason:bytes)                  (* ERROR-CODE: numeric code 300..699, reason phrase *)
| AvAErr (fam:N) (code:N) (reason:bytes)         (* ADDRESS-ERROR-CODE: family 1|2 *)
| AvAlg (alg:N) (params:option bytes)            (* PASSWORD-ALGORITHM *)
| AvAlgs (l:list (N * option bytes))             (* PASSWORD-ALGORITHMS *)
| AvUAttrs (l:list N)                            (* UNKNOWN-ATTRIBUTES *)
| AvFixed (b:bytes)                              (* USERHASH [u8;32], RESERVATION-TOKEN [u8;8] *)
| AvOpaque (b:bytes)                             (* DATA, MOBILITY-TICKET *)
| AvChan (n:N)                                   (* CHANNEL-NUMBER (rffu is always 0 in a value) *)
| AvEven (r:bool)                                (* EVEN-PORT *)
| AvProto (p:N)                                  (* REQUESTED-TRANSPORT *)
| AvFam (f:N)                                    (* REQUESTED- / ADDITIONAL-ADDRESS-FAMILY: 1|2 *)
| AvIcmp (ty code:N) (data:bytes)                (* ICMP *)
| AvMI (raw:bytes) | AvMIEnc                     (* MESSAGE-INTEGRITY: Decodable(20 bytes) | Encodable(key) *)
| AvSha (raw:bytes) | AvShaEnc                   (* MESSAGE-INTEGRITY-SHA256: Decodable(32 bytes) | Encodable(key) *)
| AvFp (crc:N) | AvFpEnc                         (* FINGERPRINT: Decodable(value ^ 0x5354554e) | Encodable *)
| AvUnknown (ty:N) (data:option bytes).

(* the decoder / encoder families *)
Inductive avk :=
| AvkAddr | AvkXorAddr | AvkU16 | AvkU32 | AvkU64 | AvkEmpty
| AvkText (max_enc max_dec:N) | AvkQuoted | AvkUser | AvkErr | AvkAErr | AvkAlg | AvkAlgs | AvkUAttrs
| AvkHash | AvkToken | AvkOpaque | AvkChan | AvkEven | AvkProto | AvkFam | AvkIcmp | AvkMI | AvkSha | AvkFp.

(* registry.rs + the `const X: u16` of every attribute file: the 38 registered type codes *)
Definition av_registry (ty:N) : option avk :=
  if ty =? 0x0001 then Some AvkAddr            (* MAPPED-ADDRESS *)
  else if ty =? 0x0003 then Some AvkU32        (* CHANGE-REQUEST (raw u32) *)
  else if ty =? 0x0006 then Some AvkUser       (* USERNAME *)
  else if ty =? 0x0008 then Some AvkMI         (* MESSAGE-INTEGRITY *)
  else if ty =? 0x0009 then Some AvkErr        (* ERROR-CODE *)
  else if ty =? 0x000A then Some AvkUAttrs     (* UNKNOWN-ATTRIBUTES *)
  else if ty =? 0x000C then Some AvkChan       (* CHANNEL-NUMBER *)
  else if ty =? 0x000D then Some AvkU32        (* LIFETIME *)
  else if ty =? 0x0012 then Some AvkXorAddr    (* XOR-PEER-ADDRESS *)
  else if ty =? 0x0013 then Some AvkOpaque     (* DATA *)
  else if ty =? 0x0014 then Some AvkQuoted     (* REALM *)
  else if ty =? 0x0015 then Some AvkQuoted     (* NONCE *)
  else if ty =? 0x0016 then Some AvkXorAddr    (* XOR-RELAYED-ADDRESS *)
  else if ty =? 0x0017 then Some AvkFam        (* REQUESTED-ADDRESS-FAMILY *)
  else if ty =? 0x0018 then Some AvkEven       (* EVEN-PORT *)
  else if ty =? 0x0019 then Some AvkProto      (* REQUESTED-TRANSPORT *)
  else if ty =? 0x001A then Some AvkEmpty      (* DONT-FRAGMENT *)
  else if ty =? 0x001C then Some AvkSha        (* MESSAGE-INTEGRITY-SHA256 *)
  else if ty =? 0x001D then Some AvkAlg        (* PASSWORD-ALGORITHM *)
  else if ty =? 0x001E then Some AvkHash       (* USERHASH *)
  else if ty =? 0x0020 then Some AvkXorAddr    (* XOR-MAPPED-ADDRESS *)
  else if ty =? 0x0022 then Some AvkToken      (* RESERVATION-TOKEN *)
  else if ty =? 0x0024 then Some AvkU32        (* PRIORITY *)
  else if ty =? 0x0025 then Some AvkEmpty      (* USE-CANDIDATE *)
  else if ty =? 0x0026 then Some (AvkText 64000 64000)  (* PADDING *)
  else if ty =? 0x0027 then Some AvkU16        (* RESPONSE-PORT *)
  else if ty =? 0x8000 then Some AvkFam        (* ADDITIONAL-ADDRESS-FAMILY *)
  else if ty =? 0x8001 then Some AvkAErr       (* ADDRESS-ERROR-CODE *)
  else if ty =? 0x8002 then Some AvkAlgs       (* PASSWORD-ALGORITHMS *)
  else if ty =? 0x8004 then Some AvkIcmp       (* ICMP *)
  else if ty =? 0x8022 then Some (AvkText 509 763)      (* SOFTWARE *)
  else if ty =? 0x8023 then Some AvkAddr       (* ALTERNATE-SERVER *)
  else if ty =? 0x8028 then Some AvkFp         (* FINGERPRINT *)
  else if ty =? 0x8029 then Some AvkU64        (* ICE-CONTROLLED *)
  else if ty =? 0x802A then Some AvkU64        (* ICE-CONTROLLING *)
  else if ty =? 0x802B then Some AvkAddr       (* RESPONSE-ORIGIN *)
  else if ty =? 0x802C then Some AvkAddr       (* OTHER-ADDRESS *)
  else if ty =? 0x8030 then Some AvkOpaque     (* MOBILITY-TICKET *)
  else None.

(* ------------------------------------------------------------------------------------------------ UTF-8 *)
(* std::str::from_utf8 as the byte-range automaton of Unicode Table 3-7; the result is the list of code points
   (what `str::chars()` yields), None when from_utf8 returns Err *)
Definition av_cont (b:N) : bool := (0x80 <=? b) && (b <=? 0xBF).
Definition av_lo3 (b0:N) : N := if b0 =? 0xE0 then 0xA0 else 0x80.
Definition av_hi3 (b0:N) : N := if b0 =? 0xED then 0x9F else 0xBF.
Definition av_lo4 (b0:N) : N := if b0 =? 0xF0 then 0x90 else 0x80.
Definition av_hi4 (b0:N) : N := if b0 =? 0xF4 then 0x8F else 0xBF.
Definition av_cons_opt (c:N) (o:option (list N)) : option (list N) :=
  match o with Some l => Some (c :: l) | None => None end.

Fixpoint av_utf8 (b:bytes) : option (list N) :=
  match b with
  | [] => Some []
  | b0 :: r0 =>
    if b0 <? 0x80 then av_cons_opt b0 (av_utf8 r0)
    else if b0 <? 0xC2 then None
    else if b0 <? 0xE0 then
      match r0 with
      | b1 :: r1 =>
          if av_cont b1 then av_cons_opt ((b0 - 0xC0) * 64 + (b1 - 0x80)) (av_utf8 r1) else None
      | _ => None
      end
    else if b0 <? 0xF0 then
      match r0 with
      | b1 :: b2 :: r2 =>
          if (av_lo3 b0 <=? b1) && (b1 <=? av_hi3 b0) && av_cont b2
          then av_cons_opt (((b0 - 0xE0) * 64 + (b1 - 0x80)) * 64 + (b2 - 0x80)) (av_utf8 r2) else None
      | _ => None
      end
    else if b0 <? 0xF5 then
      match r0 with
      | b1 :: b2 :: b3 :: r3 =>
          if (av_lo4 b0 <=? b1) && (b1 <=? av_hi4 b0) && av_cont b2 && av_cont b3
          then av_cons_opt ((((b0 - 0xF0) * 64 + (b1 - 0x80)) * 64 + (b2 - 0x80)) * 64 + (b3 - 0x80)) (av_utf8 r3)
          else None
      | _ => None
      end
    else None
  end.

Definition av_utf8_ok (b:bytes) : bool := match av_utf8 b with Some _ => true | None => false end.
(* str::chars() of a str (the bytes of a str are valid UTF-8; [] outside that domain) *)
Definition av_chars (s:bytes) : list N := match av_utf8 s with Some cps => cps | None => [] end.

(* str::is_char_boundary *)
Definition av_is_boundary (s:bytes) (i:N) : bool :=
  if i =? 0 then true
  else if len s <? i then false
  else if i =? len s then true
  else match drop i s with b :: _ => (b <? 0x80) || (0xC0 <=? b) | [] => false end.
(* &s[i..] and &s[..j] on a str *)
Definition av_str_from (s:bytes) (i:N) : vres bytes := if av_is_boundary s i then VOk (drop i s) else VPanic.
Definition av_str_to (s:bytes) (j:N) : vres bytes := if av_is_boundary s j then VOk (take j s) else VPanic.

(* ------------------------------------------------------------- quoted strings (strings.rs + the pest grammar) *)
(* quoted-string-parser 0.1.0, quoted_string.pest, over code points (pest ranges match one `char`):
     quoted_text   = SOI content EOI                   content = (qdtext | quoted_pair)*
     quoted_string = SOI sws dquote content dquote EOI sws = lws?
     qdtext = lws | %x21 | %x23-5B | %x5D-7E | utf8_nonascii
     lws    = ((wsp)* cr lf)* (wsp)+                   quoted_pair = "\" (%x00-09 | %x0B-0C | %x0E-7F)
     utf8_nonascii = C0-DF cont | E0-EF cont{2} | F0-F7 cont{3} | F8-FB cont{4} | FC-FD cont{5}, cont = 80-BF
   PEG semantics: no implicit whitespace; repetitions are greedy and never give characters back; an iteration of
   `((wsp)* cr lf)` that fails restores the position to its start; `lws` failing as a whole restores to its
   start, after which SP / HTAB / CR match no other alternative and the content loop stops.
   The scanner below carries one bit: `pend` = "inside an lws whose last completed item is CR LF, so one wsp is
   still owed".  With `closing = false` it decides quoted_text (content must consume everything); with
   `closing = true` it decides `content dquote EOI`. *)
Definition av_is_wsp (c:N) : bool := (c =? 0x20) || (c =? 0x09).
Definition av_qd_single (c:N) : bool :=
  (c =? 0x21) || ((0x23 <=? c) && (c <=? 0x5B)) || ((0x5D <=? c) && (c <=? 0x7E)).
Definition av_qpair2 (c:N) : bool :=
  (c <=? 0x09) || ((0x0B <=? c) && (c <=? 0x0C)) || ((0x0E <=? c) && (c <=? 0x7F)).
Definition av_ucont (c:N) : bool := (0x80 <=? c) && (c <=? 0xBF).

Fixpoint av_qscan (closing pend:bool) (l:list N) : bool :=
  match l with
  | [] => if closing then false else negb pend
  | c :: r =>
    if av_is_wsp c then av_qscan closing false r
    else if c =? 0x0D then
      match r with d :: r' => if d =? 0x0A then av_qscan closing true r' else false | [] => false end
    else if pend then false
    else if av_qd_single c then av_qscan closing false r
    else if c =? 0x5C then
      match r with d :: r' => if av_qpair2 d then av_qscan closing false r' else false | [] => false end
    else if c =? 0x22 then (if closing then match r with [] => true | _ => false end else false)
    else if (0xC0 <=? c) && (c <=? 0xDF) then
      match r with
      | c1 :: r1 => if av_ucont c1 then av_qscan closing false r1 else false
      | _ => false end
    else if (0xE0 <=? c) && (c <=? 0xEF) then
      match r with
      | c1 :: c2 :: r2 => if av_ucont c1 && av_ucont c2 then av_qscan closing false r2 else false
      | _ => false end
    else if (0xF0 <=? c) && (c <=? 0xF7) then
      match r with
      | c1 :: c2 :: c3 :: r3 =>
          if av_ucont c1 && av_ucont c2 && av_ucont c3 then av_qscan closing false r3 else false
      | _ => false end
    else if (0xF8 <=? c) && (c <=? 0xFB) then
      match r with
      | c1 :: c2 :: c3 :: c4 :: r4 =>
          if av_ucont c1 && av_ucont c2 && av_ucont c3 && av_ucont c4 then av_qscan closing false r4 else false
      | _ => false end
    else if (0xFC <=? c) && (c <=? 0xFD) then
      match r with
      | c1 :: c2 :: c3 :: c4 :: c5 :: r5 =>
          if av_ucont c1 && av_ucont c2 && av_ucont c3 && av_ucont c4 && av_ucont c5
          then av_qscan closing false r5 else false
      | _ => false end
    else false
  end.

(* lws at the start of the input: Some rest when it matches (seen = a wsp of the current run was consumed) *)
Fixpoint av_lws (seen:bool) (l:list N) : option (list N) :=
  match l with
  | [] => if seen then Some [] else None
  | c :: r =>
    if av_is_wsp c then av_lws true r
    else if c =? 0x0D then
      match r with
      | d :: r' => if d =? 0x0A then av_lws false r' else (if seen then Some l else None)
      | [] => if seen then Some l else None
      end
    else if seen then Some l else None
  end.

Definition av_quoted_text (cps:list N) : bool := av_qscan false false cps.
Definition av_quoted_string (cps:list N) : bool :=
  let l1 := match av_lws false cps with Some r => r | None => cps end in
  match l1 with
  | c :: r => if c =? 0x22 then av_qscan true false r else false
  | [] => false
  end.

(* strings.rs: is_removable_character, skip_starting_characteres, skip_trailing_characteres *)
Definition av_removable (c:N) : bool := (c =? 0x0D) || (c =? 0x0A) || (c =? 0x20) || (c =? 0x09) || (c =? 0x22).
Fixpoint av_skip_start (idx:N) (cps:list N) : option N :=
  match cps with
  | [] => None
  | c :: r => if av_removable c then av_skip_start (idx + 1) r else Some idx
  end.
(* skip_trailing_characteres as it was before the repair of D8 (every trailing removable character is removed, also the
   second half of a quoted-pair): kept for the witness Props/C01.v C01_quoted_ctor_pinned_refuted *)
Definition av_skip_trail_pinned (cps:list N) : option N := av_skip_start 0 (rev cps).
(* the repaired skip_trailing_characteres: `rest.chars().rev().take_while(|b| *b == '\\').count() % 2 == 1` on the
   reversed characters before `c` (parity of the run of backslashes that immediately precedes `c`) *)
Fixpoint av_bs_odd (rl:list N) : bool :=
  match rl with
  | c :: r => if c =? 0x5C then negb (av_bs_odd r) else false
  | [] => false
  end.
(* the loop over `text.chars().rev().enumerate()`: `rl` = the characters not yet visited, last one first; a removable
   character preceded by an odd number of backslashes is the second half of a quoted-pair and ends the trimming.
   (`||` is lazy in the extracted code and a removable character that is not escaped is followed, in `rl`, by a
   backslash only if the run is even, where the loop stops at the next step: the whole scan is linear.) *)
Fixpoint av_skip_trail_rev (idx:N) (rl:list N) : option N :=
  match rl with
  | [] => None
  | c :: r => if negb (av_removable c) || av_bs_odd r then Some idx else av_skip_trail_rev (idx + 1) r
  end.
(* rev_append cps [] = rev cps, in linear time *)
Definition av_skip_trail (cps:list N) : option N := av_skip_trail_rev 0 (rev_append cps []).

(* formatted_quoted_string_from(s): s is a str (valid UTF-8 bytes `s`, code points `cps`) *)
Definition av_formatted (s:bytes) (cps:list N) : vres bytes :=
  if negb (av_quoted_text cps) && negb (av_quoted_string cps) then VErr
  else
    match av_skip_start 0 cps with
    | None => av_str_to s 0                                       (* &s[0..0] *)
    | Some pos =>
        vlet s1 := av_str_from s pos in                           (* &s[pos..] *)
        match av_skip_trail (av_chars s1) with
        | Some p => if len s1 <? p then VPanic                    (* s.len() - pos *)
                    else av_str_to s1 (len s1 - p)                (* &s[..s.len() - pos] *)
        | None => VOk s1
        end
    end.

(* formatted_quoted_string_from before the repair of D8 (witness only) *)
Definition av_formatted_pinned (s:bytes) (cps:list N) : vres bytes :=
  if negb (av_quoted_text cps) && negb (av_quoted_string cps) then VErr
  else
    match av_skip_start 0 cps with
    | None => av_str_to s 0
    | Some pos =>
        vlet s1 := av_str_from s pos in
        match av_skip_trail_pinned (av_chars s1) with
        | Some p => if len s1 <? p then VPanic else av_str_to s1 (len s1 - p)
        | None => VOk s1
        end
    end.

(* impl Decode for QuotedString *)
Definition av_dec_quoted_string (raw:bytes) : vres bytes :=
  match av_utf8 raw with
  | None => VErr                                                  (* from_utf8(raw_value)? *)
  | Some cps =>
      vlet q := av_formatted raw cps in                           (* QuotedString::try_from(str)? *)
      if av_bytes_eqb q raw then VOk q else VErr                  (* quoted.as_str() != str *)
  end.

(* ------------------------------------------------------------------------------ PRECIS OpaqueString (ASCII) *)
Definition av_is_ctl (b:N) : bool := (b <? 0x20) || (b =? 0x7F).
Definition av_precis (s:bytes) : vres bytes :=
  match s with
  | [] => VErr
  | _ => if existsb av_is_ctl s then VErr
         else if existsb (fun b => 0x80 <=? b) s then VUnmodelled
         else VOk s
  end.

(* ------------------------------------------------------------------------------------- message header *)
(* impl Decode for MessageHeader (raw.rs): the XOR address kinds decode the header of the message again *)
Definition av_cookie : bytes := [0x21; 0x12; 0xA4; 0x42].
Definition av_dec_header (m:bytes) : vres bytes :=
  if len m <? 20 then VErr
  else
    vlet t := av_to m 2 in
    vlet msg_type := av_rd16 t in
    if negb (msg_type / 16384 =? 0) then VErr                     (* bits = msg_type >> 14 *)
    else
      vlet l := av_slice m 2 4 in
      vlet _msg_length := av_rd16 l in
      vlet c := av_slice m 4 8 in
      if negb (av_bytes_eqb c av_cookie) then VErr
      else av_slice m 8 20.                                       (* transaction id *)

(* ------------------------------------------------------------------------------------------ decoders *)
(* impl Decode for u16 / u32 / u64 (common.rs) *)
Definition av_dec_u16 (v:bytes) : vres N := if len v <? 2 then VErr else vlet s := av_to v 2 in av_rd16 s.
Definition av_dec_u32 (v:bytes) : vres N := if len v <? 4 then VErr else vlet s := av_to v 4 in av_rd32 s.
Definition av_dec_u64 (v:bytes) : vres N := if len v <? 8 then VErr else vlet s := av_to v 8 in av_rd64 s.

(* impl Decode for SocketAddr (address_port.rs) *)
Definition av_dec_sockaddr (b:bytes) : vres (bool * N * bytes) :=
  if len b <? 4 then VErr
  else
    vlet family := av_at b 1 in
    vlet ps := av_slice b 2 4 in
    vlet port := av_rd16 ps in
    if family =? 1 then
      if len b <? 8 then VErr else vlet ip := av_slice b 4 8 in VOk (false, port, ip)
    else if family =? 2 then
      if len b <? 20 then VErr else vlet ip := av_slice b 4 20 in VOk (true, port, ip)
    else VErr.

(* common.rs socket_addr_xor: port ^ (cookie >> 16), octets ^ cookie (‖ transaction id for IPv6) *)
Fixpoint av_xor_bytes (a k:bytes) : bytes :=
  match a, k with
  | x :: a', y :: k' => N.lxor x y :: av_xor_bytes a' k'
  | _, _ => a
  end.
Definition av_xor_addr (txid:bytes) (v6:bool) (port:N) (ip:bytes) : (bool * N * bytes) :=
  (v6, N.lxor port 0x2112, av_xor_bytes ip (if v6 then av_cookie ++ txid else av_cookie)).

(* impl Decode for ErrorCode (types.rs) *)
Definition av_dec_error_code (raw:bytes) : vres (N * bytes) :=
  if len raw <? 4 then VErr
  else
    vlet b2 := av_at raw 2 in
    let class := N.land b2 7 in
    if (class <? 3) || (6 <? class) then VErr
    else
      vlet number := av_at raw 3 in
      if 99 <? number then VErr
      else
        vlet rs := av_from raw 4 in
        if negb (av_utf8_ok rs) then VErr
        else if 763 <? len rs then VErr
        else
          let code := class * 100 + number in
          if (code <? 300) || (700 <=? code) then VErr          (* ErrorCode::new *)
          else VOk (code, rs).

(* impl Decode for AddressFamily (types.rs) *)
Definition av_dec_family (raw:bytes) : vres N :=
  if len raw <? 1 then VErr
  else vlet f := av_at raw 0 in if (f =? 1) || (f =? 2) then VOk f else VErr.

(* impl DecodeAttributeValue for PasswordAlgorithm: the value and the consumed size *)
Definition av_dec_alg (raw:bytes) : vres (N * option bytes * N) :=
  if len raw <? 4 then VErr
  else
    vlet a := av_to raw 2 in
    vlet algorithm := av_rd16 a in
    vlet p := av_slice raw 2 4 in
    vlet plen := av_rd16 p in
    let size := 4 + plen in
    if len raw <? size then VErr
    else if 65535 <? plen + 4 then VPanic                         (* (param_length + 4): u16 addition *)
    else
      vlet params := av_slice raw 4 (plen + 4) in
      VOk (algorithm, (if 0 <? plen then Some params else None), size).

(* impl DecodeAttributeValue for PasswordAlgorithms: the `while total_size < raw_value.len()` loop, with
   rest = &raw_value[total_size..]; fuel = number of bytes (every iteration consumes at least 4) *)
Fixpoint av_dec_algs (fuel:nat) (rest:bytes) (size:N) (acc:list (N * option bytes)) : vres (list (N * option bytes)) :=
  match rest with
  | [] => VOk acc
  | _ =>
    match fuel with
    | O => VPanic
    | S f =>
      let p := pad size in
      if len rest <? p then VErr                                  (* check_buffer_boundaries(raw_value, total_size) *)
      else
        vlet sub := av_from rest p in                             (* &raw_value[total_size..] *)
        vlet r := av_dec_alg sub in
        let '(alg, params, l) := r in
        vlet rest' := av_from sub l in
        av_dec_algs f rest' l (acc ++ [(alg, params)])
    end
  end.

(* impl DecodeAttributeValue for UnknownAttributes: `for i in 0..len/2 { add(read_u16(&raw[i*2..])) }` *)
Definition av_ua_add (l:list N) (x:N) : list N := if existsb (N.eqb x) l then l else l ++ [x].
Fixpoint av_dec_uattrs (l:bytes) (acc:list N) : vres (list N) :=
  match l with
  | [] => VOk acc
  | a :: b :: r => av_dec_uattrs r (av_ua_add acc (rd16 a b))
  | [_] => VPanic                                                 (* read_u16 of a one-byte slice *)
  end.

Definition av_dec_kind (k:avk) (hdr v:bytes) : vres aval :=
  match k with
  | AvkAddr =>
      vlet r := av_dec_sockaddr v in let '(v6, port, ip) := r in VOk (AvAddr v6 port ip)
  | AvkXorAddr =>
      vlet txid := av_dec_header hdr in
      vlet r := av_dec_sockaddr v in
      let '(v6, port, ip) := r in
      let '(v6', port', ip') := av_xor_addr txid v6 port ip in VOk (AvAddr v6' port' ip')
  | AvkU16 => vlet n := av_dec_u16 v in VOk (AvU16 n)
  | AvkU32 => vlet n := av_dec_u32 v in VOk (AvU32 n)
  | AvkU64 => vlet n := av_dec_u64 v in VOk (AvU64 n)
  | AvkEmpty => VOk AvEmpty
  | AvkText _ max_dec =>
      if max_dec <? len v then VErr
      else if av_utf8_ok v then VOk (AvText v) else VErr
  | AvkQuoted =>
      if 763 <? len v then VErr
      else vlet q := av_dec_quoted_string v in VOk (AvQuoted q)
  | AvkUser =>
      if negb (av_utf8_ok v) then VErr
      else if 763 <? len v then VErr
      else vlet name := av_precis v in VOk (AvUser name)
  | AvkErr => vlet r := av_dec_error_code v in VOk (AvErr (fst r) (snd r))
  | AvkAErr =>
      vlet f := av_dec_family v in
      vlet r := av_dec_error_code v in VOk (AvAErr f (fst r) (snd r))
  | AvkAlg => vlet r := av_dec_alg v in let '(alg, params, _) := r in VOk (AvAlg alg params)
  | AvkAlgs => vlet l := av_dec_algs (length v) v 0 [] in VOk (AvAlgs l)
  | AvkUAttrs =>
      if negb (N.land (len v) 1 =? 0) then VErr
      else vlet l := av_dec_uattrs v [] in VOk (AvUAttrs l)
  | AvkHash => if len v =? 32 then VOk (AvFixed v) else VErr
  | AvkToken => if len v <? 8 then VErr else vlet t := av_to v 8 in VOk (AvFixed t)
  | AvkOpaque => VOk (AvOpaque v)
  | AvkChan =>
      vlet number := av_dec_u16 v in
      vlet r := av_from v 2 in
      vlet _rffu := av_dec_u16 r in VOk (AvChan number)
  | AvkEven =>
      if len v <? 1 then VErr else vlet b := av_at v 0 in VOk (AvEven (N.land b 0x80 =? 0x80))
  | AvkProto =>
      if len v <? 4 then VErr
      else if len v <? 1 then VErr else vlet p := av_at v 0 in VOk (AvProto p)
  | AvkFam =>
      if len v <? 4 then VErr else vlet f := av_dec_family v in VOk (AvFam f)
  | AvkIcmp =>
      if len v <? 8 then VErr
      else
        vlet s := av_slice v 2 4 in                               (* &raw_value[2..=3] *)
        vlet icmp := av_dec_u16 s in
        let ty := icmp / 512 in                                   (* icmp >> 9 *)
        let code := icmp mod 512 in                               (* 0x01ff & icmp *)
        if 255 <? ty then VErr                                    (* u8::try_from *)
        else if 127 <? ty then VErr                               (* IcmpType::new *)
        else if 511 <? code then VErr                             (* IcmpCode::new *)
        else vlet d := av_slice v 4 8 in VOk (AvIcmp ty code d)
  | AvkMI =>
      if len v <? 20 then VErr else if len v =? 20 then VOk (AvMI v) else VErr
  | AvkSha =>
      if len v <? 32 then VErr else if len v =? 32 then VOk (AvSha v) else VErr
  | AvkFp => vlet n := av_dec_u32 v in VOk (AvFp (N.lxor n 0x5354554e))
  end.

(* the registry lookup of MessageDecoder::decode; `ud` = a context is present and with_unknown_data is set *)
Definition av_dec_attr (ud:bool) (hdr:bytes) (ty:N) (v:bytes) : vres aval :=
  match av_registry ty with
  | Some k => av_dec_kind k hdr v
  | None => VOk (AvUnknown ty (if ud then Some v else None))
  end.

(* ------------------------------------------------------------------------------------------ encoders *)
(* the result is the prefix of the value buffer (of `room` bytes) that the encoder reports as written *)
Definition av_enc_bytes (room:N) (b:bytes) : vres bytes :=              (* check; raw[..n].clone_from_slice(b) *)
  if room <? len b then VErr else VOk b.

(* impl Encode for ErrorCode (types.rs) *)
Definition av_enc_error_code (code:N) (reason:bytes) (room:N) : vres bytes :=
  let reason_len := len reason in
  if 509 <? reason_len then VErr
  else if room <? 4 + reason_len then VErr
  else
    let number := code mod 100 in
    if 255 <? number then VPanic                                  (* number(): try_into::<u8>().unwrap() *)
    else if code <? number then VPanic                            (* self.error_code - number *)
    else
      let class := (code - number) / 100 in
      if 255 <? class then VPanic                                 (* class(): try_into::<u8>().unwrap() *)
      else VOk ([0; 0; class; number] ++ reason).

Definition av_enc_alg (alg:N) (params:option bytes) (room:N) : vres bytes :=
  let params_len := match params with Some b => len b | None => 0 end in
  if room <? 4 + params_len then VErr
  else if 65535 <? params_len then VErr                           (* params_len.try_into()? *)
  else VOk (av_be16 alg ++ av_be16 params_len ++ match params with Some b => b | None => [] end).

(* impl EncodeAttributeValue for PasswordAlgorithms: out = bytes written so far (size = len out) *)
Fixpoint av_enc_algs (l:list (N * option bytes)) (room:N) (out:bytes) : vres bytes :=
  match l with
  | [] => VOk out
  | (alg, params) :: rest =>
      let size := len out in
      if room <? size then VErr                                   (* check_buffer_boundaries(raw_value, size) *)
      else if room <? size then VPanic                            (* &mut raw_value[size..] *)
      else
        vlet e := av_enc_alg alg params (room - size) in
        let out1 := out ++ e in
        match rest with
        | [] => VOk out1
        | _ =>
          let size1 := len out1 in
          let p := pad (len e) in
          if room <? size1 then VPanic                            (* &mut raw_value[size..] *)
          else if room - size1 <? p then VErr                     (* fill_padding_value *)
          else av_enc_algs rest room (out1 ++ zeros p)
        end
  end.

Definition av_enc_kind (k:avk) (hdr:bytes) (a:aval) (room:N) : vres bytes :=
  match k, a with
  | AvkAddr, AvAddr v6 port ip =>
      let length := if v6 then 20 else 8 in
      if room <? length then VErr
      else if negb (len ip =? length - 4) then VErr               (* not a SocketAddr *)
      else VOk ([0; if v6 then 2 else 1] ++ av_be16 port ++ ip)
  | AvkXorAddr, AvAddr v6 port ip =>
      vlet txid := av_dec_header hdr in
      let '(_, xport, xip) := av_xor_addr txid v6 port ip in
      let length := if v6 then 20 else 8 in
      if room <? length then VErr
      else if negb (len ip =? length - 4) then VErr               (* not a SocketAddr *)
      else VOk ([0; if v6 then 2 else 1] ++ av_be16 xport ++ xip)
  | AvkU16, AvU16 n => if room <? 2 then VErr else VOk (av_be16 n)
  | AvkU32, AvU32 n => if room <? 4 then VErr else VOk (av_be32 n)
  | AvkU64, AvU64 n => if room <? 8 then VErr else VOk (av_be64 n)
  | AvkEmpty, AvEmpty => VOk []
  | AvkText max_enc _, AvText s => if max_enc <? len s then VErr else av_enc_bytes room s
  | AvkQuoted, AvQuoted s => if 509 <? len s then VErr else av_enc_bytes room s
  | AvkUser, AvUser s => if 509 <=? len s then VErr else av_enc_bytes room s
  | AvkErr, AvErr code reason => av_enc_error_code code reason room
  | AvkAErr, AvAErr fam code reason =>
      vlet e := av_enc_error_code code reason room in
      if room <? 1 then VErr                                      (* self.family.encode(raw_value)? *)
      else if negb ((fam =? 1) || (fam =? 2)) then VErr           (* not an AddressFamily *)
      else if room <? 1 then VPanic                               (* raw_value[0] = family *)
      else VOk (fam :: tl e)
  | AvkAlg, AvAlg alg params => av_enc_alg alg params room
  | AvkAlgs, AvAlgs l => av_enc_algs l room []
  | AvkUAttrs, AvUAttrs l =>
      if room <? 2 * len l then VErr else VOk (flat_map av_be16 l)
  | AvkHash, AvFixed b =>
      if negb (len b =? 32) then VErr                             (* not a [u8; 32] *)
      else av_enc_bytes room b
  | AvkToken, AvFixed b =>
      if room <? 8 then VErr
      else if negb (len b =? 8) then VErr                         (* not a [u8; 8] *)
      else VOk b
  | AvkOpaque, AvOpaque b => av_enc_bytes room b
  | AvkChan, AvChan n =>
      if room <? 2 then VErr                                      (* self.number.encode(raw_value)? *)
      else if room <? 2 then VPanic                               (* &mut raw_value[2..] *)
      else if room - 2 <? 2 then VErr                             (* self.rffu.encode(..)? *)
      else VOk (av_be16 n ++ [0; 0])
  | AvkEven, AvEven r => if room <? 1 then VErr else VOk [if r then 0x80 else 0]
  | AvkProto, AvProto p =>
      if room <? 4 then VErr else if room <? 1 then VErr else VOk [p; 0; 0; 0]
  | AvkFam, AvFam f =>
      if room <? 4 then VErr else if room <? 1 then VErr
      else if negb ((f =? 1) || (f =? 2)) then VErr               (* not an AddressFamily *)
      else VOk [f; 0; 0; 0]
  | AvkIcmp, AvIcmp ty code data =>
      if room <? 8 then VErr
      else if negb (len data =? 4) then VErr                      (* not a [u8; 4] *)
      else VOk ([0; 0] ++ av_be16 (ty * 512 + code) ++ data)      (* (type << 9) | code, code <= 511 *)
  | AvkMI, AvMIEnc => if room <? 20 then VErr else VOk (zeros 20)
  | AvkSha, AvShaEnc => if room <? 32 then VErr else VOk (zeros 32)
  | AvkFp, AvFpEnc => if room <? 4 then VErr else VOk (zeros 4)
  | _, _ => VErr      (* Decodable MI / SHA256 / FINGERPRINT: "Not encodable attribute"; ill-typed pairs *)
  end.

Definition av_enc_attr (hdr:bytes) (ty:N) (a:aval) (room:N) : vres bytes :=
  match av_registry ty with
  | Some k => av_enc_kind k hdr a room
  | None => VErr                                                  (* Unknown: "can not be encoded" *)
  end.

(* ---------------------------------------------------------------------- invariants and documented limits *)
(* what the Rust types guarantee of any value (constructors, decoders): ErrorCode holds 300..699 *)
Definition av_inv (a:aval) : bool :=
  match a with
  | AvErr code _ | AvAErr _ code _ => (300 <=? code) && (code <? 700)
  | _ => true
  end.

Definition av_opt_ok (p:option bytes) : bool :=
  match p with Some b => bytes_ok b && (0 <? len b) && (len b + 4 <? 65536) | None => true end.
Fixpoint av_nodup (l:list N) : bool :=
  match l with [] => true | x :: r => negb (existsb (N.eqb x) r) && av_nodup r end.
Definition av_ascii_print (s:bytes) : bool := forallb (fun b => (0x20 <=? b) && (b <=? 0x7E)) s.
(* nothing to trim: the first character is not removable and the last one is not removable or is the second half of a
   quoted-pair (the test skip_trailing_characteres stops at) *)
Definition av_trail_stop (rl:list N) : bool :=
  match rl with c :: r => negb (av_removable c) || av_bs_odd r | [] => false end.
Definition av_trimmed (cps:list N) : bool :=
  match cps with
  | [] => true
  | c :: _ => negb (av_removable c) && av_trail_stop (rev cps)
  end.
Definition av_quoted_ok (s:bytes) : bool :=
  match av_utf8 s with Some cps => av_quoted_text cps && av_trimmed cps | None => false end.
(* an Algorithm: id is a u16; parameters absent or non-empty (`Some([])` and `None` are the same bytes on the
   wire and decode as `None`) and such that the entry fits a TLV (4 + length < 2^16; the decoder's u16 addition
   would overflow beyond that).  Inner padding is written between the entries of a
   PASSWORD-ALGORITHMS value and skipped by the decoder, so no alignment condition is needed. *)
Definition av_alg_ok (e:N * option bytes) : bool := (fst e <? 65536) && av_opt_ok (snd e).

(* the header of the message being coded decodes (needed by the XOR address kinds only) *)
Definition av_hdr_ok (hdr:bytes) : bool := match av_dec_header hdr with VOk _ => true | _ => false end.

(* the documented limits: under `av_wf ty a` encoding succeeds (given room) and decoding returns `a` *)
Definition av_wf (ty:N) (a:aval) : bool :=
  match av_registry ty, a with
  | Some AvkAddr, AvAddr v6 port ip | Some AvkXorAddr, AvAddr v6 port ip =>
      (port <? 65536) && bytes_ok ip && (len ip =? (if v6 then 16 else 4))
  | Some AvkU16, AvU16 n => n <? 65536
  | Some AvkU32, AvU32 n => n <? 4294967296
  | Some AvkU64, AvU64 n => n <? 18446744073709551616
  | Some AvkEmpty, AvEmpty => true
  | Some (AvkText max_enc _), AvText s => bytes_ok s && av_utf8_ok s && (len s <=? max_enc)
  | Some AvkQuoted, AvQuoted s => bytes_ok s && av_quoted_ok s && (len s <=? 509)
  | Some AvkUser, AvUser s => av_ascii_print s && (0 <? len s) && (len s <? 509)
  | Some AvkErr, AvErr code reason =>
      (300 <=? code) && (code <? 700) && bytes_ok reason && av_utf8_ok reason && (len reason <=? 509)
  | Some AvkAErr, AvAErr fam code reason =>
      ((fam =? 1) || (fam =? 2)) &&
      (300 <=? code) && (code <? 700) && bytes_ok reason && av_utf8_ok reason && (len reason <=? 509)
  | Some AvkAlg, AvAlg alg params => av_alg_ok (alg, params)
  | Some AvkAlgs, AvAlgs l => forallb av_alg_ok l
  | Some AvkUAttrs, AvUAttrs l => forallb (fun x => x <? 65536) l && av_nodup l
  | Some AvkHash, AvFixed b => bytes_ok b && (len b =? 32)
  | Some AvkToken, AvFixed b => bytes_ok b && (len b =? 8)
  | Some AvkOpaque, AvOpaque b => bytes_ok b
  | Some AvkChan, AvChan n => n <? 65536
  | Some AvkEven, AvEven _ => true
  | Some AvkProto, AvProto p => p <? 256
  | Some AvkFam, AvFam f => (f =? 1) || (f =? 2)
  | Some AvkIcmp, AvIcmp ty code data => (ty <=? 127) && (code <=? 511) && bytes_ok data && (len data =? 4)
  | _, _ => false   (* Encodable MI / SHA256 / FINGERPRINT decode as a different value; Unknown never encodes *)
  end.

(* ------------------------------------------------------------------- glue of the correspondence suite `attrval` *)
(* the header of the messages the suite builds: Binding request, message length, cookie, transaction id *)
Definition av_suite_hdr (mlen:N) (txid:bytes) : bytes := [0; 1] ++ av_be16 mlen ++ av_cookie ++ txid.
(* record `C D ud txid ty v`: `v` is the single attribute of a message written by harness/src/wire.rs *)
Definition av_case_dec (ud:bool) (txid:bytes) (ty:N) (v:bytes) : vres aval :=
  av_dec_attr ud (av_suite_hdr (4 + len v + pad (len v)) txid) ty v.
(* record `C E txid ty a room`: the value encoder sees the 20 header bytes (length still 0) and `room` bytes *)
Definition av_case_enc (txid:bytes) (ty:N) (a:aval) (room:N) : vres bytes :=
  av_enc_attr (av_suite_hdr 0 txid) ty a room.
