(* An independent reference for the STUN wire layouts, written from the figures of the RFCs
   (RFC 8489 sections 5 and 14, RFC 8445 section 7.1, RFC 8656 section 18, RFC 5780 section 7, RFC 8016 section 3)
   in a style deliberately different from the codec model (Codec/AttrValue.v, Codec/EncodeInto.v, Base/Tlv.v):

     - an RFC figure is a list of BIT FIELDS `(width in bits, value)`, in the order of the figure (left to right,
       top to bottom); a field holds the `width` low-order bits of its value, most significant bit first
       ("network order", RFC 8489 section 5: "All STUN messages ... most significant bit first");
     - the bit string of a figure is the concatenation of the bit strings of its fields;
     - octets are cut out of the bit string eight bits at a time, most significant bit first.

   Nothing here uses the byte-level helpers of the model (`av_be_n`, `av_xor_bytes`, `be16`, `enc_tlv`, `pad`, ...):
   the only things shared with Codec/AttrValue.v are the TYPES of the values (`aval`, `bytes`) so that the two can be
   compared on the same inputs.  Proofs/RfcLayoutProofs.v proves that the two produce the same octets. *)
From Coq Require Import List NArith Bool.
Import ListNotations.
From Rustun Require Import Base.Tlv Codec.AttrValue.
Open Scope N_scope.
Arguments N.add : simpl never. Arguments N.sub : simpl never. Arguments N.mul : simpl never.
Arguments N.div : simpl never. Arguments N.modulo : simpl never.
Arguments N.eqb : simpl never. Arguments N.ltb : simpl never. Arguments N.leb : simpl never.
Arguments N.pow : simpl never. Arguments N.shiftl : simpl never. Arguments N.shiftr : simpl never.
Arguments N.land : simpl never. Arguments N.lor : simpl never. Arguments N.lxor : simpl never.
Arguments N.testbit : simpl never.

(* ------------------------------------------------------------------------------------------ bit fields *)
Definition field := (nat * N)%type.                                   (* width in bits, value *)
Notation fld w v := (@pair nat N w%nat v%N).

(* the `w` low-order bits of `v`, most significant first *)
Fixpoint bits_msb (w:nat) (v:N) : list bool :=
  match w with
  | O => []
  | S k => N.testbit v (N.of_nat k) :: bits_msb k v
  end.

Definition flatten_fields (l:list field) : list bool := flat_map (fun f => bits_msb (fst f) (snd f)) l.

(* the number a bit string denotes, most significant bit first *)
Definition bit_value (b:bool) : N := if b then 1 else 0.
Definition bits_value (l:list bool) : N := fold_left (fun acc b => 2 * acc + bit_value b) l 0.

(* octets of a bit string, eight bits at a time (only used on multiples of 8; a shorter tail is dropped) *)
Fixpoint bytes_of_bits (l:list bool) : list N :=
  match l with
  | b7 :: b6 :: b5 :: b4 :: b3 :: b2 :: b1 :: b0 :: r =>
      bits_value [b7; b6; b5; b4; b3; b2; b1; b0] :: bytes_of_bits r
  | _ => []
  end.

Definition rfc_bytes (l:list field) : bytes := bytes_of_bits (flatten_fields l).

(* "variable" parts of a figure: an octet string is a sequence of 8-bit fields *)
Definition octets (s:bytes) : list field := map (fun b => fld 8 b) s.
(* an octet string read as one number, first octet most significant (addresses, transaction id) *)
Definition octets_value (s:bytes) : N := fold_left (fun acc b => acc * 256 + b) s 0.
(* number of octets of an octet string *)
Definition octets_len (s:bytes) : N := N.of_nat (length s).

(* RFC 8489 section 14: "...padded with 1, 2, or 3 bytes of padding so that its value contains a multiple of
   4 bytes": the number of padding octets after `n` value octets *)
Definition rfc_pad_len (n:N) : N := match n mod 4 with 0 => 0 | r => 4 - r end.
(* "The padding bits MUST be set to zero on sending" *)
Definition rfc_padding (n:N) : list field := repeat (fld 8 0) (N.to_nat (rfc_pad_len n)).

(* ------------------------------------------------------------------------- RFC 8489 section 5: the header *)
(* Figure 2: Format of STUN Message Header
       0                   1                   2                   3
       0 1 2 3 4 5 6 7 8 9 0 1 2 3 4 5 6 7 8 9 0 1 2 3 4 5 6 7 8 9 0 1
      +-+-+-+-+-+-+-+-+-+-+-+-+-+-+-+-+-+-+-+-+-+-+-+-+-+-+-+-+-+-+-+-+
      |0 0|     STUN Message Type     |         Message Length        |
      +-+-+-+-+-+-+-+-+-+-+-+-+-+-+-+-+-+-+-+-+-+-+-+-+-+-+-+-+-+-+-+-+
      |                         Magic Cookie                          |
      +-+-+-+-+-+-+-+-+-+-+-+-+-+-+-+-+-+-+-+-+-+-+-+-+-+-+-+-+-+-+-+-+
      |                                                               |
      |                     Transaction ID (96 bits)                  |
      |                                                               |
      +-+-+-+-+-+-+-+-+-+-+-+-+-+-+-+-+-+-+-+-+-+-+-+-+-+-+-+-+-+-+-+-+
   "The Magic Cookie field MUST contain the fixed value 0x2112A442 in network byte order."

   Figure 3: Format of STUN Message Type Field
                       0                 1
                       2  3  4 5 6 7 8 9 0 1 2 3 4 5
                      +--+--+-+-+-+-+-+-+-+-+-+-+-+-+
                      |M |M |M|M|M|C|M|M|M|C|M|M|M|M|
                      |11|10|9|8|7|1|6|5|4|0|3|2|1|0|
                      +--+--+-+-+-+-+-+-+-+-+-+-+-+-+
   "M11 through M0 represent a 12-bit encoding of the method.  C1 and C0 represent a 2-bit encoding of the class." *)
Definition magic_cookie : N := 0x2112A442.

(* M11..M7 | C1 | M6..M4 | C0 | M3..M0 *)
Definition rfc_message_type (method class:N) : list field :=
  [fld 5 (method / 128); fld 1 (class / 2); fld 3 ((method / 16) mod 8); fld 1 (class mod 2); fld 4 (method mod 16)].

Definition rfc_header (method class length:N) (txid:bytes) : list field :=
  [fld 2 0] ++ rfc_message_type method class ++ [fld 16 length; fld 32 magic_cookie; fld 96 (octets_value txid)].
(* the same header with the 14-bit message type as ONE field of figure 2, its value read off figure 3 *)
Definition rfc_type14 (method class:N) : N := bits_value (flatten_fields (rfc_message_type method class)).
Definition rfc_header14 (method class length:N) (txid:bytes) : list field :=
  [fld 2 0; fld 14 (rfc_type14 method class); fld 16 length; fld 32 magic_cookie; fld 96 (octets_value txid)].

(* ----------------------------------------------------------------------- RFC 8489 section 14: attributes *)
(* Figure 4: Format of STUN Attributes
       0                   1                   2                   3
       0 1 2 3 4 5 6 7 8 9 0 1 2 3 4 5 6 7 8 9 0 1 2 3 4 5 6 7 8 9 0 1
      +-+-+-+-+-+-+-+-+-+-+-+-+-+-+-+-+-+-+-+-+-+-+-+-+-+-+-+-+-+-+-+-+
      |             Type              |            Length             |
      +-+-+-+-+-+-+-+-+-+-+-+-+-+-+-+-+-+-+-+-+-+-+-+-+-+-+-+-+-+-+-+-+
      |                         Value (variable)                ....
      +-+-+-+-+-+-+-+-+-+-+-+-+-+-+-+-+-+-+-+-+-+-+-+-+-+-+-+-+-+-+-+-+
   "The value in the Length field MUST contain the length of the Value part of the attribute, prior to padding,
    measured in bytes." *)
Definition rfc_attribute (ty:N) (value:bytes) : list field :=
  [fld 16 ty; fld 16 (octets_len value)] ++ octets value ++ rfc_padding (octets_len value).

(* Figure 5: Format of MAPPED-ADDRESS Attribute  (also ALTERNATE-SERVER, section 14.15: "It is encoded in the same
   way as MAPPED-ADDRESS"; RESPONSE-ORIGIN and OTHER-ADDRESS, RFC 5780 sections 7.3 and 7.4)
       0                   1                   2                   3
       0 1 2 3 4 5 6 7 8 9 0 1 2 3 4 5 6 7 8 9 0 1 2 3 4 5 6 7 8 9 0 1
      +-+-+-+-+-+-+-+-+-+-+-+-+-+-+-+-+-+-+-+-+-+-+-+-+-+-+-+-+-+-+-+-+
      |0 0 0 0 0 0 0 0|    Family     |           Port                |
      +-+-+-+-+-+-+-+-+-+-+-+-+-+-+-+-+-+-+-+-+-+-+-+-+-+-+-+-+-+-+-+-+
      |                                                               |
      |                 Address (32 bits or 128 bits)                 |
      |                                                               |
      +-+-+-+-+-+-+-+-+-+-+-+-+-+-+-+-+-+-+-+-+-+-+-+-+-+-+-+-+-+-+-+-+
   "0x01:IPv4  0x02:IPv6" *)
Definition rfc_family (v6:bool) : N := if v6 then 0x02 else 0x01.
Definition rfc_address_bits (v6:bool) : nat := if v6 then 128%nat else 32%nat.
Definition rfc_mapped_address (v6:bool) (port address:N) : list field :=
  [fld 8 0; fld 8 (rfc_family v6); fld 16 port; (rfc_address_bits v6, address)].

(* Figure 6: Format of XOR-MAPPED-ADDRESS Attribute  (also XOR-PEER-ADDRESS and XOR-RELAYED-ADDRESS, RFC 8656
   sections 18.3 and 18.5: "It is encoded in the same way as the XOR-MAPPED-ADDRESS")
       0                   1                   2                   3
       0 1 2 3 4 5 6 7 8 9 0 1 2 3 4 5 6 7 8 9 0 1 2 3 4 5 6 7 8 9 0 1
      +-+-+-+-+-+-+-+-+-+-+-+-+-+-+-+-+-+-+-+-+-+-+-+-+-+-+-+-+-+-+-+-+
      |0 0 0 0 0 0 0 0|    Family     |         X-Port                |
      +-+-+-+-+-+-+-+-+-+-+-+-+-+-+-+-+-+-+-+-+-+-+-+-+-+-+-+-+-+-+-+-+
      |                X-Address (Variable)
      +-+-+-+-+-+-+-+-+-+-+-+-+-+-+-+-+-+-+-+-+-+-+-+-+-+-+-+-+-+-+-+-+
   "X-Port is computed by XOR'ing the mapped port with the most significant 16 bits of the magic cookie.  If the
    IP address family is IPv4, X-Address is computed by XOR'ing the mapped IP address with the magic cookie.  If
    the IP address family is IPv6, X-Address is computed by XOR'ing the mapped IP address with the concatenation
    of the magic cookie and the 96-bit transaction ID."
   The XOR is taken on the numbers; the concatenation of a 32-bit and a 96-bit quantity is cookie * 2^96 + id. *)
Definition rfc_cookie_top16 : N := magic_cookie / 2 ^ 16.
Definition rfc_xor_key (v6:bool) (txid:N) : N := if v6 then magic_cookie * 2 ^ 96 + txid else magic_cookie.
Definition rfc_xor_mapped_address (v6:bool) (port address txid:N) : list field :=
  [fld 8 0; fld 8 (rfc_family v6); fld 16 (N.lxor port rfc_cookie_top16);
   (rfc_address_bits v6, N.lxor address (rfc_xor_key v6 txid))].

(* Figure 7: Format of ERROR-CODE Attribute
       0                   1                   2                   3
       0 1 2 3 4 5 6 7 8 9 0 1 2 3 4 5 6 7 8 9 0 1 2 3 4 5 6 7 8 9 0 1
      +-+-+-+-+-+-+-+-+-+-+-+-+-+-+-+-+-+-+-+-+-+-+-+-+-+-+-+-+-+-+-+-+
      |           Reserved, should be 0         |Class|     Number    |
      +-+-+-+-+-+-+-+-+-+-+-+-+-+-+-+-+-+-+-+-+-+-+-+-+-+-+-+-+-+-+-+-+
      |      Reason Phrase (variable)                                ..
      +-+-+-+-+-+-+-+-+-+-+-+-+-+-+-+-+-+-+-+-+-+-+-+-+-+-+-+-+-+-+-+-+
   "The Class represents the hundreds digit of the error code. ... The Number represents the binary encoding of
    the error code modulo 100" *)
Definition rfc_error_code (code:N) (reason:bytes) : list field :=
  [fld 21 0; fld 3 (code / 100); fld 8 (code mod 100)] ++ octets reason.

(* Figure 8: Format of UNKNOWN-ATTRIBUTES Attribute
       0                   1                   2                   3
       0 1 2 3 4 5 6 7 8 9 0 1 2 3 4 5 6 7 8 9 0 1 2 3 4 5 6 7 8 9 0 1
      +-+-+-+-+-+-+-+-+-+-+-+-+-+-+-+-+-+-+-+-+-+-+-+-+-+-+-+-+-+-+-+-+
      |      Attribute 1 Type         |       Attribute 2 Type        |
      +-+-+-+-+-+-+-+-+-+-+-+-+-+-+-+-+-+-+-+-+-+-+-+-+-+-+-+-+-+-+-+-+
      |      Attribute 3 Type         |       Attribute 4 Type    ...
      +-+-+-+-+-+-+-+-+-+-+-+-+-+-+-+-+-+-+-+-+-+-+-+-+-+-+-+-+-+-+-+-+ *)
Definition rfc_unknown_attributes (types:list N) : list field := map (fun t => fld 16 t) types.

(* Figure 10: Format of PASSWORD-ALGORITHM Attribute
       0                   1                   2                   3
       0 1 2 3 4 5 6 7 8 9 0 1 2 3 4 5 6 7 8 9 0 1 2 3 4 5 6 7 8 9 0 1
      +-+-+-+-+-+-+-+-+-+-+-+-+-+-+-+-+-+-+-+-+-+-+-+-+-+-+-+-+-+-+-+-+
      |          Algorithm           |  Algorithm Parameters Length   |
      +-+-+-+-+-+-+-+-+-+-+-+-+-+-+-+-+-+-+-+-+-+-+-+-+-+-+-+-+-+-+-+-+
      |                    Algorithm Parameters (variable)
      +-+-+-+-+-+-+-+-+-+-+-+-+-+-+-+-+-+-+-+-+-+-+-+-+-+-+-+-+-+-+-+-+
   (absent parameters are an empty octet string) *)
Definition rfc_parameters (p:option bytes) : bytes := match p with Some b => b | None => [] end.
Definition rfc_password_algorithm (algorithm:N) (p:option bytes) : list field :=
  [fld 16 algorithm; fld 16 (octets_len (rfc_parameters p))] ++ octets (rfc_parameters p).

(* Figure 9: Format of PASSWORD-ALGORITHMS Attribute
       0                   1                   2                   3
       0 1 2 3 4 5 6 7 8 9 0 1 2 3 4 5 6 7 8 9 0 1 2 3 4 5 6 7 8 9 0 1
      +-+-+-+-+-+-+-+-+-+-+-+-+-+-+-+-+-+-+-+-+-+-+-+-+-+-+-+-+-+-+-+-+
      |         Algorithm 1           | Algorithm 1 Parameters Length |
      +-+-+-+-+-+-+-+-+-+-+-+-+-+-+-+-+-+-+-+-+-+-+-+-+-+-+-+-+-+-+-+-+
      |                    Algorithm 1 Parameters (variable)
      +-+-+-+-+-+-+-+-+-+-+-+-+-+-+-+-+-+-+-+-+-+-+-+-+-+-+-+-+-+-+-+-+
      |         Algorithm 2           | Algorithm 2 Parameters Length |
      +-+-+-+-+-+-+-+-+-+-+-+-+-+-+-+-+-+-+-+-+-+-+-+-+-+-+-+-+-+-+-+-+
      |                    Algorithm 2 Parameters (variable)
      +-+-+-+-+-+-+-+-+-+-+-+-+-+-+-+-+-+-+-+-+-+-+-+-+-+-+-+-+-+-+-+-+
      |                                                             ...
   "The parameters MUST be padded to a 32-bit boundary, in the same manner as an attribute."
   Every entry is followed by the padding of its own 4 + parameter-length octets EXCEPT THE LAST ONE: that is what
   stun-rs writes (password_algorithms.rs pads between entries only) and what its unit tests pin; the trailing
   padding of the last entry is then the padding of the attribute itself (Figure 4). *)
Fixpoint rfc_password_algorithms (l:list (N * option bytes)) : list field :=
  match l with
  | [] => []
  | (algorithm, p) :: rest =>
      rfc_password_algorithm algorithm p ++
      match rest with
      | [] => []
      | _ => rfc_padding (4 + octets_len (rfc_parameters p)) ++ rfc_password_algorithms rest
      end
  end.

(* RFC 8489 sections 14.3 - 14.10, 14.14: fixed-size and octet-string values
     USERNAME, REALM, NONCE, SOFTWARE: UTF-8 octet strings;  USERHASH: 32 octets;
     MESSAGE-INTEGRITY: the 20 octets of the HMAC-SHA1;  MESSAGE-INTEGRITY-SHA256: up to 32 octets of the HMAC-SHA256;
     FINGERPRINT: "the CRC-32 of the STUN message up to (but excluding) the FINGERPRINT attribute itself, XOR'ed with
     the 32-bit value 0x5354554e" *)
Definition rfc_octet_string (s:bytes) : list field := octets s.
Definition rfc_fingerprint (crc:N) : list field := [fld 32 (N.lxor crc 0x5354554e)].

(* ------------------------------------------------------------------------------- RFC 8445 section 7.1 (ICE) *)
(* "The PRIORITY attribute ... a 32-bit unsigned integer";  "The USE-CANDIDATE attribute ... has no content (the Length
   field of the attribute is zero)";  "The ICE-CONTROLLED attribute ... The content of the attribute is a 64-bit
   unsigned integer in network byte order";  ICE-CONTROLLING likewise *)
Definition rfc_uint (width:nat) (n:N) : list field := [(width, n)].
Definition rfc_empty : list field := [].

(* --------------------------------------------------------------------------------- RFC 8656 section 18 (TURN) *)
(* 18.1 CHANNEL-NUMBER
       0                   1                   2                   3
       0 1 2 3 4 5 6 7 8 9 0 1 2 3 4 5 6 7 8 9 0 1 2 3 4 5 6 7 8 9 0 1
      +-+-+-+-+-+-+-+-+-+-+-+-+-+-+-+-+-+-+-+-+-+-+-+-+-+-+-+-+-+-+-+-+
      |        Channel Number         |         RFFU = 0              |
      +-+-+-+-+-+-+-+-+-+-+-+-+-+-+-+-+-+-+-+-+-+-+-+-+-+-+-+-+-+-+-+-+ *)
Definition rfc_channel_number (number:N) : list field := [fld 16 number; fld 16 0].
(* 18.2 LIFETIME: "a 32-bit unsigned integral value";  18.4 DATA: "variable length";
   18.9 RESERVATION-TOKEN: "The attribute value is 8 bytes";  18.10 DONT-FRAGMENT: "no value part" *)
(* 18.6 REQUESTED-ADDRESS-FAMILY (18.11 ADDITIONAL-ADDRESS-FAMILY: "The attribute value format ... is the same")
       0                   1                   2                   3
       0 1 2 3 4 5 6 7 8 9 0 1 2 3 4 5 6 7 8 9 0 1 2 3 4 5 6 7 8 9 0 1
      +-+-+-+-+-+-+-+-+-+-+-+-+-+-+-+-+-+-+-+-+-+-+-+-+-+-+-+-+-+-+-+-+
      |   Family      |            Reserved                           |
      +-+-+-+-+-+-+-+-+-+-+-+-+-+-+-+-+-+-+-+-+-+-+-+-+-+-+-+-+-+-+-+-+
   "Reserved: ... MUST be set to zero" *)
Definition rfc_address_family (family:N) : list field := [fld 8 family; fld 24 0].
(* 18.7 EVEN-PORT
       0
       0 1 2 3 4 5 6 7
      +-+-+-+-+-+-+-+-+
      |R|    RFFU     |
      +-+-+-+-+-+-+-+-+ *)
Definition rfc_even_port (r:bool) : list field := [fld 1 (bit_value r); fld 7 0].
(* 18.8 REQUESTED-TRANSPORT
       0                   1                   2                   3
       0 1 2 3 4 5 6 7 8 9 0 1 2 3 4 5 6 7 8 9 0 1 2 3 4 5 6 7 8 9 0 1
      +-+-+-+-+-+-+-+-+-+-+-+-+-+-+-+-+-+-+-+-+-+-+-+-+-+-+-+-+-+-+-+-+
      |    Protocol   |                    RFFU                       |
      +-+-+-+-+-+-+-+-+-+-+-+-+-+-+-+-+-+-+-+-+-+-+-+-+-+-+-+-+-+-+-+-+ *)
Definition rfc_requested_transport (protocol:N) : list field := [fld 8 protocol; fld 24 0].
(* 18.12 ADDRESS-ERROR-CODE
       0                   1                   2                   3
       0 1 2 3 4 5 6 7 8 9 0 1 2 3 4 5 6 7 8 9 0 1 2 3 4 5 6 7 8 9 0 1
      +-+-+-+-+-+-+-+-+-+-+-+-+-+-+-+-+-+-+-+-+-+-+-+-+-+-+-+-+-+-+-+-+
      |  Family       |    Reserved             |Class|     Number    |
      +-+-+-+-+-+-+-+-+-+-+-+-+-+-+-+-+-+-+-+-+-+-+-+-+-+-+-+-+-+-+-+-+
      |      Reason Phrase (variable)                                ..
      +-+-+-+-+-+-+-+-+-+-+-+-+-+-+-+-+-+-+-+-+-+-+-+-+-+-+-+-+-+-+-+-+ *)
Definition rfc_address_error_code (family code:N) (reason:bytes) : list field :=
  [fld 8 family; fld 13 0; fld 3 (code / 100); fld 8 (code mod 100)] ++ octets reason.
(* 18.13 ICMP
       0                   1                   2                   3
       0 1 2 3 4 5 6 7 8 9 0 1 2 3 4 5 6 7 8 9 0 1 2 3 4 5 6 7 8 9 0 1
      +-+-+-+-+-+-+-+-+-+-+-+-+-+-+-+-+-+-+-+-+-+-+-+-+-+-+-+-+-+-+-+-+
      |  Reserved                     |  ICMP Type  |  ICMP Code      |
      +-+-+-+-+-+-+-+-+-+-+-+-+-+-+-+-+-+-+-+-+-+-+-+-+-+-+-+-+-+-+-+-+
      |                          Error Data                           |
      +-+-+-+-+-+-+-+-+-+-+-+-+-+-+-+-+-+-+-+-+-+-+-+-+-+-+-+-+-+-+-+-+
   (7 bits of ICMP type, 9 bits of ICMP code, 4 octets of error data) *)
Definition rfc_icmp (icmp_type icmp_code:N) (data:bytes) : list field :=
  [fld 16 0; fld 7 icmp_type; fld 9 icmp_code] ++ octets data.

(* ---------------------------------------------------------------------------------------- RFC 5780 section 7 *)
(* 7.2 CHANGE-REQUEST
       0                   1                   2                   3
       0 1 2 3 4 5 6 7 8 9 0 1 2 3 4 5 6 7 8 9 0 1 2 3 4 5 6 7 8 9 0 1
      +-+-+-+-+-+-+-+-+-+-+-+-+-+-+-+-+-+-+-+-+-+-+-+-+-+-+-+-+-+-+-+-+
      |0 0 0 0 0 0 0 0 0 0 0 0 0 0 0 0 0 0 0 0 0 0 0 0 0 0 0 0 0 A B 0|
      +-+-+-+-+-+-+-+-+-+-+-+-+-+-+-+-+-+-+-+-+-+-+-+-+-+-+-+-+-+-+-+-+
   "A: This is the "change IP" flag.  B: This is the "change port" flag." *)
Definition rfc_change_request (change_ip change_port:bool) : list field :=
  [fld 29 0; fld 1 (bit_value change_ip); fld 1 (bit_value change_port); fld 1 0].
(* stun-rs keeps the 32 bits it received (ChangeRequest(u32)); a value built by ChangeRequest::new holds only the
   two flags.  The same figure with the must-be-zero bits taken from the stored word: *)
Definition rfc_change_request_raw (word:N) : list field :=
  [fld 29 (word / 8); fld 1 ((word / 4) mod 2); fld 1 ((word / 2) mod 2); fld 1 (word mod 2)].
(* 7.5 RESPONSE-PORT: "a 16-bit unsigned integer in network byte order followed by 2 bytes of padding" (the two
   octets after the port are the padding of the attribute, Figure 4);  7.6 PADDING: octets *)

(* ----------------------------------------------------------------------------------- RFC 8016 section 3 *)
(* MOBILITY-TICKET: "The value of the MOBILITY-TICKET is encrypted and is of variable length": an octet string *)

(* -------------------------------------------------------------------------- the IANA attribute type registry *)
(* the 38 attributes stun-rs implements, with the code points of
   https://www.iana.org/assignments/stun-parameters (RFC 8489 section 18.3, RFC 8656 section 22, RFC 8445 section 20,
   RFC 5780 section 9, RFC 8016 section 7) *)
Inductive rfc_attr :=
| MAPPED_ADDRESS | CHANGE_REQUEST | USERNAME | MESSAGE_INTEGRITY | ERROR_CODE | UNKNOWN_ATTRIBUTES | CHANNEL_NUMBER
| LIFETIME | XOR_PEER_ADDRESS | DATA | REALM | NONCE | XOR_RELAYED_ADDRESS | REQUESTED_ADDRESS_FAMILY | EVEN_PORT
| REQUESTED_TRANSPORT | DONT_FRAGMENT | MESSAGE_INTEGRITY_SHA256 | PASSWORD_ALGORITHM | USERHASH | XOR_MAPPED_ADDRESS
| RESERVATION_TOKEN | PRIORITY | USE_CANDIDATE | PADDING | RESPONSE_PORT | ADDITIONAL_ADDRESS_FAMILY
| ADDRESS_ERROR_CODE | PASSWORD_ALGORITHMS | ICMP | SOFTWARE | ALTERNATE_SERVER | FINGERPRINT | ICE_CONTROLLED
| ICE_CONTROLLING | RESPONSE_ORIGIN | OTHER_ADDRESS | MOBILITY_TICKET.

Definition rfc_type_codes : list (N * rfc_attr) :=
  [ (0x0001, MAPPED_ADDRESS);            (* RFC 8489 *)
    (0x0003, CHANGE_REQUEST);            (* RFC 5780 *)
    (0x0006, USERNAME);                  (* RFC 8489 *)
    (0x0008, MESSAGE_INTEGRITY);         (* RFC 8489 *)
    (0x0009, ERROR_CODE);                (* RFC 8489 *)
    (0x000A, UNKNOWN_ATTRIBUTES);        (* RFC 8489 *)
    (0x000C, CHANNEL_NUMBER);            (* RFC 8656 *)
    (0x000D, LIFETIME);                  (* RFC 8656 *)
    (0x0012, XOR_PEER_ADDRESS);          (* RFC 8656 *)
    (0x0013, DATA);                      (* RFC 8656 *)
    (0x0014, REALM);                     (* RFC 8489 *)
    (0x0015, NONCE);                     (* RFC 8489 *)
    (0x0016, XOR_RELAYED_ADDRESS);       (* RFC 8656 *)
    (0x0017, REQUESTED_ADDRESS_FAMILY);  (* RFC 8656 *)
    (0x0018, EVEN_PORT);                 (* RFC 8656 *)
    (0x0019, REQUESTED_TRANSPORT);       (* RFC 8656 *)
    (0x001A, DONT_FRAGMENT);             (* RFC 8656 *)
    (0x001C, MESSAGE_INTEGRITY_SHA256);  (* RFC 8489 *)
    (0x001D, PASSWORD_ALGORITHM);        (* RFC 8489 *)
    (0x001E, USERHASH);                  (* RFC 8489 *)
    (0x0020, XOR_MAPPED_ADDRESS);        (* RFC 8489 *)
    (0x0022, RESERVATION_TOKEN);         (* RFC 8656 *)
    (0x0024, PRIORITY);                  (* RFC 8445 *)
    (0x0025, USE_CANDIDATE);             (* RFC 8445 *)
    (0x0026, PADDING);                   (* RFC 5780 *)
    (0x0027, RESPONSE_PORT);             (* RFC 5780 *)
    (0x8000, ADDITIONAL_ADDRESS_FAMILY); (* RFC 8656 *)
    (0x8001, ADDRESS_ERROR_CODE);        (* RFC 8656 *)
    (0x8002, PASSWORD_ALGORITHMS);       (* RFC 8489 *)
    (0x8004, ICMP);                      (* RFC 8656 *)
    (0x8022, SOFTWARE);                  (* RFC 8489 *)
    (0x8023, ALTERNATE_SERVER);          (* RFC 8489 *)
    (0x8028, FINGERPRINT);               (* RFC 8489 *)
    (0x8029, ICE_CONTROLLED);            (* RFC 8445 *)
    (0x802A, ICE_CONTROLLING);           (* RFC 8445 *)
    (0x802B, RESPONSE_ORIGIN);           (* RFC 5780 *)
    (0x802C, OTHER_ADDRESS);             (* RFC 5780 *)
    (0x8030, MOBILITY_TICKET) ].         (* RFC 8016 *)

Fixpoint rfc_find (ty:N) (table:list (N * rfc_attr)) : option rfc_attr :=
  match table with
  | [] => None
  | (code, a) :: rest => if ty =? code then Some a else rfc_find ty rest
  end.
Definition rfc_lookup (ty:N) : option rfc_attr := rfc_find ty rfc_type_codes.

(* ------------------------------------------------------------------------------- the value of an attribute *)
(* the figure of attribute `at` filled with the content of the typed value `a` (the value types are those of the
   model: an address is a family flag, a port and 4 or 16 address octets; an error is a numeric code and a reason
   phrase; ...).  `txid` are the 12 octets of the transaction id of the message (XOR address kinds only).
   None: the value is not of the type of the attribute. *)
Definition rfc_fields (txid:bytes) (at_:rfc_attr) (a:aval) : option (list field) :=
  match at_, a with
  | MAPPED_ADDRESS, AvAddr v6 port ip | ALTERNATE_SERVER, AvAddr v6 port ip
  | RESPONSE_ORIGIN, AvAddr v6 port ip | OTHER_ADDRESS, AvAddr v6 port ip =>
      Some (rfc_mapped_address v6 port (octets_value ip))
  | XOR_MAPPED_ADDRESS, AvAddr v6 port ip | XOR_PEER_ADDRESS, AvAddr v6 port ip
  | XOR_RELAYED_ADDRESS, AvAddr v6 port ip =>
      Some (rfc_xor_mapped_address v6 port (octets_value ip) (octets_value txid))
  | CHANGE_REQUEST, AvU32 word => Some (rfc_change_request_raw word)
  | USERNAME, AvUser s => Some (rfc_octet_string s)
  | REALM, AvQuoted s | NONCE, AvQuoted s => Some (rfc_octet_string s)
  | SOFTWARE, AvText s | PADDING, AvText s => Some (rfc_octet_string s)
  | DATA, AvOpaque s | MOBILITY_TICKET, AvOpaque s => Some (rfc_octet_string s)
  | USERHASH, AvFixed s | RESERVATION_TOKEN, AvFixed s => Some (rfc_octet_string s)
  | MESSAGE_INTEGRITY, AvMI mac | MESSAGE_INTEGRITY_SHA256, AvSha mac => Some (rfc_octet_string mac)
  | FINGERPRINT, AvFp crc => Some (rfc_fingerprint crc)
  | ERROR_CODE, AvErr code reason => Some (rfc_error_code code reason)
  | ADDRESS_ERROR_CODE, AvAErr family code reason => Some (rfc_address_error_code family code reason)
  | UNKNOWN_ATTRIBUTES, AvUAttrs types => Some (rfc_unknown_attributes types)
  | PASSWORD_ALGORITHM, AvAlg algorithm p => Some (rfc_password_algorithm algorithm p)
  | PASSWORD_ALGORITHMS, AvAlgs l => Some (rfc_password_algorithms l)
  | CHANNEL_NUMBER, AvChan number => Some (rfc_channel_number number)
  | LIFETIME, AvU32 n | PRIORITY, AvU32 n => Some (rfc_uint 32 n)
  | ICE_CONTROLLED, AvU64 n | ICE_CONTROLLING, AvU64 n => Some (rfc_uint 64 n)
  | RESPONSE_PORT, AvU16 n => Some (rfc_uint 16 n)
  | USE_CANDIDATE, AvEmpty | DONT_FRAGMENT, AvEmpty => Some rfc_empty
  | EVEN_PORT, AvEven r => Some (rfc_even_port r)
  | REQUESTED_TRANSPORT, AvProto protocol => Some (rfc_requested_transport protocol)
  | REQUESTED_ADDRESS_FAMILY, AvFam family | ADDITIONAL_ADDRESS_FAMILY, AvFam family =>
      Some (rfc_address_family family)
  | ICMP, AvIcmp icmp_type icmp_code data => Some (rfc_icmp icmp_type icmp_code data)
  | _, _ => None
  end.

Definition rfc_attr_value (txid:bytes) (at_:rfc_attr) (a:aval) : option bytes :=
  match rfc_fields txid at_ a with Some l => Some (rfc_bytes l) | None => None end.

(* the octets of the value of an attribute of type `ty` *)
Definition rfc_value (txid:bytes) (ty:N) (a:aval) : option bytes :=
  match rfc_lookup ty with
  | Some at_ => rfc_attr_value txid at_ a
  | None => None
  end.

(* the whole attribute: Figure 4 around the value *)
Definition rfc_attribute_of (txid:bytes) (ty:N) (a:aval) : option bytes :=
  match rfc_value txid ty a with
  | Some v => Some (rfc_bytes (rfc_attribute ty v))
  | None => None
  end.

(* ------------------------------------------------------------------------------------------ the message *)
(* RFC 8489 section 5: the 20-octet header followed by zero or more attributes; "The message length MUST contain the
   size of the message in bytes, not including the 20-byte STUN header."  Attributes as (type, value octets). *)
Definition rfc_message_body (attrs:list (N * bytes)) : bytes :=
  flat_map (fun tv => rfc_bytes (rfc_attribute (fst tv) (snd tv))) attrs.
Definition rfc_message (method class:N) (txid:bytes) (attrs:list (N * bytes)) : bytes :=
  rfc_bytes (rfc_header method class (octets_len (rfc_message_body attrs)) txid) ++ rfc_message_body attrs.

(* ------------------------------------------------------------------------------------------ test vectors *)
(* RFC 5769 section 2.2 (sample IPv4 response): XOR-MAPPED-ADDRESS 192.0.2.1:32853,
   transaction id b7 e7 a7 01 bc 34 d6 86 fa 87 df ae *)
Example rfc5769_xor_mapped_v4 :
  rfc_attribute_of [0xb7; 0xe7; 0xa7; 0x01; 0xbc; 0x34; 0xd6; 0x86; 0xfa; 0x87; 0xdf; 0xae] 0x0020
    (AvAddr false 32853 [192; 0; 2; 1])
  = Some [0x00; 0x20; 0x00; 0x08; 0x00; 0x01; 0xa1; 0x47; 0xe1; 0x12; 0xa6; 0x43].
Proof. vm_compute. reflexivity. Qed.
(* RFC 5769 section 2.3 (sample IPv6 response): XOR-MAPPED-ADDRESS [2001:db8:1234:5678:11:2233:4455:6677]:32853 *)
Example rfc5769_xor_mapped_v6 :
  rfc_attribute_of [0xb7; 0xe7; 0xa7; 0x01; 0xbc; 0x34; 0xd6; 0x86; 0xfa; 0x87; 0xdf; 0xae] 0x0020
    (AvAddr true 32853 [0x20; 0x01; 0x0d; 0xb8; 0x12; 0x34; 0x56; 0x78; 0x00; 0x11; 0x22; 0x33; 0x44; 0x55; 0x66; 0x77])
  = Some [0x00; 0x20; 0x00; 0x14; 0x00; 0x02; 0xa1; 0x47;
          0x01; 0x13; 0xa9; 0xfa; 0xa5; 0xd3; 0xf1; 0x79; 0xbc; 0x25; 0xf4; 0xb5; 0xbe; 0xd2; 0xb9; 0xd9].
Proof. vm_compute. reflexivity. Qed.
(* RFC 5769 section 2.1 (sample request): header of a Binding request (method 1, class 0) of 88 octets, and its
   SOFTWARE "STUN test client" / PRIORITY / ICE-CONTROLLED attributes *)
Example rfc5769_header :
  rfc_bytes (rfc_header 1 0 0x58 [0xb7; 0xe7; 0xa7; 0x01; 0xbc; 0x34; 0xd6; 0x86; 0xfa; 0x87; 0xdf; 0xae])
  = [0x00; 0x01; 0x00; 0x58; 0x21; 0x12; 0xa4; 0x42; 0xb7; 0xe7; 0xa7; 0x01; 0xbc; 0x34; 0xd6; 0x86; 0xfa; 0x87; 0xdf; 0xae].
Proof. vm_compute. reflexivity. Qed.
Example rfc5769_software :
  rfc_attribute_of [] 0x8022 (AvText [0x53; 0x54; 0x55; 0x4e; 0x20; 0x74; 0x65; 0x73; 0x74; 0x20; 0x63; 0x6c; 0x69; 0x65; 0x6e; 0x74])
  = Some [0x80; 0x22; 0x00; 0x10; 0x53; 0x54; 0x55; 0x4e; 0x20; 0x74; 0x65; 0x73; 0x74; 0x20; 0x63; 0x6c; 0x69; 0x65; 0x6e; 0x74].
Proof. vm_compute. reflexivity. Qed.
Example rfc5769_priority :
  rfc_attribute_of [] 0x0024 (AvU32 0x6e0001ff) = Some [0x00; 0x24; 0x00; 0x04; 0x6e; 0x00; 0x01; 0xff].
Proof. vm_compute. reflexivity. Qed.
Example rfc5769_ice_controlled :
  rfc_attribute_of [] 0x8029 (AvU64 0x932ff9b151263b36)
  = Some [0x80; 0x29; 0x00; 0x08; 0x93; 0x2f; 0xf9; 0xb1; 0x51; 0x26; 0x3b; 0x36].
Proof. vm_compute. reflexivity. Qed.
(* RFC 5769 section 2.4: USERNAME of 18 octets is followed by 2 octets of padding (zero here; RFC 5769 itself uses
   0x20 in requests, RFC 8489 mandates zero on sending) *)
Example rfc_padding_example :
  rfc_bytes (rfc_attribute 0x0006 [0xe3; 0x83; 0x9e]) = [0x00; 0x06; 0x00; 0x03; 0xe3; 0x83; 0x9e; 0x00].
Proof. vm_compute. reflexivity. Qed.
(* a 401 error *)
Example rfc_error_401 :
  rfc_attribute_of [] 0x0009 (AvErr 401 [0x55]) = Some [0x00; 0x09; 0x00; 0x05; 0x00; 0x00; 0x04; 0x01; 0x55; 0; 0; 0].
Proof. vm_compute. reflexivity. Qed.
(* after RFC 5769 section 2.2 (sample IPv4 response): a Binding success response (method 1, class 2) with the first two
   attributes of the sample, SOFTWARE "test vector" (11 octets and one octet of padding -- 0x20 in RFC 5769, zero under
   RFC 8489) and XOR-MAPPED-ADDRESS; the message length is that of these two attributes, 0x1c *)
Example rfc5769_response_prefix :
  rfc_message 1 2 [0xb7; 0xe7; 0xa7; 0x01; 0xbc; 0x34; 0xd6; 0x86; 0xfa; 0x87; 0xdf; 0xae]
    [(0x8022, [0x74; 0x65; 0x73; 0x74; 0x20; 0x76; 0x65; 0x63; 0x74; 0x6f; 0x72]);
     (0x0020, [0x00; 0x01; 0xa1; 0x47; 0xe1; 0x12; 0xa6; 0x43])]
  = [0x01; 0x01; 0x00; 0x1c; 0x21; 0x12; 0xa4; 0x42; 0xb7; 0xe7; 0xa7; 0x01; 0xbc; 0x34; 0xd6; 0x86; 0xfa; 0x87; 0xdf; 0xae;
     0x80; 0x22; 0x00; 0x0b; 0x74; 0x65; 0x73; 0x74; 0x20; 0x76; 0x65; 0x63; 0x74; 0x6f; 0x72; 0x00;
     0x00; 0x20; 0x00; 0x08; 0x00; 0x01; 0xa1; 0x47; 0xe1; 0x12; 0xa6; 0x43].
Proof. vm_compute. reflexivity. Qed.
