(* The published test vectors of RFC 5769 (sections 2.1-2.4) and RFC 8489 (appendix B.1), byte for byte as in the RFCs
   (transcribed from /repo/stun-vectors/src/lib.rs by tools/mk5769.py), run through the Gallina models of this development:
   the byte-level decoder with REAL validation (HMAC-SHA1 / HMAC-SHA256 / CRC-32 in Gallina), the typed attribute decoders,
   the key derivations and the USERHASH definition. These examples tie the models to the RFCs independently of the
   implementation (the correspondence suites tie them to the implementation). *)
From Coq Require Import List NArith Bool.
Import ListNotations.
From Rustun Require Import Base.Tlv Crypto.Sha256 Crypto.Sha1Md5 Codec.Filter Codec.DecodeLoop Codec.InputText Codec.Wire
                           Codec.AttrValue Codec.WireFull Codec.Message Codec.Keys.
Open Scope N_scope.

Definition sample_request : bytes :=
  [0; 1; 0; 88; 33; 18; 164; 66; 183; 231; 167; 1; 188; 52; 214; 134; 250; 135; 223; 174; 128; 34; 0; 16;
   83; 84; 85; 78; 32; 116; 101; 115; 116; 32; 99; 108; 105; 101; 110; 116; 0; 36; 0; 4; 110; 0; 1; 255;
   128; 41; 0; 8; 147; 47; 249; 177; 81; 38; 59; 54; 0; 6; 0; 9; 101; 118; 116; 106; 58; 104; 54; 118;
   89; 32; 32; 32; 0; 8; 0; 20; 154; 234; 167; 12; 191; 216; 203; 86; 120; 30; 242; 181; 178; 211; 242; 73;
   193; 181; 113; 162; 128; 40; 0; 4; 229; 122; 59; 207].

Definition sample_ipv4_response : bytes :=
  [1; 1; 0; 60; 33; 18; 164; 66; 183; 231; 167; 1; 188; 52; 214; 134; 250; 135; 223; 174; 128; 34; 0; 11;
   116; 101; 115; 116; 32; 118; 101; 99; 116; 111; 114; 32; 0; 32; 0; 8; 0; 1; 161; 71; 225; 18; 166; 67;
   0; 8; 0; 20; 43; 145; 245; 153; 253; 158; 144; 195; 140; 116; 137; 249; 42; 249; 186; 83; 240; 107; 231; 215;
   128; 40; 0; 4; 192; 125; 76; 150].

Definition sample_ipv6_response : bytes :=
  [1; 1; 0; 72; 33; 18; 164; 66; 183; 231; 167; 1; 188; 52; 214; 134; 250; 135; 223; 174; 128; 34; 0; 11;
   116; 101; 115; 116; 32; 118; 101; 99; 116; 111; 114; 32; 0; 32; 0; 20; 0; 2; 161; 71; 1; 19; 169; 250;
   165; 211; 241; 121; 188; 37; 244; 181; 190; 210; 185; 217; 0; 8; 0; 20; 163; 130; 149; 78; 75; 230; 123; 241;
   23; 132; 201; 124; 130; 146; 194; 117; 191; 227; 237; 65; 128; 40; 0; 4; 200; 251; 11; 76].

Definition sample_long_term : bytes :=
  [0; 1; 0; 96; 33; 18; 164; 66; 120; 173; 52; 51; 198; 173; 114; 192; 41; 218; 65; 46; 0; 6; 0; 18;
   227; 131; 158; 227; 131; 136; 227; 131; 170; 227; 131; 131; 227; 130; 175; 227; 130; 185; 0; 0; 0; 21; 0; 28;
   102; 47; 47; 52; 57; 57; 107; 57; 53; 52; 100; 54; 79; 76; 51; 52; 111; 76; 57; 70; 83; 84; 118; 121;
   54; 52; 115; 65; 0; 20; 0; 11; 101; 120; 97; 109; 112; 108; 101; 46; 111; 114; 103; 0; 0; 8; 0; 20;
   246; 112; 36; 101; 109; 214; 74; 62; 2; 184; 224; 113; 46; 133; 201; 162; 140; 168; 150; 102].

Definition sample_long_term_sha256 : bytes :=
  [0; 1; 0; 136; 33; 18; 164; 66; 120; 173; 52; 51; 198; 173; 114; 192; 41; 218; 65; 46; 0; 30; 0; 32;
   74; 60; 243; 143; 239; 105; 146; 189; 169; 82; 198; 120; 4; 23; 218; 15; 36; 129; 148; 21; 86; 158; 96; 178;
   5; 196; 110; 65; 64; 127; 23; 4; 0; 21; 0; 41; 111; 98; 77; 97; 116; 74; 111; 115; 50; 65; 65; 65;
   67; 102; 47; 47; 52; 57; 57; 107; 57; 53; 52; 100; 54; 79; 76; 51; 52; 111; 76; 57; 70; 83; 84; 118;
   121; 54; 52; 115; 65; 0; 0; 0; 0; 20; 0; 11; 101; 120; 97; 109; 112; 108; 101; 46; 111; 114; 103; 0;
   0; 28; 0; 32; 253; 140; 39; 56; 96; 210; 225; 142; 188; 164; 200; 155; 105; 115; 190; 250; 126; 232; 236; 198;
   158; 150; 66; 219; 50; 111; 171; 101; 160; 185; 85; 186].

Definition short_term_password : bytes := [86; 79; 107; 74; 120; 98; 82; 108; 49; 82; 109; 84; 120; 85; 107; 47; 87; 118; 74; 120; 66; 116].   (* VOkJxbRl1RmTxUk/WvJxBt *)
Definition lt_user : bytes := [227; 131; 158; 227; 131; 136; 227; 131; 170; 227; 131; 131; 227; 130; 175; 227; 130; 185].   (* U+30DE U+30C8 U+30EA U+30C3 U+30AF U+30B9 in UTF-8 *)
Definition lt_realm : bytes := [101; 120; 97; 109; 112; 108; 101; 46; 111; 114; 103].   (* example.org *)
Definition lt_password : bytes := [84; 104; 101; 77; 97; 116; 114; 73; 88].   (* TheMatrIX (after OpaqueString / SASLprep processing) *)

Definition validating (key:bytes) : option wctx :=
  Some {| w_key := Some key; w_opts := {| o_validate := true; o_unknown := false; o_not_ignore := false |} |}.
Definition vkey (r:vres bytes) : bytes := match r with VOk k => k | _ => [] end.
Definition flip_last (b:bytes) : bytes := match rev b with x :: r => rev (N.lxor x 1 :: r) | [] => [] end.
Definition flip_at (i:nat) (b:bytes) : bytes := firstn i b ++ (match nth_error b i with Some x => [N.lxor x 1] | None => [] end) ++ skipn (S i) b.
Definition stk : bytes := vkey (st_key short_term_password).
Definition ltk : bytes := vkey (lt_key lt_user lt_realm lt_password 1).       (* MD5(user:realm:password) *)
Definition is_wok (r:wres) : bool := match r with WOk _ _ => true | _ => false end.

(* 2.1 sample request: MESSAGE-INTEGRITY and FINGERPRINT validate under the short-term key; all six attributes returned *)
Example rfc5769_request_validates : decode dec_ok_full (validating stk) sample_request = WOk 108 [0; 1; 2; 3; 4; 5].
Proof. vm_compute. reflexivity. Qed.
Example rfc5769_request_values : decode_typed sample_request = DOk 108
  [(32802, VOk (AvText [83; 84; 85; 78; 32; 116; 101; 115; 116; 32; 99; 108; 105; 101; 110; 116]));   (* STUN test client *)
   (36, VOk (AvU32 1845494271));                                                                     (* PRIORITY 0x6e0001ff *)
   (32809, VOk (AvU64 10605970187446795062));                                                        (* ICE-CONTROLLED *)
   (6, VOk (AvUser [101; 118; 116; 106; 58; 104; 54; 118; 89]));                                     (* evtj:h6vY *)
   (8, VOk (AvMI [154; 234; 167; 12; 191; 216; 203; 86; 120; 30; 242; 181; 178; 211; 242; 73; 193; 181; 113; 162]));
   (32808, VOk (AvFp 3056496257))].
Proof. vm_compute. reflexivity. Qed.
(* the low bit of every byte flipped in turn (padding included): never accepted — except byte 100, the first byte of
   the FINGERPRINT type code: 0x8128 is an unknown comprehension-optional attribute after MESSAGE-INTEGRITY, which RFC 8489
   14.5 tells the receiver to ignore; the message is then the (still authenticated) message without a fingerprint *)
Example rfc5769_request_every_byte_protected :
  forallb (fun i => negb (is_wok (decode dec_ok_full (validating stk) (flip_at i sample_request)))) (seq 0 100 ++ seq 101 7) = true.
Proof. vm_compute. reflexivity. Qed.
Example rfc5769_request_fingerprint_type_fault :
  decode dec_ok_full (validating stk) (flip_at 100 sample_request) = WOk 108 [0; 1; 2; 3; 4].
Proof. vm_compute. reflexivity. Qed.
(* a wrong password: rejected *)
Example rfc5769_request_wrong_key : decode dec_ok_full (validating (flip_last stk)) sample_request = WErr.
Proof. vm_compute. reflexivity. Qed.

(* 2.2 sample IPv4 response: XOR-MAPPED-ADDRESS 192.0.2.1:32853 *)
Example rfc5769_ipv4_response : decode dec_ok_full (validating stk) sample_ipv4_response = WOk 80 [0; 1; 2; 3] /\
  exists mi fp, decode_typed sample_ipv4_response = DOk 80
    [(32802, VOk (AvText [116; 101; 115; 116; 32; 118; 101; 99; 116; 111; 114]));    (* test vector *)
     (32, VOk (AvAddr false 32853 [192; 0; 2; 1])); (8, VOk (AvMI mi)); (32808, VOk (AvFp fp))].
Proof. split; [vm_compute; reflexivity|]. eexists. eexists. vm_compute. reflexivity. Qed.

(* 2.3 sample IPv6 response: XOR-MAPPED-ADDRESS [2001:db8:1234:5678:11:2233:4455:6677]:32853 *)
Example rfc5769_ipv6_response : decode dec_ok_full (validating stk) sample_ipv6_response = WOk 92 [0; 1; 2; 3] /\
  exists mi fp, decode_typed sample_ipv6_response = DOk 92
    [(32802, VOk (AvText [116; 101; 115; 116; 32; 118; 101; 99; 116; 111; 114]));
     (32, VOk (AvAddr true 32853 [32; 1; 13; 184; 18; 52; 86; 120; 0; 17; 34; 51; 68; 85; 102; 119])); (8, VOk (AvMI mi)); (32808, VOk (AvFp fp))].
Proof. split; [vm_compute; reflexivity|]. eexists. eexists. vm_compute. reflexivity. Qed.

(* 2.4 sample request with long-term authentication: the key is MD5(user:realm:password) with the non-ASCII user name taken
   as it is; MESSAGE-INTEGRITY (attribute 3, the last one) verifies against the bytes before it. (The typed USERNAME decoder
   is outside the model for non-ASCII names - PRECIS tables - so the attribute-level verifier is used directly.) *)
Example rfc5769_long_term_mac :
  match dec_tlvs (length sample_long_term) (drop 20 sample_long_term) with
  | Ok [_; _; _; (8, mac)] => verify_attr (Some ltk) sample_long_term (3, (8, mac)) = true
  | _ => False
  end.
Proof. vm_compute. reflexivity. Qed.

(* RFC 8489 B.1: USERHASH = SHA-256(user:realm); MESSAGE-INTEGRITY-SHA256 validates under the MD5 long-term key (no
   PASSWORD-ALGORITHM attribute in the request); with the SHA-256 derived key it does not *)
Example rfc8489_b1_userhash :
  exists rest, decode_typed sample_long_term_sha256 = DOk 156 ((30, VOk (AvFixed (sha256 (lt_user ++ [58] ++ lt_realm)))) :: rest).
Proof. eexists. vm_compute. reflexivity. Qed.
Example rfc8489_b1_validates : decode dec_ok_full (validating ltk) sample_long_term_sha256 = WOk 156 [0; 1; 2; 3].
Proof. vm_compute. reflexivity. Qed.
Example rfc8489_b1_other_key : decode dec_ok_full (validating (vkey (lt_key lt_user lt_realm lt_password 2))) sample_long_term_sha256 = WErr.
Proof. vm_compute. reflexivity. Qed.
