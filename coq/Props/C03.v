(* C03 — Untrusted bytes never crash the decoder, the client or the reassembler. Statements only. *)
From Coq Require Import List NArith Bool.
Import ListNotations.
From Rustun Require Import Base.Tlv Codec.Filter Codec.DecodeLoop Codec.InputText Codec.Wire Codec.AttrValue Codec.WireFull
                           Proofs.WireProofs Proofs.AttrValueProofs
                           Agent.Reasm Agent.ReasmDrive Agent.ReasmRs Proofs.ReasmRsProofs
                           Agent.Rto Agent.Model Proofs.AgentInv.
Open Scope N_scope.

(* the message decoder: for every byte string, every decoder configuration and whatever the typed decoders do, the result
   is a message or an error (the raw TLV walk has an explicit Panic outcome when its fuel runs out; it never does) *)
Theorem C03_decode_no_panic : forall dec_ok ctx b, decode dec_ok ctx b <> WPanic.
Proof. exact WireProofs.decode_no_panic. Qed.
(* on success the reported size is 20 + the header length field and does not exceed the input *)
Theorem C03_decode_size : forall dec_ok ctx b s p, decode dec_ok ctx b = WOk s p -> s = 20 + msg_length b /\ s <= len b.
Proof. exact WireProofs.decode_size. Qed.
Print Assumptions C03_decode_no_panic.
Print Assumptions C03_decode_size.

(* the 38 typed attribute decoders (every slice, index, read, unwrap and checked addition of the Rust is a separate
   model step with a Panic outcome): no value a TLV can carry makes any of them panic; and whatever they return can be
   encoded again without a panic *)
Theorem C03_typed_decoders_no_panic : forall ud hdr ty v, len v < 65536 -> av_dec_attr ud hdr ty v <> VPanic.
Proof. exact AttrValueProofs.dec_attr_no_panic. Qed.
Theorem C03_decoded_values_encodable_without_panic : forall ud hdr ty v a hdr' ty' room,
  av_dec_attr ud hdr ty v = VOk a -> av_enc_attr hdr' ty' a room <> VPanic.
Proof. exact AttrValueProofs.dec_then_enc_no_panic. Qed.
Print Assumptions C03_typed_decoders_no_panic.
Print Assumptions C03_decoded_values_encodable_without_panic.

(* the stream reassembler, in any chunking, with the slice bounds and checked subtractions of lib.rs explicit *)
Theorem C03_reassembler_no_panic : forall B chunks cs, 20 <= B -> In cs (run_log B chunks) -> ~ In CPanic cs.
Proof. exact ReasmRsProofs.run_log_no_panic. Qed.
Print Assumptions C03_reassembler_no_panic.

(* the client: every received buffer yields a value or an error and the client remains usable: the invariant of the
   outstanding table and timers is preserved by every operation, and a rejected buffer changes nothing *)
Theorem C03_client_stays_usable : forall c o, Inv c -> fresh_for c o -> Inv (fst (fst (step c o))).
Proof. exact AgentInv.inv_step. Qed.
Theorem C03_recv_replies : forall c now d w,
  let r := snd (fst (step c (Recv now d w))) in r = ROk None \/ r = RDiscarded \/ r = RStunCheck \/ r = RInternal.
Proof. exact AgentInv.recv_replies. Qed.
Print Assumptions C03_client_stays_usable.

(* ---- the decoder part of the property as the monitor that judges the implementation (Codec/WireMon.monitor_C03dec: under
   each of the 17 configurations a message or an error, never a panic; on success the size is 20 + the header length field
   and does not exceed the input): it accepts the model's results for every buffer and key *)
From Rustun Require Import Codec.WireMon Proofs.WireMeets.
Theorem C03_model_meets_decoder_monitor : forall dec_ok key b,
  (forall ctx, decode dec_ok ctx b <> WUnmodelled) -> monitor_C03dec b (model_obs dec_ok key b) = true.
Proof. exact WireMeets.model_meets_C03dec. Qed.
Print Assumptions C03_model_meets_decoder_monitor.
