(* C03 — Untrusted bytes never crash the decoder, the client or the reassembler. Statements only. *)
From Coq Require Import List NArith Bool.
Import ListNotations.
From Rustun Require Import Base.Tlv Codec.Filter Codec.DecodeLoop Codec.InputText Codec.Wire Codec.AttrValue Codec.WireFull
                           Proofs.WireProofs Proofs.AttrValueProofs
                           Agent.Reasm Agent.ReasmDrive Agent.ReasmRs Proofs.ReasmRsProofs
                           Agent.Rto Agent.Model Proofs.AgentInv.
Open Scope N_scope.

(* the message decoder: for every byte string, every decoder configuration and whatever the typed decoders do, the result
   is a message or an error (the raw TLV walk has an explicit Panic outcome when its fuel runs out; it never does) *)
Theorem C03_decode_no_panic : forall dec_ok ctx b, decode dec_ok ctx b <> WPanic.
Proof. exact WireProofs.decode_no_panic. Qed.
(* on success the reported size is 20 + the header length field and does not exceed the input *)
Theorem C03_decode_size : forall dec_ok ctx b s p, decode dec_ok ctx b = WOk s p -> s = 20 + msg_length b /\ s <= len b.
Proof. exact WireProofs.decode_size. Qed.
Print Assumptions C03_decode_no_panic.
Print Assumptions C03_decode_size.

(* the 38 typed attribute decoders (every slice, index, read, unwrap and checked addition of the Rust is a separate
   model step with a Panic outcome): no value a TLV can carry makes any of them panic; and whatever they return can be
   encoded again without a panic *)
Theorem C03_typed_decoders_no_panic : forall ud hdr ty v, len v < 65536 -> av_dec_attr ud hdr ty v <> VPanic.
Proof. exact AttrValueProofs.dec_attr_no_panic. Qed.
Theorem C03_decoded_values_encodable_without_panic : forall ud hdr ty v a hdr' ty' room,
  av_dec_attr ud hdr ty v = VOk a -> av_enc_attr hdr' ty' a room <> VPanic.
Proof. exact AttrValueProofs.dec_then_enc_no_panic. Qed.
Print Assumptions C03_typed_decoders_no_panic.
Print Assumptions C03_decoded_values_encodable_without_panic.

(* the stream reassembler, in any chunking, with the slice bounds and checked subtractions of lib.rs explicit *)
Theorem C03_reassembler_no_panic : forall B chunks cs, 20 <= B -> In cs (run_log B chunks) -> ~ In CPanic cs.
Proof. exact ReasmRsProofs.run_log_no_panic. Qed.
Print Assumptions C03_reassembler_no_panic.

(* the client: every received buffer yields a value or an error and the client remains usable: the invariant of the
   outstanding table and timers is preserved by every operation, and a rejected buffer changes nothing *)
Theorem C03_client_stays_usable : forall c o, Inv c -> fresh_for c o -> Inv (fst (fst (step c o))).
Proof. exact AgentInv.inv_step. Qed.
Theorem C03_recv_replies : forall c now d w,
  let r := snd (fst (step c (Recv now d w))) in r = ROk None \/ r = RDiscarded \/ r = RStunCheck \/ r = RInternal.
Proof. exact AgentInv.recv_replies. Qed.
Print Assumptions C03_client_stays_usable.

(* ---- the decoder part of the property as the monitor that judges the implementation (Codec/WireMon.monitor_C03dec: under
   each of the 17 configurations a message or an error, never a panic; on success the size is 20 + the header length field
   and does not exceed the input): it accepts the model's results for every buffer and key *)
From Rustun Require Import Codec.WireMon Proofs.WireMeets.
Theorem C03_model_meets_decoder_monitor : forall dec_ok key b,
  (forall ctx, decode dec_ok ctx b <> WUnmodelled) -> monitor_C03dec b (model_obs dec_ok key b) = true.
Proof. exact WireMeets.model_meets_C03dec. Qed.
Print Assumptions C03_model_meets_decoder_monitor.

(* ---- the Rust text itself: raw.rs (MessageHeader::decode, RawMessage::decode, RawAttribute::decode, RawAttributesIter) is
   translated by tools/rs2v.py from /repo's CURRENT source on every run (Generated/Code.v; slice indexing, usize additions and
   conversions carry their panic as an explicit GPanic outcome).  For ALL byte strings the translated code never panics and
   is, result for result, the front end of the model the theorems above are about (Proofs/CodeAgreeRaw.v): the header gate is
   Wire.hdr_valid with the fields of the header read off the bytes, RawMessage::decode adds the size gate 20 + length <= len,
   and the iterator run to its end / first error yields exactly Tlv.dec_tlvs.  (len < 2^63: Rust's bound on every slice.) *)
From Rustun Require Import Base.GRes Generated.Code Proofs.CodeAgreeRaw.
Theorem C03_code_header_is_model : forall b, Tlv.bytes_ok b = true ->
  gen_MessageHeader_decode b = GOk (if Wire.hdr_valid b then Some (CodeAgreeRaw.hdr_of b, 20) else None).
Proof. exact CodeAgreeRaw.gen_header_agrees. Qed.
Theorem C03_code_header_fields : forall b, Wire.hdr_valid b = true ->
  MessageHeader_bits (CodeAgreeRaw.hdr_of b) = 0 /\ MessageHeader_msg_length (CodeAgreeRaw.hdr_of b) = Wire.msg_length b
  /\ MessageHeader_cookie (CodeAgreeRaw.hdr_of b) = InputText.cookie_bytes
  /\ MessageHeader_transaction_id (CodeAgreeRaw.hdr_of b) = Tlv.take 12 (Tlv.drop 8 b)
  /\ Tlv.len (MessageHeader_transaction_id (CodeAgreeRaw.hdr_of b)) = 12.
Proof. exact CodeAgreeRaw.hdr_valid_fields. Qed.
Theorem C03_code_raw_message_is_model : forall b, Tlv.bytes_ok b = true ->
  gen_RawMessage_decode b
  = GOk (if Wire.hdr_valid b && (20 + Wire.msg_length b <=? Tlv.len b)
         then Some ({| RawMessage_header := CodeAgreeRaw.hdr_of b;
                       RawMessage_attributes := Tlv.take (Wire.msg_length b) (Tlv.drop 20 b) |}, 20 + Wire.msg_length b)
         else None).
Proof. exact CodeAgreeRaw.gen_raw_message_agrees. Qed.
Theorem C03_code_tlv_walk_is_model : forall attrs, Tlv.bytes_ok attrs = true -> Tlv.len attrs < 9223372036854775808 ->
  CodeAgreeRaw.gen_iter_all (S (length attrs)) (gen_RawAttributes_into_fallible_iter (gen_RawAttributes_from attrs))
  = GOk (match Tlv.dec_tlvs (length attrs) attrs with Tlv.Ok l => Some l | _ => None end)
  /\ Tlv.dec_tlvs (length attrs) attrs <> Tlv.Panic.
Proof. exact CodeAgreeRaw.gen_tlv_walk_agrees. Qed.
Theorem C03_code_decode_front_is_model : forall dec_ok ctx b, Tlv.bytes_ok b = true ->
  match gen_RawMessage_decode b with
  | GOk None => Wire.decode dec_ok ctx b = Wire.WErr
  | GOk (Some (m, size)) =>
      size = 20 + Wire.msg_length b /\ size <= Tlv.len b /\ Wire.hdr_valid b = true
      /\ RawMessage_attributes m = Tlv.take (Wire.msg_length b) (Tlv.drop 20 b)
      /\ CodeAgreeRaw.gen_iter_all (S (length b)) (gen_RawAttributes_into_fallible_iter (gen_RawAttributes_from (RawMessage_attributes m)))
         = GOk (match Tlv.dec_tlvs (length b) (Tlv.take (Wire.msg_length b) (Tlv.drop 20 b)) with Tlv.Ok l => Some l | _ => None end)
      /\ Tlv.dec_tlvs (length b) (Tlv.take (Wire.msg_length b) (Tlv.drop 20 b)) <> Tlv.Panic
  | GPanic | GFuel => False
  end.
Proof. exact CodeAgreeRaw.gen_decode_front_is_wire. Qed.
Print Assumptions C03_code_header_is_model.
Print Assumptions C03_code_header_fields.
Print Assumptions C03_code_raw_message_is_model.
Print Assumptions C03_code_tlv_walk_is_model.
Print Assumptions C03_code_decode_front_is_model.

(* ---- the reassembler's Rust text (lib.rs StunPacketDecoder::new / decode, translated on every run, Proofs/CodeAgreeReasm.v):
   no decode() call of the caller's loop run over the TRANSLATED code panics, for every buffer handed to new and every
   chunking of every byte stream (hypotheses: elements are bytes; len buffer + len chunk < 2^64) *)
From Rustun Require Proofs.CodeAgreeReasm.
Theorem C03_code_reassembler_no_panic : forall fb chunks cs, Tlv.bytes_ok fb = true ->
  Forall (fun c => Tlv.bytes_ok c = true /\ Tlv.len fb + Tlv.len c < 18446744073709551616) chunks ->
  In cs (CodeAgreeReasm.gen_run_log fb chunks) -> ~ In CPanic cs.
Proof. exact CodeAgreeReasm.gen_run_log_no_panic. Qed.
(* exactly when a single translated decode() panics: CodeAgreeReasm.code_ok is the precise guard (it holds of every decoder the
   public API can produce, C16_code_decode_under_invariant); the translated decode never runs out of fuel (it has no loop) *)
Theorem C03_code_reassembler_guard_def : forall g L, CodeAgreeReasm.code_ok g L =
  match StunPacketDecoder_expected_size g with
  | Some size => (StunPacketDecoder_current_size g <=? size)
                 && (if size - StunPacketDecoder_current_size g <=? L then size <=? Tlv.len (StunPacketDecoder_buffer g)
                     else StunPacketDecoder_current_size g + L <=? Tlv.len (StunPacketDecoder_buffer g))
  | None => if 20 <=? StunPacketDecoder_current_size g + L
            then (StunPacketDecoder_current_size g <=? 20) && (20 <=? Tlv.len (StunPacketDecoder_buffer g))
            else StunPacketDecoder_current_size g + L <=? Tlv.len (StunPacketDecoder_buffer g)
  end.
Proof. exact CodeAgreeReasm.code_ok_unfold. Qed.
Theorem C03_code_reassembler_panic_exact : forall g d data,
  CodeAgreeReasm.Rep g d -> Tlv.bytes_ok (StunPacketDecoder_buffer g) = true -> Tlv.bytes_ok data = true ->
  Tlv.len (StunPacketDecoder_buffer g) + Tlv.len data < 18446744073709551616 ->
  (gen_StunPacketDecoder_decode g data = GPanic <-> CodeAgreeReasm.code_ok g (Tlv.len data) = false)
  /\ gen_StunPacketDecoder_decode g data <> GFuel.
Proof. exact CodeAgreeReasm.gen_decode_panic_iff. Qed.
(* the model's guard slices_ok (feed_rs) is sound for the code: where it holds the code does not panic whatever the chunk;
   where it fails the code panics as soon as a chunk reaches the missing room (the model says panic for EVERY chunk there:
   its guard is coarser, CodeAgreeReasm.slices_ok_coarser_size / _small_buffer; such states cannot be built through the API) *)
Theorem C03_code_reassembler_model_guard_sound : forall g d L,
  CodeAgreeReasm.Rep g d -> slices_ok d = true -> CodeAgreeReasm.code_ok g L = true.
Proof. exact CodeAgreeReasm.slices_ok_code_ok. Qed.
Theorem C03_code_reassembler_model_panic_is_code_panic : forall g d data,
  CodeAgreeReasm.Rep g d -> slices_ok d = false ->
  match expd d with
  | Some size => size < Tlv.len (acc d) \/ size - Tlv.len (acc d) <= Tlv.len data
  | None => 20 <= Tlv.len (acc d) + Tlv.len data
  end ->
  gen_StunPacketDecoder_decode g data = GPanic /\ feed_rs d data = PanicO.
Proof. exact CodeAgreeReasm.slices_bad_panics. Qed.
Print Assumptions C03_code_reassembler_no_panic.
Print Assumptions C03_code_reassembler_guard_def.
Print Assumptions C03_code_reassembler_panic_exact.
Print Assumptions C03_code_reassembler_model_guard_sound.
Print Assumptions C03_code_reassembler_model_panic_is_code_panic.
