(* C04 — Message integrity accepts exactly the untampered message under the right key. Statements only. *)
From Coq Require Import List NArith Bool.
Import ListNotations.
From Rustun Require Import Base.Tlv Crypto.Sha256 Crypto.Sha1Md5 Codec.InputText Codec.Wire Codec.AttrValue Codec.Keys Proofs.WireProofs.
Open Scope N_scope.

(* acceptance of ANY buffer under key k means exactly: its first MESSAGE-INTEGRITY equals HMAC-SHA1(k, input text), the
   input text being the bytes before that attribute with the header length adjusted to its end (input_text) *)
Theorem C04_accept_iff_mac_sha1 : forall k b p v,
  verify_attr (Some k) b (p, (T_MI, v)) = true <-> exists t, input_text b T_MI = Ok t /\ hmac_sha1 k t = v.
Proof. exact WireProofs.accept_iff_mac_sha1. Qed.
Theorem C04_accept_iff_mac_sha256 : forall k b p v,
  verify_attr (Some k) b (p, (T_SHA, v)) = true <-> exists t, input_text b T_SHA = Ok t /\ hmac_sha256 k t = v.
Proof. exact WireProofs.accept_iff_mac_sha256. Qed.
Print Assumptions C04_accept_iff_mac_sha1.
Print Assumptions C04_accept_iff_mac_sha256.

(* the text that is hashed is the one of RFC 8489 14.5 / 14.6, whatever follows the attribute *)
Theorem C04_text_is_rfc : forall typ txid l t v rest,
  typ < 65536 -> length txid = 12%nat -> forallb tlv_ok l = true -> t < 65536 -> len v < 65536 ->
  (forall a, In a l -> fst a <> t) ->
  len (enc_tlvs l ++ enc_tlv (t, v) ++ rest) < 65536 ->
  input_text (InputText.header typ (len (enc_tlvs l ++ enc_tlv (t, v) ++ rest)) txid ++ enc_tlvs l ++ enc_tlv (t, v) ++ rest) t
  = Ok (InputText.header typ (len (enc_tlvs l) + len (enc_tlv (t, v))) txid ++ enc_tlvs l).
Proof. exact WireProofs.input_text_general. Qed.
Print Assumptions C04_text_is_rfc.

(* it validates under K, and attributes appended after it (the other integrity attribute, FINGERPRINT, anything) do not
   invalidate it *)
Theorem C04_accepts_own_mi : forall k typ txid l rest p,
  typ < 65536 -> length txid = 12%nat -> forallb tlv_ok l = true -> (forall a, In a l -> fst a <> T_MI) ->
  let text := InputText.header typ (len (enc_tlvs l) + 24) txid ++ enc_tlvs l in
  let mac := hmac_sha1 k text in
  len mac = 20 ->
  len (enc_tlvs l ++ enc_tlv (T_MI, mac) ++ rest) < 65536 ->
  verify_attr (Some k) (InputText.header typ (len (enc_tlvs l ++ enc_tlv (T_MI, mac) ++ rest)) txid ++ enc_tlvs l ++ enc_tlv (T_MI, mac) ++ rest)
              (p, (T_MI, mac)) = true.
Proof. exact WireProofs.accepts_own_mi. Qed.
Theorem C04_accepts_own_sha256 : forall k typ txid l rest p,
  typ < 65536 -> length txid = 12%nat -> forallb tlv_ok l = true -> (forall a, In a l -> fst a <> T_SHA) ->
  let text := InputText.header typ (len (enc_tlvs l) + 36) txid ++ enc_tlvs l in
  let mac := hmac_sha256 k text in
  len mac = 32 ->
  len (enc_tlvs l ++ enc_tlv (T_SHA, mac) ++ rest) < 65536 ->
  verify_attr (Some k) (InputText.header typ (len (enc_tlvs l ++ enc_tlv (T_SHA, mac) ++ rest)) txid ++ enc_tlvs l ++ enc_tlv (T_SHA, mac) ++ rest)
              (p, (T_SHA, mac)) = true.
Proof. exact WireProofs.accepts_own_sha. Qed.
Print Assumptions C04_accepts_own_mi.
Print Assumptions C04_accepts_own_sha256.

(* without a key nothing is accepted; acceptance under another key, or of a message whose protected text differs, is an
   explicit HMAC collision ("never" in the property = no HMAC collision; no theorem here excludes collisions) *)
Theorem C04_no_key_no_accept : forall b p v,
  verify_attr None b (p, (T_MI, v)) = false /\ verify_attr None b (p, (T_SHA, v)) = false.
Proof. exact WireProofs.no_key_no_accept. Qed.
Theorem C04_tamper_needs_collision : forall k k' b b' p p' v,
  verify_attr (Some k) b (p, (T_MI, v)) = true -> verify_attr (Some k') b' (p', (T_MI, v)) = true ->
  exists t t', input_text b T_MI = Ok t /\ input_text b' T_MI = Ok t' /\ hmac_sha1 k t = hmac_sha1 k' t'.
Proof. exact WireProofs.tamper_needs_collision. Qed.
Theorem C04_tamper_needs_collision_sha256 : forall k k' b b' p p' v,
  verify_attr (Some k) b (p, (T_SHA, v)) = true -> verify_attr (Some k') b' (p', (T_SHA, v)) = true ->
  exists t t', input_text b T_SHA = Ok t /\ input_text b' T_SHA = Ok t' /\ hmac_sha256 k t = hmac_sha256 k' t'.
Proof. exact WireProofs.tamper_needs_collision_sha256. Qed.
Print Assumptions C04_tamper_needs_collision.

(* the Gallina HMACs are the RFC ones: RFC 2202 / RFC 4231 test case 2, and the stun-rs documentation's long-term key *)
Example C04_hmac_sha1_rfc2202 : hex (hmac_sha1 [74;101;102;101] [119;104;97;116;32;100;111;32;121;97;32;119;97;110;116;32;102;111;114;32;110;111;116;104;105;110;103;63])
  = 0xeffcdf6ae5eb2fa2d27416d5f184df9c259a7c79.
Proof. vm_compute. reflexivity. Qed.
Example C04_lt_key_doc : Sha1Md5.hex (md5 [117;115;101;114;58;114;101;97;108;109;58;112;97;115;115]) = 0x8493FBC53BA582FB4C044C456BDC40EB.
Proof. vm_compute. reflexivity. Qed.

(* the keys (Codec/Keys.v, compared with HMACKey::new_short_term / new_long_term on generated strings by the wire suite):
   short-term K = OpaqueString(password); long-term K = MD5 or SHA-256 of user ":" OpaqueString(realm) ":" OpaqueString(password) *)
Example C04_keys_definition : forall user realm password,
  lt_key user realm password 1 = match precis_sp realm, precis_sp password with
                                 | VOk r, VOk p => VOk (md5 (user ++ [58] ++ r ++ [58] ++ p))
                                 | VOk _, VErr | VErr, _ => VErr
                                 | VOk _, VPanic | VPanic, _ => VPanic
                                 | VOk _, VUnmodelled | VUnmodelled, _ => VUnmodelled end.
Proof. intros. unfold lt_key. destruct (precis_sp realm), (precis_sp password); reflexivity. Qed.

(* ---- the published vectors, through the Gallina decoder with real validation (Rfc/Rfc5769.v): RFC 5769 2.1 validates under
   the short-term key, the low bit of every byte up to and including the MAC (and of the FINGERPRINT length and value) flipped
   in turn is rejected, a wrong key is rejected; RFC 5769 2.4 and RFC 8489 B.1 verify under MD5(user:realm:password) *)
From Rustun Require Import Codec.WireFull Rfc.Rfc5769.
Example C04_rfc5769_request : decode dec_ok_full (validating stk) sample_request = WOk 108 [0; 1; 2; 3; 4; 5].
Proof. exact rfc5769_request_validates. Qed.
Example C04_rfc5769_request_faults :
  forallb (fun i => negb (is_wok (decode dec_ok_full (validating stk) (flip_at i sample_request)))) (seq 0 100 ++ seq 101 7) = true.
Proof. exact rfc5769_request_every_byte_protected. Qed.
Example C04_rfc5769_wrong_key : decode dec_ok_full (validating (flip_last stk)) sample_request = WErr.
Proof. exact rfc5769_request_wrong_key. Qed.
Example C04_rfc8489_b1 : decode dec_ok_full (validating ltk) sample_long_term_sha256 = WOk 156 [0; 1; 2; 3].
Proof. exact rfc8489_b1_validates. Qed.

(* ---- which bytes the MAC covers, by the Rust text itself: get_input_text of raw.rs (with RawMessage::decode and the
   attribute iterator it calls) is translated by tools/rs2v.py from /repo's CURRENT source on every run (Generated/Code.v).
   For ALL byte strings and attribute types the translated code never panics, never runs out of fuel, and returns exactly
   the text the model `input_text` of the theorems above returns (an error where the model has one); on a buffer whose
   header MessageHeader::decode refuses it returns an error (the model's input_text is only ever called by Wire.decode after
   the same header check, hence the case split).  Proofs/CodeAgreeRaw.v *)
From Rustun Require Import Base.GRes Generated.Code Proofs.CodeAgreeRaw.
Theorem C04_code_input_text_is_model : forall b ty, Tlv.bytes_ok b = true ->
  (Wire.hdr_valid b = true ->
     gen_get_input_text (S (length b)) b ty
     = GOk (match InputText.input_text b ty with Tlv.Ok t => Some t | _ => None end)
     /\ InputText.input_text b ty <> Tlv.Panic)
  /\ (Wire.hdr_valid b = false -> gen_get_input_text (S (length b)) b ty = GOk None).
Proof. exact CodeAgreeRaw.gen_get_input_text_is_model. Qed.
Print Assumptions C04_code_input_text_is_model.
