(* C13 — Every packet the client emits is well formed and retransmissions are identical (abstract-message level). Statements only; proofs live in the imported files. *)
From Coq Require Import List NArith Bool.
Import ListNotations.
From Rustun Require Import Agent.Rto Agent.Model Agent.Monitors Proofs.AgentInv Proofs.AgentTrace Proofs.AgentMech.
Open Scope N_scope.

(* integrity and fingerprint attributes are the final attributes, in the order MI, SHA256, FINGERPRINT, each at most once — for every mechanism, state and application list *)
Theorem C13_tail_ok :
  forall (c : client) (is_request : bool) (app : list attr) (x : attrs),
         prepare c is_request app = inl (Some x) -> tail_ok (flatten x) = true.
Proof. exact AgentMech.prepare_tail_ok. Qed.
Print Assumptions C13_tail_ok.

(* one attribute per type (application-supplied credential / integrity / fingerprint attributes are replaced, not duplicated) *)
Theorem C13_types_nodup :
  forall (c : client) (is_request : bool) (app : list attr) (x : attrs),
         app_wf app -> prepare c is_request app = inl (Some x) -> types_nodup (flatten x) = true.
Proof. exact AgentMech.prepare_types_nodup. Qed.
Print Assumptions C13_types_nodup.

(* the application's attributes come first, one per type in first-insertion order *)
Theorem C13_app_prefix :
  forall (c : client) (is_request : bool) (app : list attr) (x : attrs) (k : N),
         app_wf app ->
         mech_code_ok (mech_ c) k ->
         prepare c is_request app = inl (Some x) ->
         is_prefix (app_expected k (use_fp (cfg c)) app)
           (filter (fun a : attr => negb (is_integ a || a_is_fp a)) (flatten x)) attr_eqb = true.
Proof. exact AgentMech.prepare_app_prefix. Qed.
Print Assumptions C13_app_prefix.

Theorem C13_fingerprint_last :
  forall (c : client) (is_request : bool) (app0 : list attr) (x : attrs),
         use_fp (cfg c) = true ->
         prepare c is_request app0 = inl (Some x) ->
         last_attr (flatten x) = Some (AFP true) /\ (exists l : list attr, flatten x = l ++ [AFP true]).
Proof. exact AgentMech.fingerprint_last. Qed.
Print Assumptions C13_fingerprint_last.

Theorem C13_st_layout :
  forall (s : st_mech) (app0 : list attr),
         flatten (st_prepare s (of_list app0)) =
         remove_first 6 (ord (of_list app0)) ++ [UserName 0] ++ st_tail s ++ opt_list (sl_fp (of_list app0)) /\
         has_ty 6 (remove_first 6 (ord (of_list app0))) = false.
Proof. exact AgentMech.st_prepare_layout_client. Qed.
Print Assumptions C13_st_layout.

Theorem C13_lt_layout :
  forall (c : client) (s : lt_mech) (p : lt_params) (app0 : list attr),
         mech_ c = MLT s ->
         lt_pr s = Some p ->
         exists x : attrs,
           prepare c true app0 = inl (Some x) /\
           flatten x = ord (strip_lt (of_list app0)) ++ lt_creds (lt_st s) p ++ opt_list (client_fp c app0) /\
           slot_ok a_is_fp (client_fp c app0).
Proof. exact AgentMech.lt_client_layout. Qed.
Print Assumptions C13_lt_layout.

(* every retransmission is the packet first sent *)
Theorem C13_retransmission_identical :
  forall (c : client) (ops : list op) (pre : list event) (j : txid) (p : msg) (post : list event),
         T c = [] -> snd (run c ops) = pre ++ Out j false p :: post -> In (Out j true p) pre.
Proof. exact AgentMech.retransmission_identical. Qed.
Print Assumptions C13_retransmission_identical.

Theorem C13_retransmission_identical_step :
  forall (c : client) (o : op) (c' : client) (r : reply) (evs : list event),
         step c o = (c', r, evs) ->
         (forall (j : txid) (p : msg),
          In (Out j false p) evs -> exists x : txn, lookup j (T c) = Some x /\ pkt x = p) /\
         (forall (j : txid) (x' : txn),
          lookup j (T c') = Some x' ->
          (exists x : txn, lookup j (T c) = Some x /\ pkt x' = pkt x) \/ In (Out j true (pkt x')) evs).
Proof. exact AgentMech.retransmission_identical_step. Qed.
Print Assumptions C13_retransmission_identical_step.

(* ---- the property in exactly the form in which the implementation is judged: the spec monitor of this property
   (Agent/Monitors.v, from the property text; it runs on every observed call of the implementation) accepts EVERY step of
   EVERY well-formed history of the model (fresh transaction ids, monotone instants, positive RTO; application attribute lists as the harness generates them: no integrity / fingerprint types, no pre-corrupted FINGERPRINT), for every configuration
   and credential mechanism (Proofs/AgentMeets.v: obs_of, run_mon; Proofs/AgentMeets2.v) *)
From Rustun Require Import Agent.Rto Agent.Model Agent.Monitors Proofs.AgentMeets Proofs.AgentMeets2.
Theorem C13_model_meets_monitor : forall (cf:config) (m:mech) (mc:mcfg) (cc:ccfg) (ops:list op),
  consistent mc cf -> consistent_cc cc cf m -> well_formed_history ops -> wf_apps ops -> verdicts_true 13 (run_mon mc cc (init cf m) (mall0 cc) ops).
Proof. exact AgentMeets2.model_meets_C13. Qed.
Print Assumptions C13_model_meets_monitor.

(* ---- BYTE level (Agent/Concrete.v, Proofs/ConcreteProofs.v). `craft_packet class method txid attrs` renders an abstract packet
   of the model to bytes through the steps of the MessageEncoder::encode model; suite absglue compares it on every run with
   the bytes the implementation's encoder produced for the packets the client emitted. *)
From Rustun Require Import Base.Tlv Codec.EncodeInto Codec.InputText Codec.EncodeMsg Codec.Wire Codec.WireFull Agent.AbsGlue Agent.Concrete
  Proofs.ConcreteProofs.

(* the rendering in closed form: header ++ TLVs, every MAC / CRC computed over the header (length up to the end of its own
   attribute) ++ the TLVs before it; and it is what the encoder model writes into ANY buffer that is large enough *)
Theorem C13_bytes_closed_form : forall class method txid attrs, length txid = 12%nat -> size_ok attrs = true ->
  craft_packet class method txid attrs = Ok (packet_bytes (msg_type_of method class) txid attrs).
Proof. exact ConcreteProofs.craft_packet_closed. Qed.
Print Assumptions C13_bytes_closed_form.
Theorem C13_bytes_are_encoder_output : forall buf typ txid attrs, length txid = 12%nat -> size_ok attrs = true ->
  forallb (fun a => negb (is_corrupt a)) attrs = true -> craft_needed attrs <= len buf ->
  encode_msg buf typ txid (map craft_e attrs) = Ok (packet_bytes typ txid attrs ++ drop (craft_needed attrs) buf, craft_needed attrs).
Proof. exact ConcreteProofs.encode_msg_packet_bytes. Qed.
Print Assumptions C13_bytes_are_encoder_output.

(* abs_craft: the reader of the harness glue, as a Gallina function, reads the rendering of a well-formed abstract packet
   (tokens inside the vocabulary, keys among the candidates, sizes within 16 bits) back as the same abstract packet, provided
   no candidate key tried EARLIER yields the same HMAC over the same text (a boolean over the concrete packet) *)
Theorem C13_abs_craft : forall realms class method txid attrs,
  class < 4 -> method < 4096 -> length txid = 12%nat ->
  attrs_ok realms attrs = true -> size_ok attrs = true ->
  no_collision realms class method txid attrs = true ->
  exists b, craft_packet class method txid attrs = Ok b /\ abs_packet realms b = Some (class, method, attrs).
Proof. exact ConcreteProofs.abs_craft. Qed.
Print Assumptions C13_abs_craft.
Example C13_no_collision_holds : no_collision [1] 0 1 ex_txid ex_attrs = true.
Proof. exact ConcreteProofs.ex_no_collision. Qed.

(* craft_decodes: a rendered packet whose integrity / fingerprint attributes are the final ones decodes with the byte-level
   decoder model (any instance `dec_ok` of the typed decoders that accepts its values): the whole length is consumed, every
   attribute is returned; and WITH validation under the key its integrity attributes were produced with *)
Theorem C13_craft_decodes : forall dec_ok class method txid attrs,
  class < 4 -> method < 4096 -> length txid = 12%nat ->
  size_ok attrs = true -> tail_ok attrs = true -> plain_apps attrs = true ->
  let typ := msg_type_of method class in
  let b := packet_bytes typ txid attrs in
  typed_accept dec_ok false (take 20 b) (final_tlvs typ txid [] attrs) = true ->
  craft_packet class method txid attrs = Ok b
  /\ decode dec_ok None b = WOk (len b) (positions 0 (length attrs))
  /\ (forall k, keys_are k attrs = true -> forallb (fun a => negb (is_corrupt a)) attrs = true ->
      decode dec_ok (Some (validating (key_bytes k))) b = WOk (len b) (positions 0 (length attrs))).
Proof. exact ConcreteProofs.craft_decodes. Qed.
Print Assumptions C13_craft_decodes.

(* client_packet_bytes: for every client state, credential mechanism and application list, the packet `prepare` produces,
   rendered to bytes: is the encoder model's output; decodes (all attributes, whole length); decodes WITH validation under
   the key of its integrity attributes — "each verifying under the configured credentials" at byte level, the key being the
   configured one by the two theorems that follow; with fingerprints configured it ends in a FINGERPRINT that carries the
   CRC-32 of everything before it (InputText.encode_with_fp, the form C10_accepts_own speaks of) *)
Theorem C13_client_packet_bytes : forall dec_ok c is_request app x class method txid,
  app_wf app -> prepare c is_request app = inl (Some x) ->
  class < 4 -> method < 4096 -> length txid = 12%nat -> size_ok (flatten x) = true ->
  let typ := msg_type_of method class in
  let b := packet_bytes typ txid (flatten x) in
  typed_accept dec_ok false (take 20 b) (final_tlvs typ txid [] (flatten x)) = true ->
  craft_packet class method txid (flatten x) = Ok b
  /\ (forallb (fun a => negb (is_corrupt a)) (flatten x) = true -> encode_packet class method txid (flatten x) = Ok b)
  /\ decode dec_ok None b = WOk (len b) (positions 0 (length (flatten x)))
  /\ (forall k, keys_are k (flatten x) = true -> forallb (fun a => negb (is_corrupt a)) (flatten x) = true ->
      decode dec_ok (Some (validating (key_bytes k))) b = WOk (len b) (positions 0 (length (flatten x))))
  /\ (use_fp (cfg c) = true -> exists pre, flatten x = pre ++ [AFP true] /\ b = encode_with_fp typ txid (final_tlvs typ txid [] pre)).
Proof. exact ConcreteProofs.client_packet_bytes. Qed.
Print Assumptions C13_client_packet_bytes.
Theorem C13_client_keys_st : forall c s is_request app x, mech_ c = MST s -> prepare c is_request app = inl (Some x) ->
  keys_are (KST 0) (flatten x) = true.
Proof. exact ConcreteProofs.client_keys_st. Qed.
Theorem C13_client_keys_lt : forall c s p app x, mech_ c = MLT s -> lt_pr s = Some p -> keyd_eqb (p_key p) (p_key p) = true ->
  prepare c true app = inl (Some x) -> keys_are (p_key p) (flatten x) = true.
Proof. exact ConcreteProofs.client_keys_lt. Qed.
Theorem C13_client_clean : forall c is_request app x, prepare c is_request app = inl (Some x) ->
  forallb (fun a => negb (is_corrupt a)) app = true ->
  (forall s p, mech_ c = MLT s -> lt_pr s = Some p -> p_key p <> KCorrupt) ->
  forallb (fun a => negb (is_corrupt a)) (flatten x) = true.
Proof. exact ConcreteProofs.client_clean. Qed.
Print Assumptions C13_client_keys_st.
Print Assumptions C13_client_keys_lt.
Print Assumptions C13_client_clean.

(* non-vacuity, by computation: a long-term request with fingerprint as `prepare` produces it decodes and validates under the
   long-term key with the FULL instance of the typed decoders (all 38 kinds of Codec/AttrValue.v) *)
Example C13_client_packet_example :
  let b := packet_bytes (msg_type_of 1 0) ex_txid ex_attrs in
  decode dec_ok_full (Some (validating (key_bytes (KLT 1 0 SHA256)))) b = WOk (len b) [0; 1; 2; 3; 4; 5; 6; 7; 8; 9].
Proof. exact ConcreteProofs.ex_client_packet. Qed.

(* the same for the FULL instance of the typed decoders (all 38 kinds of Codec/AttrValue.v), no acceptance hypothesis: the
   vocabulary of the client (SOFTWARE / PRIORITY / USE-CANDIDATE / unregistered application types, USERNAME, USERHASH, REALM,
   NONCE flavours 0..5, PASSWORD-ALGORITHMS, PASSWORD-ALGORITHM, the integrity attributes, FINGERPRINT) is accepted *)
Theorem C13_client_packet_bytes_full : forall c is_request app x class method txid,
  app_wf app -> prepare c is_request app = inl (Some x) ->
  class < 4 -> method < 4096 -> length txid = 12%nat -> size_ok (flatten x) = true -> forallb full_voc (flatten x) = true ->
  let typ := msg_type_of method class in
  let b := packet_bytes typ txid (flatten x) in
  craft_packet class method txid (flatten x) = Ok b
  /\ decode dec_ok_full None b = WOk (len b) (positions 0 (length (flatten x)))
  /\ (forall k, keys_are k (flatten x) = true -> forallb (fun a => negb (is_corrupt a)) (flatten x) = true ->
      decode dec_ok_full (Some (validating (key_bytes k))) b = WOk (len b) (positions 0 (length (flatten x))))
  /\ (use_fp (cfg c) = true -> exists pre, flatten x = pre ++ [AFP true] /\ b = encode_with_fp typ txid (final_tlvs typ txid [] pre)).
Proof. exact ConcreteProofs.client_packet_bytes_full. Qed.
Print Assumptions C13_client_packet_bytes_full.
Theorem C13_client_full_voc : forall c is_request app x, prepare c is_request app = inl (Some x) ->
  forallb full_voc app = true ->
  (forall s p, mech_ c = MLT s -> lt_pr s = Some p -> snd (p_nonce p) <= 5) ->
  forallb full_voc (flatten x) = true.
Proof. exact ConcreteProofs.client_full_voc. Qed.
Print Assumptions C13_client_full_voc.

(* ---- the two extra long-term monitors the driver runs next to mon_C13 on every observed call of the implementation, on the
   long-term monitor state BEFORE the call (classes `lt-credential-attributes`, `lt-integrity-key`): they accept EVERY step of
   EVERY well-formed history of the model, for every configuration and credential mechanism (Proofs/AgentMeets3.v).
   `run_mon_lt` is run_mon recording, for each step, the monitor state before it (lv_before), monitor_step's verdicts
   (lv_verdicts) and the two answers lv_cred = mon_C13_ltcred cc (ma_lt lv_before) .. / lv_key = mon_C13_ltkey cc (ma_lt lv_before) ..;
   C13_lt_run_is_run_mon: its verdict lists are run_mon's; C13_model_meets_lt_monitors_pointwise: the same two facts without
   run_mon_lt, on the state monitor_step has threaded through any prefix of the history. wf_apps is not used by the proofs. *)
From Rustun Require Import Proofs.AgentMeets3.
Theorem C13_lt_run_is_run_mon : forall (mc:mcfg) (cc:ccfg) (ops:list op) (c:client) (s:mall),
  map lv_verdicts (run_mon_lt mc cc c s ops) = run_mon mc cc c s ops.
Proof. exact AgentMeets3.run_mon_lt_verdicts. Qed.
Print Assumptions C13_lt_run_is_run_mon.
Theorem C13_model_meets_ltcred_monitor : forall (cf:config) (m:mech) (mc:mcfg) (cc:ccfg) (ops:list op),
  consistent mc cf -> consistent_cc cc cf m -> well_formed_history ops -> wf_apps ops ->
  forall x, In x (run_mon_lt mc cc (init cf m) (mall0 cc) ops) -> lv_cred x = true.
Proof. exact AgentMeets3.model_meets_C13_ltcred. Qed.
Print Assumptions C13_model_meets_ltcred_monitor.
Theorem C13_model_meets_ltkey_monitor : forall (cf:config) (m:mech) (mc:mcfg) (cc:ccfg) (ops:list op),
  consistent mc cf -> consistent_cc cc cf m -> well_formed_history ops -> wf_apps ops ->
  forall x, In x (run_mon_lt mc cc (init cf m) (mall0 cc) ops) -> lv_key x = true.
Proof. exact AgentMeets3.model_meets_C13_ltkey. Qed.
Print Assumptions C13_model_meets_ltkey_monitor.
Theorem C13_model_meets_lt_monitors_pointwise : forall (cf:config) (m:mech) (mc:mcfg) (cc:ccfg) (a:list op) (o:op) (b:list op),
  consistent mc cf -> consistent_cc cc cf m -> well_formed_history (a ++ o :: b) ->
  let c1 := fst (run_state mc cc (init cf m) (mall0 cc) a) in
  let s1 := snd (run_state mc cc (init cf m) (mall0 cc) a) in
  let c' := fst (fst (step c1 o)) in let rep := snd (fst (step c1 o)) in let evs := snd (step c1 o) in
  mon_C13_ltcred cc (ma_lt s1) (mop_of o rep) (obs_of c1 c' o rep evs) = true
  /\ mon_C13_ltkey cc (ma_lt s1) (mop_of o rep) (obs_of c1 c' o rep evs) = true.
Proof. exact AgentMeets3.model_meets_C13_lt_pointwise. Qed.
Print Assumptions C13_model_meets_lt_monitors_pointwise.

(* ---- the attribute collection of stun-agent/src/message.rs, TRANSLATED from the Rust text (Generated/Code.v), is the model's
   (Proofs/CodeAgreeAttrs.v): for ANY encoding enc of the abstract attributes as (wire type, payload) that keeps the wire type,
   with conv enc mapping it over the ordinary list and the three slots,
   - StunAttributes::add of a well-formed attribute (an `App ty _` has a type outside {8, 28, 32808}) is add_attr, on EVERY state;
   - StunAttributes::remove::<T> on a well-formed state (the ordinary list holds none of the three types, the slots hold wire
     types 8 / 28 / 32808) is remove, returns the element `removed` names, and never takes the panic branches of
     `Vec::remove(index)`; add_attr and remove preserve well-formedness (CodeAgreeAttrs.attrs_wf_add / attrs_wf_remove);
   - adding a whole application list to the empty collection gives of_list, and From<StunAttributes> for Vec<StunAttribute>
     (hand-written after the Rust text: gen_StunAttributes_into_vec) gives the flatten the theorems above are about. *)
From Rustun Require Import Base.GRes Generated.Code Proofs.CodeAgreeAttrs.
Theorem C13_code_attributes_add_is_model : forall (enc : attr -> N * N),
  (forall a : attr, fst (enc a) = wire_type a) ->
  forall (s : attrs) (a : attr), attr_wf a ->
  gen_StunAttributes_add (conv enc s) (enc a) = GOk (conv enc (add_attr a s)).
Proof. exact CodeAgreeAttrs.gen_add_agrees. Qed.
Print Assumptions C13_code_attributes_add_is_model.
Theorem C13_code_attributes_remove_is_model : forall (enc : attr -> N * N),
  (forall a : attr, fst (enc a) = wire_type a) ->
  forall (s : attrs) (ty : N), attrs_wf s ->
  gen_StunAttributes_remove (conv enc s) ty = GOk (option_map enc (removed ty s), conv enc (remove ty s)).
Proof. exact CodeAgreeAttrs.gen_remove_agrees. Qed.
Print Assumptions C13_code_attributes_remove_is_model.
Theorem C13_code_attributes_of_list_is_model : forall (enc : attr -> N * N),
  (forall a : attr, fst (enc a) = wire_type a) ->
  forall l : list attr, app_wf l ->
  gen_add_all (map enc l) gen_StunAttributes_default = GOk (conv enc (of_list l))
  /\ (forall v : StunAttributes, gen_add_all (map enc l) gen_StunAttributes_default = GOk v ->
        gen_StunAttributes_into_vec v = map enc (flatten (of_list l))).
Proof. exact CodeAgreeAttrs.gen_of_list_agrees. Qed.
Print Assumptions C13_code_attributes_of_list_is_model.
