(* C13 — Every packet the client emits is well formed and retransmissions are identical (abstract-message level). Statements only; proofs live in the imported files. *)
From Coq Require Import List NArith Bool.
Import ListNotations.
From Rustun Require Import Agent.Rto Agent.Model Agent.Monitors Proofs.AgentInv Proofs.AgentTrace Proofs.AgentMech.
Open Scope N_scope.

(* integrity and fingerprint attributes are the final attributes, in the order MI, SHA256, FINGERPRINT, each at most once — for every mechanism, state and application list *)
Theorem C13_tail_ok :
  forall (c : client) (is_request : bool) (app : list attr) (x : attrs),
         prepare c is_request app = inl (Some x) -> tail_ok (flatten x) = true.
Proof. exact AgentMech.prepare_tail_ok. Qed.
Print Assumptions C13_tail_ok.

(* one attribute per type (application-supplied credential / integrity / fingerprint attributes are replaced, not duplicated) *)
Theorem C13_types_nodup :
  forall (c : client) (is_request : bool) (app : list attr) (x : attrs),
         app_wf app -> prepare c is_request app = inl (Some x) -> types_nodup (flatten x) = true.
Proof. exact AgentMech.prepare_types_nodup. Qed.
Print Assumptions C13_types_nodup.

(* the application's attributes come first, one per type in first-insertion order *)
Theorem C13_app_prefix :
  forall (c : client) (is_request : bool) (app : list attr) (x : attrs) (k : N),
         app_wf app ->
         mech_code_ok (mech_ c) k ->
         prepare c is_request app = inl (Some x) ->
         is_prefix (app_expected k (use_fp (cfg c)) app)
           (filter (fun a : attr => negb (is_integ a || a_is_fp a)) (flatten x)) attr_eqb = true.
Proof. exact AgentMech.prepare_app_prefix. Qed.
Print Assumptions C13_app_prefix.

Theorem C13_fingerprint_last :
  forall (c : client) (is_request : bool) (app0 : list attr) (x : attrs),
         use_fp (cfg c) = true ->
         prepare c is_request app0 = inl (Some x) ->
         last_attr (flatten x) = Some (AFP true) /\ (exists l : list attr, flatten x = l ++ [AFP true]).
Proof. exact AgentMech.fingerprint_last. Qed.
Print Assumptions C13_fingerprint_last.

Theorem C13_st_layout :
  forall (s : st_mech) (app0 : list attr),
         flatten (st_prepare s (of_list app0)) =
         remove_first 6 (ord (of_list app0)) ++ [UserName 0] ++ st_tail s ++ opt_list (sl_fp (of_list app0)) /\
         has_ty 6 (remove_first 6 (ord (of_list app0))) = false.
Proof. exact AgentMech.st_prepare_layout_client. Qed.
Print Assumptions C13_st_layout.

Theorem C13_lt_layout :
  forall (c : client) (s : lt_mech) (p : lt_params) (app0 : list attr),
         mech_ c = MLT s ->
         lt_pr s = Some p ->
         exists x : attrs,
           prepare c true app0 = inl (Some x) /\
           flatten x = ord (strip_lt (of_list app0)) ++ lt_creds (lt_st s) p ++ opt_list (client_fp c app0) /\
           slot_ok a_is_fp (client_fp c app0).
Proof. exact AgentMech.lt_client_layout. Qed.
Print Assumptions C13_lt_layout.

(* every retransmission is the packet first sent *)
Theorem C13_retransmission_identical :
  forall (c : client) (ops : list op) (pre : list event) (j : txid) (p : msg) (post : list event),
         T c = [] -> snd (run c ops) = pre ++ Out j false p :: post -> In (Out j true p) pre.
Proof. exact AgentMech.retransmission_identical. Qed.
Print Assumptions C13_retransmission_identical.

Theorem C13_retransmission_identical_step :
  forall (c : client) (o : op) (c' : client) (r : reply) (evs : list event),
         step c o = (c', r, evs) ->
         (forall (j : txid) (p : msg),
          In (Out j false p) evs -> exists x : txn, lookup j (T c) = Some x /\ pkt x = p) /\
         (forall (j : txid) (x' : txn),
          lookup j (T c') = Some x' ->
          (exists x : txn, lookup j (T c) = Some x /\ pkt x' = pkt x) \/ In (Out j true (pkt x')) evs).
Proof. exact AgentMech.retransmission_identical_step. Qed.
Print Assumptions C13_retransmission_identical_step.

(* ---- the property in exactly the form in which the implementation is judged: the spec monitor of this property
   (Agent/Monitors.v, from the property text; it runs on every observed call of the implementation) accepts EVERY step of
   EVERY well-formed history of the model (fresh transaction ids, monotone instants, positive RTO; application attribute lists as the harness generates them: no integrity / fingerprint types, no pre-corrupted FINGERPRINT), for every configuration
   and credential mechanism (Proofs/AgentMeets.v: obs_of, run_mon; Proofs/AgentMeets2.v) *)
From Rustun Require Import Agent.Rto Agent.Model Agent.Monitors Proofs.AgentMeets Proofs.AgentMeets2.
Theorem C13_model_meets_monitor : forall (cf:config) (m:mech) (mc:mcfg) (cc:ccfg) (ops:list op),
  consistent mc cf -> consistent_cc cc cf m -> well_formed_history ops -> wf_apps ops -> verdicts_true 13 (run_mon mc cc (init cf m) (mall0 cc) ops).
Proof. exact AgentMeets2.model_meets_C13. Qed.
Print Assumptions C13_model_meets_monitor.
