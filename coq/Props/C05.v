(* C05 — Each request gets at most one final outcome and then falls silent. Statements only.
   Model.step is the client model compared with the implementation on every run (suite agent). Finals are Retry, Failed
   and Received of a response; ids are assumed never reused (fresh_trace). *)
From Coq Require Import List NArith Bool.
Import ListNotations.
From Rustun Require Import Agent.Rto Agent.Model Proofs.AgentInv Proofs.AgentTrace.
Open Scope N_scope.

(* the invariant: one timer entry per outstanding request, no duplicates, for every reachable state *)
Theorem C05_inv_step : forall c o, Inv c -> fresh_for c o -> Inv (fst (fst (step c o))).
Proof. exact AgentInv.inv_step. Qed.
Theorem C05_inv_init : forall cf m, Inv (init cf m).
Proof. exact AgentInv.inv_init. Qed.
Print Assumptions C05_inv_step.

(* what one call may emit: finals are outstanding before and gone after, pairwise distinct; retransmissions and
   notifications only name requests outstanding after the call; ids enter the table only through send_request *)
Theorem C05_step_events_spec : forall c o, Inv c -> fresh_for c o -> let '(c', _, ev) := step c o in step_ok c o c' ev.
Proof. exact AgentTrace.step_events_spec. Qed.
Print Assumptions C05_step_events_spec.

(* over any history, of any length, with any number of concurrent requests, any timer lateness, any replies *)
Theorem C05_at_most_one_final : forall ops c, Inv c -> fresh_trace (ids_t (T c)) ops -> NoDup (finals (snd (run c ops))).
Proof. exact AgentTrace.at_most_one_final. Qed.
Print Assumptions C05_at_most_one_final.

Theorem C05_silent_after_final : forall c ops1 ops2 x,
  Inv c -> fresh_trace (ids_t (T c)) (ops1 ++ ops2) -> In x (finals (snd (run c ops1))) ->
  let evs2 := snd (run (fst (run c ops1)) ops2) in
  (forall p, ~ In (Out x false p) evs2) /\ (forall left, ~ In (Notif x left) evs2) /\ ~ In (Retry x) evs2 /\
  (forall rs, ~ In (Failed x rs) evs2) /\ (forall m, is_response m = true -> m_id m = x -> ~ In (Received m) evs2).
Proof. exact AgentTrace.silent_after_final_explicit. Qed.
Print Assumptions C05_silent_after_final.

(* a response is only ever delivered for a transaction still awaiting one; late and duplicate responses are discarded *)
Theorem C05_late_response_discarded : forall c now w,
  ~ In (m_id w) (ids_t (T c)) -> is_response w = true -> step c (Recv now true w) = (c, RDiscarded, []).
Proof. exact AgentTrace.late_response_discarded. Qed.
Theorem C05_response_after_final_discarded : forall c ops x now w,
  Inv c -> fresh_trace (ids_t (T c)) ops -> In x (finals (snd (run c ops))) -> m_id w = x -> is_response w = true ->
  step (fst (run c ops)) (Recv now true w) = (fst (run c ops), RDiscarded, []).
Proof. exact AgentTrace.response_after_final_discarded. Qed.
Print Assumptions C05_response_after_final_discarded.

(* non-vacuity: a request, its retransmission, its response, then a duplicate of the response *)
Example C05_example :
  let cf := {| reliable := false; cf_rm := 16; cf_rc := 7; limit := 10; use_fp := false |} in
  let resp := {| m_class := CSuccess; m_method := 1; m_id := 0; m_attrs := [] |} in
  map (fun x => snd (fst x)) [step (fst (run (init cf MNone) [Send 0 0 500 1 [] true; Tmo 500; Recv 600 true resp])) (Recv 700 true resp)]
  = [RDiscarded].
Proof. vm_compute. reflexivity. Qed.

(* ---- the property in exactly the form in which the implementation is judged: the spec monitor of this property
   (Agent/Monitors.v, written from the property text; it runs on every observed call of the implementation) accepts EVERY
   step of EVERY well-formed history of the model (fresh transaction ids, monotone instants, positive RTO), for every
   configuration. `obs_of` (Proofs/AgentMeets.v) builds the observation of a model step the way ocaml/driver.ml builds it
   from the implementation's output; run_mon runs model and monitors in lockstep; every step is judged (run_mon_judged). *)
From Rustun Require Import Agent.Rto Agent.Model Agent.Monitors Proofs.AgentMeets.
Theorem C05_model_meets_monitor : forall (cf:config) (m:mech) (mc:mcfg) (cc:ccfg) (ops:list op),
  consistent mc cf -> well_formed_history ops -> verdicts_true 5 (run_mon mc cc (init cf m) (mall0 cc) ops).
Proof. exact AgentMeets.model_meets_C05. Qed.
Print Assumptions C05_model_meets_monitor.
Theorem C05_every_step_judged : forall mc cc ops c s vs, In vs (run_mon mc cc c s ops) -> exists b cl, In (5%N, b, cl) vs.
Proof. intros mc cc ops c s vs H. apply (AgentMeets.run_mon_judged mc cc ops c s vs 5 H). cbn. tauto. Qed.
