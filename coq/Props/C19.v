(* C19 — Value types never panic and clones are independent. Statements only. *)
From Coq Require Import List NArith Bool.
Import ListNotations.
From Rustun Require Import Agent.ArcHeap Proofs.ArcHeapProofs.

(* one operation of a script over a reference-counted heap with copy-on-write (Arc::make_mut: the repaired
   PasswordAlgorithms::add, and UnknownAttributes::add) returns what value semantics returns, never panics, and keeps
   the refinement relation (references to a cell <= its count) *)
Theorem C19_step_refines : forall s p o, Rel s p -> ok_op p o ->
  let '(s', r) := step true s o in let '(p', r') := pstep p o in r = r' /\ r <> HPanic /\ Rel s' p'.
Proof. exact ArcHeap.step_refines. Qed.
Print Assumptions C19_step_refines.

(* for every well-formed script "build, clone, mutate either copy, read" of any length: no panic, and every read returns
   the value its own binding would have if every binding owned its list *)
Theorem C19_clone_independent : forall ops, wf [] ops -> outs_s heap0 ops = outs_p [] ops /\ ~ In HPanic (outs_s heap0 ops).
Proof. exact ArcHeapProofs.clone_independent. Qed.
Print Assumptions C19_clone_independent.

(* the defect of the pinned commit (D3): with Arc::get_mut(..).unwrap() the three-operation script panics *)
Example C19_get_mut_refuted : In HPanic (run false [HNew 0; HClone 0 1; HAdd 0 7%N]).
Proof. exact ArcHeap.C19_get_mut_refuted. Qed.
Example C19_example : outs_s heap0 [HNew 0; HAdd 0 1%N; HClone 0 1; HAdd 0 7%N; HAdd 1 9%N; HRead 0; HRead 1]
  = [HNone; HNone; HNone; HNone; HNone; HVal [1;7]%N; HVal [1;9]%N].
Proof. vm_compute. reflexivity. Qed.

(* ================================================================================================================
   The value-type API (Codec/ValueApi.v: one model function per public constructor / accessor / conversion, `VPanic` at
   every Rust site that can panic).  Statements only; proofs in Proofs/ValueApiProofs.v.  The same functions are run
   against the implementation by the suite `valueapi` (records `C V`). *)
From Rustun Require Import Base.Tlv Crypto.Sha256 Codec.AttrValue Codec.MsgType Codec.Message Codec.ValueApi Proofs.ValueApiProofs.
Open Scope N_scope.

(* ---- message.rs: MessageType::from(u16) never reaches one of its three unwraps, ignores the two top bits, and is the
   inverse of as_u16 on all 4096 x 4 pairs *)
Theorem C19_no_panic_msgtype_from : forall v, va_msgtype_from v <> VPanic.
Proof. exact va_msgtype_from_np. Qed.
Print Assumptions C19_no_panic_msgtype_from.
Theorem C19_msgtype_from_mask : forall v, va_msgtype_from v = va_msgtype_from (N.land v 0x3FFF).
Proof. exact va_msgtype_from_mask. Qed.
Print Assumptions C19_msgtype_from_mask.
Theorem C19_msgtype_from_spec : forall v, exists m c, va_msgtype_from v = VOk (m, c) /\ m < 4096 /\ c < 4 /\
  va_msgtype_as_u16 m c = N.land v 0x3FFF /\ of_u16 v = (m, c).
Proof. exact va_msgtype_from_spec. Qed.
Print Assumptions C19_msgtype_from_spec.
Theorem C19_msgtype_roundtrip : forall m c, m < 4096 -> c < 4 -> va_msgtype_from (va_msgtype_as_u16 m c) = VOk (m, c).
Proof. exact va_msgtype_roundtrip. Qed.
Print Assumptions C19_msgtype_roundtrip.
Theorem C19_no_panic_msgtype_from_bytes : forall b, len b = 2 -> va_msgtype_from_bytes b <> VPanic.
Proof. exact va_msgtype_from_bytes_np. Qed.
Print Assumptions C19_no_panic_msgtype_from_bytes.
Theorem C19_method_try_from : forall v, v < 65536 -> va_method_try_from v = if v <? 4096 then VOk v else VErr.
Proof. exact va_method_try_from_spec. Qed.
Print Assumptions C19_method_try_from.
Theorem C19_class_try_from : forall v, va_class_try_from v = if v <=? 3 then VOk v else VErr.
Proof. exact va_class_try_from_spec. Qed.
Print Assumptions C19_class_try_from.
Theorem C19_family_try_from : forall v,
  (va_family_try_from v = VOk v /\ (v = 1 \/ v = 2)) \/ (va_family_try_from v = VErr /\ v <> 1 /\ v <> 2).
Proof. exact va_family_try_from_spec. Qed.
Print Assumptions C19_family_try_from.
(* every function of the numeric sweeps (MessageType, MessageMethod, MessageClass, AddressFamily, AlgorithmId, ErrorCode,
   IcmpType, IcmpCode, AttributeType, ChangeRequest, padding, the TURN integer types), for every function number and argument *)
Theorem C19_no_panic_numeric : forall fn v, va_num_case fn v <> VPanic.
Proof. exact va_num_case_np. Qed.
Print Assumptions C19_no_panic_numeric.

(* ---- types.rs: ErrorCode::new accepts exactly 300..699 (everything else is an Err, not a panic); on every value it
   builds, class() and number() return without panicking and class * 100 + number = code *)
Theorem C19_error_code_new_accepts : forall code reason, va_error_code_new code reason = VOk (code, reason) <-> 300 <= code < 700.
Proof. exact va_error_code_new_accepts. Qed.
Print Assumptions C19_error_code_new_accepts.
Theorem C19_error_code_new_rejects : forall code reason, code < 300 \/ 700 <= code -> va_error_code_new code reason = VErr.
Proof. exact va_error_code_new_rejects. Qed.
Print Assumptions C19_error_code_new_rejects.
Theorem C19_error_code_accessors : forall code, 300 <= code < 700 ->
  va_ec_number code = VOk (code mod 100) /\ va_ec_class code = VOk (code / 100) /\ (code / 100) * 100 + code mod 100 = code /\
  3 <= code / 100 <= 6 /\ code mod 100 <= 99.
Proof. exact va_ec_accessors. Qed.
Print Assumptions C19_error_code_accessors.
Theorem C19_no_panic_error_code : forall code reason, va_error_code_view code reason <> VPanic.
Proof. exact va_error_code_view_np. Qed.
Print Assumptions C19_no_panic_error_code.
(* agreement with the codec model: the bytes ERROR-CODE is encoded with are these accessor values; the decoder only builds
   values the constructor accepts *)
Theorem C19_error_code_encodes : forall code reason room c n, 300 <= code < 700 -> len reason <= 509 -> 4 + len reason <= room ->
  va_ec_class code = VOk c -> va_ec_number code = VOk n -> av_enc_error_code code reason room = VOk ([0; 0; c; n] ++ reason).
Proof. exact va_error_code_encodes. Qed.
Print Assumptions C19_error_code_encodes.
Theorem C19_error_code_decoded : forall raw code reason,
  av_dec_error_code raw = VOk (code, reason) -> va_error_code_new code reason = VOk (code, reason).
Proof. exact va_error_code_decoded. Qed.
Print Assumptions C19_error_code_decoded.

(* ---- bounded integers, ChangeRequest, padding *)
Theorem C19_icmp_type_new : forall v, va_icmp_type_new v = if v <=? 127 then VOk v else VErr.
Proof. exact va_icmp_type_new_spec. Qed.
Print Assumptions C19_icmp_type_new.
Theorem C19_icmp_code_new : forall v, va_icmp_code_new v = if v <=? 511 then VOk v else VErr.
Proof. exact va_icmp_code_new_spec. Qed.
Print Assumptions C19_icmp_code_new.
Theorem C19_icmp_wf : forall t c d, av_wf 0x8004 (AvIcmp t c d) = true -> va_icmp_type_new t = VOk t /\ va_icmp_code_new c = VOk c.
Proof. exact va_icmp_wf. Qed.
Print Assumptions C19_icmp_wf.
Theorem C19_algid_roundtrip : forall v, va_algid_to (va_algid_from v) = v.
Proof. exact va_algid_roundtrip. Qed.
Print Assumptions C19_algid_roundtrip.
Theorem C19_change_request_roundtrip : forall b, b = 0 \/ b = 2 \/ b = 4 \/ b = 6 ->
  va_change_request_flags (va_change_request_new (Some b)) = b.
Proof. exact va_change_request_roundtrip. Qed.
Print Assumptions C19_change_request_roundtrip.
Theorem C19_padding : forall n, va_padding n = VOk (pad n).
Proof. exact va_padding_spec. Qed.
Print Assumptions C19_padding.

(* ---- fixed-size values: the array conversions accept exactly the documented length; Fingerprint::from([u8; 4]) never
   reaches its `expect` (which a shorter slice would reach); the stored values are the ones the codec decodes *)
Theorem C19_array_from_slice_exact : forall n b, va_array_from_slice n b = VOk b <-> len b = n.
Proof. exact va_array_from_slice_exact. Qed.
Print Assumptions C19_array_from_slice_exact.
Theorem C19_array_from_slice_other : forall n b, len b <> n -> va_array_from_slice n b = VErr.
Proof. exact va_array_from_slice_other. Qed.
Print Assumptions C19_array_from_slice_other.
Theorem C19_no_panic_fingerprint_from : forall b, len b = 4 -> va_fingerprint_from b <> VPanic.
Proof. exact va_fingerprint_from_np. Qed.
Print Assumptions C19_no_panic_fingerprint_from.
Theorem C19_fingerprint_from_short : forall b, len b < 4 -> va_fingerprint_from b = VPanic.
Proof. exact va_fingerprint_from_short. Qed.
Print Assumptions C19_fingerprint_from_short.
Theorem C19_fingerprint_codec : forall hdr b c, va_fingerprint_from b = VOk c -> av_dec_kind AvkFp hdr b = VOk (AvFp c).
Proof. exact va_fingerprint_codec. Qed.
Print Assumptions C19_fingerprint_codec.
Theorem C19_no_panic_cookie_eq : forall b, len b = 4 -> va_cookie_eq b <> VPanic.
Proof. exact va_cookie_eq_np. Qed.
Print Assumptions C19_no_panic_cookie_eq.
Theorem C19_no_panic_header_try_from : forall b, va_header_try_from b <> VPanic.
Proof. exact va_header_try_from_np. Qed.
Print Assumptions C19_no_panic_header_try_from.
Theorem C19_header_agrees : forall b,
  (forall t l x, va_header_try_from b = VOk (t, l, x) -> av_dec_header b = VOk x) /\
  (forall x, av_dec_header b = VOk x -> exists t l, va_header_try_from b = VOk (t, l, x)).
Proof. exact va_header_agrees. Qed.
Print Assumptions C19_header_agrees.

(* ---- string constructors and key derivations: for every byte string (a Rust &str is one of them) *)
Theorem C19_no_panic_nonce_new : forall s, va_nonce_new s <> VPanic.
Proof. exact va_nonce_new_np. Qed.
Print Assumptions C19_no_panic_nonce_new.
Theorem C19_nonce_new_len : forall s q, va_nonce_new s = VOk q -> len q <= 509.
Proof. exact va_nonce_new_len. Qed.
Print Assumptions C19_nonce_new_len.
Theorem C19_no_panic_realm_new : forall s, va_realm_new s <> VPanic.
Proof. exact va_realm_new_np. Qed.
Print Assumptions C19_no_panic_realm_new.
Theorem C19_text_new : forall max s, va_text_new max s = if len s <=? max then VOk s else VErr.
Proof. exact va_text_new_spec. Qed.
Print Assumptions C19_text_new.
Theorem C19_no_panic_username_new : forall s, va_username_new s <> VPanic.
Proof. exact va_username_new_np. Qed.
Print Assumptions C19_no_panic_username_new.
Theorem C19_username_new_wf : forall s, av_ascii_print s = true -> 0 < len s -> len s < 509 ->
  va_username_new s = VOk s /\ av_wf 6 (AvUser s) = true.
Proof. exact va_username_new_wf. Qed.
Print Assumptions C19_username_new_wf.
Theorem C19_userhash_new : forall n r,
  va_userhash_new n r = vlet n' := av_precis n in vlet r' := av_precis r in VOk (sha256 (n' ++ [58] ++ r')).
Proof. exact va_userhash_new_spec. Qed.
Print Assumptions C19_userhash_new.
Theorem C19_no_panic_userhash_new : forall n r, va_userhash_new n r <> VPanic.
Proof. exact va_userhash_new_np. Qed.
Print Assumptions C19_no_panic_userhash_new.
Theorem C19_no_panic_key_short_term : forall p, va_key_short_term p <> VPanic.
Proof. exact va_key_short_term_np. Qed.
Print Assumptions C19_no_panic_key_short_term.
Theorem C19_no_panic_key_long_term : forall u r p a, va_key_long_term u r p a <> VPanic.
Proof. exact va_key_long_term_np. Qed.
Print Assumptions C19_no_panic_key_long_term.
Theorem C19_key_long_term_alg : forall u r p a k, va_key_long_term u r p a = VOk k -> (a = 1 /\ len k = 16) \/ (a = 2 /\ len k = 32).
Proof. exact va_key_long_term_alg. Qed.
Print Assumptions C19_key_long_term_alg.

(* ---- nonce cookies (nonce_cookie.rs) *)
Theorem C19_no_panic_security_features : forall s, va_security_features s <> VPanic.
Proof. exact va_security_features_np. Qed.
Print Assumptions C19_no_panic_security_features.
Theorem C19_no_panic_new_nonce_cookie : forall value algs anon, va_new_nonce_cookie value algs anon <> VPanic.
Proof. exact va_new_nonce_cookie_np. Qed.
Print Assumptions C19_no_panic_new_nonce_cookie.
(* whenever Nonce::new_nonce_cookie(value, flags) succeeds, the result is a nonce cookie whose features are `flags` *)
Theorem C19_nonce_cookie_roundtrip : forall value algs anon q,
  va_new_nonce_cookie value algs anon = VOk q -> va_is_nonce_cookie q = true /\ va_security_features q = VOk (algs, anon).
Proof. exact va_nonce_cookie_roundtrip. Qed.
Print Assumptions C19_nonce_cookie_roundtrip.
(* D4: the pinned commit sliced the string; it panics exactly where `str::get` answers None and agrees everywhere else *)
Theorem C19_security_features_d4 : forall s,
  (va_is_nonce_cookie s = true /\ va_str_get s 9 13 = None /\ va_security_features_d4 s = VPanic /\ va_security_features s = VErr)
  \/ va_security_features_d4 s = va_security_features s.
Proof. exact va_security_features_d4_spec. Qed.
Print Assumptions C19_security_features_d4.
Example C19_nonce_slice_refuted :
  let s := va_cookie_header ++ [97; 98; 99; 0xC3; 0x80; 0xC2; 0x80] in
  va_nonce_new s = VOk s /\ va_security_features_d4 s = VPanic /\ va_security_features s = VErr.
Proof. exact C19_nonce_slice_refuted_witness. Qed.

(* ---- UnknownAttributes (add: idempotent, order-preserving, duplicate free; From<&[u16]>), PasswordAlgorithms *)
Theorem C19_ua_add_idempotent : forall l x, va_ua_add (va_ua_add l x) x = va_ua_add l x.
Proof. exact va_ua_add_idempotent. Qed.
Print Assumptions C19_ua_add_idempotent.
Theorem C19_ua_add_prefix : forall l x, exists t, va_ua_add l x = l ++ t /\ (t = [] \/ t = [x]).
Proof. exact va_ua_add_prefix. Qed.
Print Assumptions C19_ua_add_prefix.
Theorem C19_ua_add_in : forall l x y, In y (va_ua_add l x) <-> In y l \/ y = x.
Proof. exact va_ua_add_in. Qed.
Print Assumptions C19_ua_add_in.
Theorem C19_ua_add_nodup : forall l x, NoDup l -> NoDup (va_ua_add l x).
Proof. exact va_ua_add_nodup. Qed.
Print Assumptions C19_ua_add_nodup.
Theorem C19_ua_from_nodup : forall v, NoDup (va_ua_from v).
Proof. exact va_ua_from_nodup. Qed.
Print Assumptions C19_ua_from_nodup.
Theorem C19_ua_from_in : forall v y, In y (va_ua_from v) <-> In y v.
Proof. exact va_ua_from_in. Qed.
Print Assumptions C19_ua_from_in.
Theorem C19_ua_from_id : forall v, NoDup v -> va_ua_from v = v.
Proof. exact va_ua_from_id. Qed.
Print Assumptions C19_ua_from_id.
Theorem C19_ua_from_codec : forall hdr l, Forall (fun x => x < 65536) l ->
  av_dec_kind AvkUAttrs hdr (flat_map av_be16 l) = VOk (AvUAttrs (va_ua_from l)).
Proof. exact va_ua_from_codec. Qed.
Print Assumptions C19_ua_from_codec.
Theorem C19_ua_from_wf : forall l, Forall (fun x => x < 65536) l -> av_wf 0x000A (AvUAttrs (va_ua_from l)) = true.
Proof. exact va_ua_from_wf. Qed.
Print Assumptions C19_ua_from_wf.
Theorem C19_pa_from_id : forall v, va_pa_from v = v.
Proof. exact va_pa_from_id. Qed.
Print Assumptions C19_pa_from_id.

(* ---- the nonce-cookie reading used by the agent suite's byte <-> token glue (Agent/AbsGlue.nonce_features: C07, C08, C13)
   is, on every str, is_nonce_cookie + security_features of the value-API model above *)
From Rustun Require Import Agent.AbsGlue Proofs.ValueApiGlue.
Theorem C19_nonce_features_agree : forall s, bytes_ok s = true -> av_utf8 s <> None ->
  nonce_features s = if va_is_nonce_cookie s then Some (match va_security_features s with VOk f => Some f | _ => None end) else None.
Proof. exact nonce_features_agree. Qed.
Print Assumptions C19_nonce_features_agree.
