(* C19 — Value types never panic and clones are independent. Statements only. *)
From Coq Require Import List NArith Bool.
Import ListNotations.
From Rustun Require Import Agent.ArcHeap Proofs.ArcHeapProofs.

(* one operation of a script over a reference-counted heap with copy-on-write (Arc::make_mut: the repaired
   PasswordAlgorithms::add, and UnknownAttributes::add) returns what value semantics returns, never panics, and keeps
   the refinement relation (references to a cell <= its count) *)
Theorem C19_step_refines : forall s p o, Rel s p -> ok_op p o ->
  let '(s', r) := step true s o in let '(p', r') := pstep p o in r = r' /\ r <> HPanic /\ Rel s' p'.
Proof. exact ArcHeap.step_refines. Qed.
Print Assumptions C19_step_refines.

(* for every well-formed script "build, clone, mutate either copy, read" of any length: no panic, and every read returns
   the value its own binding would have if every binding owned its list *)
Theorem C19_clone_independent : forall ops, wf [] ops -> outs_s heap0 ops = outs_p [] ops /\ ~ In HPanic (outs_s heap0 ops).
Proof. exact ArcHeapProofs.clone_independent. Qed.
Print Assumptions C19_clone_independent.

(* the defect of the pinned commit (D3): with Arc::get_mut(..).unwrap() the three-operation script panics *)
Example C19_get_mut_refuted : In HPanic (run false [HNew 0; HClone 0 1; HAdd 0 7%N]).
Proof. exact ArcHeap.C19_get_mut_refuted. Qed.
Example C19_example : outs_s heap0 [HNew 0; HAdd 0 1%N; HClone 0 1; HAdd 0 7%N; HAdd 1 9%N; HRead 0; HRead 1]
  = [HNone; HNone; HNone; HNone; HNone; HVal [1;7]%N; HVal [1;9]%N].
Proof. vm_compute. reflexivity. Qed.
