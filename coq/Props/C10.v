(* C10 — FINGERPRINT is the RFC CRC, catches small corruptions, is enforced by the client. Statements only. *)
From Coq Require Import List NArith Bool.
Import ListNotations.
From Rustun Require Import Base.Tlv Crypto.Crc Codec.InputText Codec.Wire Proofs.WireProofs Proofs.CrcBytes.
Open Scope N_scope.

(* the CRC is CRC-32/ISO-HDLC *)
Example C10_crc_check_value : crc32 [49;50;51;52;53;54;55;56;57] = 0xCBF43926.
Proof. vm_compute. reflexivity. Qed.

(* acceptance of ANY buffer means: its first FINGERPRINT value xor 0x5354554e equals the CRC-32 of the bytes before it with
   the header length covering it *)
Theorem C10_accept_iff_crc : forall b p v,
  verify_attr None b (p, (T_FP, v)) = true <->
  exists s t, rd32 v = Some s /\ input_text b T_FP = Ok t /\ N.lxor s 0x5354554e = crc32 t.
Proof. exact WireProofs.accept_iff_crc. Qed.
Print Assumptions C10_accept_iff_crc.

(* validation succeeds on what the encoder writes: the value is CRC xor 0x5354554e of exactly the text the validator
   recomputes *)
Theorem C10_accepts_own : forall typ txid l,
  typ < 65536 -> length txid = 12%nat -> forallb tlv_ok l = true -> (forall a, In a l -> fst a <> T_FP) -> len (enc_tlvs l) + 8 < 65536 ->
  fp_validate (encode_with_fp typ txid l) (fp_value (InputText.header typ (len (enc_tlvs l) + 8) txid ++ enc_tlvs l)) = true.
Proof. exact InputText.C10_accepts_own. Qed.
Print Assumptions C10_accepts_own.

(* CRC-32 is linear over GF(2); an error pattern confined to one byte — any single-bit or single-byte change — anywhere in a
   text of any length changes the CRC register, hence the FINGERPRINT no longer matches *)
Theorem C10_crc_detects : forall a e s0, length a = length e -> raw 0 e <> 0 -> raw s0 (xor_bits a e) <> raw s0 a.
Proof. exact Crc.crc_detects. Qed.
Theorem C10_single_byte_error_nonzero : forall n1 n2 v, 0 < v < 256 ->
  raw 0 (repeat false n1 ++ bits_of_byte v ++ repeat false n2) <> 0.
Proof. exact Crc.single_byte_error_nonzero. Qed.
Print Assumptions C10_crc_detects.
Print Assumptions C10_single_byte_error_nonzero.

(* at byte level: replacing ANY one byte of a text of any length, at any position, by a different byte (in particular any
   single-bit change) changes the CRC-32 and therefore the FINGERPRINT value; with C10_accept_iff_crc: a message altered in
   one byte of the covered text while its TLV layout is preserved, or in its FINGERPRINT value, is not accepted *)
Theorem C10_crc32_single_byte_detected : forall pre x v post,
  x < 256 -> v < 256 -> x <> v -> crc32 (pre ++ v :: post) <> crc32 (pre ++ x :: post).
Proof. exact CrcBytes.crc32_single_byte_detected. Qed.
Theorem C10_fingerprint_single_byte_detected : forall pre x v post,
  x < 256 -> v < 256 -> x <> v ->
  N.lxor (crc32 (pre ++ v :: post)) 0x5354554e <> N.lxor (crc32 (pre ++ x :: post)) 0x5354554e.
Proof. exact CrcBytes.fingerprint_single_byte_detected. Qed.
Print Assumptions C10_crc32_single_byte_detected.

(* ---- the property in exactly the form in which the implementation is judged: the spec monitor of this property
   (Agent/Monitors.v, from the property text; it runs on every observed call of the implementation) accepts EVERY step of
   EVERY well-formed history of the model (fresh transaction ids, monotone instants, positive RTO), for every configuration
   and credential mechanism (Proofs/AgentMeets.v: obs_of, run_mon; Proofs/AgentMeets2.v) *)
From Rustun Require Import Agent.Rto Agent.Model Agent.Monitors Proofs.AgentMeets Proofs.AgentMeets2.
Theorem C10_model_meets_monitor : forall (cf:config) (m:mech) (mc:mcfg) (cc:ccfg) (ops:list op),
  consistent mc cf -> consistent_cc cc cf m -> well_formed_history ops -> verdicts_true 10 (run_mon mc cc (init cf m) (mall0 cc) ops).
Proof. exact AgentMeets2.model_meets_C10. Qed.
Print Assumptions C10_model_meets_monitor.

(* ---- which bytes the CRC covers, by the Rust text itself: get_input_text of raw.rs (with RawMessage::decode and the
   attribute iterator it calls) is translated by tools/rs2v.py from /repo's CURRENT source on every run (Generated/Code.v).
   For ALL byte strings and attribute types (FINGERPRINT = 0x8028 in particular) the translated code never panics, never runs
   out of fuel, and returns exactly the text the model `input_text` returns (an error where the model has one); a buffer whose
   header MessageHeader::decode refuses yields an error.  Proofs/CodeAgreeRaw.v *)
From Rustun Require Import Base.GRes Generated.Code Proofs.CodeAgreeRaw.
Theorem C10_code_input_text_is_model : forall b ty, Tlv.bytes_ok b = true ->
  (Wire.hdr_valid b = true ->
     gen_get_input_text (S (length b)) b ty
     = GOk (match InputText.input_text b ty with Tlv.Ok t => Some t | _ => None end)
     /\ InputText.input_text b ty <> Tlv.Panic)
  /\ (Wire.hdr_valid b = false -> gen_get_input_text (S (length b)) b ty = GOk None).
Proof. exact CodeAgreeRaw.gen_get_input_text_is_model. Qed.
Print Assumptions C10_code_input_text_is_model.
