(* C02 — Bytes on the wire follow the RFC layouts. Statements only. *)
From Coq Require Import List NArith Bool.
Import ListNotations.
From Rustun Require Import Base.Tlv Codec.MsgType Codec.EncodeInto Codec.EncodeMsg Codec.AttrValue Proofs.AttrValueProofs
                           Codec.Wire Codec.WireFull Codec.Message Codec.Ignored Proofs.IgnoredProofs
                           Rfc.RfcLayout Proofs.RfcLayoutProofs.
Open Scope N_scope.

(* the 14-bit message type: MessageType::as_u16 / From<u16> equal the RFC 8489 bit layout
   0 0 M11 M10 M9 M8 M7 C1 M6 M5 M4 C0 M3 M2 M1 M0 and invert each other, for all 16384 (method, class) pairs *)
Theorem C02_msg_type : forall m c, m < 4096 -> c < 4 ->
  as_u16 m c = of_bits (rfc_bits m c) /\ of_u16 (as_u16 m c) = (m, c).
Proof. exact MsgType.C02_msg_type. Qed.
Print Assumptions C02_msg_type.

(* "Padding bytes and reserved bits that the RFCs say a receiver must ignore do not change what is decoded."
   Codec/Ignored.v names those bits from the RFC texts (ign_mask per kind: the first byte of the address attributes, the 21 /
   13 reserved bits of ERROR-CODE / ADDRESS-ERROR-CODE, the RFFU fields of CHANNEL-NUMBER, EVEN-PORT, REQUESTED-TRANSPORT,
   the reserved bytes of the address-family attributes and of ICMP, the padding between PASSWORD-ALGORITHMS entries;
   msg_mask: these plus the 0-3 padding bytes after every attribute). Two values / messages that agree outside the mask
   decode to the same thing — every kind, every length, every setting of the masked bits *)
Theorem C02_ignored_value : forall ud hdr ty v v',
  same_outside (value_mask ty v) v v' = true -> av_dec_attr ud hdr ty v' = av_dec_attr ud hdr ty v.
Proof. exact IgnoredProofs.dec_attr_ignores. Qed.
Print Assumptions C02_ignored_value.

Theorem C02_ignored_message : forall b b',
  same_outside (msg_mask b) b b' = true -> decode_typed b' = decode_typed b.
Proof. exact IgnoredProofs.decode_typed_ignores. Qed.
Print Assumptions C02_ignored_message.

(* the premise is satisfiable in a non-trivial way: a response whose reserved byte, 21 reserved bits, RFFU bits and
   padding bytes are all changed (54 bits) *)
Example C02_ignored_nonvacuous :
  same_outside (msg_mask ex_b) ex_b ex_b' = true /\ diff_bits ex_b ex_b' = 54 /\
  decode_typed ex_b = DOk 56 [(1, VOk (AvAddr false 32853 [192;0;2;1])); (9, VOk (AvErr 401 [85;110;97;117;116;104])); (24, VOk (AvEven true))].
Proof. vm_compute. repeat split; reflexivity. Qed.

(* ---- the independent reference: Rfc/RfcLayout.v writes every RFC figure as a list of bit fields (width, value), most
   significant bit first, sharing nothing with the codec model but the types of the values; the theorems below say that
   the codec model (which the correspondence suites compare with the implementation byte for byte on every run) produces
   exactly the octets of the figures *)

(* the IANA type codes: the registry of the model is the table of 38 codes, each once *)
Theorem C02_type_codes : forall ty, av_registry ty <> None <-> In ty (map fst rfc_type_codes).
Proof. exact RfcLayoutProofs.rfc_registry_table. Qed.
Print Assumptions C02_type_codes.
Theorem C02_type_codes_count : length rfc_type_codes = 38%nat /\ NoDup (map fst rfc_type_codes).
Proof. exact RfcLayoutProofs.rfc_type_codes_count. Qed.
Print Assumptions C02_type_codes_count.

(* the header (RFC 8489 figures 2 and 3): two zero bits, M11..M7 C1 M6..M4 C0 M3..M0, 16-bit length, magic cookie,
   96-bit transaction id — every method, class, length and id *)
Theorem C02_header : forall method class mlen txid,
  method < 4096 -> class < 4 -> mlen < 65536 -> length txid = 12%nat -> bytes_ok txid = true ->
  rfc_bytes (rfc_header method class mlen txid) = header (msg_type_of method class) mlen txid.
Proof. exact RfcLayoutProofs.rfc_header_eq_model. Qed.
Print Assumptions C02_header.

(* one attribute (figure 4): 16-bit type, 16-bit length, value, zero padding to a multiple of four *)
Theorem C02_attribute_tlv : forall ty v,
  ty < 65536 -> len v < 65536 -> bytes_ok v = true -> rfc_bytes (rfc_attribute ty v) = enc_tlv (ty, v).
Proof. exact RfcLayoutProofs.rfc_attribute_eq_tlv. Qed.
Print Assumptions C02_attribute_tlv.

(* every attribute value within its documented limits, all 35 kinds the value encoder writes: big-endian fields, zero
   reserved bits, XOR-ed port and address (cookie, cookie and transaction id), class / number split, nested
   password-algorithm entries — the model writes exactly the octets of the RFC figure, in every buffer that is large enough *)
Theorem C02_value_layout : forall txid ty a,
  av_wf ty a = true -> length txid = 12%nat -> bytes_ok txid = true ->
  forall hdr, av_dec_header hdr = VOk txid ->
  exists v, rfc_value txid ty a = Some v /\ (forall room, len v <= room -> av_enc_attr hdr ty a room = VOk v).
Proof. exact RfcLayoutProofs.rfc_value_eq_model. Qed.
Print Assumptions C02_value_layout.

(* FINGERPRINT (the value the encoder computes at the end): CRC xor 0x5354554e as a 32-bit field *)
Theorem C02_fingerprint_layout : forall hdr ud txid crc, crc < 4294967296 ->
  rfc_value txid 32808 (AvFp crc) = Some (InputText.be32 (N.lxor crc 1398035790)) /\
  av_dec_attr ud hdr 32808 (InputText.be32 (N.lxor crc 1398035790)) = VOk (AvFp crc).
Proof. exact RfcLayoutProofs.rfc_fingerprint_eq. Qed.
Print Assumptions C02_fingerprint_layout.

(* a whole message: the RFC header with the length of the attribute area, followed by the attribute figures, is the
   buffer prefix the encoder model produces (C14_encode_into: header ++ enc_tlvs) *)
Theorem C02_message_layout : forall method class txid (l:list tlv),
  method < 4096 -> class < 4 -> length txid = 12%nat -> bytes_ok txid = true ->
  forallb tlv_ok l = true -> forallb (fun a => bytes_ok (snd a)) l = true -> attr_bytes l < 65536 ->
  rfc_message method class txid l = header (msg_type_of method class) (attr_bytes l) txid ++ enc_tlvs l.
Proof. exact RfcLayoutProofs.rfc_message_eq_model. Qed.
Print Assumptions C02_message_layout.

(* RFC 5769 2.2: the XOR-MAPPED-ADDRESS of the sample IPv4 response, computed by the reference *)
Example C02_rfc5769_xor_mapped :
  rfc_value [183;231;167;1;188;52;214;134;250;135;223;174] 32 (AvAddr false 32853 [192;0;2;1]) = Some [0;1;161;71;225;18;166;67].
Proof. vm_compute. reflexivity. Qed.

(* ---- the Rust text of the message-type conversions (message.rs) and of padding() (common.rs), translated by tools/rs2v.py on
   every run (Generated/Code.v), IS the bit layout proved equal to the RFC figure above: MessageType::as_u16 for every
   method below 0x1000 and every class, From<u16> for every 16-bit value (it never panics: its unwraps are unreachable),
   MessageMethod::try_from accepts exactly 0..0xFFF, MessageClass::try_from exactly 0..3 and as_u16 inverts it; padding(n)
   for every n *)
From Rustun Require Import Base.GRes Generated.Code Proofs.CodeAgreeCodec Proofs.CodeAgreePad.
Theorem C02_code_as_u16 : forall m c, m < 4096 -> c < 4 -> gen_MessageType_as_u16 (mt m c) = as_u16 m c.
Proof. exact CodeAgreeCodec.gen_as_u16_agrees. Qed.
Theorem C02_code_from_u16 : forall v, v < 65536 -> gen_MessageType_from_u16 v = GOk (mt (fst (of_u16 v)) (snd (of_u16 v))).
Proof. exact CodeAgreeCodec.gen_from_u16_agrees. Qed.
Theorem C02_code_method_range : forall v, v < 65536 -> gen_MessageMethod_try_from v = if v <? 4096 then Some v else None.
Proof. exact CodeAgreeCodec.gen_method_try_from_agrees. Qed.
Theorem C02_code_class_range : forall v, v < 256 ->
  match gen_MessageClass_try_from v with Some c => v < 4 /\ gen_MessageClass_as_u16 c = v | None => 4 <= v end.
Proof. exact CodeAgreeCodec.gen_class_try_from_agrees. Qed.
Theorem C02_code_padding : forall n, gen_padding n = GOk (pad n).
Proof. exact CodeAgreePad.gen_padding_agrees. Qed.
Print Assumptions C02_code_as_u16.
Print Assumptions C02_code_from_u16.
Print Assumptions C02_code_method_range.
Print Assumptions C02_code_class_range.
Print Assumptions C02_code_padding.
