(* C02 — Bytes on the wire follow the RFC layouts. Statements only. *)
From Coq Require Import List NArith Bool.
Import ListNotations.
From Rustun Require Import Base.Tlv Codec.MsgType Codec.EncodeInto Codec.EncodeMsg Codec.AttrValue Proofs.AttrValueProofs.
Open Scope N_scope.

(* the 14-bit message type: MessageType::as_u16 / From<u16> equal the RFC 8489 bit layout
   0 0 M11 M10 M9 M8 M7 C1 M6 M5 M4 C0 M3 M2 M1 M0 and invert each other, for all 16384 (method, class) pairs *)
Theorem C02_msg_type : forall m c, m < 4096 -> c < 4 ->
  as_u16 m c = of_bits (rfc_bits m c) /\ of_u16 (as_u16 m c) = (m, c).
Proof. exact MsgType.C02_msg_type. Qed.
Print Assumptions C02_msg_type.
