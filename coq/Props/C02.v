(* C02 — Bytes on the wire follow the RFC layouts. Statements only. *)
From Coq Require Import List NArith Bool.
Import ListNotations.
From Rustun Require Import Base.Tlv Codec.MsgType Codec.EncodeInto Codec.EncodeMsg Codec.AttrValue Proofs.AttrValueProofs
                           Codec.Wire Codec.WireFull Codec.Message Codec.Ignored Proofs.IgnoredProofs.
Open Scope N_scope.

(* the 14-bit message type: MessageType::as_u16 / From<u16> equal the RFC 8489 bit layout
   0 0 M11 M10 M9 M8 M7 C1 M6 M5 M4 C0 M3 M2 M1 M0 and invert each other, for all 16384 (method, class) pairs *)
Theorem C02_msg_type : forall m c, m < 4096 -> c < 4 ->
  as_u16 m c = of_bits (rfc_bits m c) /\ of_u16 (as_u16 m c) = (m, c).
Proof. exact MsgType.C02_msg_type. Qed.
Print Assumptions C02_msg_type.

(* "Padding bytes and reserved bits that the RFCs say a receiver must ignore do not change what is decoded."
   Codec/Ignored.v names those bits from the RFC texts (ign_mask per kind: the first byte of the address attributes, the 21 /
   13 reserved bits of ERROR-CODE / ADDRESS-ERROR-CODE, the RFFU fields of CHANNEL-NUMBER, EVEN-PORT, REQUESTED-TRANSPORT,
   the reserved bytes of the address-family attributes and of ICMP, the padding between PASSWORD-ALGORITHMS entries;
   msg_mask: these plus the 0-3 padding bytes after every attribute). Two values / messages that agree outside the mask
   decode to the same thing — every kind, every length, every setting of the masked bits *)
Theorem C02_ignored_value : forall ud hdr ty v v',
  same_outside (value_mask ty v) v v' = true -> av_dec_attr ud hdr ty v' = av_dec_attr ud hdr ty v.
Proof. exact IgnoredProofs.dec_attr_ignores. Qed.
Print Assumptions C02_ignored_value.

Theorem C02_ignored_message : forall b b',
  same_outside (msg_mask b) b b' = true -> decode_typed b' = decode_typed b.
Proof. exact IgnoredProofs.decode_typed_ignores. Qed.
Print Assumptions C02_ignored_message.

(* the premise is satisfiable in a non-trivial way: a response whose reserved byte, 21 reserved bits, RFFU bits and
   padding bytes are all changed (54 bits) *)
Example C02_ignored_nonvacuous :
  same_outside (msg_mask ex_b) ex_b ex_b' = true /\ diff_bits ex_b ex_b' = 54 /\
  decode_typed ex_b = DOk 56 [(1, VOk (AvAddr false 32853 [192;0;2;1])); (9, VOk (AvErr 401 [85;110;97;117;116;104])); (24, VOk (AvEven true))].
Proof. vm_compute. repeat split; reflexivity. Qed.
