(* C08 — Long-term credentials: challenge, retry and authenticated delivery (abstract-message level; the RFC 8489 9.2.4 server is Monitors.server_verdict). Statements only; proofs live in the imported files. *)
From Coq Require Import List NArith Bool.
Import ListNotations.
From Rustun Require Import Agent.Rto Agent.Model Agent.Monitors Proofs.AgentInv Proofs.AgentTrace Proofs.AgentMech
                           Agent.AbsGlue Proofs.AbsGlueProofs.
Open Scope N_scope.

(* the first request carries no credential attributes *)
Theorem C08_first_request_bare :
  forall (s : lt_mech) (app : list attr),
         app_wf app ->
         lt_st s = First ->
         exists x : attrs, lt_prepare s (of_list app) = Some x /\ lt_cred_free (flatten x) = true.
Proof. exact AgentMech.lt_first_request_bare_client. Qed.
Print Assumptions C08_first_request_bare.

(* in every reachable state the cached parameters are consistent: key = H(user, realm, password, chosen algorithm), SHA-256 integrity iff algorithms were offered, chosen algorithm = SHA-256 if listed else the last MD5 *)
Theorem C08_params_ok :
  forall (cf : config) (ops : list op) (s : lt_mech) (p : lt_params),
         mech_ (fst (run (init cf (MLT {| lt_st := First; lt_pr := None |})) ops)) = MLT s ->
         lt_pr s = Some p -> POk p.
Proof. exact AgentMech.client_params_ok. Qed.
Print Assumptions C08_params_ok.

(* a 401 answered with Retry leaves parameters that agree with what the server sent *)
Theorem C08_401_agrees :
  forall (rel : bool) (mk : list txid) (s : lt_mech) (m : msg) (mk' : list txid) (s' : lt_mech),
         m_class m = CError ->
         get_code (rfc_filter (m_attrs m)) = Some 401 ->
         lt_recv rel mk s m = (Some ERetry, mk', s') ->
         exists (p : lt_params) (r : N) (n : N * N),
           get_realm (rfc_filter (m_attrs m)) = Some r /\
           get_nonce (rfc_filter (m_attrs m)) = Some n /\
           s' = {| lt_st := Retry401; lt_pr := Some p |} /\
           POk p /\ sv_agrees (sv_of_401 (rfc_filter (m_attrs m)) r n) p.
Proof. exact AgentMech.lt_401_agrees. Qed.
Print Assumptions C08_401_agrees.

(* a 438 switches to the new nonce and changes nothing else *)
Theorem C08_438_switches_nonce :
  forall (rel : bool) (mk : list txid) (s : lt_mech) (m : msg) (mk' : list txid) 
           (s' : lt_mech) (p : lt_params),
         m_class m = CError ->
         get_code (rfc_filter (m_attrs m)) = Some 438 ->
         lt_pr s = Some p ->
         lt_recv rel mk s m = (Some ERetry, mk', s') ->
         exists n : N * N,
           get_nonce (rfc_filter (m_attrs m)) = Some n /\
           s' = {| lt_st := Retry438; lt_pr := Some (set_nonce p n) |} /\
           p_nonce (set_nonce p n) = n /\
           p_realm (set_nonce p n) = p_realm p /\
           p_algs (set_nonce p n) = p_algs p /\
           p_alg (set_nonce p n) = p_alg p /\
           p_key (set_nonce p n) = p_key p /\
           p_anon (set_nonce p n) = p_anon p /\ p_integ (set_nonce p n) = p_integ p.
Proof. exact AgentMech.lt_438_switches_nonce. Qed.
Print Assumptions C08_438_switches_nonce.

(* every request formed in SubsequentRequest state, for EVERY application attribute list, is accepted by the 9.2.4 server that issued the parameters *)
Theorem C08_subsequent_accepted :
  forall (s : lt_mech) (p : lt_params) (sv : lt_mon) (app : list attr),
         lt_st s = Subsequent ->
         lt_pr s = Some p ->
         POk p ->
         sv_agrees sv p ->
         exists x : attrs, lt_prepare s (of_list app) = Some x /\ server_verdict sv (flatten x) = 0.
Proof. exact AgentMech.lt_subsequent_accepted. Qed.
Print Assumptions C08_subsequent_accepted.

(* known finding D6 as a theorem about the faithful model: the request formed right after a 401 has no integrity attribute (server verdict 1) *)
Theorem C08_retry401_verdict :
  forall (s : lt_mech) (p : lt_params) (sv : lt_mon) (app : list attr),
         lt_st s = Retry401 ->
         lt_pr s = Some p ->
         sv_agrees sv p ->
         exists x : attrs, lt_prepare s (of_list app) = Some x /\ server_verdict sv (flatten x) = 1.
Proof. exact AgentMech.lt_retry401_verdict. Qed.
Print Assumptions C08_retry401_verdict.

(* known finding D7: the request formed right after a 438 is accepted only when no algorithm list was negotiated (verdict 2 otherwise) *)
Theorem C08_retry438_verdict :
  forall (s : lt_mech) (p : lt_params) (sv : lt_mon) (app : list attr),
         lt_st s = Retry438 ->
         lt_pr s = Some p ->
         POk p ->
         sv_agrees sv p ->
         exists x : attrs,
           lt_prepare s (of_list app) = Some x /\
           server_verdict sv (flatten x) = match p_algs p with
                                           | Some _ => 2
                                           | None => 0
                                           end.
Proof. exact AgentMech.lt_retry438_verdict. Qed.
Print Assumptions C08_retry438_verdict.

(* success and ordinary error responses are accepted only if the integrity attribute of the agreed kind verifies under the derived key *)
Theorem C08_accept_sound :
  forall (rel : bool) (mk : list txid) (s : lt_mech) (m : msg) (mk' : list txid) (s' : lt_mech),
         lt_recv rel mk s m = (None, mk', s') ->
         (exists (p : lt_params) (a : attr),
            lt_pr s = Some p /\
            In a (rfc_filter (m_attrs m)) /\
            keyd_eqb (mac_key a) (p_key p) = true /\
            (p_integ p = IMI -> a_is_mi a = true) /\ (p_integ p = ISHA -> a_is_sha a = true)) /\
         lt_st s' = Subsequent /\ lt_pr s' = lt_pr s /\ is_response m = true.
Proof. exact AgentMech.lt_accept_sound. Qed.
Print Assumptions C08_accept_sound.

Theorem C08_client_delivery_sound :
  forall (c : client) (now : N) (w : msg) (s : lt_mech) (c' : client) (r : reply) 
           (evs : list event) (m : msg),
         mech_ c = MLT s ->
         step c (Recv now true w) = (c', r, evs) ->
         In (Received m) evs ->
         m = wmsg w /\
         evs = [Received m] /\
         r = ROk None /\
         is_response w = true /\
         (exists (mk' : list txid) (s' : lt_mech),
            lt_recv (reliable (cfg c)) (markers c) s (wmsg w) = (None, mk', s') /\
            mech_ c' = MLT s' /\
            markers c' = mk' /\
            lt_st s' = Subsequent /\
            lt_pr s' = lt_pr s /\
            (exists (p : lt_params) (a : attr),
               lt_pr s = Some p /\
               In a (rfc_filter (m_attrs w)) /\
               keyd_eqb (mac_key a) (p_key p) = true /\
               (p_integ p = IMI -> a_is_mi a = true) /\ (p_integ p = ISHA -> a_is_sha a = true))).
Proof. exact AgentMech.client_received_lt. Qed.
Print Assumptions C08_client_delivery_sound.

Theorem C08_indication_refused :
  forall (rel : bool) (mk : list txid) (s : lt_mech) (m : msg),
         m_class m = CIndication -> fst (fst (lt_recv rel mk s m)) = Some EDiscarded.
Proof. exact AgentMech.lt_indication_refused. Qed.
Print Assumptions C08_indication_refused.

Theorem C08_send_indication_ignored :
  forall (c : client) (s : lt_mech) (id : txid) (method : N) (app : list attr) (room : bool),
         mech_ c = MLT s -> step c (Indication id method app room) = (c, RIgnored, []).
Proof. exact AgentMech.lt_send_indication_ignored. Qed.
Print Assumptions C08_send_indication_ignored.

(* every MAC the client puts on the wire is the mechanism's own (keyed with the derived key); an application-supplied one is dropped; the password occurs only inside key descriptors *)
Theorem C08_outgoing_integrity_is_own :
  forall (s : lt_mech) (x : attrs) (p : lt_params) (y : attrs) (a : attr),
         AInv x ->
         types_nodup (ord x) = true ->
         lt_pr s = Some p ->
         lt_prepare s x = Some y ->
         In a (flatten y) ->
         is_integ a = true -> a = integ_attr p /\ (lt_st s = Retry438 \/ lt_st s = Subsequent).
Proof. exact AgentMech.lt_prepare_integrity. Qed.
Print Assumptions C08_outgoing_integrity_is_own.

(* the byte-level meaning of the nonce flavours of the abstract model: for every nonce number, the bytes the harness
   vocabulary writes for flavour c are read by the model of nonce_cookie.rs (header, four base64 characters, bits 31 / 30)
   exactly as Model.harvest1 interprets flavour c (0 not a cookie, 1-4 the four settings of the password-algorithms and
   anonymity bits, 5-6 a cookie whose feature characters cannot be read) *)
Theorem C08_cookie_semantics : forall n c, c <= 6 -> nonce_features (nonce_str n c) = model_cookie c.
Proof. exact AbsGlueProofs.cookie_semantics. Qed.
Print Assumptions C08_cookie_semantics.

(* and the vocabulary is read back exactly (finite sweep: nonce numbers below 2000, all seven flavours) *)
Theorem C08_nonce_vocabulary : forall n c, n < 2000 -> c <= 6 -> parse_nonce (nonce_str n c) = (n, c).
Proof. exact AbsGlueProofs.nonce_roundtrip. Qed.
Print Assumptions C08_nonce_vocabulary.

(* ---- the long-term monitor (RFC 8489 9.2.4 server, delivery soundness, indications refused) on the MODEL: on every
   well-formed history it reports nothing but the two listed known findings (class 1 = D6: the retry after a 401 carries no
   integrity; class 2 = D7: the retry after a 438 omits the algorithm attributes), whatever the peer sends; and both ARE
   reported on a concrete history — they are defects of the implementation which the faithful model reproduces *)
From Rustun Require Import Proofs.AgentMeets Proofs.AgentMeets2.
Theorem C08_model_meets_monitor_known_only : forall (cf:config) (m:mech) (mc:mcfg) (cc:ccfg) (ops:list op),
  consistent mc cf -> consistent_cc cc cf m -> well_formed_history ops -> wf_apps ops ->
  forall vs b cl, In vs (run_mon mc cc (init cf m) (mall0 cc) ops) -> In (8, b, cl) vs -> b = true \/ cl = 1 \/ cl = 2.
Proof. exact AgentMeets2.model_meets_C08_known_only. Qed.
Print Assumptions C08_model_meets_monitor_known_only.
Theorem C08_known_finding_D6_on_model : exists cf m mc cc ops vs, consistent mc cf /\ consistent_cc cc cf m /\ well_formed_history ops /\ wf_apps ops
  /\ In vs (run_mon mc cc (init cf m) (mall0 cc) ops) /\ In (8, false, 1) vs.
Proof. exact AgentMeets2.model_C08_d6_reachable. Qed.
Theorem C08_known_finding_D7_on_model : exists cf m mc cc ops vs, consistent mc cf /\ consistent_cc cc cf m /\ well_formed_history ops /\ wf_apps ops
  /\ In vs (run_mon mc cc (init cf m) (mall0 cc) ops) /\ In (8, false, 2) vs.
Proof. exact AgentMeets2.model_C08_d7_reachable. Qed.

(* ---- the integrity attribute of every long-term request is of the kind the latest accepted challenge calls for (SHA-256 if
   algorithms were offered, otherwise SHA-1) and keyed for its realm / negotiated algorithm: the monitor mon_C13_ltkey, whose
   failures the driver reports under C08 as well (class lt-integrity-key; the 9.2.4 verdict of mon_C08 stops at the missing
   algorithm attributes of the known finding D7 before it looks at the integrity kind). The model satisfies it on every
   well-formed history *)
From Rustun Require Import Proofs.AgentMeets3.
Theorem C08_model_meets_integrity_kind_monitor : forall (cf:config) (m:mech) (mc:mcfg) (cc:ccfg) (ops:list op),
  consistent mc cf -> consistent_cc cc cf m -> well_formed_history ops -> wf_apps ops ->
  forall x, In x (run_mon_lt mc cc (init cf m) (mall0 cc) ops) -> lv_key x = true.
Proof. exact AgentMeets3.model_meets_C13_ltkey. Qed.
Print Assumptions C08_model_meets_integrity_kind_monitor.

(* ---- the attributes the credential mechanism reads of a received message come from the agent's own ordering filter
   (ProtectedAttributeIteratorObject::next, stun-agent/src/lib.rs). Its Rust text, translated by tools/rs2v.py on every run
   (Generated/Code.v), yields exactly the attributes the RFC 8489 ordering rule admits, for every sequence of attribute kinds
   (Proofs/CodeAgreeIter.v) — the abstract model's rfc_filter is that rule *)
From Rustun Require Import Base.GRes Generated.Code Codec.Filter Proofs.CodeAgreeIter.
Theorem C08_code_protected_iter_is_rfc_rule : forall ks,
  gen_collect (S (length ks)) (mk_iter ks {| f_mi := false; f_sha := false; f_fp := false |})
  = map kind_code (keep_admitted (allow {| s_mi := false; s_sha := false; s_fp := false |} ks) ks).
Proof. exact CodeAgreeIter.code_protected_iter_is_rfc_rule. Qed.
Print Assumptions C08_code_protected_iter_is_rfc_rule.

(* ---- the IF direction of "after the server's 401 challenge the application is told to retry ... a 438 reply switches to the
   new nonce", model side: the long-term client model answers every PLAIN challenge (Monitors.plain_challenge, the clause
   mon_C08_retry judges the implementation by) with exactly the retry notification for that request, finishes the
   transaction and stores the challenge's nonce *)
From Rustun Require Import Proofs.AgentRetry.
Theorem C08_plain_challenge_is_retried : forall (c:client) (s:lt_mech) (now:N) (w:msg),
  mech_ c = MLT s ->
  plain_challenge (use_fp (cfg c)) (match lt_pr s with Some _ => true | None => false end)
                  (match Model.lookup (m_id w) (T c) with Some _ => true | None => false end) true w = true ->
  let '(c', rep, evs) := Model.step c (Model.Recv now true w) in
  rep = Model.ROk None /\ evs = [Model.Retry (m_id w)] /\
  Model.lookup (m_id w) (T c') = None /\
  exists s', mech_ c' = MLT s' /\
     match lt_pr s' with
     | Some p => Some (p_nonce p) = get_nonce (Model.rfc_filter (m_attrs w))
     | None => False end.
Proof. exact AgentRetry.plain_challenge_is_retried. Qed.
Print Assumptions C08_plain_challenge_is_retried.

(* ---- the same IF direction at trace level: the monitor mon_C08_retry, in exactly the form ocaml/driver.ml runs it on the
   implementation (on the schedule and long-term monitor states BEFORE the call, as monitor_step has threaded them through
   the prefix), accepts every step of the model in every well-formed history, for every configuration and mechanism *)
From Rustun Require Import Proofs.AgentMeets4.
Theorem C08_model_meets_retry_monitor : forall (cf:config) (m:mech) (mc:mcfg) (cc:ccfg) (ops:list Model.op),
  consistent mc cf -> consistent_cc cc cf m -> well_formed_history ops ->
  forall (a:list Model.op) (o:Model.op) (b:list Model.op), ops = a ++ o :: b ->
    let c := fst (run_state mc cc (init cf m) (mall0 cc) a) in
    let s := snd (run_state mc cc (init cf m) (mall0 cc) a) in
    let '(c', rep, evs) := Model.step c o in
    mon_C08_retry cc (ma_core s) (ma_lt s) (mop_of o rep) (obs_of c c' o rep evs) = true.
Proof. exact AgentMeets4.model_meets_C08_retry. Qed.
Print Assumptions C08_model_meets_retry_monitor.
(* and, read the other way: wherever the monitor's premise holds, the model's step yields exactly the retry notification *)
Theorem C08_model_retries_when_monitor_demands :
  forall (cf:config) (m:mech) (mc:mcfg) (cc:ccfg) (a:list Model.op) (now:N) (d:bool) (w:msg) (b:list Model.op),
  consistent mc cf -> consistent_cc cc cf m -> well_formed_history (a ++ Model.Recv now d w :: b) ->
  let c := fst (run_state mc cc (init cf m) (mall0 cc) a) in
  let s := snd (run_state mc cc (init cf m) (mall0 cc) a) in
  cc_mech cc = 4 ->
  plain_challenge (cc_fp cc) (lm_challenged (ma_lt s)) (memN (m_id w) (live (ma_core s))) d w = true ->
  snd (Model.step c (Model.Recv now d w)) = [Model.Retry (m_id w)] /\ snd (fst (Model.step c (Model.Recv now d w))) = Model.ROk None.
Proof. exact AgentMeets4.model_retries_when_monitor_demands. Qed.
Print Assumptions C08_model_retries_when_monitor_demands.
