(* C16 — Stream reassembly yields the same packets however the stream is chunked. Statements only. *)
From Coq Require Import List NArith Bool.
Import ListNotations.
From Rustun Require Import Base.Tlv Agent.Reasm Agent.ReasmDrive Agent.ReasmRs Proofs.ReasmRsProofs.
Open Scope N_scope.

(* any two chunkings of the same byte stream give the caller the same packets and the same first error *)
Theorem C16_chunking_irrelevant : forall B chunks1 chunks2,
  concat chunks1 = concat chunks2 -> drive B (fresh B) chunks1 = drive B (fresh B) chunks2.
Proof. exact ReasmDrive.C16_chunking_irrelevant. Qed.
Check C16_chunking_irrelevant : forall B chunks1 chunks2,
  concat chunks1 = concat chunks2 -> drive B (fresh B) chunks1 = drive B (fresh B) chunks2.
Print Assumptions C16_chunking_irrelevant.

(* a concatenation of packets, each no longer than the buffer, cut in any way, yields exactly those packets *)
Theorem C16_packets_exact : forall B pkts chunks, 20 <= B -> Forall (wf_packet B) pkts -> concat chunks = concat pkts ->
  drive B (fresh B) chunks = map EPacket pkts.
Proof. exact ReasmRsProofs.packets_exact. Qed.
Print Assumptions C16_packets_exact.

(* the outcome of every single decode() call (packet bytes, consumed count, missing count, error kind and its consumed
   count, the decoder handed on) is the one read off the unchunked stream: spec_log is defined from `parse` alone *)
Theorem C16_calls_eq_unchunked_reading : forall B chunks, 20 <= B -> run_log B chunks = spec_log B (Some []) chunks.
Proof. exact ReasmRsProofs.run_log_spec. Qed.
Check C16_calls_eq_unchunked_reading : forall B chunks, 20 <= B -> run_log B chunks = spec_log B (Some []) chunks.
Print Assumptions C16_calls_eq_unchunked_reading.

(* no call panics (slice bounds and checked subtractions of lib.rs:225-315 are explicit in feed_rs) *)
Theorem C16_no_panic : forall B chunks cs, 20 <= B -> In cs (run_log B chunks) -> ~ In CPanic cs.
Proof. exact ReasmRsProofs.run_log_no_panic. Qed.
Print Assumptions C16_no_panic.

(* consumed counts add up: every byte supplied is in a delivered packet or still buffered, nothing is lost or duplicated *)
Theorem C16_bytes_conserved : forall fuel B b c cs b' m, (length c < fuel)%nat -> parse B b = Incomplete m ->
  spec_chunk fuel B b c = (cs, Some b') -> b ++ c = delivered cs ++ b'.
Proof. exact ReasmRsProofs.spec_chunk_conserves. Qed.
Print Assumptions C16_bytes_conserved.

(* the reported number of missing bytes is exact once the header has been seen, absent before *)
Theorem C16_missing_exact : forall B s k, parse B s = Incomplete (Some k) ->
  20 <= len s /\ 0 < k /\ len s + k = msg_len (take 20 s) + 20.
Proof. exact ReasmRsProofs.parse_missing. Qed.
Theorem C16_missing_unknown_before_header : forall B s, parse B s = Incomplete None -> len s < 20.
Proof. exact ReasmRsProofs.parse_missing_none. Qed.
Print Assumptions C16_missing_exact.

(* the model satisfies the monitor that judges the implementation *)
Theorem C16_model_meets_property : forall B chunks, monitor_C16 B chunks (run_log B chunks) = true.
Proof. exact ReasmRsProofs.model_meets_C16. Qed.
Print Assumptions C16_model_meets_property.

(* non-vacuity: a 24-byte packet (header + one empty attribute) cut into three chunks, followed by garbage *)
Example C16_example :
  let p := [0;1;0;4; 33;18;164;66; 1;2;3;4;5;6;7;8;9;10;11;12; 128;34;0;0] in
  run_log 24 [firstn 7 p; skipn 7 p ++ firstn 3 p; skipn 3 p ++ [255]]
  = [[CMore None]; [CDecoded p 17; CMore None]; [CDecoded p 21; CMore None]].
Proof. vm_compute. reflexivity. Qed.
