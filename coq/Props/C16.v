(* C16 — Stream reassembly yields the same packets however the stream is chunked. Statements only. *)
From Coq Require Import List NArith Bool.
Import ListNotations.
From Rustun Require Import Base.Tlv Agent.Reasm Agent.ReasmDrive Agent.ReasmRs Proofs.ReasmRsProofs.
Open Scope N_scope.

(* any two chunkings of the same byte stream give the caller the same packets and the same first error *)
Theorem C16_chunking_irrelevant : forall B chunks1 chunks2,
  concat chunks1 = concat chunks2 -> drive B (fresh B) chunks1 = drive B (fresh B) chunks2.
Proof. exact ReasmDrive.C16_chunking_irrelevant. Qed.
Check C16_chunking_irrelevant : forall B chunks1 chunks2,
  concat chunks1 = concat chunks2 -> drive B (fresh B) chunks1 = drive B (fresh B) chunks2.
Print Assumptions C16_chunking_irrelevant.

(* a concatenation of packets, each no longer than the buffer, cut in any way, yields exactly those packets *)
Theorem C16_packets_exact : forall B pkts chunks, 20 <= B -> Forall (wf_packet B) pkts -> concat chunks = concat pkts ->
  drive B (fresh B) chunks = map EPacket pkts.
Proof. exact ReasmRsProofs.packets_exact. Qed.
Print Assumptions C16_packets_exact.

(* the outcome of every single decode() call (packet bytes, consumed count, missing count, error kind and its consumed
   count, the decoder handed on) is the one read off the unchunked stream: spec_log is defined from `parse` alone *)
Theorem C16_calls_eq_unchunked_reading : forall B chunks, 20 <= B -> run_log B chunks = spec_log B (Some []) chunks.
Proof. exact ReasmRsProofs.run_log_spec. Qed.
Check C16_calls_eq_unchunked_reading : forall B chunks, 20 <= B -> run_log B chunks = spec_log B (Some []) chunks.
Print Assumptions C16_calls_eq_unchunked_reading.

(* no call panics (slice bounds and checked subtractions of lib.rs:225-315 are explicit in feed_rs) *)
Theorem C16_no_panic : forall B chunks cs, 20 <= B -> In cs (run_log B chunks) -> ~ In CPanic cs.
Proof. exact ReasmRsProofs.run_log_no_panic. Qed.
Print Assumptions C16_no_panic.

(* consumed counts add up: every byte supplied is in a delivered packet or still buffered, nothing is lost or duplicated *)
Theorem C16_bytes_conserved : forall fuel B b c cs b' m, (length c < fuel)%nat -> parse B b = Incomplete m ->
  spec_chunk fuel B b c = (cs, Some b') -> b ++ c = delivered cs ++ b'.
Proof. exact ReasmRsProofs.spec_chunk_conserves. Qed.
Print Assumptions C16_bytes_conserved.

(* the reported number of missing bytes is exact once the header has been seen, absent before *)
Theorem C16_missing_exact : forall B s k, parse B s = Incomplete (Some k) ->
  20 <= len s /\ 0 < k /\ len s + k = msg_len (take 20 s) + 20.
Proof. exact ReasmRsProofs.parse_missing. Qed.
Theorem C16_missing_unknown_before_header : forall B s, parse B s = Incomplete None -> len s < 20.
Proof. exact ReasmRsProofs.parse_missing_none. Qed.
Print Assumptions C16_missing_exact.

(* the model satisfies the monitor that judges the implementation *)
Theorem C16_model_meets_property : forall B chunks, monitor_C16 B chunks (run_log B chunks) = true.
Proof. exact ReasmRsProofs.model_meets_C16. Qed.
Print Assumptions C16_model_meets_property.

(* non-vacuity: a 24-byte packet (header + one empty attribute) cut into three chunks, followed by garbage *)
Example C16_example :
  let p := [0;1;0;4; 33;18;164;66; 1;2;3;4;5;6;7;8;9;10;11;12; 128;34;0;0] in
  run_log 24 [firstn 7 p; skipn 7 p ++ firstn 3 p; skipn 3 p ++ [255]]
  = [[CMore None]; [CDecoded p 17; CMore None]; [CDecoded p 21; CMore None]].
Proof. vm_compute. reflexivity. Qed.

(* ---- the Rust text itself: stun-agent/src/lib.rs StunPacketDecoder::new / StunPacketDecoder::decode (with StunPacket::new and
   raw.rs MessageHeader::try_from) is translated by tools/rs2v.py from /repo's CURRENT source on every run (Generated/Code.v;
   every slice, copy_from_slice, checked subtraction and usize addition carries its panic as an explicit GPanic outcome).
   Proofs/CodeAgreeReasm.v relates the translated decoder state to the model state of the theorems above and proves that
   the translated functions compute, result for result and field for field, what the model computes.  Hypotheses, stated:
   buffer and chunk elements are bytes; len buffer + len chunk < 2^64 (Rust: every slice is shorter than 2^63). *)
From Rustun Require Import Base.GRes Generated.Code.
From Rustun Require Proofs.CodeAgreeReasm.

(* the abstraction relation: the model state is (length of the caller's buffer, the first current_size bytes of it, expected size) *)
Theorem C16_code_rep_def : forall g d, CodeAgreeReasm.Rep g d <->
  (bufsz d = len (StunPacketDecoder_buffer g)
   /\ acc d = take (StunPacketDecoder_current_size g) (StunPacketDecoder_buffer g)
   /\ expd d = StunPacketDecoder_expected_size g
   /\ StunPacketDecoder_current_size g <= len (StunPacketDecoder_buffer g)).
Proof. exact CodeAgreeReasm.Rep_unfold. Qed.
(* result correspondence: Result<StunPacketDecodedValue, StunPacketDecodedError> of the code against the model's outcome
   (B = length of the caller's buffer; the packet the caller reads is buffer[..size]) *)
Theorem C16_code_corr_def : forall B r o, CodeAgreeReasm.Corr B r o <->
  match o with
  | Decoded p c =>
      exists b', r = ROk (StunPacketDecodedValue_Decoded ({| StunPacketInternal_buffer := b'; StunPacketInternal_size := len p |}, c))
                 /\ take (len p) b' = p /\ len b' = B /\ bytes_ok b' = true
  | More d' m =>
      exists g', r = ROk (StunPacketDecodedValue_MoreBytesNeeded (g', m))
                 /\ CodeAgreeReasm.Rep g' d' /\ bufsz d' = B /\ bytes_ok (StunPacketDecoder_buffer g') = true
  | EInvalid c =>
      exists b', r = RErr {| StunPacketDecodedError_error_type := 1; StunPacketDecodedError_buffer := b';
                             StunPacketDecodedError_size := 20; StunPacketDecodedError_consumed := c |} /\ len b' = B
  | ESmall c =>
      exists b', r = RErr {| StunPacketDecodedError_error_type := 0; StunPacketDecodedError_buffer := b';
                             StunPacketDecodedError_size := 20; StunPacketDecodedError_consumed := c |} /\ len b' = B
  end.
Proof. exact CodeAgreeReasm.Corr_unfold. Qed.

(* StunPacketDecoder::new refuses exactly the buffers shorter than a header (SmallBuffer, the buffer handed back, size and
   consumed 0); otherwise the decoder it returns represents the model's fresh decoder *)
Theorem C16_code_new_is_model : forall buf,
  gen_StunPacketDecoder_new buf
  = match new_rs (len buf) with
    | None => RErr {| StunPacketDecodedError_error_type := 0; StunPacketDecodedError_buffer := buf;
                      StunPacketDecodedError_size := 0; StunPacketDecodedError_consumed := 0 |}
    | Some _ => ROk {| StunPacketDecoder_buffer := buf; StunPacketDecoder_current_size := 0; StunPacketDecoder_expected_size := None |}
    end
  /\ (new_rs (len buf) = None <-> len buf < 20)
  /\ (forall d, new_rs (len buf) = Some d ->
        d = fresh (len buf)
        /\ CodeAgreeReasm.Rep {| StunPacketDecoder_buffer := buf; StunPacketDecoder_current_size := 0; StunPacketDecoder_expected_size := None |} d
        /\ DInv d /\ slices_ok d = true).
Proof. exact CodeAgreeReasm.gen_new_agrees. Qed.

(* StunPacketDecoder::decode: for every decoder state the model does not call a panic and every chunk, the translated code
   returns (never GPanic, never GFuel) the model's outcome: the same packet bytes and consumed count, the same missing count
   with a decoder that again represents the model's, the same error kind with size 20 and the same consumed count *)
Theorem C16_code_decode_is_model : forall g d data,
  CodeAgreeReasm.Rep g d -> slices_ok d = true ->
  bytes_ok (StunPacketDecoder_buffer g) = true -> bytes_ok data = true ->
  len (StunPacketDecoder_buffer g) + len data < 18446744073709551616 ->
  feed_rs d data = Fine (feed d data)
  /\ exists r, gen_StunPacketDecoder_decode g data = GOk r /\ CodeAgreeReasm.Corr (len (StunPacketDecoder_buffer g)) r (feed d data).
Proof. exact CodeAgreeReasm.gen_decode_is_model. Qed.
(* the same under the invariant the model proofs use (it holds of every decoder obtained from new and decode) *)
Theorem C16_code_decode_under_invariant : forall g d data,
  CodeAgreeReasm.Rep g d -> DInv d -> 20 <= bufsz d ->
  bytes_ok (StunPacketDecoder_buffer g) = true -> bytes_ok data = true ->
  len (StunPacketDecoder_buffer g) + len data < 18446744073709551616 ->
  exists r, gen_StunPacketDecoder_decode g data = GOk r /\ CodeAgreeReasm.Corr (bufsz d) r (feed d data)
            /\ (forall d' m, feed d data = More d' m -> DInv d').
Proof. exact CodeAgreeReasm.gen_decode_inv. Qed.

(* the caller's loop run over the translated functions (CodeAgreeReasm.gen_run_log: one logged outcome per decode() call, after
   a packet the rest of the chunk goes to a decoder made by new from the buffer fb) yields, for every buffer and every
   chunking, the model's log, which is the unchunked reading of the stream, and the monitor of the property accepts it *)
Theorem C16_code_run_is_model : forall fb chunks, bytes_ok fb = true ->
  Forall (fun c => bytes_ok c = true /\ len fb + len c < 18446744073709551616) chunks ->
  CodeAgreeReasm.gen_run_log fb chunks = run_log (len fb) chunks.
Proof. exact CodeAgreeReasm.gen_run_log_is_model. Qed.
Theorem C16_code_run_is_unchunked_reading : forall fb chunks, 20 <= len fb -> bytes_ok fb = true ->
  Forall (fun c => bytes_ok c = true /\ len fb + len c < 18446744073709551616) chunks ->
  CodeAgreeReasm.gen_run_log fb chunks = spec_log (len fb) (Some []) chunks.
Proof. exact CodeAgreeReasm.gen_run_log_is_unchunked_reading. Qed.
Theorem C16_code_run_meets_property : forall fb chunks, bytes_ok fb = true ->
  Forall (fun c => bytes_ok c = true /\ len fb + len c < 18446744073709551616) chunks ->
  monitor_C16 (len fb) chunks (CodeAgreeReasm.gen_run_log fb chunks) = true.
Proof. exact CodeAgreeReasm.gen_run_log_meets_C16. Qed.
Print Assumptions C16_code_rep_def.
Print Assumptions C16_code_corr_def.
Print Assumptions C16_code_new_is_model.
Print Assumptions C16_code_decode_is_model.
Print Assumptions C16_code_decode_under_invariant.
Print Assumptions C16_code_run_is_model.
Print Assumptions C16_code_run_is_unchunked_reading.
Print Assumptions C16_code_run_meets_property.
