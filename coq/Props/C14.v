(* C14 — Encoding respects the caller's buffer and the 64 KiB message limit. Statements only. *)
From Coq Require Import List NArith Bool.
Import ListNotations.
From Rustun Require Import Base.Tlv Codec.EncodeInto Codec.EncodeMsg Codec.Wire Proofs.EncodeMsgProofs Proofs.EncodeTailProofs.
Open Scope N_scope.

(* the encoder over plain attributes, with the caller's buffer explicit: it succeeds exactly when the message fits the
   buffer and the 16-bit length field (every value too); then the result is header ++ TLVs ++ the UNTOUCHED rest of the
   buffer, with the exact size — independent of the buffer's extra length and previous contents; otherwise an error,
   never a wrapped length, never a panic *)
Theorem C14_encode_into : forall buf typ txid l, length txid = 12%nat ->
  let fits := 20 + attr_bytes l <= len buf /\ attr_bytes l <= 65535 /\ forallb (fun a => len (snd a) <=? 65535) l = true in
  (fits -> encode_into buf typ txid l = Ok (EncodeInto.header typ (attr_bytes l) txid ++ enc_tlvs l ++ drop (20 + attr_bytes l) buf, 20 + attr_bytes l))
  /\ (~ fits -> encode_into buf typ txid l = Err).
Proof. exact EncodeInto.C14_encode_into. Qed.
Print Assumptions C14_encode_into.

(* with MESSAGE-INTEGRITY / SHA256 / FINGERPRINT attributes (zero-filled by the value encoder, patched by post_encode):
   success, returned size and buffer length are those of the plain encoder on the same attribute sizes *)
Theorem C14_encode_msg_size : forall buf typ txid l, length txid = 12%nat ->
  let fits := 20 + attr_bytes (map e_tlv l) <= len buf /\ attr_bytes (map e_tlv l) <= 65535
              /\ forallb (fun a => len (snd a) <=? 65535) (map e_tlv l) = true in
  (fits -> exists out, encode_msg buf typ txid l = Ok (out, 20 + attr_bytes (map e_tlv l)) /\ len out = len buf)
  /\ (~ fits -> encode_msg buf typ txid l = Err).
Proof. exact EncodeMsgProofs.encode_msg_size. Qed.
Print Assumptions C14_encode_msg_size.

(* the model satisfies the monitor that judges the implementation, for every message and buffer *)
Theorem C14_model_meets_property : forall buf typ txid l, length txid = 12%nat ->
  monitor_C14 (len buf) l (match encode_msg buf typ txid l with Ok (_, n) => Some (Some n) | Err => Some None | Panic => None end) = true.
Proof. exact EncodeMsgProofs.model_meets_C14. Qed.
Print Assumptions C14_model_meets_property.

(* with the integrity / fingerprint attributes too: the bytes beyond the returned size are the caller's, untouched, and the
   buffer keeps its length *)
Theorem C14_tail_untouched : forall buf typ txid l out n, length txid = 12%nat ->
  encode_msg buf typ txid l = Ok (out, n) -> drop n out = drop n buf /\ len out = len buf.
Proof. exact EncodeTailProofs.encode_msg_tail. Qed.
Print Assumptions C14_tail_untouched.

(* the bytes written and the size do not depend on the buffer's previous contents or extra length *)
Theorem C14_prefix_independent : forall buf buf' typ txid l out n out' n', length txid = 12%nat ->
  encode_msg buf typ txid l = Ok (out, n) -> encode_msg buf' typ txid l = Ok (out', n') ->
  n = n' /\ take n out = take n out'.
Proof. exact EncodeTailProofs.encode_msg_prefix_independent. Qed.
Print Assumptions C14_prefix_independent.

(* the model satisfies the tail monitor that judges the implementation *)
Theorem C14_model_meets_tail_property : forall buf typ txid l, length txid = 12%nat ->
  monitor_C14_tail
    (match encode_msg buf typ txid l with Ok (_, n) => Some (Some n) | Err => Some None | Panic => None end)
    (match encode_msg buf typ txid l with Ok (out, n) => bytes_eqb (drop n out) (drop n buf) | _ => true end) = true.
Proof. exact EncodeTailProofs.model_meets_C14_tail. Qed.
Print Assumptions C14_model_meets_tail_property.

(* non-vacuity, and the defect of the pinned commit (D5): 65,516 attribute bytes fit the length field, yet a 16-bit
   accumulator overflows on `length + 20` *)
Example C14_example : encode_into (repeat 170 30) 1 (repeat 7 12) [(32802, [97;98;99])]
  = Ok ([0;1;0;8;33;18;164;66;7;7;7;7;7;7;7;7;7;7;7;7;128;34;0;3;97;98;99;0;170;170], 28).
Proof. vm_compute. reflexivity. Qed.
Example C14_u16_accumulator_refuted : (65516 + 20) mod 65536 <> 65516 + 20.
Proof. vm_compute. discriminate. Qed.
