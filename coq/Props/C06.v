(* C06 — Requests are retransmitted on the RFC 8489 schedule and fail at the deadline. Statements only.
   Rto.next_rto is the RtoManager::next_rto of timeout.rs as used by the client model (Agent/Model.v: new_mgr, tmo_one). *)
From Coq Require Import List NArith Bool.
Import ListNotations.
From Rustun Require Import Agent.Rto Agent.Model Proofs.AgentInv Proofs.AgentTrace Proofs.AgentSched.
Open Scope N_scope.

(* the first interval of a fresh manager started at t0 is RTO (slot 1), and the schedule invariant holds:
   latest + last_rto = t0 + slot k with the calculator at position k *)
Theorem C06_first_interval : forall r rm rc, 1 <= rc -> forall t0 m,
  latest m = None -> mcalc m = calc_at r rm rc 0 ->
  exists m', next_rto m t0 = (Some (slot r rm rc 1), m') /\ Minv r rm rc t0 1 m'.
Proof. exact Rto.next_rto_first. Qed.
Print Assumptions C06_first_interval.

(* a timer call at `now`, at or after the pending slot t0 + slot k (however late), re-arms to the LEAST slot strictly
   after now — the missed slots are skipped, the absolute schedule never shifts — or reports exhaustion exactly when
   the deadline t0 + slot rc = t0 + RTO * (2^(rc-1) - 1 + rm) has passed *)
Theorem C06_next_rto_expired : forall r rm rc, 1 <= rc -> forall t0 k m now,
  Minv r rm rc t0 k m -> t0 + slot r rm rc k <= now ->
  (exists k' d m', next_rto m now = (Some d, m') /\ k < k' <= rc /\ now + d = t0 + slot r rm rc k' /\ now < t0 + slot r rm rc k'
        /\ (forall j, k <= j < k' -> t0 + slot r rm rc j <= now) /\ Minv r rm rc t0 k' m' /\ latest m' = Some now)
  \/ (exists m', next_rto m now = (None, m') /\ t0 + slot r rm rc rc <= now).
Proof. exact Rto.next_rto_expired. Qed.
Print Assumptions C06_next_rto_expired.

(* lifted to the client: in every reachable state every pending timer entry is the pending slot t0 + slot k of its
   transaction's manager (SInv, preserved by every operation: sinv_step); a timer call at `now` retransmits only requests
   whose deadline lies ahead, fails exactly those whose deadline t0 + RTO*(2^(Rc-1)-1+Rm) has passed (never earlier), with
   reason protection-violated iff marked, and leaves only entries expiring after now. (rm, rc) = (1, 1) on reliable
   transport: one transmission, failure when the timeout has elapsed. *)
Theorem C06_sinv_step : forall t0of rof c o,
  Inv c -> SInv t0of rof c -> fresh_for c o -> ghost_op t0of rof o -> SInv t0of rof (fst (fst (step c o))).
Proof. exact AgentSched.sinv_step. Qed.
Theorem C06_tmo_deadline : forall t0of rof c now,
  Inv c -> SInv t0of rof c ->
  let '(c', _, ev) := step c (Tmo now) in
  SInv t0of rof c' /\
  (forall e, In e (H c') -> now < h_exp e) /\
  (forall id, In id (ids_t (T c)) -> deadline t0of rof c id <= now ->
     In (Failed id (rsn id (markers c))) ev /\ ~ In id (ids_t (T c')) /\ mem id (markers c') = false) /\
  (forall id rs, In (Failed id rs) ev -> deadline t0of rof c id <= now /\ rs = rsn id (markers c) /\ In id (ids_t (T c))) /\
  (forall id p0, In (Out id false p0) ev -> now < deadline t0of rof c id /\ In id (ids_t (T c'))).
Proof. exact AgentSched.tmo_deadline. Qed.
Print Assumptions C06_sinv_step.
Print Assumptions C06_tmo_deadline.

(* the defaults (RTO 500 ms, Rm 16, Rc 7): transmissions at 0, 500, 1500, 3500, 7500, 15500, 31500 ms, failure at 39500 ms;
   reliable transport is (timeout, 1, 1): one transmission, failure when the timeout has elapsed *)
Example C06_defaults : map (slot 500 16 7) [0;1;2;3;4;5;6;7] = [0;500;1500;3500;7500;15500;31500;39500].
Proof. vm_compute. reflexivity. Qed.
Example C06_reliable : map (slot 5000 1 1) [0;1] = [0;5000].
Proof. vm_compute. reflexivity. Qed.

(* ---- the property in exactly the form in which the implementation is judged: the spec monitor of this property
   (Agent/Monitors.v, written from the property text; it runs on every observed call of the implementation) accepts EVERY
   step of EVERY well-formed history of the model (fresh transaction ids, monotone instants, positive RTO), for every
   configuration. `obs_of` (Proofs/AgentMeets.v) builds the observation of a model step the way ocaml/driver.ml builds it
   from the implementation's output; run_mon runs model and monitors in lockstep; every step is judged (run_mon_judged). *)
From Rustun Require Import Agent.Rto Agent.Model Agent.Monitors Proofs.AgentMeets.
Theorem C06_model_meets_monitor : forall (cf:config) (m:mech) (mc:mcfg) (cc:ccfg) (ops:list op),
  consistent mc cf -> well_formed_history ops -> verdicts_true 6 (run_mon mc cc (init cf m) (mall0 cc) ops).
Proof. exact AgentMeets.model_meets_C06. Qed.
Print Assumptions C06_model_meets_monitor.
Theorem C06_every_step_judged : forall mc cc ops c s vs, In vs (run_mon mc cc c s ops) -> exists b cl, In (6%N, b, cl) vs.
Proof. intros mc cc ops c s vs H. apply (AgentMeets.run_mon_judged mc cc ops c s vs 6 H). cbn. tauto. Qed.

(* ---- the Rust text of RtoCalculator::next_rto and RtoManager::next_rto (timeout.rs), translated by tools/rs2v.py on every
   run (Generated/Code.v, the `while let` loop as a Fixpoint over explicit fuel, the debug-build arithmetic checks as
   explicit panics), IS the schedule model the theorems above are about: for every manager state and instant it returns
   the model's interval and the model's next state, never panics and never runs out of fuel — as long as the doubled
   interval fits a Duration (calc_safe; preserved by every call; true of every fresh request with RTO * 2^Rc below
   5.8e11 years).  This obligation is how defect D9 (u32 multiplier, Rc >= 32) was found. *)
From Rustun Require Import Base.GRes Generated.Code Proofs.CodeAgreeRto.
Theorem C06_code_is_model : forall m now, calc_safe (mcalc m) ->
  gen_RtoManager_next_rto (S (N.to_nat (c_rc (mcalc m)))) (conv_mgr m) now
  = GOk (fst (next_rto m now), conv_mgr (snd (next_rto m now))).
Proof. exact CodeAgreeRto.gen_next_rto_agrees. Qed.
Theorem C06_code_safe_preserved : forall m now, calc_safe (mcalc m) -> calc_safe (mcalc (snd (next_rto m now))).
Proof. exact CodeAgreeRto.calc_safe_preserved. Qed.
Theorem C06_code_new_is_model : forall rtt rm rc,
  gen_RtoManager_new rtt rm rc = conv_mgr {| latest := None; last_rto := 0; mcalc := {| c_rtt := rtt; c_rm := 1; c_rc := rc; c_last := rm |} |}.
Proof. exact CodeAgreeRto.gen_mgr_new_agrees. Qed.
Print Assumptions C06_code_is_model.
Print Assumptions C06_code_safe_preserved.
Print Assumptions C06_code_new_is_model.

(* ---- "with retransmission timeout RTO ... with the defaults this is 0, 500, 1500, ...": the timeout a request starts with is
   the CONFIGURED one while no response time has been measured — for a fresh client and again after more than 600 s without a
   request, whatever was learned before (the configured value is never changed by sends or samples). The implementation side
   is judged by Monitors.mon_C06_initial on every request of the agent suite (exact equality, and the armed timer as well). *)
From Rustun Require Import Agent.F32 Agent.RttExact Proofs.RttProofs.
Theorem C06_fresh_interval_is_configured : forall rto gran now, est_rto_for_send (est0 rto gran) now = rto.
Proof. exact RttProofs.fresh_interval_is_configured. Qed.
Theorem C06_stale_interval_is_configured : forall s now l,
  e_last s = Some l -> (600000000000 <? now - l)%N = true -> est_rto_for_send s now = rc_conf (e_calc s).
Proof. exact RttProofs.stale_interval_is_configured. Qed.
Theorem C06_configured_is_kept : forall s now c r,
  rc_conf (e_calc (est_send s now)) = rc_conf (e_calc s) /\ rc_conf (rtt_update c r) = rc_conf c.
Proof. intros s now c r. split; [apply RttProofs.configured_is_kept_send | apply RttProofs.configured_is_kept_update]. Qed.
Print Assumptions C06_fresh_interval_is_configured.
Print Assumptions C06_stale_interval_is_configured.
Print Assumptions C06_configured_is_kept.

(* ---- "a request first sent at t0 ..." / "over a reliable transport it is transmitted once": on the model an accepted
   request IS transmitted in that very call — the first conjunct of Monitors.mon_C06_initial, unconditionally, for every
   client state (Proofs/AgentMeets5.v); a refused one produces nothing and changes nothing *)
From Rustun Require Import Proofs.AgentMeets2 Proofs.AgentMeets3 Proofs.AgentMeets5.
Theorem C06_accepted_send_is_transmitted :
  forall (c:Model.client) (now:N) (id:Model.txid) (r method:N) (app:list Model.attr) (room:bool)
         (c':Model.client) (rep:Model.reply) (evs:list Model.event),
  Model.step c (Model.Send now id r method app room) = (c', rep, evs) ->
  AgentMeets.oret_of rep = Monitors.OOk ->
  exists (p:Model.msg) (rest:list Model.event), rep = Model.ROk (Some id) /\ evs = Model.Out id true p :: rest
    /\ Model.m_class p = Model.CRequest /\ Model.m_id p = id /\ Model.m_method p = method
    /\ (exists x, Model.lookup id (Model.T c') = Some x /\ Model.pkt x = p)
    /\ Monitors.first_out (AgentMeets.obs_of c c' (Model.Send now id r method app room) rep evs) = Some (Some p).
Proof. exact AgentMeets5.model_accepted_send_is_transmitted. Qed.
Print Assumptions C06_accepted_send_is_transmitted.
(* the whole clause mon_C06_initial, in exactly the form ocaml/driver.ml runs it on the implementation (on the C15 monitor
   state BEFORE the call), accepts every step of the model in every well-formed history — given that the history hands the
   request the configured RTO while that monitor state holds no estimate (the interval of a Send is an INPUT of the model's
   history: AgentMeets5.hands_configured; AgentMeets5.initial_needs_hypothesis shows the hypothesis cannot be dropped).
   On reliable transport there is no hypothesis (AgentMeets5.model_meets_C06_initial_reliable) *)
Theorem C06_model_meets_initial_monitor :
  forall (cf:Model.config) (m:Model.mech) (mc:Monitors.mcfg) (cc:Monitors.ccfg) (ops:list Model.op),
  AgentMeets.consistent mc cf -> AgentMeets2.consistent_cc cc cf m -> AgentMeets.well_formed_history ops ->
  forall (a:list Model.op) (o:Model.op) (b:list Model.op), ops = a ++ o :: b ->
    let c := fst (AgentMeets3.run_state mc cc (Model.init cf m) (Monitors.mall0 cc) a) in
    let s := snd (AgentMeets3.run_state mc cc (Model.init cf m) (Monitors.mall0 cc) a) in
    (Monitors.cc_reliable cc = false -> AgentMeets5.hands_configured cc (Monitors.ma_rtt s) o) ->
    let '(c', rep, evs) := Model.step c o in
    Monitors.mon_C06_initial mc cc (Monitors.ma_rtt s) (AgentMeets.mop_of o rep) (AgentMeets.obs_of c c' o rep evs) = true.
Proof. exact AgentMeets5.model_meets_C06_initial. Qed.
Print Assumptions C06_model_meets_initial_monitor.
(* the hypothesis of C06_model_meets_initial_monitor discharged for the histories ocaml/driver.ml actually runs: the interval
   of every request on unreliable transport is the one the exact estimator model (Agent/RttExact.v: est0, est_step,
   est_rto_for_send) computes, threaded along the run exactly as the driver threads it (AgentMeets6.est_driven). Along every
   such well-formed history the clause mon_C06_initial accepts every step of the model, with no further hypothesis: while
   the C15 monitor holds no estimate the estimator model hands the configured RTO (Proofs/AgentMeets6.v: whenever the
   estimator takes a sample the monitor takes one too or stops judging, and both go stale under the same rule) *)
From Rustun Require Import Agent.RttExact Proofs.AgentMeets6.
Theorem C06_est_driven_hands_configured :
  forall (cf:Model.config) (m:Model.mech) (mc:Monitors.mcfg) (cc:Monitors.ccfg) (ops:list Model.op),
  AgentMeets.consistent mc cf -> AgentMeets2.consistent_cc cc cf m -> AgentMeets.well_formed_history ops ->
  Monitors.cc_reliable cc = false ->
  AgentMeets6.est_driven (Model.init cf m) (RttExact.est0 (Monitors.cc_rto cc) (Monitors.cc_gran cc)) ops ->
  AgentMeets5.history_hands_configured mc cc (Model.init cf m) (Monitors.mall0 cc) ops.
Proof. exact AgentMeets6.est_driven_hands_configured. Qed.
Print Assumptions C06_est_driven_hands_configured.
Theorem C06_est_driven_model_meets_initial_monitor :
  forall (cf:Model.config) (m:Model.mech) (mc:Monitors.mcfg) (cc:Monitors.ccfg) (ops:list Model.op),
  AgentMeets.consistent mc cf -> AgentMeets2.consistent_cc cc cf m -> AgentMeets.well_formed_history ops ->
  AgentMeets6.est_driven (Model.init cf m) (RttExact.est0 (Monitors.cc_rto cc) (Monitors.cc_gran cc)) ops ->
  forall (a:list Model.op) (o:Model.op) (b:list Model.op), ops = a ++ o :: b ->
    let c := fst (AgentMeets3.run_state mc cc (Model.init cf m) (Monitors.mall0 cc) a) in
    let s := snd (AgentMeets3.run_state mc cc (Model.init cf m) (Monitors.mall0 cc) a) in
    let '(c', rep, evs) := Model.step c o in
    Monitors.mon_C06_initial mc cc (Monitors.ma_rtt s) (AgentMeets.mop_of o rep) (AgentMeets.obs_of c c' o rep evs) = true.
Proof. exact AgentMeets6.model_meets_C06_initial_est_driven_step. Qed.
Print Assumptions C06_est_driven_model_meets_initial_monitor.
Theorem C06_est_driven_model_meets_initial_monitor_run :
  forall (cf:Model.config) (m:Model.mech) (mc:Monitors.mcfg) (cc:Monitors.ccfg) (ops:list Model.op),
  AgentMeets.consistent mc cf -> AgentMeets2.consistent_cc cc cf m -> AgentMeets.well_formed_history ops ->
  AgentMeets6.est_driven (Model.init cf m) (RttExact.est0 (Monitors.cc_rto cc) (Monitors.cc_gran cc)) ops ->
  AgentMeets5.initial_true (AgentMeets5.run_mon_initial mc cc (Model.init cf m) (Monitors.mall0 cc) ops).
Proof. exact AgentMeets6.model_meets_C06_initial_est_driven. Qed.
Print Assumptions C06_est_driven_model_meets_initial_monitor_run.
