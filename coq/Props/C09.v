(* C09 — Decoding allows attributes after integrity / FINGERPRINT only per the RFC rule.
   This file holds statements only; proofs live in the files it imports. *)
From Coq Require Import List NArith Bool.
Import ListNotations.
From Rustun Require Import Codec.Filter Codec.DecodeLoop Codec.FilterCase Proofs.FilterCaseProofs.

(* the filter of context.rs equals the admission rule of the property text, for wire sequences of every length *)
Theorem C09_filter_eq_spec : forall ks, run ignore_attribute f0 ks = allow s0 ks.
Proof. exact Filter.C09_from_start. Qed.
Check C09_filter_eq_spec : forall ks, run ignore_attribute f0 ks = allow s0 ks.
Print Assumptions C09_filter_eq_spec.

(* the decode loop keeps exactly the allowed sub-list of the wire attributes, whatever the typed decoders do *)
Theorem C09_decode_attrs :
  forall (attr tlv : Type) (kind_of : tlv -> kind) (dec_value : bool -> tlv -> option attr) (verify : attr -> bool)
         (l : list tlv) (o : opts) (all : list attr),
  o_validate o = false ->
  loop attr tlv kind_of dec_value verify (with_not_ignore o true) f0 l = Some all ->
  loop attr tlv kind_of dec_value verify (with_not_ignore o false) f0 l
  = Some (keep attr (allow s0 (map kind_of l)) all).
Proof. exact DecodeLoop.C09_decode_attrs. Qed.
Print Assumptions C09_decode_attrs.

(* attributes that are not allowed are neither returned nor validated: for every wire sequence, every assignment of
   correct / incorrect MAC and CRC values and every decoder option set, the loop's result is the one the property
   text prescribes (monitor_C09 is the property text as a boolean function of the observed result) *)
Theorem C09_model_meets_property : forall ctx l, monitor_C09 ctx l (filter_case ctx l) = true.
Proof. exact FilterCaseProofs.model_meets_C09. Qed.
Check C09_model_meets_property : forall ctx l, monitor_C09 ctx l (filter_case ctx l) = true.
Print Assumptions C09_model_meets_property.

(* appending anything after an allowed FINGERPRINT never changes what is decoded nor makes validation fail *)
Theorem C09_append_after_fp : forall ctx l ext,
  (match ctx with Some o => o_not_ignore o | None => false end) = false ->
  existsb is_fp (map fst l) = true ->
  filter_case ctx (l ++ ext) = filter_case ctx l.
Proof. exact FilterCaseProofs.append_after_fp. Qed.
Print Assumptions C09_append_after_fp.

(* non-vacuity and the defect of the pinned commit (D1): the unrepaired filter allows a second FINGERPRINT *)
Example C09_example : filter_case None [(Ord,true);(MI,true);(Ord,true);(SHA,true);(MI,false);(FP,true);(FP,false);(Ord,true)]
                      = Some [0;1;3;5]%N.
Proof. vm_compute. reflexivity. Qed.
Example C09_fpfp_refuted : run ignore_attribute_unrepaired f0 [FP; FP] <> allow s0 [FP; FP].
Proof. vm_compute. discriminate. Qed.

(* ---- the Rust text of ignore_attribute (context.rs), translated by tools/rs2v.py on every run (Generated/Code.v), IS the
   filter model for every filter state and every attribute type code, and so, run from the decoder's initial state over
   the type codes of any message, admits exactly what the ordering rule of the property text admits *)
From Rustun Require Import Base.GRes Generated.Code Codec.Wire Proofs.CodeAgreeFilter.
Theorem C09_code_is_model : forall f ty,
  gen_ignore_attribute (conv_filter f) ty
  = GOk (fst (ignore_attribute f (kind_of_type ty)), conv_filter (snd (ignore_attribute f (kind_of_type ty)))).
Proof. exact CodeAgreeFilter.gen_ignore_attribute_agrees. Qed.
Theorem C09_code_is_rfc_rule : forall tys,
  gen_run {| AttributeFilter_message_integrity := false; AttributeFilter_message_integrity_sha256 := false; AttributeFilter_fingerprint := false |} tys
  = allow {| s_mi := false; s_sha := false; s_fp := false |} (map kind_of_type tys).
Proof. exact CodeAgreeFilter.code_filter_is_rfc_rule. Qed.
Print Assumptions C09_code_is_model.
Print Assumptions C09_code_is_rfc_rule.
